#!/bin/bash
# regen_evidence.sh: every quick check on /repo itself, in turn (rewrites /verif/evidence/<ID>.json)
cd "$(dirname "$0")"
for id in C01 C02 C03 C04 C05 C07 C08 C09 C10 C11 C12 C13 C14 C15 C16 C17 C18 C20; do
  out=$(./check $id ${1:-quick} 2>&1); code=$?
  echo "$id exit=$code $(echo "$out" | grep '^done')"
  [ $code -ne 0 ] && echo "$out" | grep "VIOLATION\|violation signature\|HARNESS" | cut -c1-400
done
