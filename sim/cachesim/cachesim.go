// Package cachesim: a tree of simulated deposit histories sharing PubkeyCache
// handles (real code), against a per-handle list model. Serves C16.
package cachesim

import (
	"encoding/binary"
	"encoding/json"
	"fmt"
	"runtime/debug"
	"strings"

	"github.com/protolambda/zrnt/eth2/beacon/common"

	"verif/sim/core"
)

type Op struct {
	K string `json:"k"` // fork deposit addknown addbeyond addraw
	C int    `json:"c"` // chain
	P int    `json:"p,omitempty"` // pubkey label
	I int    `json:"i,omitempty"` // index (addraw/addknown/addbeyond)
}

type Config struct {
	Prefix int `json:"prefix"` // validators in the shared genesis registry
}

func pub(l int) (p common.BLSPubkey) {
	binary.BigEndian.PutUint64(p[0:8], uint64(l)*0x9e3779b97f4a7c15+1)
	binary.BigEndian.PutUint64(p[40:48], uint64(l))
	p[8] = 0xa5
	return
}

// Generate is model-only (never looks at the implementation's answers).
func Generate(seed uint64, opt core.Options) (*Config, []Op) {
	rng := core.NewRng(seed)
	cfg := &Config{Prefix: rng.Range(0, 6)}
	type chain struct{ reg []int }
	chains := []*chain{{}}
	for i := 0; i < cfg.Prefix; i++ {
		chains[0].reg = append(chains[0].reg, i+1)
	}
	nextP := 1000
	// a pool of depositors whose deposits are included by several forks in different orders
	var pending []int
	n := rng.Range(3, 40)
	if opt.Tier == "thorough" {
		n = rng.Range(3, 120)
	}
	var ops []Op
	has := func(c *chain, p int) bool {
		for _, x := range c.reg {
			if x == p {
				return true
			}
		}
		return false
	}
	for len(ops) < n {
		c := rng.Intn(len(chains))
		ch := chains[c]
		switch rng.Pick([]int{20, 60, 6, 6, 6}) {
		case 4:
			// a pubkey this history already holds at a lower index, offered again at or beyond the next index
			if len(ch.reg) > 0 {
				ops = append(ops, Op{K: "addlower", C: c, I: rng.Intn(3), P: rng.Intn(len(ch.reg))})
			}
		case 0:
			if len(chains) < 8 {
				ops = append(ops, Op{K: "fork", C: c})
				chains = append(chains, &chain{reg: append([]int(nil), ch.reg...)})
			}
		case 1:
			// a deposit: mostly from the shared pending pool (so forks include the same
			// depositors in different orders), sometimes a brand-new depositor
			p := 0
			if len(pending) > 0 && rng.Chance(3, 4) {
				p = pending[rng.Intn(len(pending))]
				if has(ch, p) {
					p = 0
				}
			}
			if p == 0 {
				nextP++
				p = nextP
				pending = append(pending, p)
			}
			ops = append(ops, Op{K: "deposit", C: c, P: p})
			ch.reg = append(ch.reg, p)
		case 2:
			if len(ch.reg) > 0 {
				i := rng.Intn(len(ch.reg))
				ops = append(ops, Op{K: "addknown", C: c, I: i})
			}
		case 3:
			nextP++
			ops = append(ops, Op{K: "addbeyond", C: c, P: nextP, I: 1 + rng.Intn(3)})
		}
	}
	return cfg, ops
}

type exec struct {
	res    *core.Result
	model  map[*common.PubkeyCache][]int // per handle: the history it was built along
	order  []*common.PubkeyCache
	chains []*simChain
	step   int
	log    core.LogHasher
}

type simChain struct {
	reg []int
	h   *common.PubkeyCache
}

func (x *exec) viol(sig, detail string) { x.res.Violate("C16", "C16/"+sig, detail, x.step) }

func indexOf(l []int, p int) int {
	for i, v := range l {
		if v == p {
			return i
		}
	}
	return -1
}

// audit: every live handle answers exactly along its own history.
func (x *exec) audit(labels []int) bool {
	for hi, h := range x.order {
		L := x.model[h]
		for i := 0; i < len(L)+2; i++ {
			var cp *common.CachedPubkey
			var ok bool
			cp, ok = h.Pubkey(common.ValidatorIndex(i))
			if i < len(L) {
				if !ok || cp == nil || cp.Compressed != pub(L[i]) {
					x.viol("Pubkey/wrong-entry", fmt.Sprintf("handle %d index %d: expected pubkey %d, got ok=%v", hi, i, L[i], ok))
					return false
				}
			} else if ok {
				x.viol("Pubkey/entry-of-sibling-history", fmt.Sprintf("handle %d (history length %d) reports a pubkey at index %d", hi, len(L), i))
				return false
			}
		}
		for _, p := range labels {
			idx, ok := h.ValidatorIndex(pub(p))
			want := indexOf(L, p)
			if want >= 0 {
				if !ok || int(idx) != want {
					x.viol("ValidatorIndex/wrong-entry", fmt.Sprintf("handle %d pubkey %d: expected index %d, got (%d,%v)", hi, p, want, idx, ok))
					return false
				}
			} else if ok {
				x.viol("ValidatorIndex/entry-of-sibling-history", fmt.Sprintf("handle %d (history %v) reports pubkey %d at index %d although it is not on this history", hi, L, p, idx))
				return false
			}
		}
	}
	// chain level (what ProcessDeposit relies on): lookups below the registry length agree with the registry
	for ci, c := range x.chains {
		L := x.model[c.h]
		if len(L) < len(c.reg) {
			x.viol("chain/handle-shorter-than-registry", fmt.Sprintf("chain %d registry %d entries, handle history %d", ci, len(c.reg), len(L)))
			return false
		}
		for i, p := range c.reg {
			if L[i] != p {
				x.viol("chain/handle-not-along-registry", fmt.Sprintf("chain %d registry[%d]=%d but handle history has %d", ci, i, p, L[i]))
				return false
			}
		}
	}
	return true
}

func (x *exec) add(c *simChain, i int, p int) (err error) {
	h := c.h
	L := x.model[h]
	nh, err := h.AddValidator(common.ValidatorIndex(i), pub(p))
	x.log.Add(fmt.Sprintf("add %d %d err=%v same=%v", i, p, err != nil, nh == h))
	switch {
	case i > len(L):
		if err == nil {
			x.viol("AddValidator/beyond-next-accepted", fmt.Sprintf("index %d on a history of length %d accepted", i, len(L)))
		}
		return fmt.Errorf("beyond")
	case i < len(L) && L[i] == p:
		if err != nil || nh != h {
			x.viol("AddValidator/known-pair-not-noop", fmt.Sprintf("known pair (%d,%d): err=%v same-handle=%v", i, p, err, nh == h))
			return fmt.Errorf("stop")
		}
	case i == len(L) && indexOf(L, p) < 0:
		if err != nil || nh != h {
			x.viol("AddValidator/append-failed", fmt.Sprintf("next pair (%d,%d) on history of length %d: err=%v same-handle=%v", i, p, len(L), err, nh == h))
			return fmt.Errorf("stop")
		}
		x.model[h] = append(append([]int(nil), L...), p)
	default:
		// conflicting pair: a new handle along L[:i]+[p]; the old handle undisturbed
		if err != nil || nh == nil || nh == h {
			x.viol("AddValidator/conflict-not-forked", fmt.Sprintf("conflicting pair (%d,%d) on history %v: err=%v new-handle=%v", i, p, L, err, nh != h))
			return fmt.Errorf("stop")
		}
		if _, seen := x.model[nh]; seen {
			x.viol("AddValidator/conflict-returned-existing-handle", fmt.Sprintf("pair (%d,%d)", i, p))
			return fmt.Errorf("stop")
		}
		x.model[nh] = append(append([]int(nil), L[:i]...), p)
		x.order = append(x.order, nh)
		x.res.Stat("handle_forks", 1)
		c.h = nh
	}
	return nil
}

func Execute(cfg *Config, ops []Op, opt core.Options) *core.Result {
	res := &core.Result{Engine: "cachesim"}
	cj, _ := json.Marshal(cfg)
	sj, _ := json.Marshal(ops)
	res.Config, res.Script = cj, sj
	debug.SetMaxStack(2 << 20)
	x := &exec{res: res, model: map[*common.PubkeyCache][]int{}}
	h := common.EmptyPubkeyCache()
	x.model[h] = nil
	x.order = append(x.order, h)
	c0 := &simChain{h: h}
	x.chains = append(x.chains, c0)
	labels := []int{}
	for i := 0; i < cfg.Prefix; i++ {
		x.add(c0, i, i+1)
		c0.reg = append(c0.reg, i+1)
		labels = append(labels, i+1)
	}
	seen := map[int]bool{}
	for _, l := range labels {
		seen[l] = true
	}
	for i, op := range ops {
		x.step = i
		res.Stat("events", 1)
		if op.C >= len(x.chains) {
			res.Stat("skipped_out_of_domain", 1)
			continue
		}
		c := x.chains[op.C]
		stop := false
		switch op.K {
		case "fork":
			x.chains = append(x.chains, &simChain{reg: append([]int(nil), c.reg...), h: c.h})
			x.log.Add("fork")
		case "deposit":
			if indexOf(c.reg, op.P) >= 0 {
				res.Stat("skipped_out_of_domain", 1)
				continue
			}
			if !seen[op.P] {
				seen[op.P] = true
				labels = append(labels, op.P)
			}
			if L := x.model[c.h]; len(c.reg) < len(L) {
				res.Stat("deposit_below_handle_length", 1) // the interesting case: a sibling got ahead
				if L[len(c.reg)] != op.P {
					res.Nontrivial = true
				}
			}
			if err := x.add(c, len(c.reg), op.P); err != nil {
				stop = true
			} else {
				c.reg = append(c.reg, op.P)
			}
		case "addknown":
			if op.I >= len(c.reg) {
				res.Stat("skipped_out_of_domain", 1)
				continue
			}
			if err := x.add(c, op.I, c.reg[op.I]); err != nil {
				stop = true
			}
		case "addlower":
			if op.P >= len(c.reg) {
				res.Stat("skipped_out_of_domain", 1)
				continue
			}
			{
				h := c.h
				L := x.model[h]
				idx := len(L) + op.I
				p := c.reg[op.P]
				nh, err := h.AddValidator(common.ValidatorIndex(idx), pub(p))
				res.Stat("adds_of_known_lower_key", 1)
				if op.I > 0 && err == nil {
					x.viol("AddValidator/beyond-next-accepted", fmt.Sprintf("index %d (next is %d) with a pubkey known at a lower index accepted", idx, len(L)))
					stop = true
				} else if err == nil {
					// success must mean: the returned handle now maps the index to the pubkey
					cp, ok := nh.Pubkey(common.ValidatorIndex(idx))
					if !ok || cp.Compressed != pub(p) {
						x.viol("AddValidator/success-without-entry", fmt.Sprintf("AddValidator(%d, pubkey %d known at index %d) reported success, but the returned handle has no such entry", idx, p, indexOf(L, p)))
						stop = true
					} else if nh == h {
						x.viol("AddValidator/duplicate-key-appended-in-place", fmt.Sprintf("pubkey %d now sits at two indices of one handle", p))
						stop = true
					}
				}
			}
		case "addbeyond":
			if !seen[op.P] {
				seen[op.P] = true
				labels = append(labels, op.P)
			}
			x.add(c, len(x.model[c.h])+op.I, op.P)
		}
		if stop || len(res.Violations) > 0 {
			break
		}
		if !x.audit(labels) {
			break
		}
		// distinct measure: the forest of handle histories
		hh := uint64(1469598103934665603)
		for _, h := range x.order {
			for _, p := range x.model[h] {
				hh = (hh ^ uint64(p)) * 1099511628211
			}
			hh = (hh ^ 0xff) * 1099511628211
		}
		res.States = append(res.States, hh)
	}
	k := len(ops)
	if k > 14 {
		k = 14
	}
	res.Sample, _ = json.Marshal(map[string]interface{}{"config": cfg, "first_ops": ops[:k], "total_ops": len(ops), "handles": len(x.order)})
	res.LogHash = x.log.Sum()
	return res
}

type Engine struct{}

func init() { core.Register(Engine{}) }

func (Engine) Name() string { return "cachesim" }
func (Engine) Run(seed uint64, opt core.Options) *core.Result {
	cfg, ops := Generate(seed, opt)
	r := Execute(cfg, ops, opt)
	r.Seed = seed
	return r
}
func (e Engine) Replay(rf *core.ReplayFile, opt core.Options) *core.Result {
	if rf.Script == nil {
		return e.Run(rf.Seed, opt)
	}
	var cfg Config
	var ops []Op
	if json.Unmarshal(rf.Config, &cfg) != nil || json.Unmarshal(rf.Script, &ops) != nil {
		return &core.Result{Engine: "cachesim", Harness: "bad replay file"}
	}
	r := Execute(&cfg, ops, opt)
	r.Seed = rf.Seed
	return r
}
func (Engine) Generate(seed uint64, opt core.Options) *core.ReplayFile {
	cfg, ops := Generate(seed, opt)
	cj, _ := json.Marshal(cfg)
	sj, _ := json.Marshal(ops)
	return &core.ReplayFile{Engine: "cachesim", Seed: seed, Config: cj, Script: sj}
}
func (Engine) Units(rf *core.ReplayFile) int {
	var ops []json.RawMessage
	json.Unmarshal(rf.Script, &ops)
	return len(ops)
}
func (Engine) Subset(rf *core.ReplayFile, keep []bool) *core.ReplayFile {
	var ops []json.RawMessage
	json.Unmarshal(rf.Script, &ops)
	out := []json.RawMessage{}
	for i, o := range ops {
		if i < len(keep) && keep[i] {
			out = append(out, o)
		}
	}
	sj, _ := json.Marshal(out)
	c := *rf
	c.Script = sj
	return &c
}
func (Engine) CrashViolation(stderr string, opt core.Options) (core.Violation, bool) {
	if strings.Contains(stderr, "stack overflow") || strings.Contains(stderr, "goroutine stack exceeds") {
		fn := "?"
		for _, name := range []string{"AddValidator", "ValidatorIndex", "Pubkey"} {
			if strings.Contains(stderr, "PubkeyCache)."+name+"(") {
				fn = name
				break
			}
		}
		return core.Violation{Property: "C16", Signature: "C16/does-not-terminate/" + fn,
			Detail: "unbounded recursion (fatal stack overflow under a 2 MiB stack limit): the call never terminates"}, true
	}
	if strings.Contains(stderr, "all goroutines are asleep") {
		return core.Violation{Property: "C16", Signature: "C16/blocks-forever", Detail: "self-deadlock on the cache lock"}, true
	}
	return core.Violation{}, false
}
func (Engine) Describe() core.EngineInfo {
	return core.EngineInfo{
		Real:  []string{"common.PubkeyCache (AddValidator, Pubkey, ValidatorIndex)"},
		Stubs: []string{"chains and their registries (lists of pubkey labels)", "depositors / deposit inclusion order"},
		Rule:  "distinct = hash of the forest of per-handle histories after each step; non-trivial run = some deposit landed below the shared handle's length with a different pubkey (a sibling fork included other deposits first)",
	}
}
