package schedsim

import (
	"bufio"
	"context"
	"encoding/json"
	"fmt"
	"os"
	"regexp"
	"runtime"
	"sort"
	"strings"
	"sync"
	"time"

	"github.com/anishathalye/porcupine"
	blsu "github.com/protolambda/bls12-381-util"
	"github.com/protolambda/zrnt/eth2/beacon/altair"
	"github.com/protolambda/zrnt/eth2/beacon/common"
	"github.com/protolambda/zrnt/eth2/beacon/phase0"
	"github.com/protolambda/zrnt/eth2/configs"
	"github.com/protolambda/zrnt/eth2/forkchoice"
	"github.com/protolambda/zrnt/eth2/forkchoice/proto"
	"github.com/protolambda/zrnt/eth2/pool"
	"github.com/protolambda/zrnt/eth2/util/verifsync"
	"github.com/protolambda/ztyp/tree"

	"verif/sim/core"
	"verif/sim/fcsim"
)

// Op is one call on the shared instance. A: small integer arguments.
type Op struct {
	K string `json:"k"`
	A []int  `json:"a,omitempty"`
}

type Script struct {
	Comp      string `json:"comp"` // fc cache attpool syncpool misc
	Prefix    []Op   `json:"prefix"`
	Tasks     [][]Op `json:"tasks"`
	SchedSeed uint64 `json:"sched_seed"`
	Stick     uint64 `json:"stick"`
}

// ---------- components ----------

type instance interface {
	apply(op Op) string // executes the call, returns its observable result as text
}

var spec4 = func() *common.Spec { s := *configs.Minimal; s.SLOTS_PER_EPOCH = 4; return &s }()

// --- fork choice ---
type fcInst struct{ fc forkchoice.Forkchoice }

func cr(l int) common.Root { return common.Root(fcsim.RootOf(fcsim.Label(l))) }

func labelOf(r common.Root) int {
	return int(uint64(r[24])<<56 | uint64(r[25])<<48 | uint64(r[26])<<40 | uint64(r[27])<<32 | uint64(r[28])<<24 | uint64(r[29])<<16 | uint64(r[30])<<8 | uint64(r[31]))
}

func newFC() instance {
	cp := forkchoice.Checkpoint{Root: cr(1), Epoch: 0}
	bals := []forkchoice.Gwei{1000, 1000, 2000, 3000, 1000, 2000}
	fc, err := proto.NewProtoForkChoice(spec4, cp, cp, cr(1), 0, cr(999999), bals,
		proto.NodeSinkFn(func(ctx context.Context, ref forkchoice.NodeRef, canonical bool) error { return nil }))
	if err != nil {
		panic(err)
	}
	return &fcInst{fc}
}

func (f *fcInst) apply(op Op) string {
	a := op.A
	switch op.K {
	case "block": // parent root slot je fe
		return fmt.Sprint(f.fc.ProcessBlock(cr(a[0]), cr(a[1]), common.Slot(a[2]), common.Epoch(a[3]), common.Epoch(a[4])))
	case "slot":
		f.fc.ProcessSlot(cr(a[0]), common.Slot(a[1]), common.Epoch(a[2]), common.Epoch(a[3]))
		return ""
	case "att":
		return fmt.Sprint(f.fc.ProcessAttestation(common.ValidatorIndex(a[0]), cr(a[1]), common.Slot(a[2])))
	case "head":
		h, err := f.fc.Head()
		return fmt.Sprintf("%d@%d %v", labelOf(h.Root), h.Slot, err != nil)
	case "findhead":
		h, err := f.fc.FindHead(cr(a[0]), common.Slot(a[1]))
		return fmt.Sprintf("%d@%d %v", labelOf(h.Root), h.Slot, err != nil)
	case "getslot":
		s, ok := f.fc.GetSlot(cr(a[0]))
		return fmt.Sprint(s, ok)
	case "insubtree":
		u, in := f.fc.InSubtree(cr(a[0]), cr(a[1]))
		return fmt.Sprint(u, in)
	case "justified":
		j, fi := f.fc.Justified(), f.fc.Finalized()
		return fmt.Sprintf("%d/%d %d/%d", labelOf(j.Root), j.Epoch, labelOf(fi.Root), fi.Epoch)
	case "pin":
		p := f.fc.Pin()
		if p == nil {
			return "nil"
		}
		return fmt.Sprintf("%d@%d", labelOf(p.Root), p.Slot)
	case "setpin":
		return fmt.Sprint(f.fc.SetPin(cr(a[0]), common.Slot(a[1])) != nil)
	case "chain":
		c, err := f.fc.CanonicalChain(cr(a[0]), common.Slot(a[1]))
		var sb strings.Builder
		for _, n := range c {
			fmt.Fprintf(&sb, "%d@%d ", labelOf(n.Root), n.Slot)
		}
		return fmt.Sprint(sb.String(), err != nil)
	case "closest":
		n, err := f.fc.ClosestToSlot(cr(a[0]), common.Slot(a[1]))
		return fmt.Sprintf("%d@%d %v", labelOf(n.Root), n.Slot, err != nil)
	case "canonat":
		n, err := f.fc.CanonAtSlot(cr(a[0]), common.Slot(a[1]), a[2] == 1)
		return fmt.Sprintf("%d@%d %v", labelOf(n.Root), n.Slot, err != nil)
	case "search":
		pr := cr(a[2])
		non, can, err := f.fc.Search(common.NodeRef{Root: cr(a[0]), Slot: common.Slot(a[1])}, &pr, nil)
		var xs []string
		for _, n := range non {
			xs = append(xs, fmt.Sprintf("n%d@%d", labelOf(n.Root), n.Slot))
		}
		for _, n := range can {
			xs = append(xs, fmt.Sprintf("c%d@%d", labelOf(n.Root), n.Slot))
		}
		sort.Strings(xs)
		return fmt.Sprint(xs, err != nil)
	case "update": // trigger jroot jepoch froot fepoch
		err := f.fc.UpdateJustified(context.Background(), cr(a[0]), forkchoice.Checkpoint{Root: cr(a[1]), Epoch: common.Epoch(a[2])},
			forkchoice.Checkpoint{Root: cr(a[3]), Epoch: common.Epoch(a[4])},
			func() ([]forkchoice.Gwei, error) { return []forkchoice.Gwei{2000, 1000, 1000, 3000, 0, 2000}, nil })
		return fmt.Sprint(err != nil)
	}
	return "?"
}

// --- pubkey cache ---
var blsKeys = func() []common.BLSPubkey {
	out := make([]common.BLSPubkey, 24)
	for i := range out {
		var b [32]byte
		b[31] = byte(i + 1)
		b[30] = 0x11
		var sk blsu.SecretKey
		if err := sk.Deserialize(&b); err != nil {
			panic(err)
		}
		pk, err := blsu.SkToPk(&sk)
		if err != nil {
			panic(err)
		}
		out[i] = pk.Serialize()
	}
	// two entries that are not keys at all (the cache takes any 48 bytes and decompresses lazily):
	// bytes that are no compressed point, and a key with its last byte changed
	for j := range out[3] {
		out[3][j] = 0xff
	}
	out[9][47] ^= 0x01
	return out
}()

type cacheInst struct {
	h *common.PubkeyCache
}

func newCache() instance { return &cacheInst{common.EmptyPubkeyCache()} }

func keyLabel(p common.BLSPubkey) int {
	for i, k := range blsKeys {
		if k == p {
			return i
		}
	}
	return -1
}

func (c *cacheInst) apply(op Op) string {
	a := op.A
	switch op.K {
	case "add": // index key
		nh, err := c.h.AddValidator(common.ValidatorIndex(a[0]), blsKeys[a[1]])
		switch {
		case err != nil:
			return "err"
		case nh == c.h:
			return "same"
		default:
			// the forked handle must answer along its own history
			p, ok := nh.Pubkey(common.ValidatorIndex(a[0]))
			if !ok || p.Compressed != blsKeys[a[1]] {
				return "new-broken"
			}
			return "new"
		}
	case "pubkey": // index, decompress?
		p, ok := c.h.Pubkey(common.ValidatorIndex(a[0]))
		if !ok {
			return "none"
		}
		if a[1] == 1 {
			d, err := p.Pubkey()
			if err != nil || d == nil {
				return fmt.Sprintf("k%d decompress-failed", keyLabel(p.Compressed))
			}
			if d.Serialize() != [48]byte(p.Compressed) {
				return fmt.Sprintf("k%d decompressed-to-other-key", keyLabel(p.Compressed))
			}
		}
		return fmt.Sprintf("k%d", keyLabel(p.Compressed))
	case "vindex":
		i, ok := c.h.ValidatorIndex(blsKeys[a[0]])
		if !ok {
			return "none"
		}
		return fmt.Sprint(i)
	}
	return "?"
}

// --- pools ---
type poolInst struct {
	ap  *pool.AttestationPool
	sp  *pool.SyncCommitteePool
	asp *pool.AttesterSlashingPool
	psp *pool.ProposerSlashingPool
	vep *pool.VoluntaryExitPool
}

func newPools() instance {
	s := configs.Minimal
	p := &poolInst{pool.NewAttestationPool(s), pool.NewSyncCommitteePool(s), pool.NewAttesterSlashingPool(s), pool.NewProposerSlashingPool(s), pool.NewVoluntaryExitPool(s)}
	p.sp.Reset(4)
	return p
}

func pRoot(l int) (r common.Root) { r[0] = byte(l); r[31] = byte(l >> 8); r[5] = 0x77; return }
func pSig(l int) (s common.BLSSignature) {
	s[0] = byte(l)
	s[1] = byte(l >> 8)
	s[95] = 0x42
	return
}

func committeeOf(slot, idx int) common.CommitteeIndices {
	out := make(common.CommitteeIndices, 6)
	for i := range out {
		out[i] = common.ValidatorIndex((slot%8)*32 + idx*8 + i)
	}
	return out
}

func mkAtt(a []int) (*phase0.Attestation, common.CommitteeIndices) {
	// slot idx root bitsmask sig
	slot, idx := a[0], a[1]
	comm := committeeOf(slot, idx)
	bits := make(phase0.AttestationBits, 1)
	bits[0] = byte(a[3]&0x3f) | 0x40
	e := slot / 8
	return &phase0.Attestation{AggregationBits: bits, Signature: pSig(a[4]), Data: phase0.AttestationData{
		Slot: common.Slot(slot), Index: common.CommitteeIndex(idx), BeaconBlockRoot: pRoot(a[2]),
		Source: common.Checkpoint{Epoch: 0, Root: pRoot(200)}, Target: common.Checkpoint{Epoch: common.Epoch(e), Root: pRoot(201 + e)}}}, comm
}

func (p *poolInst) apply(op Op) string {
	ctx := context.Background()
	a := op.A
	switch op.K {
	case "att":
		att, comm := mkAtt(a)
		return fmt.Sprint(p.ap.AddAttestation(ctx, att, comm) != nil)
	case "search":
		var opts []pool.AttSearchOption
		if a[0] >= 0 {
			opts = append(opts, pool.WithSlot(common.Slot(a[0])))
		}
		out := p.ap.Search(opts...)
		var xs []string
		for _, at := range out {
			xs = append(xs, fmt.Sprintf("%d/%d/%x/%x/%x", at.Data.Slot, at.Data.Index, at.Data.BeaconBlockRoot[0], []byte(at.AggregationBits), at.Signature[:2]))
		}
		sort.Strings(xs)
		return strings.Join(xs, ",")
	case "prune":
		p.ap.Prune(common.Epoch(a[0]))
		return ""
	case "syncmsg": // slot root validator sig
		return fmt.Sprint(p.sp.AddSyncCommitteeMessage(ctx, &altair.SyncCommitteeMessage{Slot: common.Slot(a[0]), BeaconBlockRoot: pRoot(a[1]), ValidatorIndex: common.ValidatorIndex(a[2]), Signature: pSig(a[3])}) != nil)
	case "contrib":
		bits := make(altair.SyncCommitteeSubnetBits, (int(configs.Minimal.SYNC_COMMITTEE_SIZE)/4+7)/8)
		bits[0] = byte(a[3])
		return fmt.Sprint(p.sp.AddSyncCommitteeContribution(ctx, &altair.SyncCommitteeContribution{Slot: common.Slot(a[0]), BeaconBlockRoot: pRoot(a[1]), SubcommitteeIndex: 0, AggregationBits: bits, Signature: pSig(a[2])}) != nil)
	case "reset":
		p.sp.Reset(common.Slot(a[0]))
		return ""
	case "syncview":
		v := p.sp.VerifView()
		return fmt.Sprintf("%d %d/%d/%d", v.CurrentSlot, v.NPrev, v.NCurrent, v.NNext)
	case "exit":
		return fmt.Sprint(p.vep.AddVoluntaryExit(ctx, &phase0.SignedVoluntaryExit{Message: phase0.VoluntaryExit{Epoch: common.Epoch(a[1]), ValidatorIndex: common.ValidatorIndex(a[0])}, Signature: pSig(a[0]*7 + a[1])}) != nil)
	case "exits":
		var xs []string
		for _, e := range p.vep.All() {
			xs = append(xs, fmt.Sprintf("%d/%d", e.Message.ValidatorIndex, e.Message.Epoch))
		}
		sort.Strings(xs)
		return strings.Join(xs, ",")
	case "pslash":
		h := func(l int) common.SignedBeaconBlockHeader {
			return common.SignedBeaconBlockHeader{Message: common.BeaconBlockHeader{Slot: 5, ProposerIndex: common.ValidatorIndex(a[0]), ParentRoot: pRoot(l)}, Signature: pSig(l)}
		}
		return fmt.Sprint(p.psp.AddProposerSlashing(ctx, &phase0.ProposerSlashing{SignedHeader1: h(a[1]), SignedHeader2: h(a[1] + 50)}) != nil)
	case "pslashes":
		var xs []string
		for _, e := range p.psp.All() {
			xs = append(xs, fmt.Sprintf("%d/%x", e.SignedHeader1.Message.ProposerIndex, e.SignedHeader1.Message.ParentRoot[0]))
		}
		sort.Strings(xs)
		return strings.Join(xs, ",")
	case "aslash":
		ia := func(l int) phase0.IndexedAttestation {
			return phase0.IndexedAttestation{AttestingIndices: common.CommitteeIndices{common.ValidatorIndex(a[0])}, Data: phase0.AttestationData{Slot: 3, BeaconBlockRoot: pRoot(l)}, Signature: pSig(l)}
		}
		return fmt.Sprint(p.asp.AddAttesterSlashing(ctx, &phase0.AttesterSlashing{Attestation1: ia(a[1]), Attestation2: ia(a[1] + 60)}) != nil)
	case "aslashes":
		var xs []string
		for _, e := range p.asp.All() {
			r := e.HashTreeRoot(configs.Minimal, tree.GetHashFn())
			xs = append(xs, fmt.Sprintf("%x", r[:4]))
		}
		sort.Strings(xs)
		return strings.Join(xs, ",")
	}
	return "?"
}

func newInstance(comp string) instance {
	switch comp {
	case "fc":
		return newFC()
	case "cache":
		return newCache()
	default:
		return newPools()
	}
}

// ---------- generation ----------

func Generate(seed uint64, opt core.Options) *Script {
	rng := core.NewRng(seed)
	sc := &Script{SchedSeed: rng.U64(), Stick: uint64(rng.Range(1, 6))}
	comps := []string{"fc", "cache", "attpool", "syncpool", "misc"}
	sc.Comp = comps[rng.Intn(len(comps))]
	if c := opt.Params["comp"]; c != "" {
		sc.Comp = c
	}
	nt := rng.Range(2, 4)
	per := rng.Range(2, 4)
	switch sc.Comp {
	case "fc":
		// prefix: a small tree
		type nd struct{ l, s int }
		nodes := []nd{{1, 0}}
		next := 2
		for i := 0; i < rng.Range(2, 6); i++ {
			p := nodes[rng.Intn(len(nodes))]
			s := p.s + 1 + rng.Intn(2)
			sc.Prefix = append(sc.Prefix, Op{"block", []int{p.l, next, s, 0, 0}})
			nodes = append(nodes, nd{next, s})
			next++
		}
		// now and then a late child of the anchor: the anchor root then has slot nodes in several
		// epochs, so that justified checkpoints (anchor, 1..3) exist and concurrent updates can differ
		rootMax := 0
		if rng.Chance(1, 2) {
			s := 9 + rng.Intn(5)
			sc.Prefix = append(sc.Prefix, Op{"block", []int{1, next, s, 0, 0}})
			nodes = append(nodes, nd{next, s})
			next++
		}
		for _, op := range sc.Prefix {
			if op.K == "block" && op.A[0] == 1 && op.A[2] > rootMax {
				rootMax = op.A[2]
			}
		}
		for i := 0; i < rng.Intn(4); i++ {
			n := nodes[rng.Intn(len(nodes))]
			sc.Prefix = append(sc.Prefix, Op{"att", []int{rng.Intn(6), n.l, n.s}})
		}
		for t := 0; t < nt; t++ {
			var ops []Op
			for i := 0; i < per; i++ {
				n := nodes[rng.Intn(len(nodes))]
				m := nodes[rng.Intn(len(nodes))]
				if rootMax >= 8 && rng.Chance(1, 4) {
					// updates that differ between tasks: justified (anchor, epoch 1..3), finalized (anchor, 0)
					e := 1 + rng.Intn(rootMax/4)
					ops = append(ops, Op{"update", []int{n.l, 1, e, 1, 0}})
					if rng.Bool() {
						ops = append(ops, Op{"justified", nil})
					}
					continue
				}
				switch rng.Pick([]int{5, 2, 6, 5, 2, 2, 2, 1, 1, 1, 2, 1, 1, 1, 2}) {
				case 0:
					s := n.s + 1 + rng.Intn(2)
					ops = append(ops, Op{"block", []int{n.l, next, s, 0, 0}})
					nodes = append(nodes, nd{next, s})
					next++
				case 1:
					ops = append(ops, Op{"slot", []int{n.l, n.s + 1 + rng.Intn(2), 0, 0}})
				case 2:
					ops = append(ops, Op{"att", []int{rng.Intn(6), n.l, n.s}})
				case 3:
					ops = append(ops, Op{"head", nil})
				case 4:
					ops = append(ops, Op{"getslot", []int{n.l}})
				case 5:
					ops = append(ops, Op{"insubtree", []int{n.l, m.l}})
				case 6:
					ops = append(ops, Op{"justified", nil})
				case 7:
					ops = append(ops, Op{"pin", nil})
				case 8:
					ops = append(ops, Op{"setpin", []int{n.l, n.s}})
				case 9:
					ops = append(ops, Op{"chain", []int{1, 0}})
				case 10:
					ops = append(ops, Op{"findhead", []int{n.l, n.s}})
				case 11:
					ops = append(ops, Op{"closest", []int{n.l, n.s + rng.Intn(3)}})
				case 12:
					ops = append(ops, Op{"canonat", []int{1, n.s, rng.Intn(2)}})
				case 13:
					ops = append(ops, Op{"search", []int{1, 0, n.l}})
				case 14:
					// justify/finalize epoch 1 on a block whose chain reaches slot >= 4
					if n.s >= 4 {
						ops = append(ops, Op{"update", []int{n.l, 1, 1, 1, 0}})
					} else {
						ops = append(ops, Op{"head", nil})
					}
				}
			}
			sc.Tasks = append(sc.Tasks, ops)
		}
	case "cache":
		base := rng.Range(0, 5)
		// key 2*i+v belongs to index i (variant v): the same pubkey is never offered at two indices
		for i := 0; i < base; i++ {
			sc.Prefix = append(sc.Prefix, Op{"add", []int{i, 2 * i}})
		}
		for t := 0; t < nt; t++ {
			var ops []Op
			for i := 0; i < per; i++ {
				switch rng.Pick([]int{5, 4, 3}) {
				case 0:
					// deposits racing for the next indices (the same or different keys)
					ix := base + rng.Intn(2)
					ops = append(ops, Op{"add", []int{ix, 2*ix + rng.Intn(2)}})
				case 1:
					ops = append(ops, Op{"pubkey", []int{rng.Intn(base + 2), rng.Intn(2)}})
				case 2:
					ops = append(ops, Op{"vindex", []int{rng.Intn(2*base + 4)}})
				}
			}
			sc.Tasks = append(sc.Tasks, ops)
		}
	case "attpool":
		sigN := 0
		mk := func() Op {
			sigN++
			mask := 1 << uint(rng.Intn(6))
			if rng.Bool() {
				mask = rng.Range(1, 63)
			}
			return Op{"att", []int{rng.Range(8, 10), rng.Intn(2), 1 + rng.Intn(2), mask, sigN}}
		}
		for i := 0; i < rng.Intn(4); i++ {
			sc.Prefix = append(sc.Prefix, mk())
		}
		for t := 0; t < nt; t++ {
			var ops []Op
			for i := 0; i < per; i++ {
				switch rng.Pick([]int{6, 4, 2}) {
				case 0:
					ops = append(ops, mk())
				case 1:
					s := -1
					if rng.Bool() {
						s = rng.Range(8, 10)
					}
					ops = append(ops, Op{"search", []int{s}})
				case 2:
					ops = append(ops, Op{"prune", []int{rng.Range(1, 3)}})
				}
			}
			sc.Tasks = append(sc.Tasks, ops)
		}
	case "syncpool":
		sigN := 0
		for t := 0; t < nt; t++ {
			var ops []Op
			for i := 0; i < per; i++ {
				sigN++
				switch rng.Pick([]int{5, 3, 3, 2}) {
				case 0:
					ops = append(ops, Op{"syncmsg", []int{rng.Range(3, 6), 1 + rng.Intn(2), rng.Intn(4), sigN}})
				case 1:
					ops = append(ops, Op{"contrib", []int{rng.Range(3, 6), 1, sigN, rng.Range(1, 255)}})
				case 2:
					ops = append(ops, Op{"reset", []int{rng.Range(4, 6)}})
				case 3:
					ops = append(ops, Op{"syncview", nil})
				}
			}
			sc.Tasks = append(sc.Tasks, ops)
		}
	case "misc":
		for t := 0; t < nt; t++ {
			var ops []Op
			for i := 0; i < per; i++ {
				switch rng.Pick([]int{3, 2, 3, 2, 3, 2}) {
				case 0:
					ops = append(ops, Op{"exit", []int{rng.Intn(3), rng.Intn(2)}})
				case 1:
					ops = append(ops, Op{"exits", nil})
				case 2:
					ops = append(ops, Op{"pslash", []int{rng.Intn(3), 1 + rng.Intn(2)}})
				case 3:
					ops = append(ops, Op{"pslashes", nil})
				case 4:
					ops = append(ops, Op{"aslash", []int{rng.Intn(3), 1 + rng.Intn(2)}})
				case 5:
					ops = append(ops, Op{"aslashes", nil})
				}
			}
			sc.Tasks = append(sc.Tasks, ops)
		}
	}
	return sc
}

// ---------- execution ----------

type histEntry struct {
	task      int
	idx       int
	call, ret int64
	out       string
	done      bool
}

func safeApply(inst instance, op Op) (out string) {
	defer func() {
		if r := recover(); r != nil {
			out = "PANIC: " + fmt.Sprint(r) + " @" + zrntFrame()
		}
	}()
	return inst.apply(op)
}

func zrntFrame() string {
	pcs := make([]uintptr, 40)
	n := runtime.Callers(3, pcs)
	frames := runtime.CallersFrames(pcs[:n])
	for {
		fr, more := frames.Next()
		if strings.Contains(fr.Function, "protolambda/zrnt/") && !strings.Contains(fr.Function, "verifsync") {
			f := fr.Function
			return f[strings.LastIndex(f, "/")+1:]
		}
		if !more {
			break
		}
	}
	return "?"
}

var raceLogOffset int64

// raceReports returns the new DATA RACE reports since the last call, each
// normalised to the sorted pair of first zrnt frames of the two accesses.
func raceReports() []string {
	lp := ""
	for _, kv := range strings.Fields(os.Getenv("GORACE")) {
		if strings.HasPrefix(kv, "log_path=") {
			lp = strings.TrimPrefix(kv, "log_path=")
		}
	}
	if lp == "" {
		return nil
	}
	f, err := os.Open(fmt.Sprintf("%s.%d", lp, os.Getpid()))
	if err != nil {
		return nil
	}
	defer f.Close()
	f.Seek(raceLogOffset, 0)
	var reports []string
	var cur []string
	sc := bufio.NewScanner(f)
	sc.Buffer(make([]byte, 1<<20), 1<<20)
	var n int64
	flush := func() {
		if len(cur) > 0 {
			reports = append(reports, normaliseRace(cur))
			cur = nil
		}
	}
	in := false
	for sc.Scan() {
		line := sc.Text()
		n += int64(len(line)) + 1
		if strings.HasPrefix(line, "WARNING: DATA RACE") {
			flush()
			in = true
			continue
		}
		if strings.HasPrefix(line, "==================") {
			flush()
			in = false
			continue
		}
		if in {
			cur = append(cur, line)
		}
	}
	flush()
	raceLogOffset += n
	return reports
}

var fnLine = regexp.MustCompile(`^\s+(github\.com/protolambda/zrnt/\S+)\(\)`)

func normaliseRace(lines []string) string {
	// sections start with "Read at"/"Write at"/"Previous read at"/"Previous write at"
	var sites []string
	want := false
	for _, l := range lines {
		t := strings.TrimSpace(l)
		if strings.HasPrefix(t, "Read at") || strings.HasPrefix(t, "Write at") || strings.HasPrefix(t, "Previous read at") || strings.HasPrefix(t, "Previous write at") {
			want = true
			continue
		}
		if strings.HasPrefix(t, "Goroutine") {
			want = false
		}
		if want {
			if m := fnLine.FindStringSubmatch(l); m != nil && !strings.Contains(m[1], "verifsync") {
				f := m[1]
				f = f[strings.LastIndex(f, "/")+1:]
				sites = append(sites, f)
				want = false
			}
		}
	}
	if len(sites) > 2 {
		sites = sites[:2]
	}
	sort.Strings(sites)
	if len(sites) == 0 {
		return "unattributed: " + strings.Join(lines, " | ")
	}
	return strings.Join(sites, "~")
}

func Execute(sc *Script, opt core.Options) *core.Result {
	res := &core.Result{Engine: "schedsim"}
	sj, _ := json.Marshal(sc)
	res.Script = sj
	nt := len(sc.Tasks)
	if nt == 0 || nt > maxTasks {
		return res
	}
	raceReports() // drop anything older than this run
	inst := newInstance(sc.Comp)
	for _, op := range sc.Prefix {
		if out := safeApply(inst, op); strings.HasPrefix(out, "PANIC") {
			res.Violate("C17", "C17/panic-sequential/"+op.K, out, 0)
			return res
		}
	}
	s, err := newSched(nt, sc.SchedSeed, sc.Stick)
	if err != nil {
		res.Harness = "pipe: " + err.Error()
		return res
	}
	hist := make([][]histEntry, nt)
	for t := range hist {
		hist[t] = make([]histEntry, len(sc.Tasks[t]))
	}
	var wg sync.WaitGroup
	verifsync.H = s
	for t := 0; t < nt; t++ {
		wg.Add(1)
		go func(t int) {
			s.start(t)
			for i, op := range sc.Tasks[t] {
				s.Yield()
				h := &hist[t][i]
				h.task, h.idx = t, i
				h.call = s.stamp()
				h.out = safeApply(inst, op)
				h.ret = s.stamp()
				h.done = true
			}
			wg.Done() // real synchronisation towards the controller only (release, no acquire)
			s.finish(t)
		}(t)
	}
	s.run()
	if !s.deadlock {
		wg.Wait()
	}
	verifsync.H = nil
	res.Stat("events", s.yields)
	res.Stat("context_switches", s.switches)
	res.Stat("switches_inside_critical_region", s.inCrit)
	res.States = append(res.States, s.decHash)
	res.Nontrivial = s.inCrit > 0
	res.LogHash = s.decHash
	res.Sample, _ = json.Marshal(sc)
	if s.deadlock {
		var blocked []string
		for t := 0; t < nt; t++ {
			for i := range hist[t] {
				if hist[t][i].call != 0 && !hist[t][i].done {
					blocked = append(blocked, sc.Tasks[t][i].K)
				}
			}
		}
		sort.Strings(blocked)
		res.Violate("C17", "C17/blocks-forever/"+sc.Comp+"/"+strings.Join(blocked, "+"),
			"every unfinished task waits for a lock that no runnable task can release (scheduler verdict, no wall clock)", 0)
		// parked goroutines and their pipes are abandoned; the worker keeps going
		return res
	}
	s.closeAll()
	// 1. data races reported by the detector during this run
	for _, r := range raceReports() {
		if strings.HasPrefix(r, "unattributed") {
			res.Stat("race_reports_without_zrnt_frame", 1)
			res.Extra = map[string]string{"unattributed_race": r}
			continue
		}
		res.Violate("C17", "C17/data-race/"+r, "the Go race detector reported conflicting accesses not ordered by the component's own synchronisation (execution was serialised by the scheduler)", 0)
	}
	// 2. panics
	for t := range hist {
		for i, h := range hist[t] {
			if strings.HasPrefix(h.out, "PANIC") {
				res.Violate("C17", "C17/panic/"+sc.Comp+"/"+sc.Tasks[t][i].K, h.out, i)
			}
		}
	}
	if len(res.Violations) > 0 {
		return res
	}
	// 3. linearizability against the sequential behaviour of the same code
	var ops []porcupine.Operation
	for t := range hist {
		for i, h := range hist[t] {
			ops = append(ops, porcupine.Operation{ClientId: t, Input: [2]int{t, i}, Call: h.call, Output: h.out, Return: h.ret})
		}
	}
	type state struct{ applied string } // the order of applied ops, e.g. "0.1,1.0,"
	model := porcupine.Model{
		Init: func() interface{} { return "" },
		Step: func(st, in, out interface{}) (bool, interface{}) {
			order := st.(string)
			ti := in.([2]int)
			fresh := newInstance(sc.Comp)
			for _, op := range sc.Prefix {
				safeApply(fresh, op)
			}
			for _, tok := range strings.Split(order, ",") {
				if tok == "" {
					continue
				}
				var a, b int
				fmt.Sscanf(tok, "%d.%d", &a, &b)
				safeApply(fresh, sc.Tasks[a][b])
			}
			got := safeApply(fresh, sc.Tasks[ti[0]][ti[1]])
			return got == out.(string), order + fmt.Sprintf("%d.%d,", ti[0], ti[1])
		},
		Equal: func(a, b interface{}) bool { return a.(string) == b.(string) },
	}
	t0 := time.Now()
	switch porcupine.CheckOperationsTimeout(model, ops, 20*time.Second) {
	case porcupine.Illegal:
		var sb strings.Builder
		kinds := map[string]bool{}
		for t := range hist {
			for i, h := range hist[t] {
				fmt.Fprintf(&sb, "[t%d %s%v call=%d ret=%d -> %q] ", t, sc.Tasks[t][i].K, sc.Tasks[t][i].A, h.call, h.ret, h.out)
				kinds[sc.Tasks[t][i].K] = true
			}
		}
		var ks []string
		for k := range kinds {
			ks = append(ks, k)
		}
		sort.Strings(ks)
		res.Violate("C17", "C17/not-linearizable/"+sc.Comp, "no sequential order of the calls explains the observed results: "+sb.String(), 0)
	case porcupine.Unknown:
		res.Stat("linearizability_inconclusive", 1)
	default:
		res.Stat("linearizable_histories", 1)
	}
	res.Stat("porcupine_ms", time.Since(t0).Milliseconds())
	return res
}

type Engine struct{}

func init() { core.Register(Engine{}) }

func (Engine) Name() string { return "schedsim" }
func (Engine) Run(seed uint64, opt core.Options) *core.Result {
	r := Execute(Generate(seed, opt), opt)
	r.Seed = seed
	return r
}
func (e Engine) Replay(rf *core.ReplayFile, opt core.Options) *core.Result {
	if rf.Script == nil {
		return e.Run(rf.Seed, opt)
	}
	var sc Script
	if json.Unmarshal(rf.Script, &sc) != nil {
		return &core.Result{Engine: "schedsim", Harness: "bad replay file"}
	}
	r := Execute(&sc, opt)
	r.Seed = rf.Seed
	return r
}
func (Engine) Generate(seed uint64, opt core.Options) *core.ReplayFile {
	sj, _ := json.Marshal(Generate(seed, opt))
	return &core.ReplayFile{Engine: "schedsim", Seed: seed, Script: sj}
}

// units: prefix ops, then task ops in task order
func (Engine) Units(rf *core.ReplayFile) int {
	var sc Script
	json.Unmarshal(rf.Script, &sc)
	n := len(sc.Prefix)
	for _, t := range sc.Tasks {
		n += len(t)
	}
	return n
}
func (Engine) Subset(rf *core.ReplayFile, keep []bool) *core.ReplayFile {
	var sc Script
	json.Unmarshal(rf.Script, &sc)
	k := 0
	out := Script{Comp: sc.Comp, SchedSeed: sc.SchedSeed, Stick: sc.Stick, Prefix: []Op{}}
	for _, op := range sc.Prefix {
		if k < len(keep) && keep[k] {
			out.Prefix = append(out.Prefix, op)
		}
		k++
	}
	for _, t := range sc.Tasks {
		var nt []Op
		for _, op := range t {
			if k < len(keep) && keep[k] {
				nt = append(nt, op)
			}
			k++
		}
		if len(nt) > 0 {
			out.Tasks = append(out.Tasks, nt)
		}
	}
	sj, _ := json.Marshal(out)
	c := *rf
	c.Script = sj
	return &c
}
func (Engine) CrashViolation(stderr string, opt core.Options) (core.Violation, bool) {
	if strings.Contains(stderr, "fatal error: concurrent map") {
		return core.Violation{Property: "C17", Signature: "C17/fatal/concurrent-map-access", Detail: "runtime fatal error: concurrent map access"}, true
	}
	if strings.Contains(stderr, "all goroutines are asleep") {
		return core.Violation{Property: "C17", Signature: "C17/blocks-forever/runtime", Detail: "runtime deadlock verdict"}, true
	}
	return core.Violation{}, false
}
func (Engine) Describe() core.EngineInfo {
	return core.EngineInfo{
		Real:  []string{"forkchoice.ProtoForkChoice (+ProtoArray, ProtoVoteStore)", "common.PubkeyCache and the CachedPubkey values it hands out (real BLS decompression)", "pool.AttestationPool", "pool.SyncCommitteePool", "pool.AttesterSlashingPool / ProposerSlashingPool / VoluntaryExitPool", "sync.Mutex/RWMutex (wrapped, real acquire/release)", "Go race detector"},
		Stubs: []string{"caller goroutines (generated call sequences)", "scheduler (seeded, cooperative, raw-pipe hand-off)", "lock entry/exit yield points (build-time overlay shim around package sync)"},
		Rule:  "distinct = hash of the scheduler's decision sequence (which task runs after every scheduling point); non-trivial run = at least one context switch taken while the descheduled task held a lock",
	}
}
