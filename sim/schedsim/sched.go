// Package schedsim: real goroutines on one shared instance of a component that
// the repository documents as thread safe, under a seeded cooperative scheduler.
// Exactly one task runs at a time; hand-off between tasks uses raw read/write
// system calls on pipes inside //go:norace functions, which (unlike channels or
// mutexes) create NO happens-before edge in the Go race detector: the execution is
// fully serialised and replays exactly, yet the detector still reports every pair of
// conflicting accesses that the component's OWN synchronisation does not order.
package schedsim

import (
	"syscall"
	"unsafe"
)

const maxTasks = 8

const (
	stRunnable = 0
	stBlocked  = 1
	stDone     = 2
)

type stask struct {
	rd, wr  int
	state   int
	on      interface{}
	wIntent interface{}
}

type sched struct {
	t        [maxTasks]stask
	n        int
	cur      int
	ctlRd    int
	ctlWr    int
	rs       uint64 // xorshift state (scheduler's own PRNG; derived from the run seed)
	seq      int64  // global event sequence number (history stamps)
	deadlock bool
	switches int64
	yields   int64
	inCrit   int64 // context switches taken while some lock was held by the descheduled task
	held     [maxTasks]int
	decHash  uint64 // hash of the decision sequence (distinct-schedule measure)
	stick    uint64 // probability numerator (of 8) to stay on the current task at a yield
}

//go:norace
func rawWrite(fd int) {
	var b [1]byte
	for {
		_, _, e := syscall.Syscall(syscall.SYS_WRITE, uintptr(fd), uintptr(unsafe.Pointer(&b[0])), 1)
		if e != syscall.EINTR {
			return
		}
	}
}

//go:norace
func rawRead(fd int) {
	var b [1]byte
	for {
		_, _, e := syscall.Syscall(syscall.SYS_READ, uintptr(fd), uintptr(unsafe.Pointer(&b[0])), 1)
		if e != syscall.EINTR {
			return
		}
	}
}

//go:norace
func (s *sched) rnd() uint64 {
	x := s.rs
	x ^= x << 13
	x ^= x >> 7
	x ^= x << 17
	s.rs = x
	return x
}

//go:norace
func (s *sched) note(d int) {
	s.decHash = (s.decHash ^ uint64(d+1)) * 1099511628211
}

// pick a runnable task (optionally excluding one); -1 if none.
//
//go:norace
func (s *sched) pick(exclude int) int {
	cnt := 0
	for i := 0; i < s.n; i++ {
		if i != exclude && s.t[i].state == stRunnable {
			cnt++
		}
	}
	if cnt == 0 {
		return -1
	}
	k := int(s.rnd() % uint64(cnt))
	for i := 0; i < s.n; i++ {
		if i != exclude && s.t[i].state == stRunnable {
			if k == 0 {
				return i
			}
			k--
		}
	}
	return -1
}

//go:norace
func (s *sched) switchTo(me, next int) {
	s.switches++
	if s.held[me] > 0 {
		s.inCrit++
	}
	s.note(next)
	s.cur = next
	rawWrite(s.t[next].wr)
	rawRead(s.t[me].rd)
}

// Yield is a scheduling point of the running task.
//
//go:norace
func (s *sched) Yield() {
	me := s.cur
	s.yields++
	if s.rnd()%8 < s.stick {
		s.note(me)
		return
	}
	next := s.pick(-1)
	if next < 0 || next == me {
		s.note(me)
		return
	}
	s.switchTo(me, next)
}

//go:norace
func (s *sched) Blocked(m interface{}) {
	me := s.cur
	s.t[me].state = stBlocked
	s.t[me].on = m
	next := s.pick(me)
	if next < 0 {
		// every unfinished task waits for a lock that only a waiting task could
		// release: blocked forever. Deterministic verdict, no wall clock involved.
		s.deadlock = true
		rawWrite(s.ctlWr)
		rawRead(s.t[me].rd) // parked for good
		return
	}
	s.switchTo(me, next)
}

//go:norace
func (s *sched) Released(m interface{}) {
	me := s.cur
	if s.held[me] > 0 {
		s.held[me]--
	}
	for i := 0; i < s.n; i++ {
		if s.t[i].state == stBlocked && s.t[i].on == m {
			s.t[i].state = stRunnable
			s.t[i].on = nil
		}
	}
}

//go:norace
func (s *sched) WriterWaiting(m interface{}) bool {
	for i := 0; i < s.n; i++ {
		if i != s.cur && s.t[i].wIntent == m {
			return true
		}
	}
	return false
}

//go:norace
func (s *sched) WriteIntent(m interface{}) {
	s.t[s.cur].wIntent = m
}

//go:norace
func (s *sched) Acquired(m interface{}) {
	if s.t[s.cur].wIntent == m {
		s.t[s.cur].wIntent = nil
	}
	s.held[s.cur]++
}

// stamp returns the next global event sequence number.
//
//go:norace
func (s *sched) stamp() int64 {
	s.seq++
	return s.seq
}

// start parks the calling task until it is scheduled for the first time.
//
//go:norace
func (s *sched) start(id int) {
	rawRead(s.t[id].rd)
}

// finish marks the task done and hands control on.
//
//go:norace
func (s *sched) finish(id int) {
	s.t[id].state = stDone
	next := s.pick(id)
	if next >= 0 {
		s.note(next)
		s.cur = next
		rawWrite(s.t[next].wr)
		return
	}
	// nobody runnable: either all done, or the rest is blocked forever
	for i := 0; i < s.n; i++ {
		if s.t[i].state == stBlocked {
			s.deadlock = true
		}
	}
	rawWrite(s.ctlWr)
}

func newSched(n int, seed uint64, stick uint64) (*sched, error) {
	s := &sched{n: n, rs: seed | 1, stick: stick, decHash: 1469598103934665603}
	mk := func() (int, int, error) {
		var p [2]int
		if err := syscall.Pipe(p[:]); err != nil {
			return 0, 0, err
		}
		return p[0], p[1], nil
	}
	var err error
	if s.ctlRd, s.ctlWr, err = mk(); err != nil {
		return nil, err
	}
	for i := 0; i < n; i++ {
		if s.t[i].rd, s.t[i].wr, err = mk(); err != nil {
			return nil, err
		}
	}
	return s, nil
}

func (s *sched) closeAll() {
	syscall.Close(s.ctlRd)
	syscall.Close(s.ctlWr)
	for i := 0; i < s.n; i++ {
		syscall.Close(s.t[i].rd)
		syscall.Close(s.t[i].wr)
	}
}

// run: wake the first task and wait until all are done or a deadlock is declared.
//
//go:norace
func (s *sched) run() {
	first := s.pick(-1)
	if first < 0 {
		return
	}
	s.cur = first
	s.note(first)
	rawWrite(s.t[first].wr)
	rawRead(s.ctlRd)
}
