// Package checks: which batches decide which property at which tier.
package checks

import "verif/sim/core"

func p(kv ...string) map[string]string {
	m := map[string]string{}
	for i := 0; i+1 < len(kv); i += 2 {
		m[kv[i]] = kv[i+1]
	}
	return m
}

var commonAssumptions = []string{
	"sampled, not exhaustive: a clean batch is evidence, not proof",
	"harness models (reference oracles) are correct transcriptions of the documented contracts",
}

func Spec(id, tier string) *core.CheckSpec {
	q := tier != "thorough"
	sec := func(quick, thorough float64) float64 {
		if q {
			return quick
		}
		return thorough
	}
	cs := &core.CheckSpec{Property: id, Tier: tier, Level: "exploration", Assumptions: commonAssumptions}
	switch id {
	case "C09", "C10", "C11":
		cs.Batches = []core.Batch{
			{Engine: "fcsim", Label: "fault-free", Seconds: sec(20, 240), Opt: core.Options{Params: p("faults", "0")}},
			{Engine: "fcsim", Label: "faults", Seconds: sec(15, 240), Opt: core.Options{Params: p("faults", "1")}},
		}
	case "C16":
		cs.Batches = []core.Batch{
			{Engine: "cachesim", Label: "deposit-histories", Seconds: sec(20, 300), Opt: core.Options{}},
		}
	case "C20":
		cs.Batches = []core.Batch{
			{Engine: "poolsim", Label: "fault-free", Seconds: sec(15, 240), Opt: core.Options{Params: p("faults", "0")}},
			{Engine: "poolsim", Label: "dup-late-reorder", Seconds: sec(15, 240), Opt: core.Options{Params: p("faults", "1")}},
		}
	case "C17":
		cs.WorkerProcs = "4"
		cs.Batches = []core.Batch{
			{Engine: "schedsim", Label: "forkchoice", Seconds: sec(12, 200), Opt: core.Options{Params: p("comp", "fc")}},
			{Engine: "schedsim", Label: "pubkey-cache", Seconds: sec(10, 150), Opt: core.Options{Params: p("comp", "cache")}},
			{Engine: "schedsim", Label: "attestation-pool", Seconds: sec(8, 150), Opt: core.Options{Params: p("comp", "attpool")}},
			{Engine: "schedsim", Label: "sync-pool", Seconds: sec(6, 100), Opt: core.Options{Params: p("comp", "syncpool")}},
			{Engine: "schedsim", Label: "slashing-exit-pools", Seconds: sec(6, 100), Opt: core.Options{Params: p("comp", "misc")}},
		}
	case "C08", "C12", "C14", "C15", "C05", "C04":
		cs.Batches = []core.Batch{
			{Engine: "chainsim", Label: "swarm", Seconds: sec(60, 600), Opt: core.Options{}},
			{Engine: "chainsim", Label: "late-forks", Seconds: sec(30, 300), Opt: core.Options{Params: p("forks", "late")}},
		}
		if id == "C12" {
			cs.Batches[0].Seconds = sec(50, 500)
			cs.Batches[1].Seconds = sec(25, 250)
			cs.Batches = append(cs.Batches, core.Batch{Engine: "chainsim", Label: "wide-committees", Seconds: sec(25, 300), Opt: core.Options{Params: p("director", "wide")}})
			if !q {
				// 32 slots per epoch: from deneb on a vote may be propagated for up to 63 slots, not 32
				cs.Batches = append(cs.Batches, core.Batch{Engine: "chainsim", Label: "mainnet-preset", Seconds: 400, Opt: core.Options{Params: p("preset", "mainnet")}})
			}
		}
		if id == "C15" {
			// typed sub-views made from values of every container type: getters by position
			cs.Batches[0].Seconds = sec(50, 500)
			cs.Batches[1].Seconds = sec(25, 250)
			cs.Batches = append(cs.Batches, core.Batch{Engine: "codecsim", Label: "sub-view-getters", Seconds: sec(12, 150), Opt: core.Options{}})
		}
		if id == "C04" || id == "C05" {
			// every exported SSZ type behind the stream seam (object store with faulty disk and wire)
			cs.Batches[0].Seconds = sec(40, 500)
			cs.Batches[1].Seconds = sec(20, 250)
			cs.Batches = append(cs.Batches, core.Batch{Engine: "codecsim", Label: "object-store-all-types", Seconds: sec(30, 400), Opt: core.Options{}})
		}
	case "C18":
		cs.Level = "fault_enumeration"
		cs.Batches = []core.Batch{
			{Engine: "chainsim", Label: "enumerate-faults", Seconds: sec(75, 900), Opt: core.Options{Params: p("c18", "1")}},
		}
	case "C01", "C02", "C03", "C07", "C13":
		cs.Batches = []core.Batch{
			{Engine: "chainsim", Label: "swarm", Seconds: sec(55, 700), Opt: core.Options{}},
			{Engine: "chainsim", Label: "late-forks", Seconds: sec(30, 400), Opt: core.Options{Params: p("forks", "late")}},
		}
		if id == "C02" || id == "C01" {
			cs.Batches[0].Seconds = sec(45, 500)
			cs.Batches[1].Seconds = sec(25, 300)
			cs.Batches = append(cs.Batches,
				core.Batch{Engine: "chainsim", Label: "director-leak", Seconds: sec(25, 300), Opt: core.Options{Params: p("director", "leak")}},
				core.Batch{Engine: "chainsim", Label: "director-churn", Seconds: sec(25, 300), Opt: core.Options{Params: p("director", "churn")}})
		}
		if id == "C03" {
			// onboarding validators (eligibility < activation) are where the age and queue rules differ
			cs.Batches[0].Seconds = sec(45, 600)
			cs.Batches[1].Seconds = sec(25, 300)
			cs.Batches = append(cs.Batches,
				core.Batch{Engine: "chainsim", Label: "director-churn", Seconds: sec(25, 300), Opt: core.Options{Params: p("director", "churn")}})
		}
		if !q && id != "C13" {
			cs.Batches = append(cs.Batches, core.Batch{Engine: "chainsim", Label: "mainnet-preset", Seconds: 240, Opt: core.Options{Params: p("preset", "mainnet")}})
		}
	default:
		return nil
	}
	return cs
}
