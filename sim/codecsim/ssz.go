// Package codecsim: every exported SSZ type of zrnt behind the stream seam.
//
// A simulated object store writes and reads values of every SSZ type through faulty streams
// (short reads, read errors at byte k, failing writers, truncated / torn records, corrupted
// offsets and length prefixes, bit flips). The oracle is this file: a schema language, a strict
// SSZ parser and merkleiser and a value generator written from the SSZ specification, sharing no
// code with ztyp or with zrnt's hand-written per-type methods. The schema of every type
// (schema.go) is transcribed from the consensus specification, not from zrnt's type definitions.
package codecsim

import (
	"crypto/sha256"
	"encoding/binary"
	"errors"
	"fmt"

	"verif/sim/core"
)

type Kind int

const (
	KUint      Kind = iota // Size bytes (1,2,4,8,16,32), little endian
	KBool                  // one byte, 0 or 1
	KBytesN                // Vector[byte, Size]
	KByteList              // List[byte, Limit]
	KVector                // Vector[Elem, Size]
	KList                  // List[Elem, Limit]
	KBitvector             // Bitvector[Size]
	KBitlist               // Bitlist[Limit]
	KContainer
)

type Field struct {
	Name string
	T    *T
}

type T struct {
	Kind   Kind
	Size   uint64
	Limit  uint64
	Elem   *T
	Fields []Field
}

func U(n uint64) *T                { return &T{Kind: KUint, Size: n} }
func Bytes(n uint64) *T            { return &T{Kind: KBytesN, Size: n} }
func ByteList(limit uint64) *T     { return &T{Kind: KByteList, Limit: limit} }
func Vector(e *T, n uint64) *T     { return &T{Kind: KVector, Elem: e, Size: n} }
func List(e *T, limit uint64) *T   { return &T{Kind: KList, Elem: e, Limit: limit} }
func Bitvector(n uint64) *T        { return &T{Kind: KBitvector, Size: n} }
func Bitlist(limit uint64) *T      { return &T{Kind: KBitlist, Limit: limit} }
func Container(fields ...Field) *T { return &T{Kind: KContainer, Fields: fields} }
func F(name string, t *T) Field    { return Field{name, t} }
func (t *T) With(fields ...Field) *T {
	return Container(append(append([]Field(nil), t.Fields...), fields...)...)
}

var (
	U8   = U(1)
	U64  = U(8)
	U256 = U(32)
	Bool = &T{Kind: KBool}
	B4   = Bytes(4)
	B20  = Bytes(20)
	B32  = Bytes(32)
	B48  = Bytes(48)
	B96  = Bytes(96)
)

// FixedSize: the byte size of a fixed-size type, 0 for variable-size types.
func (t *T) FixedSize() uint64 {
	switch t.Kind {
	case KUint, KBytesN:
		return t.Size
	case KBool:
		return 1
	case KBitvector:
		return (t.Size + 7) / 8
	case KVector:
		e := t.Elem.FixedSize()
		if e == 0 {
			return 0
		}
		return e * t.Size
	case KContainer:
		sum := uint64(0)
		for _, f := range t.Fields {
			s := f.T.FixedSize()
			if s == 0 {
				return 0
			}
			sum += s
		}
		return sum
	}
	return 0
}

func (t *T) isBasic() bool { return t.Kind == KUint || t.Kind == KBool }

// ---- merkleisation ----

type chunk = [32]byte

func h2(a, b chunk) chunk {
	var buf [64]byte
	copy(buf[:32], a[:])
	copy(buf[32:], b[:])
	return sha256.Sum256(buf[:])
}

var zeroHashes = func() [65]chunk {
	var z [65]chunk
	for i := 1; i < 65; i++ {
		z[i] = h2(z[i-1], z[i-1])
	}
	return z
}()

func depthFor(n uint64) int {
	d := 0
	for d < 64 && (uint64(1)<<uint(d)) < n {
		d++
	}
	return d
}

func merkleize(chunks []chunk, limit uint64) chunk {
	if limit == 0 {
		limit = 1
	}
	depth := depthFor(limit)
	if len(chunks) == 0 {
		return zeroHashes[depth]
	}
	layer := chunks
	for d := 0; d < depth; d++ {
		next := make([]chunk, (len(layer)+1)/2)
		for i := range next {
			r := zeroHashes[d]
			if 2*i+1 < len(layer) {
				r = layer[2*i+1]
			}
			next[i] = h2(layer[2*i], r)
		}
		layer = next
	}
	return layer[0]
}

func mixLen(root chunk, n uint64) chunk {
	var l chunk
	binary.LittleEndian.PutUint64(l[:8], n)
	return h2(root, l)
}

func pack(b []byte) []chunk {
	out := make([]chunk, (len(b)+31)/32)
	for i := range out {
		end := i*32 + 32
		if end > len(b) {
			end = len(b)
		}
		copy(out[i][:], b[i*32:end])
	}
	return out
}

// ---- strict parser: validity of the encoding and the hash-tree-root of the value it encodes ----

// Reasons a byte string is not a valid encoding; the classes the property names are separate.
var (
	ErrTruncated = errors.New("truncated or wrong length")
	ErrLimit     = errors.New("list or bitlist limit exceeded")
	ErrOffsets   = errors.New("inconsistent offsets")
	ErrOther     = errors.New("invalid value encoding")
	ErrPadding   = errors.New("bits set beyond the length of a bitvector")
)

func Parse(t *T, b []byte) (chunk, error) {
	switch t.Kind {
	case KUint:
		if uint64(len(b)) != t.Size {
			return chunk{}, ErrTruncated
		}
		var c chunk
		copy(c[:], b)
		return c, nil
	case KBool:
		if len(b) != 1 {
			return chunk{}, ErrTruncated
		}
		if b[0] > 1 {
			return chunk{}, ErrOther
		}
		return chunk{b[0]}, nil
	case KBytesN:
		if uint64(len(b)) != t.Size {
			return chunk{}, ErrTruncated
		}
		return merkleize(pack(b), (t.Size+31)/32), nil
	case KByteList:
		if uint64(len(b)) > t.Limit {
			return chunk{}, ErrLimit
		}
		return mixLen(merkleize(pack(b), (t.Limit+31)/32), uint64(len(b))), nil
	case KBitvector:
		if uint64(len(b)) != (t.Size+7)/8 {
			return chunk{}, ErrTruncated
		}
		if t.Size%8 != 0 && b[len(b)-1]>>(t.Size%8) != 0 {
			return chunk{}, ErrPadding
		}
		return merkleize(pack(b), (t.Size+255)/256), nil
	case KBitlist:
		if len(b) == 0 {
			return chunk{}, ErrTruncated
		}
		last := b[len(b)-1]
		if last == 0 {
			return chunk{}, ErrOther
		}
		hi := 7
		for last&(1<<uint(hi)) == 0 {
			hi--
		}
		n := uint64(len(b)-1)*8 + uint64(hi)
		if n > t.Limit {
			return chunk{}, ErrLimit
		}
		data := append([]byte(nil), b...)
		data[len(data)-1] &^= 1 << uint(hi)
		if hi == 0 {
			data = data[:len(data)-1]
		}
		return mixLen(merkleize(pack(data), (t.Limit+255)/256), n), nil
	case KVector, KList:
		var count uint64
		var roots []chunk
		es := t.Elem.FixedSize()
		if es != 0 {
			if uint64(len(b))%es != 0 {
				return chunk{}, ErrTruncated
			}
			count = uint64(len(b)) / es
			if t.Kind == KVector && count != t.Size {
				return chunk{}, ErrTruncated
			}
			if t.Kind == KList && count > t.Limit {
				return chunk{}, ErrLimit
			}
			if t.Elem.isBasic() {
				if t.Elem.Kind == KBool {
					for _, x := range b {
						if x > 1 {
							return chunk{}, ErrOther
						}
					}
				}
				if t.Kind == KVector {
					return merkleize(pack(b), (t.Size*es+31)/32), nil
				}
				return mixLen(merkleize(pack(b), (t.Limit*es+31)/32), count), nil
			}
			roots = make([]chunk, count)
			for i := uint64(0); i < count; i++ {
				r, err := Parse(t.Elem, b[i*es:(i+1)*es])
				if err != nil {
					return chunk{}, err
				}
				roots[i] = r
			}
		} else {
			if len(b) == 0 {
				if t.Kind == KVector && t.Size != 0 {
					return chunk{}, ErrTruncated
				}
			} else {
				if len(b) < 4 {
					return chunk{}, ErrTruncated
				}
				first := uint64(binary.LittleEndian.Uint32(b[:4]))
				if first%4 != 0 || first == 0 {
					return chunk{}, ErrOffsets
				}
				count = first / 4
				if t.Kind == KList && count > t.Limit {
					return chunk{}, ErrLimit
				}
				if t.Kind == KVector && count != t.Size {
					return chunk{}, ErrOffsets
				}
				if first > uint64(len(b)) {
					return chunk{}, ErrOffsets
				}
				offs := make([]uint64, count+1)
				for i := uint64(0); i < count; i++ {
					offs[i] = uint64(binary.LittleEndian.Uint32(b[4*i : 4*i+4]))
				}
				offs[count] = uint64(len(b))
				roots = make([]chunk, count)
				for i := uint64(0); i < count; i++ {
					if offs[i+1] < offs[i] || offs[i+1] > uint64(len(b)) {
						return chunk{}, ErrOffsets
					}
					r, err := Parse(t.Elem, b[offs[i]:offs[i+1]])
					if err != nil {
						return chunk{}, err
					}
					roots[i] = r
				}
			}
		}
		if t.Kind == KVector {
			return merkleize(roots, t.Size), nil
		}
		return mixLen(merkleize(roots, t.Limit), count), nil
	case KContainer:
		fixedLen := uint64(0)
		for _, f := range t.Fields {
			if s := f.T.FixedSize(); s != 0 {
				fixedLen += s
			} else {
				fixedLen += 4
			}
		}
		if uint64(len(b)) < fixedLen {
			return chunk{}, ErrTruncated
		}
		if t.FixedSize() != 0 && uint64(len(b)) != fixedLen {
			return chunk{}, ErrTruncated
		}
		roots := make([]chunk, len(t.Fields))
		type dyn struct {
			idx int
			off uint64
		}
		var dyns []dyn
		pos := uint64(0)
		for i, f := range t.Fields {
			if s := f.T.FixedSize(); s != 0 {
				r, err := Parse(f.T, b[pos:pos+s])
				if err != nil {
					return chunk{}, err
				}
				roots[i] = r
				pos += s
			} else {
				dyns = append(dyns, dyn{i, uint64(binary.LittleEndian.Uint32(b[pos : pos+4]))})
				pos += 4
			}
		}
		for k, d := range dyns {
			if k == 0 && d.off != fixedLen {
				return chunk{}, ErrOffsets
			}
			end := uint64(len(b))
			if k+1 < len(dyns) {
				end = dyns[k+1].off
			}
			if end < d.off || end > uint64(len(b)) || d.off > uint64(len(b)) {
				return chunk{}, ErrOffsets
			}
			r, err := Parse(t.Fields[d.idx].T, b[d.off:end])
			if err != nil {
				return chunk{}, err
			}
			roots[d.idx] = r
		}
		return merkleize(roots, uint64(len(roots))), nil
	}
	return chunk{}, fmt.Errorf("unknown kind %d", t.Kind)
}

// ---- generator: a canonical encoding of a random value ----

// Gen: the SSZ bytes of a random value of t. size bounds the element count of lists (lists whose
// limit is lower use the limit); edge selects all-zero / all-ones / empty / full values now and then.
func Gen(t *T, rng *core.Rng, size int) []byte {
	switch t.Kind {
	case KUint:
		b := make([]byte, t.Size)
		switch rng.Intn(6) {
		case 0:
		case 1:
			for i := range b {
				b[i] = 0xff
			}
		case 2:
			b[0] = byte(rng.Intn(4))
		default:
			fill(b, rng)
		}
		return b
	case KBool:
		return []byte{byte(rng.Intn(2))}
	case KBytesN:
		b := make([]byte, t.Size)
		if !rng.Chance(1, 8) {
			fill(b, rng)
		}
		return b
	case KByteList:
		n := listLen(rng, size*8, t.Limit)
		if t.Limit <= 1<<12 && rng.Chance(1, 6) {
			n = t.Limit // a full list
		}
		b := make([]byte, n)
		fill(b, rng)
		return b
	case KBitvector:
		b := make([]byte, (t.Size+7)/8)
		fill(b, rng)
		if t.Size%8 != 0 {
			b[len(b)-1] &= byte(1<<(t.Size%8)) - 1
		}
		return b
	case KBitlist:
		n := listLen(rng, size*8, t.Limit)
		if t.Limit <= 1<<15 && rng.Chance(1, 6) {
			n = t.Limit // a full list: the delimiter bit may need a byte of its own
		}
		b := make([]byte, n/8+1)
		fill(b, rng)
		b[len(b)-1] &= byte(1<<(n%8)) - 1
		b[len(b)-1] |= 1 << (n % 8)
		return b
	case KVector, KList:
		count := t.Size
		if t.Kind == KList {
			count = listLen(rng, size, t.Limit)
		}
		parts := make([][]byte, count)
		for i := range parts {
			parts[i] = Gen(t.Elem, rng, size/2)
		}
		if t.Elem.FixedSize() != 0 {
			var out []byte
			for _, p := range parts {
				out = append(out, p...)
			}
			return out
		}
		out := make([]byte, 4*count)
		for i, p := range parts {
			binary.LittleEndian.PutUint32(out[4*i:], uint32(len(out)))
			out = append(out, p...)
		}
		return out
	case KContainer:
		var fixed, heap []byte
		var patch []int
		var dynParts [][]byte
		for _, f := range t.Fields {
			p := Gen(f.T, rng, size)
			if f.T.FixedSize() != 0 {
				fixed = append(fixed, p...)
			} else {
				patch = append(patch, len(fixed))
				fixed = append(fixed, 0, 0, 0, 0)
				dynParts = append(dynParts, p)
			}
		}
		for i, p := range dynParts {
			binary.LittleEndian.PutUint32(fixed[patch[i]:], uint32(len(fixed)+len(heap)))
			heap = append(heap, p...)
		}
		return append(fixed, heap...)
	}
	panic("unknown kind")
}

// Default: the encoding of the type's default value (zeroes, empty lists).
func Default(t *T) []byte {
	switch t.Kind {
	case KUint, KBytesN:
		return make([]byte, t.Size)
	case KBool:
		return []byte{0}
	case KByteList:
		return nil
	case KBitvector:
		return make([]byte, (t.Size+7)/8)
	case KBitlist:
		return []byte{1}
	case KList:
		return nil
	case KVector:
		var out []byte
		if t.Elem.FixedSize() != 0 {
			for i := uint64(0); i < t.Size; i++ {
				out = append(out, Default(t.Elem)...)
			}
			return out
		}
		out = make([]byte, 4*t.Size)
		for i := uint64(0); i < t.Size; i++ {
			binary.LittleEndian.PutUint32(out[4*i:], uint32(len(out)))
			out = append(out, Default(t.Elem)...)
		}
		return out
	case KContainer:
		var fixed, heap []byte
		var patch []int
		var dyn [][]byte
		for _, f := range t.Fields {
			p := Default(f.T)
			if f.T.FixedSize() != 0 {
				fixed = append(fixed, p...)
			} else {
				patch = append(patch, len(fixed))
				fixed = append(fixed, 0, 0, 0, 0)
				dyn = append(dyn, p)
			}
		}
		for i, p := range dyn {
			binary.LittleEndian.PutUint32(fixed[patch[i]:], uint32(len(fixed)+len(heap)))
			heap = append(heap, p...)
		}
		return append(fixed, heap...)
	}
	return nil
}

func fill(b []byte, rng *core.Rng) {
	for i := 0; i < len(b); i += 8 {
		v := rng.U64()
		for j := 0; j < 8 && i+j < len(b); j++ {
			b[i+j] = byte(v >> (8 * uint(j)))
		}
	}
}

func listLen(rng *core.Rng, size int, limit uint64) uint64 {
	if size < 0 {
		size = 0
	}
	max := uint64(size)
	if max > limit {
		max = limit
	}
	switch rng.Intn(8) {
	case 0:
		return 0
	case 1:
		return max
	case 2:
		if limit <= 64 {
			return limit // a full list
		}
		return max
	}
	return uint64(rng.Intn(int(max) + 1))
}
