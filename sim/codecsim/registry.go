package codecsim

import (
	"github.com/protolambda/zrnt/eth2/beacon/altair"
	"github.com/protolambda/zrnt/eth2/beacon/bellatrix"
	"github.com/protolambda/zrnt/eth2/beacon/capella"
	"github.com/protolambda/zrnt/eth2/beacon/common"
	"github.com/protolambda/zrnt/eth2/beacon/deneb"
	"github.com/protolambda/zrnt/eth2/beacon/electra"
	"github.com/protolambda/zrnt/eth2/beacon/phase0"
	"github.com/protolambda/ztyp/view"
)

// entry: one exported SSZ type of the library: how to allocate its struct form, its schema by the
// specification, and (where the library declares one) its tree-view type.
type entry struct {
	Name   string
	Alloc  func() interface{}
	Schema func(S) *T
	View   func(*common.Spec) view.TypeDef
}

type sp = *common.Spec

func fix(t view.TypeDef) func(sp) view.TypeDef { return func(sp) view.TypeDef { return t } }

var registry = []entry{
	// ---- common: basic and byte-vector types ----
	{"common.Slot", func() interface{} { return new(common.Slot) }, func(S) *T { return U64 }, fix(common.SlotType)},
	{"common.Epoch", func() interface{} { return new(common.Epoch) }, func(S) *T { return U64 }, fix(common.EpochType)},
	{"common.Gwei", func() interface{} { return new(common.Gwei) }, func(S) *T { return U64 }, fix(common.GweiType)},
	{"common.Timestamp", func() interface{} { return new(common.Timestamp) }, func(S) *T { return U64 }, fix(common.TimestampType)},
	{"common.ValidatorIndex", func() interface{} { return new(common.ValidatorIndex) }, func(S) *T { return U64 }, fix(common.ValidatorIndexType)},
	{"common.CommitteeIndex", func() interface{} { return new(common.CommitteeIndex) }, func(S) *T { return U64 }, fix(common.CommitteeIndexType)},
	{"common.DepositIndex", func() interface{} { return new(common.DepositIndex) }, func(S) *T { return U64 }, nil},
	{"common.WithdrawalIndex", func() interface{} { return new(common.WithdrawalIndex) }, func(S) *T { return U64 }, fix(common.WithdrawalIndexType)},
	{"common.SeqNr", func() interface{} { return new(common.SeqNr) }, func(S) *T { return U64 }, nil},
	{"common.Ping", func() interface{} { return new(common.Ping) }, func(S) *T { return U64 }, nil},
	{"common.Pong", func() interface{} { return new(common.Pong) }, func(S) *T { return U64 }, nil},
	{"common.Goodbye", func() interface{} { return new(common.Goodbye) }, func(S) *T { return U64 }, nil},
	{"common.Version", func() interface{} { return new(common.Version) }, func(S) *T { return B4 }, fix(common.VersionType)},
	{"common.ForkDigest", func() interface{} { return new(common.ForkDigest) }, func(S) *T { return B4 }, fix(common.ForkDigestType)},
	{"common.BLSDomainType", func() interface{} { return new(common.BLSDomainType) }, func(S) *T { return B4 }, fix(common.BLSDomainTypeTreeType)},
	{"common.BLSDomain", func() interface{} { return new(common.BLSDomain) }, func(S) *T { return B32 }, fix(common.BLSDomainTreeType)},
	{"common.NetworkMessageDomain", func() interface{} { return new(common.NetworkMessageDomain) }, func(S) *T { return B4 }, nil},
	{"common.BLSPubkey", func() interface{} { return new(common.BLSPubkey) }, func(S) *T { return B48 }, fix(common.BLSPubkeyType)},
	{"common.BLSSignature", func() interface{} { return new(common.BLSSignature) }, func(S) *T { return B96 }, fix(common.BLSSignatureType)},
	{"common.Eth1Address", func() interface{} { return new(common.Eth1Address) }, func(S) *T { return B20 }, fix(common.Eth1AddressType)},
	{"common.KZGCommitment", func() interface{} { return new(common.KZGCommitment) }, func(S) *T { return B48 }, fix(common.KZGCommitmentType)},
	{"common.LogsBloom", func() interface{} { return new(common.LogsBloom) }, S.LogsBloom, fix(common.LogsBloomType)},
	{"common.ExtraData", func() interface{} { return new(common.ExtraData) }, S.ExtraData, fix(common.ExtraDataType)},
	{"common.JustificationBits", func() interface{} { return new(common.JustificationBits) }, S.JustificationBits, fix(common.JustificationBitsType)},
	{"common.AttnetBits", func() interface{} { return new(common.AttnetBits) }, func(S) *T { return Bitvector(attnetCount) }, nil},
	{"common.SyncnetBits", func() interface{} { return new(common.SyncnetBits) }, func(S) *T { return Bitvector(syncnetCount) }, nil},
	// ---- common: containers ----
	{"common.Checkpoint", func() interface{} { return new(common.Checkpoint) }, S.Checkpoint, fix(common.CheckpointType)},
	{"common.Fork", func() interface{} { return new(common.Fork) }, S.Fork, fix(common.ForkType)},
	{"common.ForkData", func() interface{} { return new(common.ForkData) }, S.ForkData, fix(common.ForkDataType)},
	{"common.SigningData", func() interface{} { return new(common.SigningData) }, S.SigningData, fix(common.SigningDataType)},
	{"common.Eth1Data", func() interface{} { return new(common.Eth1Data) }, S.Eth1Data, fix(common.Eth1DataType)},
	{"common.BeaconBlockHeader", func() interface{} { return new(common.BeaconBlockHeader) }, S.BeaconBlockHeader, fix(common.BeaconBlockHeaderType)},
	{"common.SignedBeaconBlockHeader", func() interface{} { return new(common.SignedBeaconBlockHeader) }, S.SignedBeaconBlockHeader, fix(common.SignedBeaconBlockHeaderType)},
	{"common.DepositMessage", func() interface{} { return new(common.DepositMessage) }, S.DepositMessage, fix(common.DepositMessageType)},
	{"common.DepositData", func() interface{} { return new(common.DepositData) }, S.DepositData, fix(common.DepositDataType)},
	{"common.DepositProof", func() interface{} { return new(common.DepositProof) }, S.DepositProof, fix(common.DepositProofType)},
	{"common.Deposit", func() interface{} { return new(common.Deposit) }, S.Deposit, fix(common.DepositType)},
	{"common.SyncCommitteePubkeys", func() interface{} { return new(common.SyncCommitteePubkeys) }, S.SyncCommitteePubkeys, func(s sp) view.TypeDef { return common.SyncCommitteePubkeysType(s) }},
	{"common.SyncCommittee", func() interface{} { return new(common.SyncCommittee) }, S.SyncCommittee, func(s sp) view.TypeDef { return common.SyncCommitteeType(s) }},
	{"common.CommitteeIndices", func() interface{} { return new(common.CommitteeIndices) }, S.CommitteeIndices, nil},
	{"common.SlotCommitteeIndices", func() interface{} { return new(common.SlotCommitteeIndices) }, S.SlotCommitteeIndices, func(s sp) view.TypeDef { return common.SlotCommitteeIndicesType(s) }},
	{"common.GweiList", func() interface{} { return new(common.GweiList) }, S.Balances, nil},
	{"common.Deltas", func() interface{} { return new(common.Deltas) }, S.Deltas, nil},
	{"common.Transaction", func() interface{} { return new(common.Transaction) }, S.Transaction, func(s sp) view.TypeDef { return common.TransactionType(s) }},
	{"common.PayloadTransactions", func() interface{} { return new(common.PayloadTransactions) }, S.PayloadTransactions, func(s sp) view.TypeDef { return common.PayloadTransactionsType(s) }},
	{"common.Withdrawal", func() interface{} { return new(common.Withdrawal) }, S.Withdrawal, fix(common.WithdrawalType)},
	{"common.Withdrawals", func() interface{} { return new(common.Withdrawals) }, S.Withdrawals, func(s sp) view.TypeDef { return common.WithdrawalsType(s) }},
	{"common.BLSToExecutionChange", func() interface{} { return new(common.BLSToExecutionChange) }, S.BLSToExecutionChange, fix(common.BLSToExecutionChangeType)},
	{"common.SignedBLSToExecutionChange", func() interface{} { return new(common.SignedBLSToExecutionChange) }, S.SignedBLSToExecutionChange, fix(common.SignedBLSToExecutionChangeType)},
	{"common.SignedBLSToExecutionChanges", func() interface{} { return new(common.SignedBLSToExecutionChanges) }, S.SignedBLSToExecutionChanges, func(s sp) view.TypeDef { return common.BlockSignedBLSToExecutionChangesType(s) }},
	{"common.DepositRequest", func() interface{} { return new(common.DepositRequest) }, S.DepositRequest, fix(common.DepositRequestType)},
	{"common.WithdrawalRequest", func() interface{} { return new(common.WithdrawalRequest) }, S.WithdrawalRequest, fix(common.WithdrawalRequestType)},
	{"common.ConsolidationRequest", func() interface{} { return new(common.ConsolidationRequest) }, S.ConsolidationRequest, fix(common.ConsolidationRequestType)},
	{"common.DepositRequests", func() interface{} { return new(common.DepositRequests) }, S.DepositRequests, func(s sp) view.TypeDef { return common.DepositRequestsType(s) }},
	{"common.WithdrawalRequests", func() interface{} { return new(common.WithdrawalRequests) }, S.WithdrawalRequests, func(s sp) view.TypeDef { return common.WithdrawalRequestsType(s) }},
	{"common.ConsolidationRequests", func() interface{} { return new(common.ConsolidationRequests) }, S.ConsolidationRequests, func(s sp) view.TypeDef { return common.ConsolidationRequestsType(s) }},
	{"common.PendingDeposit", func() interface{} { return new(common.PendingDeposit) }, S.PendingDeposit, fix(common.PendingDepositType)},
	{"common.PendingPartialWithdrawal", func() interface{} { return new(common.PendingPartialWithdrawal) }, S.PendingPartialWithdrawal, fix(common.PendingPartialWithdrawalType)},
	{"common.PendingConsolidation", func() interface{} { return new(common.PendingConsolidation) }, S.PendingConsolidation, fix(common.PendingConsolidationType)},
	{"common.PendingDeposits", func() interface{} { return new(common.PendingDeposits) }, S.PendingDeposits, func(s sp) view.TypeDef { return common.PendingDepositsType(s) }},
	{"common.PendingPartialWithdrawals", func() interface{} { return new(common.PendingPartialWithdrawals) }, S.PendingPartialWithdrawals, func(s sp) view.TypeDef { return common.PendingPartialWithdrawalsType(s) }},
	{"common.PendingConsolidations", func() interface{} { return new(common.PendingConsolidations) }, S.PendingConsolidations, func(s sp) view.TypeDef { return common.PendingConsolidationsType(s) }},
	{"common.Eth2Data", func() interface{} { return new(common.Eth2Data) }, S.Eth2Data, nil},
	{"common.MetaData", func() interface{} { return new(common.MetaData) }, S.MetaData, nil},
	{"common.Status", func() interface{} { return new(common.Status) }, S.Status, nil},

	// ---- phase0 ----
	{"phase0.Validator", func() interface{} { return new(phase0.Validator) }, S.Validator, fix(phase0.ValidatorType)},
	{"phase0.AttestationData", func() interface{} { return new(phase0.AttestationData) }, S.AttestationData, fix(phase0.AttestationDataType)},
	{"phase0.AttestationBits", func() interface{} { return new(phase0.AttestationBits) }, S.AttestationBits, func(s sp) view.TypeDef { return phase0.AttestationBitsType(s) }},
	{"phase0.Attestation", func() interface{} { return new(phase0.Attestation) }, S.Attestation, func(s sp) view.TypeDef { return phase0.AttestationType(s) }},
	{"phase0.IndexedAttestation", func() interface{} { return new(phase0.IndexedAttestation) }, S.IndexedAttestation, func(s sp) view.TypeDef { return phase0.IndexedAttestationType(s) }},
	{"phase0.PendingAttestation", func() interface{} { return new(phase0.PendingAttestation) }, S.PendingAttestation, func(s sp) view.TypeDef { return phase0.PendingAttestationType(s) }},
	{"phase0.PendingAttestations", func() interface{} { return new(phase0.PendingAttestations) }, S.PendingAttestations, func(s sp) view.TypeDef { return phase0.PendingAttestationsType(s) }},
	{"phase0.ProposerSlashing", func() interface{} { return new(phase0.ProposerSlashing) }, S.ProposerSlashing, fix(phase0.ProposerSlashingType)},
	{"phase0.AttesterSlashing", func() interface{} { return new(phase0.AttesterSlashing) }, S.AttesterSlashing, func(s sp) view.TypeDef { return phase0.AttesterSlashingType(s) }},
	{"phase0.VoluntaryExit", func() interface{} { return new(phase0.VoluntaryExit) }, S.VoluntaryExit, fix(phase0.VoluntaryExitType)},
	{"phase0.SignedVoluntaryExit", func() interface{} { return new(phase0.SignedVoluntaryExit) }, S.SignedVoluntaryExit, fix(phase0.SignedVoluntaryExitType)},
	{"phase0.ProposerSlashings", func() interface{} { return new(phase0.ProposerSlashings) }, S.ProposerSlashings, func(s sp) view.TypeDef { return phase0.BlockProposerSlashingsType(s) }},
	{"phase0.AttesterSlashings", func() interface{} { return new(phase0.AttesterSlashings) }, S.AttesterSlashings, func(s sp) view.TypeDef { return phase0.BlockAttesterSlashingsType(s) }},
	{"phase0.Attestations", func() interface{} { return new(phase0.Attestations) }, S.Attestations, func(s sp) view.TypeDef { return phase0.BlockAttestationsType(s) }},
	{"phase0.Deposits", func() interface{} { return new(phase0.Deposits) }, S.Deposits, func(s sp) view.TypeDef { return phase0.BlockDepositsType(s) }},
	{"phase0.VoluntaryExits", func() interface{} { return new(phase0.VoluntaryExits) }, S.VoluntaryExits, func(s sp) view.TypeDef { return phase0.BlockVoluntaryExitsType(s) }},
	{"phase0.BeaconBlockBody", func() interface{} { return new(phase0.BeaconBlockBody) }, S.bodyPhase0, func(s sp) view.TypeDef { return phase0.BeaconBlockBodyType(s) }},
	{"phase0.BeaconBlock", func() interface{} { return new(phase0.BeaconBlock) }, func(s S) *T { return block(s.bodyPhase0()) }, func(s sp) view.TypeDef { return phase0.BeaconBlockType(s) }},
	{"phase0.SignedBeaconBlock", func() interface{} { return new(phase0.SignedBeaconBlock) }, func(s S) *T { return signed(block(s.bodyPhase0())) }, func(s sp) view.TypeDef { return phase0.SignedBeaconBlockType(s) }},
	{"phase0.AggregateAndProof", func() interface{} { return new(phase0.AggregateAndProof) }, S.AggregateAndProof, nil},
	{"phase0.SignedAggregateAndProof", func() interface{} { return new(phase0.SignedAggregateAndProof) }, func(s S) *T { return signed(s.AggregateAndProof()) }, nil},
	{"phase0.HistoricalBatchRoots", func() interface{} { return new(phase0.HistoricalBatchRoots) }, S.HistoricalBatchRoots, func(s sp) view.TypeDef { return phase0.BatchRootsType(s) }},
	{"phase0.HistoricalBatch", func() interface{} { return new(phase0.HistoricalBatch) }, S.HistoricalBatch, func(s sp) view.TypeDef { return phase0.HistoricalBatchType(s) }},
	{"phase0.HistoricalRoots", func() interface{} { return new(phase0.HistoricalRoots) }, S.HistoricalRoots, func(s sp) view.TypeDef { return phase0.HistoricalRootsType(s) }},
	{"phase0.Eth1DataVotes", func() interface{} { return new(phase0.Eth1DataVotes) }, S.Eth1DataVotes, func(s sp) view.TypeDef { return phase0.Eth1DataVotesType(s) }},
	{"phase0.ValidatorRegistry", func() interface{} { return new(phase0.ValidatorRegistry) }, S.ValidatorRegistry, func(s sp) view.TypeDef { return phase0.ValidatorsRegistryType(s) }},
	{"phase0.Balances", func() interface{} { return new(phase0.Balances) }, S.Balances, func(s sp) view.TypeDef { return phase0.RegistryBalancesType(s) }},
	{"phase0.RandaoMixes", func() interface{} { return new(phase0.RandaoMixes) }, S.RandaoMixes, func(s sp) view.TypeDef { return phase0.RandaoMixesType(s) }},
	{"phase0.SlashingsHistory", func() interface{} { return new(phase0.SlashingsHistory) }, S.SlashingsHistory, func(s sp) view.TypeDef { return phase0.SlashingsType(s) }},
	{"phase0.RegistryIndices", func() interface{} { return new(phase0.RegistryIndices) }, S.Balances, nil},
	{"phase0.BeaconState", func() interface{} { return new(phase0.BeaconState) }, S.statePhase0, func(s sp) view.TypeDef { return phase0.BeaconStateType(s) }},

	// ---- altair ----
	{"altair.ParticipationFlags", func() interface{} { return new(altair.ParticipationFlags) }, func(S) *T { return U8 }, fix(altair.ParticipationFlagsType)},
	{"altair.ParticipationRegistry", func() interface{} { return new(altair.ParticipationRegistry) }, S.ParticipationRegistry, func(s sp) view.TypeDef { return altair.ParticipationRegistryType(s) }},
	{"altair.InactivityScores", func() interface{} { return new(altair.InactivityScores) }, S.InactivityScores, func(s sp) view.TypeDef { return altair.InactivityScoresType(s) }},
	{"altair.SyncCommitteeBits", func() interface{} { return new(altair.SyncCommitteeBits) }, S.SyncCommitteeBits, func(s sp) view.TypeDef { return altair.SyncCommitteeBitsType(s) }},
	{"altair.SyncAggregate", func() interface{} { return new(altair.SyncAggregate) }, S.SyncAggregate, func(s sp) view.TypeDef { return altair.SyncAggregateType(s) }},
	{"altair.SyncCommitteeMessage", func() interface{} { return new(altair.SyncCommitteeMessage) }, S.SyncCommitteeMessage, fix(altair.SyncCommitteeMessageType)},
	{"altair.SyncCommitteeSubnetBits", func() interface{} { return new(altair.SyncCommitteeSubnetBits) }, S.SyncCommitteeSubnetBits, func(s sp) view.TypeDef { return altair.SyncCommitteeSubnetBitsType(s) }},
	{"altair.SyncCommitteeContribution", func() interface{} { return new(altair.SyncCommitteeContribution) }, S.SyncCommitteeContribution, func(s sp) view.TypeDef { return altair.SyncCommitteeContributionType(s) }},
	{"altair.ContributionAndProof", func() interface{} { return new(altair.ContributionAndProof) }, S.ContributionAndProof, func(s sp) view.TypeDef { return altair.ContributionAndProofType(s) }},
	{"altair.SignedContributionAndProof", func() interface{} { return new(altair.SignedContributionAndProof) }, func(s S) *T { return signed(s.ContributionAndProof()) }, func(s sp) view.TypeDef { return altair.SignedContributionAndProofType(s) }},
	{"altair.SyncAggregatorSelectionData", func() interface{} { return new(altair.SyncAggregatorSelectionData) }, S.SyncAggregatorSelectionData, fix(altair.SyncAggregatorSelectionDataType)},
	{"altair.SyncCommitteeProofBranch", func() interface{} { return new(altair.SyncCommitteeProofBranch) }, func(S) *T { return Vector(B32, 5) }, fix(altair.SyncCommitteeProofBranchType)},
	{"altair.FinalizedRootProofBranch", func() interface{} { return new(altair.FinalizedRootProofBranch) }, func(S) *T { return Vector(B32, 6) }, fix(altair.FinalizedRootProofBranchType)},
	{"altair.LightClientSnapshot", func() interface{} { return new(altair.LightClientSnapshot) }, S.LightClientSnapshot, func(s sp) view.TypeDef { return altair.LightClientSnapshotType(s) }},
	{"altair.LightClientUpdate", func() interface{} { return new(altair.LightClientUpdate) }, S.LightClientUpdate, func(s sp) view.TypeDef { return altair.LightClientUpdateType(s) }},
	{"altair.BeaconBlockBody", func() interface{} { return new(altair.BeaconBlockBody) }, S.bodyAltair, func(s sp) view.TypeDef { return altair.BeaconBlockBodyType(s) }},
	{"altair.BeaconBlock", func() interface{} { return new(altair.BeaconBlock) }, func(s S) *T { return block(s.bodyAltair()) }, func(s sp) view.TypeDef { return altair.BeaconBlockType(s) }},
	{"altair.SignedBeaconBlock", func() interface{} { return new(altair.SignedBeaconBlock) }, func(s S) *T { return signed(block(s.bodyAltair())) }, func(s sp) view.TypeDef { return altair.SignedBeaconBlockType(s) }},
	{"altair.BeaconState", func() interface{} { return new(altair.BeaconState) }, S.stateAltair, func(s sp) view.TypeDef { return altair.BeaconStateType(s) }},

	// ---- bellatrix ----
	{"bellatrix.ExecutionPayload", func() interface{} { return new(bellatrix.ExecutionPayload) }, S.payloadBellatrix, func(s sp) view.TypeDef { return bellatrix.ExecutionPayloadType(s) }},
	{"bellatrix.ExecutionPayloadHeader", func() interface{} { return new(bellatrix.ExecutionPayloadHeader) }, S.headerBellatrix, fix(bellatrix.ExecutionPayloadHeaderType)},
	{"bellatrix.BeaconBlockBody", func() interface{} { return new(bellatrix.BeaconBlockBody) }, S.bodyBellatrix, func(s sp) view.TypeDef { return bellatrix.BeaconBlockBodyType(s) }},
	{"bellatrix.BeaconBlockBodyShallow", func() interface{} { return new(bellatrix.BeaconBlockBodyShallow) }, func(s S) *T { return shallow(s.bodyBellatrix()) }, nil},
	{"bellatrix.BeaconBlock", func() interface{} { return new(bellatrix.BeaconBlock) }, func(s S) *T { return block(s.bodyBellatrix()) }, func(s sp) view.TypeDef { return bellatrix.BeaconBlockType(s) }},
	{"bellatrix.SignedBeaconBlock", func() interface{} { return new(bellatrix.SignedBeaconBlock) }, func(s S) *T { return signed(block(s.bodyBellatrix())) }, func(s sp) view.TypeDef { return bellatrix.SignedBeaconBlockType(s) }},
	{"bellatrix.BeaconState", func() interface{} { return new(bellatrix.BeaconState) }, S.stateBellatrix, func(s sp) view.TypeDef { return bellatrix.BeaconStateType(s) }},

	// ---- capella ----
	{"capella.HistoricalSummary", func() interface{} { return new(capella.HistoricalSummary) }, S.HistoricalSummary, fix(capella.HistoricalSummaryType)},
	{"capella.HistoricalSummaries", func() interface{} { return new(capella.HistoricalSummaries) }, S.HistoricalSummaries, func(s sp) view.TypeDef { return capella.HistoricalSummariesType(s) }},
	{"capella.ExecutionPayload", func() interface{} { return new(capella.ExecutionPayload) }, S.payloadCapella, func(s sp) view.TypeDef { return capella.ExecutionPayloadType(s) }},
	{"capella.ExecutionPayloadHeader", func() interface{} { return new(capella.ExecutionPayloadHeader) }, S.headerCapella, fix(capella.ExecutionPayloadHeaderType)},
	{"capella.BeaconBlockBody", func() interface{} { return new(capella.BeaconBlockBody) }, S.bodyCapella, func(s sp) view.TypeDef { return capella.BeaconBlockBodyType(s) }},
	{"capella.BeaconBlockBodyShallow", func() interface{} { return new(capella.BeaconBlockBodyShallow) }, func(s S) *T { return shallow(s.bodyCapella()) }, nil},
	{"capella.BeaconBlock", func() interface{} { return new(capella.BeaconBlock) }, func(s S) *T { return block(s.bodyCapella()) }, func(s sp) view.TypeDef { return capella.BeaconBlockType(s) }},
	{"capella.SignedBeaconBlock", func() interface{} { return new(capella.SignedBeaconBlock) }, func(s S) *T { return signed(block(s.bodyCapella())) }, func(s sp) view.TypeDef { return capella.SignedBeaconBlockType(s) }},
	{"capella.BeaconState", func() interface{} { return new(capella.BeaconState) }, S.stateCapella, func(s sp) view.TypeDef { return capella.BeaconStateType(s) }},

	// ---- deneb ----
	{"deneb.KZGCommitments", func() interface{} { return new(deneb.KZGCommitments) }, S.KZGCommitments, func(s sp) view.TypeDef { return deneb.KZGCommitmentsType(s) }},
	{"deneb.ExecutionPayload", func() interface{} { return new(deneb.ExecutionPayload) }, S.payloadDeneb, func(s sp) view.TypeDef { return deneb.ExecutionPayloadType(s) }},
	{"deneb.ExecutionPayloadHeader", func() interface{} { return new(deneb.ExecutionPayloadHeader) }, S.headerDeneb, fix(deneb.ExecutionPayloadHeaderType)},
	{"deneb.BeaconBlockBody", func() interface{} { return new(deneb.BeaconBlockBody) }, S.bodyDeneb, func(s sp) view.TypeDef { return deneb.BeaconBlockBodyType(s) }},
	{"deneb.BeaconBlockBodyShallow", func() interface{} { return new(deneb.BeaconBlockBodyShallow) }, func(s S) *T { return shallow(s.bodyDeneb()) }, nil},
	{"deneb.BeaconBlock", func() interface{} { return new(deneb.BeaconBlock) }, func(s S) *T { return block(s.bodyDeneb()) }, func(s sp) view.TypeDef { return deneb.BeaconBlockType(s) }},
	{"deneb.SignedBeaconBlock", func() interface{} { return new(deneb.SignedBeaconBlock) }, func(s S) *T { return signed(block(s.bodyDeneb())) }, func(s sp) view.TypeDef { return deneb.SignedBeaconBlockType(s) }},
	{"deneb.BeaconState", func() interface{} { return new(deneb.BeaconState) }, S.stateDeneb, func(s sp) view.TypeDef { return deneb.BeaconStateType(s) }},

	// ---- electra ----
	{"electra.AttestationBits", func() interface{} { return new(electra.AttestationBits) }, S.ElectraAttestationBits, func(s sp) view.TypeDef { return electra.AttestationBitsType(s) }},
	{"electra.CommitteeBits", func() interface{} { return new(electra.CommitteeBits) }, S.CommitteeBits, func(s sp) view.TypeDef { return electra.CommitteeBitsType(s) }},
	{"electra.Attestation", func() interface{} { return new(electra.Attestation) }, S.ElectraAttestation, func(s sp) view.TypeDef { return electra.AttestationType(s) }},
	{"electra.Attestations", func() interface{} { return new(electra.Attestations) }, S.ElectraAttestations, func(s sp) view.TypeDef { return electra.BlockAttestationsType(s) }},
	{"electra.IndexedAttestation", func() interface{} { return new(electra.IndexedAttestation) }, S.ElectraIndexedAttestation, func(s sp) view.TypeDef { return electra.IndexedAttestationType(s) }},
	{"electra.AttesterSlashing", func() interface{} { return new(electra.AttesterSlashing) }, S.ElectraAttesterSlashing, func(s sp) view.TypeDef { return electra.AttesterSlashingType(s) }},
	{"electra.AttesterSlashings", func() interface{} { return new(electra.AttesterSlashings) }, S.ElectraAttesterSlashings, func(s sp) view.TypeDef { return electra.BlockAttesterSlashingsType(s) }},
	{"electra.SingleAttestation", func() interface{} { return new(electra.SingleAttestation) }, S.SingleAttestation, fix(electra.SingleAttestationType)},
	{"electra.AggregateAndProof", func() interface{} { return new(electra.AggregateAndProof) }, S.ElectraAggregateAndProof, nil},
	{"electra.SignedAggregateAndProof", func() interface{} { return new(electra.SignedAggregateAndProof) }, func(s S) *T { return signed(s.ElectraAggregateAndProof()) }, nil},
	{"electra.ExecutionRequests", func() interface{} { return new(electra.ExecutionRequests) }, S.ExecutionRequests, func(s sp) view.TypeDef { return electra.ExecutionRequestsType(s) }},
	{"electra.BeaconBlockBody", func() interface{} { return new(electra.BeaconBlockBody) }, S.bodyElectra, func(s sp) view.TypeDef { return electra.BeaconBlockBodyType(s) }},
	{"electra.BeaconBlockBodyShallow", func() interface{} { return new(electra.BeaconBlockBodyShallow) }, func(s S) *T { return shallow(s.bodyElectra()) }, nil},
	{"electra.BeaconBlock", func() interface{} { return new(electra.BeaconBlock) }, func(s S) *T { return block(s.bodyElectra()) }, func(s sp) view.TypeDef { return electra.BeaconBlockType(s) }},
	{"electra.SignedBeaconBlock", func() interface{} { return new(electra.SignedBeaconBlock) }, func(s S) *T { return signed(block(s.bodyElectra())) }, func(s sp) view.TypeDef { return electra.SignedBeaconBlockType(s) }},
	{"electra.BeaconState", func() interface{} { return new(electra.BeaconState) }, S.stateElectra, func(s sp) view.TypeDef { return electra.BeaconStateType(s) }},
}
