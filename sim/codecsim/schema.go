package codecsim

import (
	"github.com/protolambda/zrnt/eth2/beacon/common"
)

// The schema of every SSZ type, transcribed from the consensus specification (phase0 ... electra,
// p2p interface, light client sync protocol of the version the library implements). Limits and
// lengths are read from the run's configuration; the constants the specification fixes outside
// presets are written out here.
//
// Types without a specification counterpart (the "shallow" block bodies, Deltas, the index lists
// used by the library's API) are described by what their documentation says they are.

const (
	depositProofLen      = 32 + 1 // DEPOSIT_CONTRACT_TREE_DEPTH + 1
	justificationBitsLen = 4
	attnetCount          = 64
	syncnetCount         = 4
)

type S struct{ *common.Spec }

// ---- phase0 ----

func (s S) Checkpoint() *T { return Container(F("epoch", U64), F("root", B32)) }
func (s S) Fork() *T {
	return Container(F("previous_version", B4), F("current_version", B4), F("epoch", U64))
}
func (s S) ForkData() *T {
	return Container(F("current_version", B4), F("genesis_validators_root", B32))
}
func (s S) SigningData() *T { return Container(F("object_root", B32), F("domain", B32)) }
func (s S) Eth1Data() *T {
	return Container(F("deposit_root", B32), F("deposit_count", U64), F("block_hash", B32))
}
func (s S) BeaconBlockHeader() *T {
	return Container(F("slot", U64), F("proposer_index", U64), F("parent_root", B32), F("state_root", B32), F("body_root", B32))
}
func (s S) SignedBeaconBlockHeader() *T {
	return Container(F("message", s.BeaconBlockHeader()), F("signature", B96))
}
func (s S) Validator() *T {
	return Container(F("pubkey", B48), F("withdrawal_credentials", B32), F("effective_balance", U64), F("slashed", Bool),
		F("activation_eligibility_epoch", U64), F("activation_epoch", U64), F("exit_epoch", U64), F("withdrawable_epoch", U64))
}
func (s S) AttestationData() *T {
	return Container(F("slot", U64), F("index", U64), F("beacon_block_root", B32), F("source", s.Checkpoint()), F("target", s.Checkpoint()))
}
func (s S) AttestationBits() *T { return Bitlist(uint64(s.MAX_VALIDATORS_PER_COMMITTEE)) }
func (s S) Attestation() *T {
	return Container(F("aggregation_bits", s.AttestationBits()), F("data", s.AttestationData()), F("signature", B96))
}
func (s S) CommitteeIndices() *T { return List(U64, uint64(s.MAX_VALIDATORS_PER_COMMITTEE)) }
func (s S) IndexedAttestation() *T {
	return Container(F("attesting_indices", s.CommitteeIndices()), F("data", s.AttestationData()), F("signature", B96))
}
func (s S) PendingAttestation() *T {
	return Container(F("aggregation_bits", s.AttestationBits()), F("data", s.AttestationData()), F("inclusion_delay", U64), F("proposer_index", U64))
}
func (s S) ProposerSlashing() *T {
	return Container(F("signed_header_1", s.SignedBeaconBlockHeader()), F("signed_header_2", s.SignedBeaconBlockHeader()))
}
func (s S) AttesterSlashing() *T {
	return Container(F("attestation_1", s.IndexedAttestation()), F("attestation_2", s.IndexedAttestation()))
}
func (s S) DepositMessage() *T {
	return Container(F("pubkey", B48), F("withdrawal_credentials", B32), F("amount", U64))
}
func (s S) DepositData() *T {
	return Container(F("pubkey", B48), F("withdrawal_credentials", B32), F("amount", U64), F("signature", B96))
}
func (s S) DepositProof() *T { return Vector(B32, depositProofLen) }
func (s S) Deposit() *T      { return Container(F("proof", s.DepositProof()), F("data", s.DepositData())) }
func (s S) VoluntaryExit() *T {
	return Container(F("epoch", U64), F("validator_index", U64))
}
func (s S) SignedVoluntaryExit() *T {
	return Container(F("message", s.VoluntaryExit()), F("signature", B96))
}
func (s S) ProposerSlashings() *T {
	return List(s.ProposerSlashing(), uint64(s.MAX_PROPOSER_SLASHINGS))
}
func (s S) AttesterSlashings() *T {
	return List(s.AttesterSlashing(), uint64(s.MAX_ATTESTER_SLASHINGS))
}
func (s S) Attestations() *T   { return List(s.Attestation(), uint64(s.MAX_ATTESTATIONS)) }
func (s S) Deposits() *T       { return List(s.Deposit(), uint64(s.MAX_DEPOSITS)) }
func (s S) VoluntaryExits() *T { return List(s.SignedVoluntaryExit(), uint64(s.MAX_VOLUNTARY_EXITS)) }

func (s S) bodyPhase0() *T {
	return Container(F("randao_reveal", B96), F("eth1_data", s.Eth1Data()), F("graffiti", B32),
		F("proposer_slashings", s.ProposerSlashings()), F("attester_slashings", s.AttesterSlashings()),
		F("attestations", s.Attestations()), F("deposits", s.Deposits()), F("voluntary_exits", s.VoluntaryExits()))
}
func block(body *T) *T {
	return Container(F("slot", U64), F("proposer_index", U64), F("parent_root", B32), F("state_root", B32), F("body", body))
}
func signed(msg *T) *T { return Container(F("message", msg), F("signature", B96)) }

func (s S) HistoricalBatchRoots() *T { return Vector(B32, uint64(s.SLOTS_PER_HISTORICAL_ROOT)) }
func (s S) HistoricalBatch() *T {
	return Container(F("block_roots", s.HistoricalBatchRoots()), F("state_roots", s.HistoricalBatchRoots()))
}
func (s S) HistoricalRoots() *T { return List(B32, uint64(s.HISTORICAL_ROOTS_LIMIT)) }
func (s S) Eth1DataVotes() *T {
	return List(s.Eth1Data(), uint64(s.EPOCHS_PER_ETH1_VOTING_PERIOD)*uint64(s.SLOTS_PER_EPOCH))
}
func (s S) ValidatorRegistry() *T { return List(s.Validator(), uint64(s.VALIDATOR_REGISTRY_LIMIT)) }
func (s S) Balances() *T          { return List(U64, uint64(s.VALIDATOR_REGISTRY_LIMIT)) }
func (s S) RandaoMixes() *T       { return Vector(B32, uint64(s.EPOCHS_PER_HISTORICAL_VECTOR)) }
func (s S) SlashingsHistory() *T  { return Vector(U64, uint64(s.EPOCHS_PER_SLASHINGS_VECTOR)) }
func (s S) PendingAttestations() *T {
	return List(s.PendingAttestation(), uint64(s.MAX_ATTESTATIONS)*uint64(s.SLOTS_PER_EPOCH))
}
func (s S) JustificationBits() *T { return Bitvector(justificationBitsLen) }

func (s S) stateHead() []Field {
	return []Field{
		F("genesis_time", U64), F("genesis_validators_root", B32), F("slot", U64), F("fork", s.Fork()),
		F("latest_block_header", s.BeaconBlockHeader()), F("block_roots", s.HistoricalBatchRoots()), F("state_roots", s.HistoricalBatchRoots()),
		F("historical_roots", s.HistoricalRoots()),
		F("eth1_data", s.Eth1Data()), F("eth1_data_votes", s.Eth1DataVotes()), F("eth1_deposit_index", U64),
		F("validators", s.ValidatorRegistry()), F("balances", s.Balances()),
		F("randao_mixes", s.RandaoMixes()), F("slashings", s.SlashingsHistory()),
	}
}
func (s S) stateJustification() []Field {
	return []Field{
		F("justification_bits", s.JustificationBits()),
		F("previous_justified_checkpoint", s.Checkpoint()), F("current_justified_checkpoint", s.Checkpoint()), F("finalized_checkpoint", s.Checkpoint()),
	}
}
func (s S) statePhase0() *T {
	f := s.stateHead()
	f = append(f, F("previous_epoch_attestations", s.PendingAttestations()), F("current_epoch_attestations", s.PendingAttestations()))
	f = append(f, s.stateJustification()...)
	return Container(f...)
}
func (s S) AggregateAndProof() *T {
	return Container(F("aggregator_index", U64), F("aggregate", s.Attestation()), F("selection_proof", B96))
}

// ---- altair ----

func (s S) SyncCommitteeBits() *T { return Bitvector(uint64(s.SYNC_COMMITTEE_SIZE)) }
func (s S) SyncAggregate() *T {
	return Container(F("sync_committee_bits", s.SyncCommitteeBits()), F("sync_committee_signature", B96))
}
func (s S) SyncCommitteePubkeys() *T { return Vector(B48, uint64(s.SYNC_COMMITTEE_SIZE)) }
func (s S) SyncCommittee() *T {
	return Container(F("pubkeys", s.SyncCommitteePubkeys()), F("aggregate_pubkey", B48))
}
func (s S) ParticipationRegistry() *T { return List(U8, uint64(s.VALIDATOR_REGISTRY_LIMIT)) }
func (s S) InactivityScores() *T      { return List(U64, uint64(s.VALIDATOR_REGISTRY_LIMIT)) }
func (s S) stateAltairFields() []Field {
	f := s.stateHead()
	f = append(f, F("previous_epoch_participation", s.ParticipationRegistry()), F("current_epoch_participation", s.ParticipationRegistry()))
	f = append(f, s.stateJustification()...)
	f = append(f, F("inactivity_scores", s.InactivityScores()), F("current_sync_committee", s.SyncCommittee()), F("next_sync_committee", s.SyncCommittee()))
	return f
}
func (s S) stateAltair() *T { return Container(s.stateAltairFields()...) }
func (s S) bodyAltair() *T  { return s.bodyPhase0().With(F("sync_aggregate", s.SyncAggregate())) }
func (s S) SyncCommitteeMessage() *T {
	return Container(F("slot", U64), F("beacon_block_root", B32), F("validator_index", U64), F("signature", B96))
}
func (s S) SyncCommitteeSubnetBits() *T {
	return Bitvector(uint64(s.SYNC_COMMITTEE_SIZE) / syncnetCount)
}
func (s S) SyncCommitteeContribution() *T {
	return Container(F("slot", U64), F("beacon_block_root", B32), F("subcommittee_index", U64),
		F("aggregation_bits", s.SyncCommitteeSubnetBits()), F("signature", B96))
}
func (s S) ContributionAndProof() *T {
	return Container(F("aggregator_index", U64), F("contribution", s.SyncCommitteeContribution()), F("selection_proof", B96))
}
func (s S) SyncAggregatorSelectionData() *T {
	return Container(F("slot", U64), F("subcommittee_index", U64))
}
func (s S) LightClientSnapshot() *T {
	return Container(F("header", s.BeaconBlockHeader()), F("current_sync_committee", s.SyncCommittee()), F("next_sync_committee", s.SyncCommittee()))
}
func (s S) LightClientUpdate() *T {
	// floorlog2(NEXT_SYNC_COMMITTEE_INDEX) = 5, floorlog2(FINALIZED_ROOT_INDEX) = 6
	return Container(F("attested_header", s.BeaconBlockHeader()), F("next_sync_committee", s.SyncCommittee()),
		F("next_sync_committee_branch", Vector(B32, 5)), F("finalized_header", s.BeaconBlockHeader()),
		F("finality_branch", Vector(B32, 6)), F("sync_aggregate", s.SyncAggregate()), F("signature_slot", U64))
}

// ---- bellatrix ----

func (s S) Transaction() *T { return ByteList(uint64(s.MAX_BYTES_PER_TRANSACTION)) }
func (s S) PayloadTransactions() *T {
	return List(s.Transaction(), uint64(s.MAX_TRANSACTIONS_PER_PAYLOAD))
}
func (s S) LogsBloom() *T { return Bytes(uint64(s.BYTES_PER_LOGS_BLOOM)) }
func (s S) ExtraData() *T { return ByteList(uint64(s.MAX_EXTRA_DATA_BYTES)) }
func (s S) payloadHead() []Field {
	return []Field{
		F("parent_hash", B32), F("fee_recipient", B20), F("state_root", B32), F("receipts_root", B32),
		F("logs_bloom", s.LogsBloom()), F("prev_randao", B32), F("block_number", U64), F("gas_limit", U64),
		F("gas_used", U64), F("timestamp", U64), F("extra_data", s.ExtraData()), F("base_fee_per_gas", U256), F("block_hash", B32),
	}
}
func (s S) payloadBellatrix() *T {
	return Container(append(s.payloadHead(), F("transactions", s.PayloadTransactions()))...)
}
func (s S) headerBellatrix() *T {
	return Container(append(s.payloadHead(), F("transactions_root", B32))...)
}
func (s S) bodyBellatrix() *T {
	return s.bodyAltair().With(F("execution_payload", s.payloadBellatrix()))
}
func (s S) stateBellatrix() *T {
	return Container(append(s.stateAltairFields(), F("latest_execution_payload_header", s.headerBellatrix()))...)
}

// ---- capella ----

func (s S) Withdrawal() *T {
	return Container(F("index", U64), F("validator_index", U64), F("address", B20), F("amount", U64))
}
func (s S) Withdrawals() *T { return List(s.Withdrawal(), uint64(s.MAX_WITHDRAWALS_PER_PAYLOAD)) }
func (s S) BLSToExecutionChange() *T {
	return Container(F("validator_index", U64), F("from_bls_pubkey", B48), F("to_execution_address", B20))
}
func (s S) SignedBLSToExecutionChange() *T { return signed(s.BLSToExecutionChange()) }
func (s S) SignedBLSToExecutionChanges() *T {
	return List(s.SignedBLSToExecutionChange(), uint64(s.MAX_BLS_TO_EXECUTION_CHANGES))
}
func (s S) HistoricalSummary() *T {
	return Container(F("block_summary_root", B32), F("state_summary_root", B32))
}
func (s S) HistoricalSummaries() *T {
	return List(s.HistoricalSummary(), uint64(s.HISTORICAL_ROOTS_LIMIT))
}
func (s S) payloadCapella() *T { return s.payloadBellatrix().With(F("withdrawals", s.Withdrawals())) }
func (s S) headerCapella() *T  { return s.headerBellatrix().With(F("withdrawals_root", B32)) }
func (s S) bodyCapella() *T {
	return s.bodyAltair().With(F("execution_payload", s.payloadCapella()), F("bls_to_execution_changes", s.SignedBLSToExecutionChanges()))
}
func (s S) stateCapellaTail() []Field {
	return []Field{F("next_withdrawal_index", U64), F("next_withdrawal_validator_index", U64), F("historical_summaries", s.HistoricalSummaries())}
}
func (s S) stateCapella() *T {
	f := append(s.stateAltairFields(), F("latest_execution_payload_header", s.headerCapella()))
	return Container(append(f, s.stateCapellaTail()...)...)
}

// ---- deneb ----

func (s S) KZGCommitments() *T { return List(B48, uint64(s.MAX_BLOB_COMMITMENTS_PER_BLOCK)) }
func (s S) payloadDeneb() *T {
	return s.payloadCapella().With(F("blob_gas_used", U64), F("excess_blob_gas", U64))
}
func (s S) headerDeneb() *T {
	return s.headerCapella().With(F("blob_gas_used", U64), F("excess_blob_gas", U64))
}
func (s S) bodyDeneb() *T {
	return s.bodyAltair().With(F("execution_payload", s.payloadDeneb()), F("bls_to_execution_changes", s.SignedBLSToExecutionChanges()),
		F("blob_kzg_commitments", s.KZGCommitments()))
}
func (s S) stateDeneb() *T {
	f := append(s.stateAltairFields(), F("latest_execution_payload_header", s.headerDeneb()))
	return Container(append(f, s.stateCapellaTail()...)...)
}

// ---- electra ----

func (s S) DepositRequest() *T {
	return Container(F("pubkey", B48), F("withdrawal_credentials", B32), F("amount", U64), F("signature", B96), F("index", U64))
}
func (s S) WithdrawalRequest() *T {
	return Container(F("source_address", B20), F("validator_pubkey", B48), F("amount", U64))
}
func (s S) ConsolidationRequest() *T {
	return Container(F("source_address", B20), F("source_pubkey", B48), F("target_pubkey", B48))
}
func (s S) DepositRequests() *T {
	return List(s.DepositRequest(), uint64(s.MAX_DEPOSIT_REQUESTS_PER_PAYLOAD))
}
func (s S) WithdrawalRequests() *T {
	return List(s.WithdrawalRequest(), uint64(s.MAX_WITHDRAWAL_REQUESTS_PER_PAYLOAD))
}
func (s S) ConsolidationRequests() *T {
	return List(s.ConsolidationRequest(), uint64(s.MAX_CONSOLIDATION_REQUESTS_PER_PAYLOAD))
}
func (s S) ExecutionRequests() *T {
	return Container(F("deposits", s.DepositRequests()), F("withdrawals", s.WithdrawalRequests()), F("consolidations", s.ConsolidationRequests()))
}
func (s S) PendingDeposit() *T {
	return Container(F("pubkey", B48), F("withdrawal_credentials", B32), F("amount", U64), F("signature", B96), F("slot", U64))
}
func (s S) PendingPartialWithdrawal() *T {
	return Container(F("validator_index", U64), F("amount", U64), F("withdrawable_epoch", U64))
}
func (s S) PendingConsolidation() *T {
	return Container(F("source_index", U64), F("target_index", U64))
}
func (s S) PendingDeposits() *T { return List(s.PendingDeposit(), uint64(s.PENDING_DEPOSITS_LIMIT)) }
func (s S) PendingPartialWithdrawals() *T {
	return List(s.PendingPartialWithdrawal(), uint64(s.PENDING_PARTIAL_WITHDRAWALS_LIMIT))
}
func (s S) PendingConsolidations() *T {
	return List(s.PendingConsolidation(), uint64(s.PENDING_CONSOLIDATIONS_LIMIT))
}
func (s S) slotCommitteeLimit() uint64 {
	return uint64(s.MAX_VALIDATORS_PER_COMMITTEE) * uint64(s.MAX_COMMITTEES_PER_SLOT)
}
func (s S) ElectraAttestationBits() *T { return Bitlist(s.slotCommitteeLimit()) }
func (s S) CommitteeBits() *T          { return Bitvector(uint64(s.MAX_COMMITTEES_PER_SLOT)) }
func (s S) ElectraAttestation() *T {
	return Container(F("aggregation_bits", s.ElectraAttestationBits()), F("data", s.AttestationData()), F("signature", B96), F("committee_bits", s.CommitteeBits()))
}
func (s S) SlotCommitteeIndices() *T { return List(U64, s.slotCommitteeLimit()) }
func (s S) ElectraIndexedAttestation() *T {
	return Container(F("attesting_indices", s.SlotCommitteeIndices()), F("data", s.AttestationData()), F("signature", B96))
}
func (s S) ElectraAttesterSlashing() *T {
	return Container(F("attestation_1", s.ElectraIndexedAttestation()), F("attestation_2", s.ElectraIndexedAttestation()))
}
func (s S) SingleAttestation() *T {
	return Container(F("committee_index", U64), F("attester_index", U64), F("data", s.AttestationData()), F("signature", B96))
}
func (s S) ElectraAttestations() *T {
	return List(s.ElectraAttestation(), uint64(s.MAX_ATTESTATIONS_ELECTRA))
}
func (s S) ElectraAttesterSlashings() *T {
	return List(s.ElectraAttesterSlashing(), uint64(s.MAX_ATTESTER_SLASHINGS_ELECTRA))
}
func (s S) ElectraAggregateAndProof() *T {
	return Container(F("aggregator_index", U64), F("aggregate", s.ElectraAttestation()), F("selection_proof", B96))
}
func (s S) bodyElectra() *T {
	return Container(F("randao_reveal", B96), F("eth1_data", s.Eth1Data()), F("graffiti", B32),
		F("proposer_slashings", s.ProposerSlashings()), F("attester_slashings", s.ElectraAttesterSlashings()),
		F("attestations", s.ElectraAttestations()), F("deposits", s.Deposits()), F("voluntary_exits", s.VoluntaryExits()),
		F("sync_aggregate", s.SyncAggregate()), F("execution_payload", s.payloadDeneb()),
		F("bls_to_execution_changes", s.SignedBLSToExecutionChanges()), F("blob_kzg_commitments", s.KZGCommitments()),
		F("execution_requests", s.ExecutionRequests()))
}
func (s S) stateElectra() *T {
	return s.stateDeneb().With(F("deposit_requests_start_index", U64), F("deposit_balance_to_consume", U64),
		F("exit_balance_to_consume", U64), F("earliest_exit_epoch", U64), F("consolidation_balance_to_consume", U64),
		F("earliest_consolidation_epoch", U64), F("pending_deposits", s.PendingDeposits()),
		F("pending_partial_withdrawals", s.PendingPartialWithdrawals()), F("pending_consolidations", s.PendingConsolidations()))
}

// ---- library-specific shapes ----

// shallow bodies: the body with the execution payload replaced by its root (same hash-tree-root as the full body)
func shallow(body *T) *T {
	out := &T{Kind: KContainer}
	for _, f := range body.Fields {
		if f.Name == "execution_payload" {
			out.Fields = append(out.Fields, F("execution_payload_root", B32))
		} else {
			out.Fields = append(out.Fields, f)
		}
	}
	return out
}
func (s S) Deltas() *T {
	return Container(F("rewards", List(U64, uint64(s.VALIDATOR_REGISTRY_LIMIT))), F("penalties", List(U64, uint64(s.VALIDATOR_REGISTRY_LIMIT))))
}

// ---- p2p interface ----

func (s S) Eth2Data() *T {
	return Container(F("fork_digest", B4), F("next_fork_version", B4), F("next_fork_epoch", U64))
}
func (s S) MetaData() *T {
	return Container(F("seq_number", U64), F("attnets", Bitvector(attnetCount)), F("syncnets", Bitvector(syncnetCount)))
}
func (s S) Status() *T {
	return Container(F("fork_digest", B4), F("finalized_root", B32), F("finalized_epoch", U64), F("head_root", B32), F("head_slot", U64))
}
