package codecsim

import (
	"bytes"
	"encoding/binary"
	"encoding/json"
	"errors"
	"fmt"
	"io"
	"reflect"
	"strings"

	"github.com/protolambda/zrnt/eth2/beacon/common"
	"github.com/protolambda/zrnt/eth2/configs"
	"github.com/protolambda/ztyp/codec"
	"github.com/protolambda/ztyp/tree"
	"github.com/protolambda/ztyp/view"
	"gopkg.in/yaml.v3"

	"verif/sim/core"
)

// Unit: one record of the simulated object store: a value of one type (generated from VSeed by the
// schema generator), written and read back through the faulty streams chosen by FSeed.
type Unit struct {
	Type  string `json:"type"`
	VSeed uint64 `json:"vseed"`
	Size  int    `json:"size"`
	FSeed uint64 `json:"fseed"`
}

type Config struct {
	Preset string            `json:"preset"` // mainnet | minimal | custom
	Knobs  map[string]uint64 `json:"knobs,omitempty"`
}

var byName = func() map[string]*entry {
	m := map[string]*entry{}
	for i := range registry {
		m[registry[i].Name] = &registry[i]
	}
	return m
}()

// DefaultRoot: hash_tree_root of the default value of a registered type under spec, by the
// specification's schema (the harness's own merkleisation).
func DefaultRoot(spec *common.Spec, name string) ([32]byte, bool) {
	e := byName[name]
	if e == nil {
		return [32]byte{}, false
	}
	t := e.Schema(S{spec})
	r, err := Parse(t, Default(t))
	return r, err == nil
}

// TypeNames: every registered type (for the coverage report).
func TypeNames() []string {
	out := make([]string, len(registry))
	for i := range registry {
		out[i] = registry[i].Name
	}
	return out
}

func Generate(seed uint64, opt core.Options) (*Config, []Unit) {
	rng := core.NewRng(seed)
	cfg := &Config{}
	switch rng.Intn(5) {
	case 0:
		cfg.Preset = "mainnet"
	case 1:
		cfg.Preset = "minimal"
	default:
		cfg.Preset = "custom"
		cfg.Knobs = map[string]uint64{}
		pick := func(name string, vals ...uint64) { cfg.Knobs[name] = vals[rng.Intn(len(vals))] }
		pick("SLOTS_PER_EPOCH", 2, 4, 8, 32)
		pick("SLOTS_PER_HISTORICAL_ROOT", 2, 3, 8, 64, 100)
		pick("EPOCHS_PER_HISTORICAL_VECTOR", 1, 5, 16, 64)
		pick("EPOCHS_PER_SLASHINGS_VECTOR", 1, 3, 4, 5, 64)
		pick("EPOCHS_PER_ETH1_VOTING_PERIOD", 1, 2, 5)
		pick("HISTORICAL_ROOTS_LIMIT", 1, 3, 16, 1<<24)
		pick("VALIDATOR_REGISTRY_LIMIT", 5, 64, 1000, 1<<40)
		pick("SYNC_COMMITTEE_SIZE", 4, 8, 12, 20, 32, 36, 512)
		pick("MAX_VALIDATORS_PER_COMMITTEE", 1, 5, 8, 13, 2048)
		pick("MAX_COMMITTEES_PER_SLOT", 1, 3, 4, 9, 64)
		pick("MAX_PROPOSER_SLASHINGS", 1, 2, 16)
		pick("MAX_ATTESTER_SLASHINGS", 1, 2, 3)
		pick("MAX_ATTESTATIONS", 1, 2, 5, 128)
		pick("MAX_DEPOSITS", 1, 2, 16)
		pick("MAX_VOLUNTARY_EXITS", 1, 3, 16)
		pick("MAX_BYTES_PER_TRANSACTION", 1, 7, 64, 1<<30)
		pick("MAX_TRANSACTIONS_PER_PAYLOAD", 1, 3, 1<<20)
		pick("MAX_WITHDRAWALS_PER_PAYLOAD", 1, 3, 16)
		pick("MAX_BLS_TO_EXECUTION_CHANGES", 1, 2, 16)
		pick("MAX_BLOB_COMMITMENTS_PER_BLOCK", 1, 3, 16, 4096)
		pick("MAX_ATTESTER_SLASHINGS_ELECTRA", 1, 2)
		pick("MAX_ATTESTATIONS_ELECTRA", 1, 3, 8)
		pick("MAX_DEPOSIT_REQUESTS_PER_PAYLOAD", 1, 3, 8192)
		pick("MAX_WITHDRAWAL_REQUESTS_PER_PAYLOAD", 1, 2, 16)
		pick("MAX_CONSOLIDATION_REQUESTS_PER_PAYLOAD", 1, 2, 5)
		pick("PENDING_DEPOSITS_LIMIT", 1, 3, 1<<27)
		pick("PENDING_PARTIAL_WITHDRAWALS_LIMIT", 1, 2, 1<<27)
		pick("PENDING_CONSOLIDATIONS_LIMIT", 1, 4, 1<<18)
	}
	n := rng.Range(40, 120)
	if opt.Tier == "thorough" {
		n = rng.Range(80, 300)
	}
	only := opt.Params["type"]
	units := make([]Unit, 0, n)
	for i := 0; i < n; i++ {
		e := &registry[rng.Intn(len(registry))]
		if only != "" {
			e = byName[only]
		}
		size := []int{0, 1, 2, 3, 5, 9, 17}[rng.Intn(7)]
		units = append(units, Unit{Type: e.Name, VSeed: rng.U64(), Size: size, FSeed: rng.U64()})
	}
	return cfg, units
}

func (c *Config) BuildSpec() *common.Spec {
	var base *common.Spec
	if c.Preset == "mainnet" {
		base = configs.Mainnet
	} else {
		base = configs.Minimal
	}
	s := *base
	for k, v := range c.Knobs {
		switch k {
		case "SLOTS_PER_EPOCH":
			s.SLOTS_PER_EPOCH = common.Slot(v)
		case "SLOTS_PER_HISTORICAL_ROOT":
			s.SLOTS_PER_HISTORICAL_ROOT = common.Slot(v)
		case "EPOCHS_PER_HISTORICAL_VECTOR":
			s.EPOCHS_PER_HISTORICAL_VECTOR = common.Epoch(v)
		case "EPOCHS_PER_SLASHINGS_VECTOR":
			s.EPOCHS_PER_SLASHINGS_VECTOR = common.Epoch(v)
		case "EPOCHS_PER_ETH1_VOTING_PERIOD":
			s.EPOCHS_PER_ETH1_VOTING_PERIOD = common.Epoch(v)
		case "HISTORICAL_ROOTS_LIMIT":
			s.HISTORICAL_ROOTS_LIMIT = view.Uint64View(v)
		case "VALIDATOR_REGISTRY_LIMIT":
			s.VALIDATOR_REGISTRY_LIMIT = view.Uint64View(v)
		case "SYNC_COMMITTEE_SIZE":
			s.SYNC_COMMITTEE_SIZE = view.Uint64View(v)
		case "MAX_VALIDATORS_PER_COMMITTEE":
			s.MAX_VALIDATORS_PER_COMMITTEE = view.Uint64View(v)
		case "MAX_COMMITTEES_PER_SLOT":
			s.MAX_COMMITTEES_PER_SLOT = view.Uint64View(v)
		case "MAX_PROPOSER_SLASHINGS":
			s.MAX_PROPOSER_SLASHINGS = view.Uint64View(v)
		case "MAX_ATTESTER_SLASHINGS":
			s.MAX_ATTESTER_SLASHINGS = view.Uint64View(v)
		case "MAX_ATTESTATIONS":
			s.MAX_ATTESTATIONS = view.Uint64View(v)
		case "MAX_DEPOSITS":
			s.MAX_DEPOSITS = view.Uint64View(v)
		case "MAX_VOLUNTARY_EXITS":
			s.MAX_VOLUNTARY_EXITS = view.Uint64View(v)
		case "MAX_BYTES_PER_TRANSACTION":
			s.MAX_BYTES_PER_TRANSACTION = view.Uint64View(v)
		case "MAX_TRANSACTIONS_PER_PAYLOAD":
			s.MAX_TRANSACTIONS_PER_PAYLOAD = view.Uint64View(v)
		case "MAX_WITHDRAWALS_PER_PAYLOAD":
			s.MAX_WITHDRAWALS_PER_PAYLOAD = view.Uint64View(v)
		case "MAX_BLS_TO_EXECUTION_CHANGES":
			s.MAX_BLS_TO_EXECUTION_CHANGES = view.Uint64View(v)
		case "MAX_BLOB_COMMITMENTS_PER_BLOCK":
			s.MAX_BLOB_COMMITMENTS_PER_BLOCK = view.Uint64View(v)
		case "MAX_ATTESTER_SLASHINGS_ELECTRA":
			s.MAX_ATTESTER_SLASHINGS_ELECTRA = view.Uint64View(v)
		case "MAX_ATTESTATIONS_ELECTRA":
			s.MAX_ATTESTATIONS_ELECTRA = view.Uint64View(v)
		case "MAX_DEPOSIT_REQUESTS_PER_PAYLOAD":
			s.MAX_DEPOSIT_REQUESTS_PER_PAYLOAD = view.Uint64View(v)
		case "MAX_WITHDRAWAL_REQUESTS_PER_PAYLOAD":
			s.MAX_WITHDRAWAL_REQUESTS_PER_PAYLOAD = view.Uint64View(v)
		case "MAX_CONSOLIDATION_REQUESTS_PER_PAYLOAD":
			s.MAX_CONSOLIDATION_REQUESTS_PER_PAYLOAD = view.Uint64View(v)
		case "PENDING_DEPOSITS_LIMIT":
			s.PENDING_DEPOSITS_LIMIT = view.Uint64View(v)
		case "PENDING_PARTIAL_WITHDRAWALS_LIMIT":
			s.PENDING_PARTIAL_WITHDRAWALS_LIMIT = view.Uint64View(v)
		case "PENDING_CONSOLIDATIONS_LIMIT":
			s.PENDING_CONSOLIDATIONS_LIMIT = view.Uint64View(v)
		}
	}
	return &s
}

// ---- the library object behind one interface ----

type (
	specDeser interface {
		Deserialize(spec *common.Spec, dr *codec.DecodingReader) error
	}
	plainDeser interface {
		Deserialize(dr *codec.DecodingReader) error
	}
	specSer interface {
		Serialize(spec *common.Spec, w *codec.EncodingWriter) error
	}
	plainSer interface {
		Serialize(w *codec.EncodingWriter) error
	}
	specBL interface {
		ByteLength(spec *common.Spec) uint64
	}
	plainBL interface{ ByteLength() uint64 }
	specFL  interface {
		FixedLength(spec *common.Spec) uint64
	}
	plainFL interface{ FixedLength() uint64 }
	specHTR interface {
		HashTreeRoot(spec *common.Spec, hFn tree.HashFn) common.Root
	}
	plainHTR interface {
		HashTreeRoot(hFn tree.HashFn) common.Root
	}
)

// lib: the library's object; each of the five hand-written methods exists in a configuration-bound
// and a plain form, and a type may mix them.
type lib struct {
	spec *common.Spec
	v    interface{}
}

func (l lib) deserialize(r io.Reader, scope uint64) error {
	dr := codec.NewDecodingReader(r, scope)
	switch o := l.v.(type) {
	case specDeser:
		return o.Deserialize(l.spec, dr)
	case plainDeser:
		return o.Deserialize(dr)
	}
	return errHarness
}
func (l lib) serialize(w io.Writer) error {
	ew := codec.NewEncodingWriter(w)
	switch o := l.v.(type) {
	case specSer:
		return o.Serialize(l.spec, ew)
	case plainSer:
		return o.Serialize(ew)
	}
	return errHarness
}
func (l lib) byteLength() (uint64, bool) {
	switch o := l.v.(type) {
	case specBL:
		return o.ByteLength(l.spec), true
	case plainBL:
		return o.ByteLength(), true
	}
	return 0, false
}
func (l lib) fixedLength() (uint64, bool) {
	switch o := l.v.(type) {
	case specFL:
		return o.FixedLength(l.spec), true
	case plainFL:
		return o.FixedLength(), true
	}
	return 0, false
}
func (l lib) root() (common.Root, bool) {
	hFn := tree.GetHashFn()
	switch o := l.v.(type) {
	case specHTR:
		return o.HashTreeRoot(l.spec, hFn), true
	case plainHTR:
		return o.HashTreeRoot(hFn), true
	}
	return common.Root{}, false
}

var errHarness = errors.New("harness: the registered type implements neither codec interface")

// ---- faulty streams ----

// chunkReader delivers the data in short reads of PRNG-chosen sizes and can fail at byte failAt.
type chunkReader struct {
	data   []byte
	pos    int
	rng    *core.Rng
	failAt int // -1: never
	reads  int
}

var errInjectedRead = errors.New("injected read error")
var errInjectedWrite = errors.New("injected write error")

func (c *chunkReader) Read(p []byte) (int, error) {
	if c.failAt >= 0 && c.pos >= c.failAt {
		return 0, errInjectedRead
	}
	if c.pos >= len(c.data) {
		return 0, io.EOF
	}
	n := len(p)
	if c.rng != nil && n > 1 {
		n = 1 + c.rng.Intn(n)
	}
	if n > len(c.data)-c.pos {
		n = len(c.data) - c.pos
	}
	if c.failAt >= 0 && c.pos+n > c.failAt {
		n = c.failAt - c.pos
		if n == 0 {
			return 0, errInjectedRead
		}
	}
	copy(p, c.data[c.pos:c.pos+n])
	c.pos += n
	c.reads++
	return n, nil
}

type failWriter struct {
	buf    bytes.Buffer
	failAt int
}

func (w *failWriter) Write(p []byte) (int, error) {
	if w.failAt >= 0 && w.buf.Len()+len(p) > w.failAt {
		n := w.failAt - w.buf.Len()
		w.buf.Write(p[:n])
		return n, errInjectedWrite
	}
	return w.buf.Write(p)
}

// ---- execution ----

type exec struct {
	res  *core.Result
	spec *common.Spec
	sch  S
	step int
	log  core.LogHasher
	stop bool
	// survey: keep going after a violation (development aid: list every failing type)
	survey  bool
	prop    string          // the property under check
	foreign map[string]bool // findings of the other property already recorded
}

func (x *exec) viol(prop, sig, detail string) {
	// a finding of the other property (C04 vs C05) is recorded once and the run goes on, so that it
	// cannot hide later records from the check of the property under check
	if x.prop != "" && prop != x.prop {
		if x.foreign == nil {
			x.foreign = map[string]bool{}
		}
		if !x.foreign[prop+sig] {
			x.foreign[prop+sig] = true
			x.res.Violate(prop, prop+"/codec/"+sig, detail, x.step)
		}
		return
	}
	x.res.Violate(prop, prop+"/codec/"+sig, detail, x.step)
	x.stop = !x.survey
}

func hex8(b []byte) string {
	if len(b) > 24 {
		return fmt.Sprintf("%x..(%d bytes)", b[:24], len(b))
	}
	return fmt.Sprintf("%x", b)
}

func firstDiff(a, b []byte) int {
	n := len(a)
	if len(b) < n {
		n = len(b)
	}
	for i := 0; i < n; i++ {
		if a[i] != b[i] {
			return i
		}
	}
	return n
}

func guard(f func()) (panicked string) {
	defer func() {
		if r := recover(); r != nil {
			panicked = fmt.Sprint(r)
		}
	}()
	f()
	return ""
}

func Execute(cfg *Config, units []Unit, opt core.Options) *core.Result {
	res := &core.Result{Engine: "codecsim"}
	cj, _ := json.Marshal(cfg)
	uj, _ := json.Marshal(units)
	res.Config, res.Script = cj, uj
	x := &exec{res: res, spec: cfg.BuildSpec(), survey: opt.Params["survey"] == "1", prop: opt.Property}
	if x.survey {
		x.prop = ""
	}
	x.sch = S{x.spec}
	for i, u := range units {
		if x.stop {
			break
		}
		x.step = i
		x.unit(u)
	}
	res.LogHash = x.log.Sum()
	res.Nontrivial = res.Stats["fault_truncated"]+res.Stats["fault_offset"]+res.Stats["fault_over_limit"] > 0
	if len(units) > 0 {
		s, _ := json.Marshal(map[string]interface{}{"preset": cfg.Preset, "knobs": cfg.Knobs, "first_units": units[:minInt(3, len(units))]})
		res.Sample = s
	}
	return res
}

func minInt(a, b int) int {
	if a < b {
		return a
	}
	return b
}

func (x *exec) unit(u Unit) {
	e := byName[u.Type]
	if e == nil {
		x.res.Harness = "unknown type " + u.Type
		x.stop = true
		return
	}
	t := e.Schema(x.sch)
	b := Gen(t, core.NewRng(u.VSeed), u.Size)
	root, err := Parse(t, b)
	if err != nil {
		x.res.Harness = fmt.Sprintf("generator produced bytes its own parser refuses for %s: %v", u.Type, err)
		x.stop = true
		return
	}
	x.res.Stat("records", 1)
	x.res.Stat("bytes", int64(len(b)))
	x.log.Add(fmt.Sprintf("%s %d %x", u.Type, len(b), root[:8]))
	x.res.States = append(x.res.States, core.HashString(fmt.Sprintf("%s/%d/%d", u.Type, shapeOf(len(b)), u.Size)))
	frng := core.NewRng(u.FSeed)

	// 1. read the canonical record through short reads
	o := lib{x.spec, e.Alloc()}
	cr := &chunkReader{data: b, rng: frng.Fork(), failAt: -1}
	var derr error
	if p := guard(func() { derr = o.deserialize(cr, uint64(len(b))) }); p != "" {
		x.viol("C04", "decode-panics/"+u.Type, fmt.Sprintf("%s: Deserialize of a canonical %d-byte encoding panics: %s", u.Type, len(b), p))
		return
	}
	if derr == errHarness {
		x.res.Harness = derr.Error() + ": " + u.Type
		x.stop = true
		return
	}
	x.res.Stat("fault_short_reads", int64(cr.reads))
	if derr != nil {
		x.viol("C04", "decode-canonical/"+u.Type, fmt.Sprintf("%s (%s): the canonical encoding of a value within the limits (%d bytes, %s) is refused: %v", u.Type, x.presetName(), len(b), hex8(b), derr))
		return
	}
	// 2. write it back
	var out bytes.Buffer
	var serr error
	if p := guard(func() { serr = o.serialize(&out) }); p != "" {
		x.viol("C04", "encode-panics/"+u.Type, fmt.Sprintf("%s: Serialize panics: %s", u.Type, p))
		return
	}
	if serr != nil {
		x.viol("C04", "encode-fails/"+u.Type, fmt.Sprintf("%s: Serialize of a decoded value fails: %v", u.Type, serr))
		return
	}
	if !bytes.Equal(out.Bytes(), b) {
		d := firstDiff(out.Bytes(), b)
		x.viol("C04", "reencode-differs/"+u.Type, fmt.Sprintf("%s (%s): decode then encode changes the bytes: %d bytes in, %d out, first difference at byte %d", u.Type, x.presetName(), len(b), out.Len(), d))
		return
	}
	// 3. declared lengths
	var bl, fl uint64
	var hasBL, hasFL bool
	if p := guard(func() { bl, hasBL = o.byteLength(); fl, hasFL = o.fixedLength() }); p != "" {
		x.viol("C04", "length-panics/"+u.Type, fmt.Sprintf("%s: ByteLength/FixedLength panics: %s", u.Type, p))
		return
	}
	if !hasBL {
		x.res.Stat("types_without_byte_length/"+u.Type, 1)
	}
	if !hasFL {
		x.res.Stat("types_without_fixed_length/"+u.Type, 1)
	}
	if hasBL && bl != uint64(len(b)) {
		x.viol("C04", "byte-length/"+u.Type, fmt.Sprintf("%s (%s): ByteLength reports %d, Serialize writes %d bytes", u.Type, x.presetName(), bl, len(b)))
		return
	}
	if want := t.FixedSize(); hasFL && fl != want {
		x.viol("C04", "fixed-length/"+u.Type, fmt.Sprintf("%s (%s): FixedLength reports %d, the schema says %d (0 = variable size)", u.Type, x.presetName(), fl, want))
		return
	}
	// 4. roots: struct form, tree view, specification schema
	if r, ok := o.root(); ok {
		x.res.Stat("struct_roots", 1)
		if r != common.Root(root) {
			x.viol("C05", "struct-root-vs-spec-schema/"+u.Type, fmt.Sprintf("%s (%s): struct HashTreeRoot %s, merkleisation of the specification's schema %x (value: %s)", u.Type, x.presetName(), r, root, hex8(b)))
			return
		}
	} else {
		x.res.Stat("types_without_struct_root/"+u.Type, 1)
	}
	if e.View != nil {
		td := e.View(x.spec)
		var v view.View
		var verr error
		if p := guard(func() {
			v, verr = td.Deserialize(codec.NewDecodingReader(bytes.NewReader(b), uint64(len(b))))
		}); p != "" {
			x.viol("C04", "view-decode-panics/"+u.Type, fmt.Sprintf("%s: view Deserialize panics: %s", u.Type, p))
			return
		}
		if verr != nil {
			x.viol("C04", "view-decode-canonical/"+u.Type, fmt.Sprintf("%s (%s): the tree-view type refuses the canonical encoding (%d bytes): %v", u.Type, x.presetName(), len(b), verr))
			return
		}
		x.res.Stat("view_roots", 1)
		if r := v.HashTreeRoot(tree.GetHashFn()); r != common.Root(root) {
			x.viol("C05", "view-root-vs-spec-schema/"+u.Type, fmt.Sprintf("%s (%s): tree-view root %s, merkleisation of the specification's schema %x", u.Type, x.presetName(), r, root))
			return
		}
		var vb bytes.Buffer
		if err := v.Serialize(codec.NewEncodingWriter(&vb)); err != nil || !bytes.Equal(vb.Bytes(), b) {
			x.viol("C04", "view-reencode-differs/"+u.Type, fmt.Sprintf("%s (%s): the tree view re-encodes %d bytes as %d bytes (err %v)", u.Type, x.presetName(), len(b), vb.Len(), err))
			return
		}
		if vl, err := v.ValueByteLength(); err != nil || vl != uint64(len(b)) {
			x.viol("C04", "view-byte-length/"+u.Type, fmt.Sprintf("%s: the tree view reports %d bytes, writes %d", u.Type, vl, len(b)))
			return
		}
		want := t.FixedSize()
		if td.IsFixedByteLength() != (want != 0) || (want != 0 && td.TypeByteLength() != want) {
			x.viol("C04", "view-fixed-length/"+u.Type, fmt.Sprintf("%s (%s): the tree-view type says fixed=%v size=%d, the schema says %d", u.Type, x.presetName(), td.IsFixedByteLength(), td.TypeByteLength(), want))
			return
		}
	}
	// 4a. the zero value of the Go type, where it denotes the type's default value (it encodes to the
	// default encoding): its root is the default value's root
	if frng.Chance(1, 6) {
		x.zeroValue(u, e, t)
		if x.stop {
			return
		}
	}
	// 4b. the struct form's own conversion to a tree view, where the type has one
	x.structToView(u, o, b, root)
	x.shallowBody(u, o, b, root)
	if x.stop {
		return
	}
	// 5. text forms
	x.textForms(u, e, o, b)
	if x.stop {
		return
	}
	// 6. damaged records
	for k := 0; k < 4 && !x.stop; k++ {
		x.damaged(u, e, t, b, frng)
	}
}

func hasKind(t *T, k Kind) bool {
	if t.Kind == k {
		return true
	}
	if t.Elem != nil && hasKind(t.Elem, k) {
		return true
	}
	for _, f := range t.Fields {
		if hasKind(f.T, k) {
			return true
		}
	}
	return false
}

func (x *exec) zeroValue(u Unit, e *entry, t *T) {
	def := Default(t)
	want, err := Parse(t, def)
	if err != nil {
		x.res.Harness = fmt.Sprintf("the default encoding of %s does not parse: %v", u.Type, err)
		x.stop = true
		return
	}
	z := lib{x.spec, e.Alloc()}
	var out bytes.Buffer
	var serr error
	sameBytes := true
	if p := guard(func() { serr = z.serialize(&out) }); p != "" || serr != nil || !bytes.Equal(out.Bytes(), def) {
		sameBytes = false
	}
	// A nil slice cannot stand for a vector of N elements, so a zero Go value whose type holds a vector
	// only counts when it really encodes as the default value. Everything else (nil lists = empty lists,
	// nil bitfields, which the library hashes as unset bits) denotes the default value.
	if !sameBytes && hasKind(t, KVector) {
		x.res.Stat("zero_values_not_the_default/"+u.Type, 1)
		return
	}
	x.res.Stat("zero_value_roots", 1)
	var r common.Root
	var ok bool
	if p := guard(func() { r, ok = z.root() }); p != "" {
		x.viol("C05", "zero-value-root-panics/"+u.Type, fmt.Sprintf("%s (%s): the zero value denotes the default value, but its HashTreeRoot panics: %s", u.Type, x.presetName(), p))
		return
	}
	if ok && r != common.Root(want) {
		x.viol("C05", "zero-value-root/"+u.Type, fmt.Sprintf("%s (%s): the zero value denotes the default value (%d bytes encoded), but its struct HashTreeRoot is %s and the default value's root by the specification's schema is %x", u.Type, x.presetName(), len(def), r, want))
		return
	}
	if bl, has := z.byteLength(); sameBytes && has && bl != uint64(len(def)) {
		x.viol("C04", "zero-value-byte-length/"+u.Type, fmt.Sprintf("%s: the zero value reports ByteLength %d and writes %d bytes", u.Type, bl, len(def)))
	}
}

var (
	specPtrType = reflect.TypeOf((*common.Spec)(nil))
	uint64Type  = reflect.TypeOf(uint64(0))
	errorType   = reflect.TypeOf((*error)(nil)).Elem()
)

// structToView: value.View(...) must be a tree with the root (and bytes) of the value.
func (x *exec) structToView(u Unit, o lib, b []byte, root chunk) {
	m := reflect.ValueOf(o.v).MethodByName("View")
	if !m.IsValid() {
		return
	}
	mt := m.Type()
	var args []reflect.Value
	for i := 0; i < mt.NumIn(); i++ {
		switch mt.In(i) {
		case specPtrType:
			args = append(args, reflect.ValueOf(x.spec))
		case uint64Type: // Balances.View(limit)
			args = append(args, reflect.ValueOf(uint64(x.spec.VALIDATOR_REGISTRY_LIMIT)))
		default:
			x.res.Stat("view_conversions_not_callable/"+u.Type, 1)
			return
		}
	}
	var outs []reflect.Value
	if p := guard(func() { outs = m.Call(args) }); p != "" {
		x.viol("C05", "struct-to-view-panics/"+u.Type, fmt.Sprintf("%s (%s): View() of a valid value panics: %s (value %s)", u.Type, x.presetName(), p, hex8(b)))
		return
	}
	if len(outs) == 0 {
		return
	}
	if len(outs) > 1 && outs[len(outs)-1].Type().Implements(errorType) && !outs[len(outs)-1].IsNil() {
		// an error is not a wrong root: no verdict (Transaction.View always answers "view is not a union")
		x.res.Stat("view_conversions_refused/"+u.Type, 1)
		return
	}
	v, ok := outs[0].Interface().(interface {
		HashTreeRoot(h tree.HashFn) tree.Root
	})
	if !ok || (outs[0].Kind() == reflect.Ptr && outs[0].IsNil()) {
		x.res.Stat("view_conversions_without_root/"+u.Type, 1)
		return
	}
	x.res.Stat("struct_to_view_roots", 1)
	var r tree.Root
	if p := guard(func() { r = v.HashTreeRoot(tree.GetHashFn()) }); p != "" {
		x.viol("C05", "struct-to-view-panics/"+u.Type, fmt.Sprintf("%s: HashTreeRoot of View() panics: %s", u.Type, p))
		return
	}
	if r != common.Root(root) {
		x.viol("C05", "struct-to-view-root/"+u.Type, fmt.Sprintf("%s (%s): value.View() has root %s, the value has root %x (value %s)", u.Type, x.presetName(), r, root, hex8(b)))
		if x.stop || x.prop != "C15" {
			return
		}
		// (under C15 the wrong root is C05's matter: the getters of this view are still compared)
		x.subViewGetters(u, o, outs[0])
		return
	}
	// and back: view.Raw() is the value again
	if rm := outs[0].MethodByName("Raw"); rm.IsValid() {
		rt := rm.Type()
		var rargs []reflect.Value
		callable := true
		for i := 0; i < rt.NumIn(); i++ {
			if rt.In(i) == specPtrType {
				rargs = append(rargs, reflect.ValueOf(x.spec))
			} else {
				callable = false
			}
		}
		// only a conversion back to the value's own type is a round trip (InactivityScores.View() is
		// declared to return a participation-registry wrapper, whose Raw() is about another type)
		if callable && rt.NumOut() >= 1 {
			want := reflect.TypeOf(o.v) // pointer to the struct form
			if rt.Out(0) != want && rt.Out(0) != want.Elem() {
				callable = false
				x.res.Stat("view_to_struct_other_type/"+u.Type, 1)
			}
		}
		if callable && rt.NumOut() >= 1 {
			var routs []reflect.Value
			if p := guard(func() { routs = rm.Call(rargs) }); p != "" {
				x.viol("C05", "view-to-struct-panics/"+u.Type, fmt.Sprintf("%s: View().Raw() panics: %s", u.Type, p))
				return
			}
			if last := routs[len(routs)-1]; len(routs) > 1 && last.Type().Implements(errorType) && !last.IsNil() {
				x.viol("C04", "view-to-struct-fails/"+u.Type, fmt.Sprintf("%s (%s): View().Raw() of a valid value fails: %v", u.Type, x.presetName(), last.Interface()))
				return
			}
			rv := routs[0]
			if rv.Kind() != reflect.Ptr {
				pv := reflect.New(rv.Type())
				pv.Elem().Set(rv)
				rv = pv
			}
			if !rv.IsNil() {
				back := lib{x.spec, rv.Interface()}
				var bb bytes.Buffer
				var err error
				if p := guard(func() { err = back.serialize(&bb) }); p == "" && err != errHarness {
					x.res.Stat("view_to_struct_roundtrips", 1)
					if err != nil || !bytes.Equal(bb.Bytes(), b) {
						x.viol("C04", "view-to-struct-differs/"+u.Type, fmt.Sprintf("%s (%s): value.View().Raw() is not the value: %d bytes before, %d after (err %v), first difference at byte %d", u.Type, x.presetName(), len(b), bb.Len(), err, firstDiff(bb.Bytes(), b)))
						return
					}
				}
			}
		}
	}
	if sv, ok := outs[0].Interface().(interface {
		Serialize(w *codec.EncodingWriter) error
	}); ok {
		var vb bytes.Buffer
		if err := sv.Serialize(codec.NewEncodingWriter(&vb)); err != nil || !bytes.Equal(vb.Bytes(), b) {
			x.viol("C04", "struct-to-view-bytes/"+u.Type, fmt.Sprintf("%s (%s): value.View() serializes to %d bytes (err %v), the value to %d", u.Type, x.presetName(), vb.Len(), err, len(b)))
		}
	}
	x.subViewGetters(u, o, outs[0])
}

// subViewGetters (C15: typed sub-views read the element they name): the view made from a container
// value has getters addressing fields by position; each getter named like a field of the struct form
// must return that field's value.
func (x *exec) subViewGetters(u Unit, o lib, view reflect.Value) {
	sv := reflect.ValueOf(o.v)
	if sv.Kind() != reflect.Ptr || sv.Elem().Kind() != reflect.Struct {
		return
	}
	st := sv.Elem()
	for i := 0; i < st.NumField(); i++ {
		f := st.Type().Field(i)
		if f.PkgPath != "" {
			continue
		}
		g := view.MethodByName(f.Name)
		if !g.IsValid() {
			// getters that keep a field's older name
			if alias := map[string]string{"ReceiptsRoot": "ReceiptRoot", "PrevRandao": "Random"}[f.Name]; alias != "" {
				g = view.MethodByName(alias)
			}
		}
		x.subViewSetter(u, o, view, i)
		if x.stop {
			return
		}
		if !g.IsValid() {
			continue
		}
		gt := g.Type()
		var args []reflect.Value
		callable := true
		for k := 0; k < gt.NumIn(); k++ {
			if gt.In(k) == specPtrType {
				args = append(args, reflect.ValueOf(x.spec))
			} else {
				callable = false
			}
		}
		if !callable || gt.NumOut() == 0 {
			continue
		}
		var outs []reflect.Value
		if p := guard(func() { outs = g.Call(args) }); p != "" {
			x.viol("C15", "sub-view-getter-panics/"+u.Type+"."+f.Name, fmt.Sprintf("%s (%s): getter %s of the view of a valid value panics: %s", u.Type, x.presetName(), f.Name, p))
			return
		}
		if last := outs[len(outs)-1]; len(outs) > 1 && last.Type().Implements(errorType) && !last.IsNil() {
			x.viol("C15", "sub-view-getter-fails/"+u.Type+"."+f.Name, fmt.Sprintf("%s (%s): getter %s of the view of a valid value fails: %v", u.Type, x.presetName(), f.Name, last.Interface()))
			return
		}
		got, want := outs[0], st.Field(i)
		if got.Type() == want.Type() {
			x.res.Stat("sub_view_getters", 1)
			if !reflect.DeepEqual(got.Interface(), want.Interface()) && !(got.Kind() == reflect.Slice && got.Len() == 0 && want.Len() == 0) {
				x.viol("C15", "sub-view-getter/"+u.Type+"."+f.Name, fmt.Sprintf("%s (%s): the view's getter %s returns %v, the value it was made from holds %v", u.Type, x.presetName(), f.Name, got.Interface(), want.Interface()))
				return
			}
			continue
		}
		// a getter that returns a sub-view: its bytes are the field's bytes
		gs, ok := got.Interface().(interface {
			Serialize(w *codec.EncodingWriter) error
		})
		if !ok || !want.CanAddr() || (got.Kind() == reflect.Ptr && got.IsNil()) {
			x.res.Stat("sub_view_getters_not_comparable/"+u.Type+"."+f.Name, 1)
			continue
		}
		var gb, wb bytes.Buffer
		fl := lib{x.spec, want.Addr().Interface()}
		var werr, gerr error
		if p := guard(func() { werr = fl.serialize(&wb) }); p != "" || werr != nil {
			x.res.Stat("sub_view_getters_not_comparable/"+u.Type+"."+f.Name, 1)
			continue
		}
		if p := guard(func() { gerr = gs.Serialize(codec.NewEncodingWriter(&gb)) }); p != "" {
			x.viol("C15", "sub-view-getter-panics/"+u.Type+"."+f.Name, fmt.Sprintf("%s: serializing the sub-view returned by %s panics: %s", u.Type, f.Name, p))
			return
		}
		x.res.Stat("sub_view_getters", 1)
		if gerr != nil || !bytes.Equal(gb.Bytes(), wb.Bytes()) {
			x.viol("C15", "sub-view-getter/"+u.Type+"."+f.Name, fmt.Sprintf("%s (%s): the sub-view returned by getter %s encodes as %s (err %v), the field it names as %s", u.Type, x.presetName(), f.Name, hex8(gb.Bytes()), gerr, hex8(wb.Bytes())))
			return
		}
	}
}

func (x *exec) presetName() string {
	return fmt.Sprintf("SLOTS_PER_HISTORICAL_ROOT=%d SYNC_COMMITTEE_SIZE=%d MAX_VALIDATORS_PER_COMMITTEE=%d", x.spec.SLOTS_PER_HISTORICAL_ROOT, x.spec.SYNC_COMMITTEE_SIZE, x.spec.MAX_VALIDATORS_PER_COMMITTEE)
}

func shapeOf(n int) int {
	s := 0
	for n > 0 {
		n >>= 1
		s++
	}
	return s
}

func (x *exec) textForms(u Unit, e *entry, o lib, b []byte) {
	for _, form := range []string{"json", "yaml"} {
		var text []byte
		var err error
		if p := guard(func() {
			if form == "json" {
				text, err = json.Marshal(o.v)
			} else {
				text, err = yaml.Marshal(o.v)
			}
		}); p != "" {
			x.viol("C04", form+"-marshal-panics/"+u.Type, fmt.Sprintf("%s: %s marshal panics: %s", u.Type, form, p))
			return
		}
		if err != nil {
			x.viol("C04", form+"-marshal-fails/"+u.Type, fmt.Sprintf("%s: %s marshal of a decoded value fails: %v", u.Type, form, err))
			return
		}
		o2 := lib{x.spec, e.Alloc()}
		if p := guard(func() {
			if form == "json" {
				err = json.Unmarshal(text, o2.v)
			} else {
				err = yaml.Unmarshal(text, o2.v)
			}
		}); p != "" {
			x.viol("C04", form+"-unmarshal-panics/"+u.Type, fmt.Sprintf("%s: %s unmarshal panics: %s", u.Type, form, p))
			return
		}
		if err != nil {
			x.viol("C04", form+"-unmarshal-fails/"+u.Type, fmt.Sprintf("%s: its own %s text is refused: %v (text: %.200s)", u.Type, form, err, text))
			return
		}
		var out bytes.Buffer
		var serr error
		if p := guard(func() { serr = o2.serialize(&out) }); p != "" || serr != nil {
			x.viol("C04", form+"-roundtrip-differs/"+u.Type, fmt.Sprintf("%s: the value read back from %s cannot be serialized: %v %s", u.Type, form, serr, p))
			return
		}
		if !bytes.Equal(out.Bytes(), b) {
			x.viol("C04", form+"-roundtrip-differs/"+u.Type, fmt.Sprintf("%s: the %s text form does not round-trip: %d bytes before, %d after, first difference at byte %d (text: %.200s)", u.Type, form, len(b), out.Len(), firstDiff(out.Bytes(), b), text))
			return
		}
		x.res.Stat(form+"_roundtrips", 1)
	}
}

// damaged: one damaged copy of the record; the strict parser says whether it is still a valid
// encoding; the library has to refuse what is invalid for one of the reasons the property names,
// and read what is valid to the value those bytes encode.
func (x *exec) damaged(u Unit, e *entry, t *T, b []byte, frng *core.Rng) {
	var m []byte
	scope := -1
	kind := ""
	switch frng.Intn(6) {
	case 0: // truncated record, the reader knows the shorter length
		if len(b) == 0 {
			return
		}
		cut := frng.Intn(len(b))
		if cuts := boundaryCuts(t, b); len(cuts) > 0 && frng.Bool() {
			// the record ends exactly where an element or field begins: the offset table still announces it
			cut = cuts[frng.Intn(len(cuts))]
		}
		m = append([]byte(nil), b[:cut]...)
		kind = "truncated"
	case 1: // torn record: the length prefix promises more than the stream holds
		if len(b) == 0 {
			return
		}
		m = append([]byte(nil), b[:frng.Intn(len(b))]...)
		scope = len(b)
		kind = "torn"
	case 2: // read error in the middle
		if len(b) == 0 {
			return
		}
		o := lib{x.spec, e.Alloc()}
		cr := &chunkReader{data: b, rng: frng.Fork(), failAt: frng.Intn(len(b))}
		var err error
		if p := guard(func() { err = o.deserialize(cr, uint64(len(b))) }); p != "" {
			x.viol("C04", "decode-panics-on-read-error/"+u.Type, fmt.Sprintf("%s: Deserialize panics when the stream fails at byte %d: %s", u.Type, cr.failAt, p))
			return
		}
		x.res.Stat("fault_read_error", 1)
		if err == nil {
			x.viol("C04", "accepts-after-read-error/"+u.Type, fmt.Sprintf("%s: the stream failed at byte %d of %d and Deserialize reports success", u.Type, cr.failAt, len(b)))
		}
		// and the failing writer
		fw := &failWriter{failAt: frng.Intn(len(b))}
		o2 := lib{x.spec, e.Alloc()}
		if o2.deserialize(bytes.NewReader(b), uint64(len(b))) == nil {
			var werr error
			if p := guard(func() { werr = o2.serialize(fw) }); p != "" {
				x.viol("C04", "encode-panics-on-write-error/"+u.Type, fmt.Sprintf("%s: Serialize panics when the writer fails: %s", u.Type, p))
				return
			}
			x.res.Stat("fault_write_error", 1)
			if werr == nil {
				x.viol("C04", "reports-bytes-not-written/"+u.Type, fmt.Sprintf("%s: the writer failed after %d of %d bytes and Serialize reports success", u.Type, fw.failAt, len(b)))
			}
		}
		return
	case 3: // an offset or length word changed
		offs := offsetPositions(t, b)
		if len(offs) == 0 {
			return
		}
		m = append([]byte(nil), b...)
		p := offs[frng.Intn(len(offs))]
		old := binary.LittleEndian.Uint32(m[p:])
		var nv uint32
		switch frng.Intn(6) {
		case 0:
			nv = old + 1
		case 1:
			nv = old - 1
		case 2:
			nv = old + 4
		case 3:
			nv = 0
		case 4:
			nv = uint32(len(b)) + uint32(frng.Intn(8))
		default:
			nv = old ^ (1 << uint(frng.Intn(32)))
		}
		binary.LittleEndian.PutUint32(m[p:], nv)
		kind = "offset"
	case 4: // more elements than the limit allows
		relaxed := relax(t)
		if relaxed == nil {
			return
		}
		m = Gen(relaxed, frng.Fork(), 12)
		kind = "over_limit"
	default: // a flipped bit
		if len(b) == 0 {
			return
		}
		m = append([]byte(nil), b...)
		m[frng.Intn(len(m))] ^= 1 << uint(frng.Intn(8))
		kind = "bit_flip"
	}
	if scope < 0 {
		scope = len(m)
	}
	var want chunk
	var perr error
	if scope != len(m) {
		perr = ErrTruncated
	} else {
		want, perr = Parse(t, m)
	}
	x.res.Stat("fault_"+kind, 1)
	o := lib{x.spec, e.Alloc()}
	var derr error
	if p := guard(func() { derr = o.deserialize(&chunkReader{data: m, rng: frng.Fork(), failAt: -1}, uint64(scope)) }); p != "" {
		x.viol("C04", "decode-panics-on-damaged/"+u.Type, fmt.Sprintf("%s: Deserialize panics on a %s record (%d bytes, %s): %s", u.Type, kind, len(m), hex8(m), p))
		return
	}
	named := perr == ErrTruncated || perr == ErrLimit || perr == ErrOffsets
	switch {
	case perr != nil && derr == nil && named:
		x.res.Stat("damaged_accepted", 1)
		why := map[error]string{ErrTruncated: "truncated", ErrLimit: "over-limit", ErrOffsets: "inconsistent-offsets"}[perr]
		x.viol("C04", "accepts-"+why+"/"+u.Type, fmt.Sprintf("%s (%s): a %s record (%d bytes, scope %d, %s) is not a valid encoding (%v) and Deserialize accepts it", u.Type, x.presetName(), kind, len(m), scope, hex8(m), perr))
	case perr == nil && derr != nil:
		x.viol("C04", "refuses-valid/"+u.Type, fmt.Sprintf("%s (%s): a %s record that is still a canonical encoding (%d bytes, %s) is refused: %v", u.Type, x.presetName(), kind, len(m), hex8(m), derr))
	case perr == nil && derr == nil:
		x.res.Stat("damaged_still_valid", 1)
		var out bytes.Buffer
		if err := o.serialize(&out); err != nil || !bytes.Equal(out.Bytes(), m) {
			x.viol("C04", "reencode-differs/"+u.Type, fmt.Sprintf("%s: a %s record that is a canonical encoding (%d bytes) re-encodes to %d bytes (err %v)", u.Type, kind, len(m), out.Len(), err))
			return
		}
		if r, ok := o.root(); ok && r != common.Root(want) {
			x.viol("C05", "struct-root-vs-spec-schema/"+u.Type, fmt.Sprintf("%s: struct HashTreeRoot %s, specification schema %x (value %s)", u.Type, r, want, hex8(m)))
		}
	case perr == ErrPadding && derr == nil:
		// bits set beyond the length of a bitvector: the record exceeds the type's length just as an
		// over-long bitlist exceeds its limit
		// (not among the refusals the property names - truncated, over a limit, inconsistent offsets - and
		// the library is not of one mind about it: counted per type in the evidence, no verdict)
		x.res.Stat("damaged_accepted_bits_beyond_bitvector_length/"+u.Type, 1)
	default:
		x.res.Stat("damaged_refused", 1)
	}
}

// boundaryCuts: the values of the top-level offsets of a valid encoding (where its variable-size parts begin).
func boundaryCuts(t *T, b []byte) []int {
	var out []int
	switch t.Kind {
	case KList, KVector:
		if t.Elem.FixedSize() != 0 || len(b) < 4 {
			return nil
		}
		n := int(binary.LittleEndian.Uint32(b[:4]) / 4)
		for i := 1; i < n; i++ {
			out = append(out, int(binary.LittleEndian.Uint32(b[4*i:])))
		}
	case KContainer:
		pos := 0
		for _, f := range t.Fields {
			if s := f.T.FixedSize(); s != 0 {
				pos += int(s)
			} else {
				out = append(out, int(binary.LittleEndian.Uint32(b[pos:])))
				pos += 4
			}
		}
	}
	ok := out[:0]
	for _, c := range out {
		if c > 0 && c < len(b) {
			ok = append(ok, c)
		}
	}
	return ok
}

// offsetPositions: where the 4-byte offsets of a valid encoding sit.
func offsetPositions(t *T, b []byte) []int {
	var out []int
	var walk func(t *T, base int, b []byte)
	walk = func(t *T, base int, b []byte) {
		switch t.Kind {
		case KVector, KList:
			es := t.Elem.FixedSize()
			if es != 0 {
				if t.Elem.Kind == KContainer || t.Elem.Kind == KVector {
					for i := 0; uint64(i+1)*es <= uint64(len(b)); i++ {
						walk(t.Elem, base+i*int(es), b[uint64(i)*es:uint64(i+1)*es])
					}
				}
				return
			}
			if len(b) < 4 {
				return
			}
			n := int(binary.LittleEndian.Uint32(b[:4]) / 4)
			offs := make([]int, n+1)
			for i := 0; i < n; i++ {
				out = append(out, base+4*i)
				offs[i] = int(binary.LittleEndian.Uint32(b[4*i:]))
			}
			offs[n] = len(b)
			for i := 0; i < n; i++ {
				walk(t.Elem, base+offs[i], b[offs[i]:offs[i+1]])
			}
		case KContainer:
			pos := 0
			type dyn struct {
				f   *T
				off int
			}
			var dyns []dyn
			for _, f := range t.Fields {
				if s := f.T.FixedSize(); s != 0 {
					walk(f.T, base+pos, b[pos:pos+int(s)])
					pos += int(s)
				} else {
					out = append(out, base+pos)
					dyns = append(dyns, dyn{f.T, int(binary.LittleEndian.Uint32(b[pos:]))})
					pos += 4
				}
			}
			for k, d := range dyns {
				end := len(b)
				if k+1 < len(dyns) {
					end = dyns[k+1].off
				}
				walk(d.f, base+d.off, b[d.off:end])
			}
		}
	}
	walk(t, 0, b)
	return out
}

// relax: the same schema with every list limit raised, so that the generator can exceed the real
// limits; nil when the type has no list whose limit is small enough to exceed in a small record.
func relax(t *T) *T {
	small := false
	var cp func(t *T) *T
	cp = func(t *T) *T {
		c := *t
		switch t.Kind {
		case KList, KByteList, KBitlist:
			if t.Limit <= 8 || (t.Kind != KList && t.Limit <= 64) {
				small = true
				c.Limit = t.Limit*2 + 2
			}
		}
		if t.Elem != nil {
			c.Elem = cp(t.Elem)
		}
		if t.Fields != nil {
			c.Fields = make([]Field, len(t.Fields))
			for i, f := range t.Fields {
				c.Fields[i] = Field{f.Name, cp(f.T)}
			}
		}
		return &c
	}
	r := cp(t)
	if !small {
		return nil
	}
	return r
}

// ---- engine glue ----

type Engine struct{}

func init() { core.Register(Engine{}) }

func (Engine) Name() string { return "codecsim" }
func (Engine) Run(seed uint64, opt core.Options) *core.Result {
	cfg, units := Generate(seed, opt)
	r := Execute(cfg, units, opt)
	r.Seed = seed
	return r
}
func (e Engine) Replay(rf *core.ReplayFile, opt core.Options) *core.Result {
	if rf.Script == nil {
		return e.Run(rf.Seed, opt)
	}
	var cfg Config
	var units []Unit
	if json.Unmarshal(rf.Config, &cfg) != nil || json.Unmarshal(rf.Script, &units) != nil {
		return &core.Result{Engine: "codecsim", Harness: "bad replay file"}
	}
	r := Execute(&cfg, units, opt)
	r.Seed = rf.Seed
	return r
}
func (Engine) Generate(seed uint64, opt core.Options) *core.ReplayFile {
	cfg, units := Generate(seed, opt)
	cj, _ := json.Marshal(cfg)
	sj, _ := json.Marshal(units)
	return &core.ReplayFile{Engine: "codecsim", Seed: seed, Config: cj, Script: sj}
}
func (Engine) Units(rf *core.ReplayFile) int {
	var units []json.RawMessage
	json.Unmarshal(rf.Script, &units)
	return len(units)
}
func (Engine) Subset(rf *core.ReplayFile, keep []bool) *core.ReplayFile {
	var units []json.RawMessage
	json.Unmarshal(rf.Script, &units)
	out := []json.RawMessage{}
	for i, o := range units {
		if i < len(keep) && keep[i] {
			out = append(out, o)
		}
	}
	sj, _ := json.Marshal(out)
	c := *rf
	c.Script = sj
	return &c
}
func (Engine) CrashViolation(stderr string, opt core.Options) (core.Violation, bool) {
	if strings.Contains(stderr, "stack overflow") || strings.Contains(stderr, "out of memory") || strings.Contains(stderr, "cannot allocate") {
		return core.Violation{Property: "C04", Signature: "C04/codec/decode-exhausts-memory",
			Detail: "decoding a damaged record kills the process (stack or memory exhaustion) instead of refusing it"}, true
	}
	return core.Violation{}, false
}
func (Engine) Describe() core.EngineInfo {
	return core.EngineInfo{
		Real: []string{"Deserialize / Serialize / ByteLength / FixedLength / HashTreeRoot of every registered struct type (" + fmt.Sprint(len(registry)) + " types, common ... electra)",
			"the tree-view type definitions of the same types (decode, root, encode, lengths)", "json and yaml marshalling of the struct types", "Spec.Wrap-free direct calls with the run's configuration (mainnet, minimal, custom limits)"},
		Stubs: []string{"the object store's disk and wire: in-memory byte streams with short reads, read errors, failing writers, truncated / torn records, changed offsets, over-limit lists, bit flips",
			"values: generated from the harness's own transcription of the specification's schema, not from the library's types"},
		Rule: "distinct = (type, log2 of the record size, generator size class); non-trivial run = at least one truncated, offset-damaged or over-limit record was presented",
	}
}

// subViewSetter: view.Set<Field>(v) writes that field and nothing else: afterwards the view encodes as
// the struct form with the field replaced. The struct value o.v is put back as it was.
func (x *exec) subViewSetter(u Unit, o lib, view reflect.Value, i int) {
	st := reflect.ValueOf(o.v).Elem()
	f := st.Type().Field(i)
	m := view.MethodByName("Set" + f.Name)
	if !m.IsValid() || m.Type().NumIn() != 1 || m.Type().In(0) != f.Type || m.Type().NumOut() != 1 || !m.Type().Out(0).Implements(errorType) {
		return
	}
	old := reflect.New(f.Type).Elem()
	old.Set(st.Field(i))
	nv := reflect.New(f.Type).Elem()
	nv.Set(old)
	switch {
	case f.Type.Kind() == reflect.Array && f.Type.Elem().Kind() == reflect.Uint8 && f.Type.Len() > 0:
		nv.Index(0).SetUint(uint64(byte(nv.Index(0).Uint()) ^ 0x5a))
		nv.Index(f.Type.Len() - 1).SetUint(uint64(byte(nv.Index(f.Type.Len()-1).Uint()) ^ 0xa5))
	case f.Type.Kind() == reflect.Uint64:
		nv.SetUint(old.Uint() + 0x0102030405)
	default:
		return
	}
	// a private view (the caller's view is compared with the unchanged value by other legs)
	vm := reflect.ValueOf(o.v).MethodByName("View")
	if !vm.IsValid() || vm.Type().NumIn() != 0 {
		return
	}
	priv := vm.Call(nil)[0]
	pm := priv.MethodByName("Set" + f.Name)
	if !pm.IsValid() {
		return
	}
	var outs []reflect.Value
	if p := guard(func() { outs = pm.Call([]reflect.Value{nv}) }); p != "" {
		x.viol("C15", "sub-view-setter-panics/"+u.Type+"."+f.Name, fmt.Sprintf("%s: Set%s on the view of a valid value panics: %s", u.Type, f.Name, p))
		return
	}
	if !outs[0].IsNil() {
		x.viol("C15", "sub-view-setter-fails/"+u.Type+"."+f.Name, fmt.Sprintf("%s: Set%s on the view of a valid value fails: %v", u.Type, f.Name, outs[0].Interface()))
		return
	}
	ps, ok := priv.Interface().(interface {
		Serialize(w *codec.EncodingWriter) error
	})
	if !ok {
		return
	}
	st.Field(i).Set(nv)
	var wb, gb bytes.Buffer
	werr := o.serialize(&wb)
	st.Field(i).Set(old)
	gerr := ps.Serialize(codec.NewEncodingWriter(&gb))
	if werr != nil {
		return
	}
	x.res.Stat("sub_view_setters", 1)
	if gerr != nil || !bytes.Equal(gb.Bytes(), wb.Bytes()) {
		x.viol("C15", "sub-view-setter/"+u.Type+"."+f.Name, fmt.Sprintf("%s (%s): after Set%s(%v) the view encodes as %s (err %v); the value with that field replaced encodes as %s", u.Type, x.presetName(), f.Name, nv.Interface(), hex8(gb.Bytes()), gerr, hex8(wb.Bytes())))
	}
}

// shallowBody: a block body with its payload replaced by the payload's root is the same tree
// (body.Shallow has the body's root), and putting the payload back gives the body again.
func (x *exec) shallowBody(u Unit, o lib, b []byte, root chunk) {
	m := reflect.ValueOf(o.v).MethodByName("Shallow")
	if !m.IsValid() || m.Type().NumIn() != 1 || m.Type().In(0) != specPtrType || m.Type().NumOut() != 1 {
		return
	}
	var sh reflect.Value
	if p := guard(func() { sh = m.Call([]reflect.Value{reflect.ValueOf(x.spec)})[0] }); p != "" {
		x.viol("C05", "shallow-body-panics/"+u.Type, fmt.Sprintf("%s: Shallow() of a valid value panics: %s", u.Type, p))
		return
	}
	hr, ok := sh.Interface().(interface {
		HashTreeRoot(spec *common.Spec, hFn tree.HashFn) common.Root
	})
	if !ok {
		return
	}
	x.res.Stat("shallow_bodies", 1)
	if r := hr.HashTreeRoot(x.spec, tree.GetHashFn()); r != common.Root(root) {
		x.viol("C05", "shallow-body-root/"+u.Type, fmt.Sprintf("%s (%s): Shallow() has root %s, the body has root %x", u.Type, x.presetName(), r, root))
		return
	}
	w := sh.MethodByName("WithExecutionPayload")
	pf := reflect.ValueOf(o.v).Elem().FieldByName("ExecutionPayload")
	if !w.IsValid() || !pf.IsValid() || w.Type().NumIn() != 2 || w.Type().In(1) != pf.Type() {
		return
	}
	var outs []reflect.Value
	if p := guard(func() { outs = w.Call([]reflect.Value{reflect.ValueOf(x.spec), pf}) }); p != "" {
		x.viol("C05", "shallow-body-panics/"+u.Type, fmt.Sprintf("%s: WithExecutionPayload panics: %s", u.Type, p))
		return
	}
	if len(outs) == 2 && !outs[1].IsNil() {
		x.viol("C04", "shallow-body-roundtrip/"+u.Type, fmt.Sprintf("%s (%s): Shallow().WithExecutionPayload(own payload) fails: %v", u.Type, x.presetName(), outs[1].Interface()))
		return
	}
	back := lib{x.spec, outs[0].Interface()}
	var bb bytes.Buffer
	if err := back.serialize(&bb); err != nil || !bytes.Equal(bb.Bytes(), b) {
		x.viol("C04", "shallow-body-roundtrip/"+u.Type, fmt.Sprintf("%s (%s): Shallow().WithExecutionPayload(own payload) is not the body: %d bytes before, %d after (err %v), first difference at byte %d", u.Type, x.presetName(), len(b), bb.Len(), err, firstDiff(bb.Bytes(), b)))
	}
}
