// Package sszmodel: an INDEPENDENT hash_tree_root of the beacon state (phase0..deneb) written
// from the SSZ specification and the consensus-spec schema of each fork. It shares no code with
// ztyp or with zrnt's hand-written HashTreeRoot methods: SHA-256, chunking, zero-hash padding,
// length mix-ins and the field list of every container are this package's own. It is the third
// leg of the C05 comparison (tree view == struct form == specification schema) and makes the
// state-root comparison of C01/C02 independent of zrnt's merkleisation.
package sszmodel

import (
	"crypto/sha256"
	"encoding/binary"
	"fmt"

	"github.com/protolambda/zrnt/eth2/beacon/common"

	"verif/sim/refspec"
)

type chunk = [32]byte

func h2(a, b chunk) chunk {
	var buf [64]byte
	copy(buf[:32], a[:])
	copy(buf[32:], b[:])
	return sha256.Sum256(buf[:])
}

var zero = func() [64]chunk {
	var z [64]chunk
	for i := 1; i < 64; i++ {
		z[i] = h2(z[i-1], z[i-1])
	}
	return z
}()

func depthFor(limit uint64) int {
	d := 0
	for (uint64(1) << uint(d)) < limit {
		d++
	}
	return d
}

// merkleize: root of the chunks padded with zero chunks to limit (next power of two) leaves.
func merkleize(chunks []chunk, limit uint64) chunk {
	if limit == 0 {
		limit = 1
	}
	if uint64(len(chunks)) > limit {
		panic(fmt.Sprintf("sszmodel: %d chunks exceed the limit %d", len(chunks), limit))
	}
	depth := depthFor(limit)
	layer := chunks
	for d := 0; d < depth; d++ {
		next := make([]chunk, (len(layer)+1)/2)
		for i := range next {
			l := layer[2*i]
			r := zero[d]
			if 2*i+1 < len(layer) {
				r = layer[2*i+1]
			}
			next[i] = h2(l, r)
		}
		if len(layer) == 0 {
			return zero[depth]
		}
		layer = next
	}
	if len(layer) == 0 {
		return zero[depth]
	}
	return layer[0]
}

func mixLen(root chunk, n uint64) chunk {
	var l chunk
	binary.LittleEndian.PutUint64(l[:8], n)
	return h2(root, l)
}

func u64(v uint64) (c chunk) { binary.LittleEndian.PutUint64(c[:8], v); return }

func boolean(b bool) (c chunk) {
	if b {
		c[0] = 1
	}
	return
}

func pack(b []byte) []chunk {
	out := make([]chunk, (len(b)+31)/32)
	for i := range out {
		copy(out[i][:], b[i*32:minInt(len(b), i*32+32)])
	}
	return out
}

func minInt(a, b int) int {
	if a < b {
		return a
	}
	return b
}

func container(fields ...chunk) chunk { return merkleize(fields, uint64(len(fields))) }

func bytes48(p [48]byte) chunk { return merkleize(pack(p[:]), 2) }

func vectorOfRoots(v [][32]byte) chunk {
	cs := make([]chunk, len(v))
	for i := range v {
		cs[i] = v[i]
	}
	return merkleize(cs, uint64(len(v)))
}

func listOfRoots(v [][32]byte, limit uint64) chunk {
	cs := make([]chunk, len(v))
	for i := range v {
		cs[i] = v[i]
	}
	return mixLen(merkleize(cs, limit), uint64(len(v)))
}

func packU64(v []uint64) []chunk {
	b := make([]byte, 8*len(v))
	for i, x := range v {
		binary.LittleEndian.PutUint64(b[8*i:], x)
	}
	return pack(b)
}

func listOfU64(v []uint64, limit uint64) chunk {
	return mixLen(merkleize(packU64(v), (limit*8+31)/32), uint64(len(v)))
}

func vectorOfU64(v []uint64) chunk { return merkleize(packU64(v), (uint64(len(v))*8+31)/32) }

func listOfBytes(v []byte, limit uint64) chunk {
	return mixLen(merkleize(pack(v), (limit+31)/32), uint64(len(v)))
}

// bitlist given as SSZ bytes including the delimiter bit
func bitlist(b []byte, limit uint64) chunk {
	if len(b) == 0 {
		panic("sszmodel: empty bitlist encoding")
	}
	last := b[len(b)-1]
	if last == 0 {
		panic("sszmodel: bitlist without delimiter")
	}
	hi := 7
	for last&(1<<uint(hi)) == 0 {
		hi--
	}
	n := uint64(len(b)-1)*8 + uint64(hi)
	data := append([]byte(nil), b...)
	data[len(data)-1] &^= 1 << uint(hi)
	if hi == 0 {
		data = data[:len(data)-1]
	}
	return mixLen(merkleize(pack(data), (limit+255)/256), n)
}

func checkpoint(epoch uint64, root [32]byte) chunk { return container(u64(epoch), root) }

func header(h *common.BeaconBlockHeader) chunk {
	return container(u64(uint64(h.Slot)), u64(uint64(h.ProposerIndex)), chunk(h.ParentRoot), chunk(h.StateRoot), chunk(h.BodyRoot))
}

func eth1Data(e *common.Eth1Data) chunk {
	return container(chunk(e.DepositRoot), u64(uint64(e.DepositCount)), chunk(e.BlockHash))
}

func validator(v *refspec.Validator) chunk {
	return container(bytes48(v.Pubkey), v.WithdrawalCredentials, u64(v.EffectiveBalance), boolean(v.Slashed),
		u64(v.ActivationEligibilityEpoch), u64(v.ActivationEpoch), u64(v.ExitEpoch), u64(v.WithdrawableEpoch))
}

func syncCommittee(sc *refspec.SyncCommittee) chunk {
	cs := make([]chunk, len(sc.Pubkeys))
	for i := range sc.Pubkeys {
		cs[i] = bytes48(sc.Pubkeys[i])
	}
	return container(merkleize(cs, uint64(len(cs))), bytes48(sc.AggregatePubkey))
}

func pendingAttestation(p *refspec.PendingAttestation, maxPerCommittee uint64) chunk {
	d := &p.Data
	data := container(u64(uint64(d.Slot)), u64(uint64(d.Index)), chunk(d.BeaconBlockRoot),
		checkpoint(uint64(d.Source.Epoch), d.Source.Root), checkpoint(uint64(d.Target.Epoch), d.Target.Root))
	return container(bitlist(p.AggregationBits, maxPerCommittee), data, u64(p.InclusionDelay), u64(p.ProposerIndex))
}

func execHeader(spec *common.Spec, f refspec.Fork, h *refspec.ExecHeader) chunk {
	var addr chunk
	copy(addr[:20], h.FeeRecipient[:])
	fields := []chunk{
		h.ParentHash, addr, h.StateRoot, h.ReceiptsRoot,
		merkleize(pack(h.LogsBloom[:]), uint64(spec.BYTES_PER_LOGS_BLOOM)/32),
		h.PrevRandao, u64(h.BlockNumber), u64(h.GasLimit), u64(h.GasUsed), u64(h.Timestamp),
		listOfBytes(h.ExtraData, uint64(spec.MAX_EXTRA_DATA_BYTES)),
		h.BaseFeePerGas, h.BlockHash, h.TransactionsRoot,
	}
	if f >= refspec.Capella {
		fields = append(fields, h.WithdrawalsRoot)
	}
	if f >= refspec.Deneb {
		fields = append(fields, u64(h.BlobGasUsed), u64(h.ExcessBlobGas))
	}
	return container(fields...)
}

// StateRoot: hash_tree_root(BeaconState) of the state's fork, from the specification's schema.
func StateRoot(spec *common.Spec, s *refspec.State) (root [32]byte, err error) {
	defer func() {
		if r := recover(); r != nil {
			err = fmt.Errorf("%v", r)
		}
	}()
	regLimit := uint64(spec.VALIDATOR_REGISTRY_LIMIT)
	vals := make([]chunk, len(s.Validators))
	for i := range s.Validators {
		vals[i] = validator(&s.Validators[i])
	}
	votes := make([]chunk, len(s.Eth1DataVotes))
	for i := range s.Eth1DataVotes {
		votes[i] = eth1Data(&s.Eth1DataVotes[i])
	}
	var fork chunk
	{
		var p, c chunk
		copy(p[:4], s.ForkPrevVersion[:])
		copy(c[:4], s.ForkCurVersion[:])
		fork = container(p, c, u64(s.ForkEpoch))
	}
	fields := []chunk{
		u64(s.GenesisTime), s.GenesisValidatorsRoot, u64(s.Slot), fork,
		header(&s.LatestBlockHeader),
		vectorOfRoots(s.BlockRoots), vectorOfRoots(s.StateRoots),
		listOfRoots(s.HistoricalRoots, uint64(spec.HISTORICAL_ROOTS_LIMIT)),
		eth1Data(&s.Eth1Data),
		mixLen(merkleize(votes, uint64(spec.EPOCHS_PER_ETH1_VOTING_PERIOD)*uint64(spec.SLOTS_PER_EPOCH)), uint64(len(votes))),
		u64(s.Eth1DepositIndex),
		mixLen(merkleize(vals, regLimit), uint64(len(vals))),
		listOfU64(s.Balances, regLimit),
		vectorOfRoots(s.RandaoMixes),
		vectorOfU64(s.Slashings),
	}
	if s.Fork == refspec.Phase0 {
		lim := uint64(spec.MAX_ATTESTATIONS) * uint64(spec.SLOTS_PER_EPOCH)
		pa := func(l []refspec.PendingAttestation) chunk {
			cs := make([]chunk, len(l))
			for i := range l {
				cs[i] = pendingAttestation(&l[i], uint64(spec.MAX_VALIDATORS_PER_COMMITTEE))
			}
			return mixLen(merkleize(cs, lim), uint64(len(cs)))
		}
		fields = append(fields, pa(s.PreviousEpochAttestations), pa(s.CurrentEpochAttestations))
	} else {
		fields = append(fields, listOfBytes(s.PreviousEpochParticipation, regLimit), listOfBytes(s.CurrentEpochParticipation, regLimit))
	}
	var jb chunk
	jb[0] = s.JustificationBits
	fields = append(fields, jb,
		checkpoint(s.PreviousJustified.Epoch, s.PreviousJustified.Root),
		checkpoint(s.CurrentJustified.Epoch, s.CurrentJustified.Root),
		checkpoint(s.Finalized.Epoch, s.Finalized.Root))
	if s.Fork >= refspec.Altair {
		if s.CurrentSyncCommittee == nil || s.NextSyncCommittee == nil {
			return root, fmt.Errorf("altair+ state without sync committees")
		}
		fields = append(fields, listOfU64(s.InactivityScores, regLimit), syncCommittee(s.CurrentSyncCommittee), syncCommittee(s.NextSyncCommittee))
	}
	if s.Fork >= refspec.Bellatrix {
		if s.LatestExecutionPayloadHeader == nil {
			return root, fmt.Errorf("bellatrix+ state without execution payload header")
		}
		fields = append(fields, execHeader(spec, s.Fork, s.LatestExecutionPayloadHeader))
	}
	if s.Fork >= refspec.Capella {
		hs := make([]chunk, len(s.HistoricalSummaries))
		for i := range s.HistoricalSummaries {
			hs[i] = container(s.HistoricalSummaries[i].BlockSummaryRoot, s.HistoricalSummaries[i].StateSummaryRoot)
		}
		fields = append(fields, u64(s.NextWithdrawalIndex), u64(s.NextWithdrawalValidatorIndex),
			mixLen(merkleize(hs, uint64(spec.HISTORICAL_ROOTS_LIMIT)), uint64(len(hs))))
	}
	return container(fields...), nil
}
