// zvsim: driver, worker and replay entry points of the /verif simulators.
package main

import (
	"encoding/json"
	"fmt"
	"os"
	"runtime"
	"strconv"

	"verif/sim/checks"
	"verif/sim/core"
	_ "verif/sim/cachesim"
	_ "verif/sim/chainsim"
	_ "verif/sim/codecsim"
	_ "verif/sim/fcsim"
	_ "verif/sim/poolsim"
	_ "verif/sim/schedsim"
)

func usage() {
	fmt.Fprintln(os.Stderr, "usage: zvsim check <ID> <quick|thorough> | worker <engine> <optjson> | replay <file> | replay-json <file> <optjson> | gen <engine> <seed> <optjson>")
	os.Exit(2)
}

func main() {
	if len(os.Args) < 2 {
		usage()
	}
	switch os.Args[1] {
	case "worker":
		var opt core.Options
		json.Unmarshal([]byte(os.Args[3]), &opt)
		os.Exit(core.WorkerMain(os.Args[2], opt))
	case "replay-json", "replay":
		b, err := os.ReadFile(os.Args[2])
		if err != nil {
			fmt.Fprintln(os.Stderr, err)
			os.Exit(2)
		}
		var rf core.ReplayFile
		if err := json.Unmarshal(b, &rf); err != nil {
			fmt.Fprintln(os.Stderr, err)
			os.Exit(2)
		}
		opt := core.Options{Property: rf.Property, Tier: "quick"}
		if len(os.Args) > 3 {
			json.Unmarshal([]byte(os.Args[3]), &opt)
		}
		e := core.Lookup(rf.Engine)
		if e == nil {
			fmt.Fprintln(os.Stderr, "unknown engine", rf.Engine)
			os.Exit(2)
		}
		r := e.Replay(&rf, opt)
		if os.Args[1] == "replay-json" {
			json.NewEncoder(os.Stdout).Encode(r)
			return
		}
		fmt.Printf("replay engine=%s seed=%d expected signature=%s\n", rf.Engine, rf.Seed, rf.Signature)
		for _, v := range r.Violations {
			fmt.Printf("  step %d: %s: %s\n", v.Step, v.Signature, v.Detail)
		}
		if r.HasSig(rf.Property, rf.Signature) {
			fmt.Printf("VIOLATION property=%s replay=%s\n", rf.Property, os.Args[2])
			os.Exit(1)
		}
		if rf.Signature != "" {
			fmt.Println("REPLAY-MISMATCH: the recorded signature was not reproduced")
			os.Exit(2)
		}
	case "run-json":
		// one run in this process: engine seed optjson
		seed, _ := strconv.ParseUint(os.Args[3], 10, 64)
		var opt core.Options
		if len(os.Args) > 4 {
			json.Unmarshal([]byte(os.Args[4]), &opt)
		}
		r := core.Lookup(os.Args[2]).Run(seed, opt)
		r.Script, r.Config, r.Sample = nil, nil, nil
		json.NewEncoder(os.Stdout).Encode(r)
	case "determinism":
		// determinism <engine> <optjson> <nseeds>: every seed 3x in fresh processes under GOMAXPROCS 1/4/16
		os.Exit(core.Determinism(os.Args[2], os.Args[3], os.Args[4]))
	case "gen":
		seed, _ := strconv.ParseUint(os.Args[3], 10, 64)
		var opt core.Options
		if len(os.Args) > 4 {
			json.Unmarshal([]byte(os.Args[4]), &opt)
		}
		if g, ok := core.Lookup(os.Args[2]).(core.Generator); ok {
			json.NewEncoder(os.Stdout).Encode(g.Generate(seed, opt))
		}
	case "check":
		if len(os.Args) < 4 {
			usage()
		}
		seed := uint64(20260925)
		if s := os.Getenv("VERIF_SEED"); s != "" {
			if v, err := strconv.ParseUint(s, 10, 64); err == nil {
				seed = v
			}
		}
		verif := os.Getenv("VERIF_DIR")
		if verif == "" {
			verif = "/verif"
		}
		cs := checks.Spec(os.Args[2], os.Args[3])
		if cs == nil {
			fmt.Fprintln(os.Stderr, "unknown property", os.Args[2])
			os.Exit(2)
		}
		cs.Seed = seed
		cs.VerifDir = verif
		if cs.Workers == 0 {
			cs.Workers = runtime.NumCPU()
		}
		os.Exit(core.RunCheck(cs))
	default:
		usage()
	}
}
