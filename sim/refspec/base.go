package refspec

import (
	"crypto/sha256"
	"encoding/binary"
	"errors"
	"fmt"
	"math/bits"
	"runtime/debug"
	"sync"

	blsu "github.com/protolambda/bls12-381-util"
	"github.com/protolambda/zrnt/eth2/beacon/common"
)

// ---------------------------------------------------------------------------------------------
// Error discipline.
//
// The python specification signals an invalid input by raising (assert, IndexError, uint64
// overflow ...). Internally the model does the same with a typed panic (*specErr); every exported
// entry point converts it into an ordinary error return. Any OTHER panic is a defect of the model
// (or a structurally malformed State) and is reported as "model panic: ...".
// ---------------------------------------------------------------------------------------------

type specErr struct{ msg string }

func (e *specErr) Error() string { return e.msg }

func fail(format string, args ...interface{}) {
	panic(&specErr{msg: fmt.Sprintf(format, args...)})
}

// must is the spec's `assert`.
func must(cond bool, format string, args ...interface{}) {
	if !cond {
		fail(format, args...)
	}
}

func catch(err *error) {
	if r := recover(); r != nil {
		if se, ok := r.(*specErr); ok {
			*err = se
			return
		}
		st := debug.Stack()
		if len(st) > 3000 {
			st = st[:3000]
		}
		*err = fmt.Errorf("model panic: %v\n%s", r, st)
	}
}

// ---------------------------------------------------------------------------------------------
// Checked uint64 arithmetic (the spec's uint64 raises on overflow/underflow).
// ---------------------------------------------------------------------------------------------

func add(a, b uint64) uint64 {
	c, carry := bits.Add64(a, b, 0)
	if carry != 0 {
		fail("overflow: %d + %d", a, b)
	}
	return c
}

func sub(a, b uint64) uint64 {
	if b > a {
		fail("overflow (negative uint64): %d - %d", a, b)
	}
	return a - b
}

func mul(a, b uint64) uint64 {
	hi, lo := bits.Mul64(a, b)
	if hi != 0 {
		fail("overflow: %d * %d", a, b)
	}
	return lo
}

func div(a, b uint64) uint64 {
	if b == 0 {
		fail("division by zero")
	}
	return a / b
}

func mod(a, b uint64) uint64 {
	if b == 0 {
		fail("modulo by zero")
	}
	return a % b
}

func minU(a, b uint64) uint64 {
	if a < b {
		return a
	}
	return b
}

func maxU(a, b uint64) uint64 {
	if a > b {
		return a
	}
	return b
}

// integerSquareroot is the spec's integer_squareroot: the largest x with x*x <= n.
func integerSquareroot(n uint64) uint64 {
	if n == ^uint64(0) {
		return 4294967295
	}
	x := n
	y := (x + 1) / 2
	for y < x {
		x = y
		y = (x + n/x) / 2
	}
	return x
}

// ---------------------------------------------------------------------------------------------
// Hashing / byte helpers
// ---------------------------------------------------------------------------------------------

func hash(parts ...[]byte) [32]byte {
	h := sha256.New()
	for _, p := range parts {
		h.Write(p)
	}
	var out [32]byte
	copy(out[:], h.Sum(nil))
	return out
}

func hash2(a, b [32]byte) [32]byte {
	return hash(a[:], b[:])
}

// uintToBytes8 = uint_to_bytes(uint64(x)) (little endian).
func uintToBytes8(x uint64) []byte {
	var b [8]byte
	binary.LittleEndian.PutUint64(b[:], x)
	return b[:]
}

func uintToBytes4(x uint32) []byte {
	var b [4]byte
	binary.LittleEndian.PutUint32(b[:], x)
	return b[:]
}

// bytesToUint64 = bytes_to_uint64 (little endian) of the first 8 bytes.
func bytesToUint64(b []byte) uint64 {
	return binary.LittleEndian.Uint64(b[:8])
}

func xor32(a, b [32]byte) [32]byte {
	var out [32]byte
	for i := 0; i < 32; i++ {
		out[i] = a[i] ^ b[i]
	}
	return out
}

// uint64Root = hash_tree_root(uint64(x)).
func uint64Root(x uint64) [32]byte {
	var out [32]byte
	binary.LittleEndian.PutUint64(out[:8], x)
	return out
}

var zeroHashes = func() [64][32]byte {
	var z [64][32]byte
	for i := 1; i < 64; i++ {
		z[i] = hash2(z[i-1], z[i-1])
	}
	return z
}()

// merkleizeChunks computes the root of a binary tree of the given depth whose first len(chunks)
// leaves are chunks and whose remaining leaves are zero.
func merkleizeChunks(chunks [][32]byte, depth uint) [32]byte {
	if depth < 63 {
		must(uint64(len(chunks)) <= (uint64(1)<<depth), "too many chunks for depth %d", depth)
	}
	layer := make([][32]byte, len(chunks))
	copy(layer, chunks)
	for d := uint(0); d < depth; d++ {
		next := make([][32]byte, 0, (len(layer)+1)/2)
		for i := 0; i < len(layer); i += 2 {
			if i+1 < len(layer) {
				next = append(next, hash2(layer[i], layer[i+1]))
			} else {
				next = append(next, hash2(layer[i], zeroHashes[d]))
			}
		}
		layer = next
	}
	if len(layer) == 0 {
		return zeroHashes[depth]
	}
	return layer[0]
}

func mixInLength(root [32]byte, length uint64) [32]byte {
	return hash2(root, uint64Root(length))
}

// ---------------------------------------------------------------------------------------------
// Constants of the specification that are not in the preset/config table.
// ---------------------------------------------------------------------------------------------

const (
	genesisSlot              = uint64(0)
	genesisEpoch             = uint64(0)
	farFutureEpoch           = ^uint64(0)
	baseRewardsPerEpoch      = uint64(4)
	depositContractTreeDepth = 32
	justificationBitsLength  = 4
	maxRandomByte            = uint64(255) // 2**8 - 1

	blsWithdrawalPrefix         = byte(0x00)
	eth1AddressWithdrawalPrefix = byte(0x01)

	timelySourceFlagIndex = 0
	timelyTargetFlagIndex = 1
	timelyHeadFlagIndex   = 2

	timelySourceWeight = uint64(14)
	timelyTargetWeight = uint64(26)
	timelyHeadWeight   = uint64(14)
	syncRewardWeight   = uint64(2)
	proposerWeight     = uint64(8)
	weightDenominator  = uint64(64)
)

var participationFlagWeights = [3]uint64{timelySourceWeight, timelyTargetWeight, timelyHeadWeight}

var (
	domainBeaconProposer       = [4]byte{0x00, 0x00, 0x00, 0x00}
	domainBeaconAttester       = [4]byte{0x01, 0x00, 0x00, 0x00}
	domainRandao               = [4]byte{0x02, 0x00, 0x00, 0x00}
	domainDeposit              = [4]byte{0x03, 0x00, 0x00, 0x00}
	domainVoluntaryExit        = [4]byte{0x04, 0x00, 0x00, 0x00}
	domainSyncCommittee        = [4]byte{0x07, 0x00, 0x00, 0x00}
	domainBLSToExecutionChange = [4]byte{0x0A, 0x00, 0x00, 0x00}
)

// g2PointAtInfinity is the compressed serialisation of the G2 identity.
var g2PointAtInfinity = func() [96]byte {
	var s [96]byte
	s[0] = 0xc0
	return s
}()

// g1PointAtInfinity is the compressed serialisation of the G1 identity (never a valid public key).
var g1PointAtInfinity = func() [48]byte {
	var s [48]byte
	s[0] = 0xc0
	return s
}()

// ---------------------------------------------------------------------------------------------
// params: the preset/config table of common.Spec, read once into plain uint64s.
// Only FIELDS of common.Spec are read; none of its methods is called.
// ---------------------------------------------------------------------------------------------

type params struct {
	MaxCommitteesPerSlot, TargetCommitteeSize, MaxValidatorsPerCommittee uint64
	ShuffleRoundCount                                                    uint64
	HysteresisQuotient, HysteresisDownwardMultiplier                     uint64
	HysteresisUpwardMultiplier                                           uint64
	MaxEffectiveBalance, EffectiveBalanceIncrement                       uint64
	MinAttestationInclusionDelay, SlotsPerEpoch                          uint64
	MinSeedLookahead, MaxSeedLookahead                                   uint64
	EpochsPerEth1VotingPeriod, SlotsPerHistoricalRoot                    uint64
	MinEpochsToInactivityPenalty                                         uint64
	EpochsPerHistoricalVector, EpochsPerSlashingsVector                  uint64
	HistoricalRootsLimit, ValidatorRegistryLimit                         uint64
	BaseRewardFactor, WhistleblowerRewardQuotient                        uint64
	ProposerRewardQuotient                                               uint64
	InactivityPenaltyQuotient, MinSlashingPenaltyQuotient                uint64
	ProportionalSlashingMultiplier                                       uint64
	MaxProposerSlashings, MaxAttesterSlashings, MaxAttestations          uint64
	MaxDeposits, MaxVoluntaryExits                                       uint64

	InactivityPenaltyQuotientAltair, MinSlashingPenaltyQuotientAltair uint64
	ProportionalSlashingMultiplierAltair                              uint64
	SyncCommitteeSize, EpochsPerSyncCommitteePeriod                   uint64

	InactivityPenaltyQuotientBellatrix, MinSlashingPenaltyQuotientBellatrix uint64
	ProportionalSlashingMultiplierBellatrix                                 uint64
	MaxBytesPerTransaction, MaxTransactionsPerPayload, MaxExtraDataBytes    uint64

	MaxBLSToExecutionChanges, MaxWithdrawalsPerPayload uint64
	MaxValidatorsPerWithdrawalsSweep                   uint64

	MaxBlobCommitmentsPerBlock, MaxBlobsPerBlock uint64

	MinGenesisActiveValidatorCount, MinGenesisTime, GenesisDelay uint64
	GenesisForkVersion                                           [4]byte
	AltairForkVersion, BellatrixForkVersion                      [4]byte
	CapellaForkVersion, DenebForkVersion                         [4]byte
	AltairForkEpoch, BellatrixForkEpoch                          uint64
	CapellaForkEpoch, DenebForkEpoch                             uint64
	SecondsPerSlot, MinValidatorWithdrawabilityDelay             uint64
	ShardCommitteePeriod                                         uint64
	InactivityScoreBias, InactivityScoreRecoveryRate             uint64
	EjectionBalance, MinPerEpochChurnLimit, ChurnLimitQuotient   uint64
	MaxPerEpochActivationChurnLimit                              uint64
}

func loadParams(spec *common.Spec) *params {
	if spec == nil {
		fail("nil spec")
	}
	return &params{
		MaxCommitteesPerSlot:           uint64(spec.MAX_COMMITTEES_PER_SLOT),
		TargetCommitteeSize:            uint64(spec.TARGET_COMMITTEE_SIZE),
		MaxValidatorsPerCommittee:      uint64(spec.MAX_VALIDATORS_PER_COMMITTEE),
		ShuffleRoundCount:              uint64(spec.SHUFFLE_ROUND_COUNT),
		HysteresisQuotient:             uint64(spec.HYSTERESIS_QUOTIENT),
		HysteresisDownwardMultiplier:   uint64(spec.HYSTERESIS_DOWNWARD_MULTIPLIER),
		HysteresisUpwardMultiplier:     uint64(spec.HYSTERESIS_UPWARD_MULTIPLIER),
		MaxEffectiveBalance:            uint64(spec.MAX_EFFECTIVE_BALANCE),
		EffectiveBalanceIncrement:      uint64(spec.EFFECTIVE_BALANCE_INCREMENT),
		MinAttestationInclusionDelay:   uint64(spec.MIN_ATTESTATION_INCLUSION_DELAY),
		SlotsPerEpoch:                  uint64(spec.SLOTS_PER_EPOCH),
		MinSeedLookahead:               uint64(spec.MIN_SEED_LOOKAHEAD),
		MaxSeedLookahead:               uint64(spec.MAX_SEED_LOOKAHEAD),
		EpochsPerEth1VotingPeriod:      uint64(spec.EPOCHS_PER_ETH1_VOTING_PERIOD),
		SlotsPerHistoricalRoot:         uint64(spec.SLOTS_PER_HISTORICAL_ROOT),
		MinEpochsToInactivityPenalty:   uint64(spec.MIN_EPOCHS_TO_INACTIVITY_PENALTY),
		EpochsPerHistoricalVector:      uint64(spec.EPOCHS_PER_HISTORICAL_VECTOR),
		EpochsPerSlashingsVector:       uint64(spec.EPOCHS_PER_SLASHINGS_VECTOR),
		HistoricalRootsLimit:           uint64(spec.HISTORICAL_ROOTS_LIMIT),
		ValidatorRegistryLimit:         uint64(spec.VALIDATOR_REGISTRY_LIMIT),
		BaseRewardFactor:               uint64(spec.BASE_REWARD_FACTOR),
		WhistleblowerRewardQuotient:    uint64(spec.WHISTLEBLOWER_REWARD_QUOTIENT),
		ProposerRewardQuotient:         uint64(spec.PROPOSER_REWARD_QUOTIENT),
		InactivityPenaltyQuotient:      uint64(spec.INACTIVITY_PENALTY_QUOTIENT),
		MinSlashingPenaltyQuotient:     uint64(spec.MIN_SLASHING_PENALTY_QUOTIENT),
		ProportionalSlashingMultiplier: uint64(spec.PROPORTIONAL_SLASHING_MULTIPLIER),
		MaxProposerSlashings:           uint64(spec.MAX_PROPOSER_SLASHINGS),
		MaxAttesterSlashings:           uint64(spec.MAX_ATTESTER_SLASHINGS),
		MaxAttestations:                uint64(spec.MAX_ATTESTATIONS),
		MaxDeposits:                    uint64(spec.MAX_DEPOSITS),
		MaxVoluntaryExits:              uint64(spec.MAX_VOLUNTARY_EXITS),

		InactivityPenaltyQuotientAltair:      uint64(spec.INACTIVITY_PENALTY_QUOTIENT_ALTAIR),
		MinSlashingPenaltyQuotientAltair:     uint64(spec.MIN_SLASHING_PENALTY_QUOTIENT_ALTAIR),
		ProportionalSlashingMultiplierAltair: uint64(spec.PROPORTIONAL_SLASHING_MULTIPLIER_ALTAIR),
		SyncCommitteeSize:                    uint64(spec.SYNC_COMMITTEE_SIZE),
		EpochsPerSyncCommitteePeriod:         uint64(spec.EPOCHS_PER_SYNC_COMMITTEE_PERIOD),

		InactivityPenaltyQuotientBellatrix:      uint64(spec.INACTIVITY_PENALTY_QUOTIENT_BELLATRIX),
		MinSlashingPenaltyQuotientBellatrix:     uint64(spec.MIN_SLASHING_PENALTY_QUOTIENT_BELLATRIX),
		ProportionalSlashingMultiplierBellatrix: uint64(spec.PROPORTIONAL_SLASHING_MULTIPLIER_BELLATRIX),
		MaxBytesPerTransaction:                  uint64(spec.MAX_BYTES_PER_TRANSACTION),
		MaxTransactionsPerPayload:               uint64(spec.MAX_TRANSACTIONS_PER_PAYLOAD),
		MaxExtraDataBytes:                       uint64(spec.MAX_EXTRA_DATA_BYTES),

		MaxBLSToExecutionChanges:         uint64(spec.MAX_BLS_TO_EXECUTION_CHANGES),
		MaxWithdrawalsPerPayload:         uint64(spec.MAX_WITHDRAWALS_PER_PAYLOAD),
		MaxValidatorsPerWithdrawalsSweep: uint64(spec.MAX_VALIDATORS_PER_WITHDRAWALS_SWEEP),

		MaxBlobCommitmentsPerBlock: uint64(spec.MAX_BLOB_COMMITMENTS_PER_BLOCK),
		MaxBlobsPerBlock:           uint64(spec.MAX_BLOBS_PER_BLOCK),

		MinGenesisActiveValidatorCount:   uint64(spec.MIN_GENESIS_ACTIVE_VALIDATOR_COUNT),
		MinGenesisTime:                   uint64(spec.MIN_GENESIS_TIME),
		GenesisDelay:                     uint64(spec.GENESIS_DELAY),
		GenesisForkVersion:               [4]byte(spec.GENESIS_FORK_VERSION),
		AltairForkVersion:                [4]byte(spec.ALTAIR_FORK_VERSION),
		BellatrixForkVersion:             [4]byte(spec.BELLATRIX_FORK_VERSION),
		CapellaForkVersion:               [4]byte(spec.CAPELLA_FORK_VERSION),
		DenebForkVersion:                 [4]byte(spec.DENEB_FORK_VERSION),
		AltairForkEpoch:                  uint64(spec.ALTAIR_FORK_EPOCH),
		BellatrixForkEpoch:               uint64(spec.BELLATRIX_FORK_EPOCH),
		CapellaForkEpoch:                 uint64(spec.CAPELLA_FORK_EPOCH),
		DenebForkEpoch:                   uint64(spec.DENEB_FORK_EPOCH),
		SecondsPerSlot:                   uint64(spec.SECONDS_PER_SLOT),
		MinValidatorWithdrawabilityDelay: uint64(spec.MIN_VALIDATOR_WITHDRAWABILITY_DELAY),
		ShardCommitteePeriod:             uint64(spec.SHARD_COMMITTEE_PERIOD),
		InactivityScoreBias:              uint64(spec.INACTIVITY_SCORE_BIAS),
		InactivityScoreRecoveryRate:      uint64(spec.INACTIVITY_SCORE_RECOVERY_RATE),
		EjectionBalance:                  uint64(spec.EJECTION_BALANCE),
		MinPerEpochChurnLimit:            uint64(spec.MIN_PER_EPOCH_CHURN_LIMIT),
		ChurnLimitQuotient:               uint64(spec.CHURN_LIMIT_QUOTIENT),
		MaxPerEpochActivationChurnLimit:  uint64(spec.MAX_PER_EPOCH_ACTIVATION_CHURN_LIMIT),
	}
}

// ---------------------------------------------------------------------------------------------
// BLS (thin wrappers around the BLS library; no consensus logic here)
// ---------------------------------------------------------------------------------------------

// Memoisation of pubkey decompression: a pure function of the 48 input bytes.
var (
	pubkeyMemoMu sync.Mutex
	pubkeyMemo   = map[[48]byte]*blsu.Pubkey{}
)

// parsePubkey returns nil if the bytes are not a valid public key (KeyValidate: valid point,
// in the subgroup, not the identity).
func parsePubkey(pk [48]byte) *blsu.Pubkey {
	if pk == g1PointAtInfinity {
		return nil
	}
	pubkeyMemoMu.Lock()
	p, ok := pubkeyMemo[pk]
	pubkeyMemoMu.Unlock()
	if ok {
		return p
	}
	var pub blsu.Pubkey
	var res *blsu.Pubkey
	raw := pk
	if err := safeCall(func() error { return pub.Deserialize(&raw) }); err == nil {
		res = &pub
	}
	pubkeyMemoMu.Lock()
	if len(pubkeyMemo) > 1<<18 {
		pubkeyMemo = map[[48]byte]*blsu.Pubkey{}
	}
	pubkeyMemo[pk] = res
	pubkeyMemoMu.Unlock()
	return res
}

func parseSignature(sig [96]byte) *blsu.Signature {
	var s blsu.Signature
	raw := sig
	if err := safeCall(func() error { return s.Deserialize(&raw) }); err != nil {
		return nil
	}
	return &s
}

// safeCall shields against panics inside the crypto library on garbage input: the spec's bls
// wrappers treat any exception as "invalid".
func safeCall(f func() error) (err error) {
	defer func() {
		if r := recover(); r != nil {
			err = errors.New("crypto library panic")
		}
	}()
	return f()
}

// blsVerify = bls.Verify(pubkey, message, signature)
func blsVerify(pk [48]byte, msg [32]byte, sig [96]byte) bool {
	pub := parsePubkey(pk)
	if pub == nil {
		return false
	}
	s := parseSignature(sig)
	if s == nil {
		return false
	}
	ok := false
	_ = safeCall(func() error { ok = blsu.Verify(pub, msg[:], s); return nil })
	return ok
}

// blsFastAggregateVerify = bls.FastAggregateVerify(pubkeys, message, signature)
func blsFastAggregateVerify(pks [][48]byte, msg [32]byte, sig [96]byte) bool {
	if len(pks) == 0 {
		return false
	}
	pubs := make([]*blsu.Pubkey, 0, len(pks))
	for _, pk := range pks {
		p := parsePubkey(pk)
		if p == nil {
			return false
		}
		pubs = append(pubs, p)
	}
	s := parseSignature(sig)
	if s == nil {
		return false
	}
	ok := false
	_ = safeCall(func() error { ok = blsu.FastAggregateVerify(pubs, msg[:], s); return nil })
	return ok
}

// ethFastAggregateVerify = eth_fast_aggregate_verify (altair/bls.md)
func ethFastAggregateVerify(pks [][48]byte, msg [32]byte, sig [96]byte) bool {
	if len(pks) == 0 && sig == g2PointAtInfinity {
		return true
	}
	return blsFastAggregateVerify(pks, msg, sig)
}

// ethAggregatePubkeys = eth_aggregate_pubkeys (altair/bls.md)
func ethAggregatePubkeys(pks [][48]byte) [48]byte {
	must(len(pks) > 0, "eth_aggregate_pubkeys: no pubkeys")
	pubs := make([]*blsu.Pubkey, 0, len(pks))
	for i, pk := range pks {
		p := parsePubkey(pk)
		must(p != nil, "eth_aggregate_pubkeys: invalid pubkey at position %d", i)
		pubs = append(pubs, p)
	}
	var out [48]byte
	err := safeCall(func() error {
		agg, err := blsu.AggregatePubkeys(pubs)
		if err != nil {
			return err
		}
		out = agg.Serialize()
		return nil
	})
	must(err == nil, "eth_aggregate_pubkeys failed: %v", err)
	return out
}
