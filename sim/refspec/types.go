// Package refspec is an independent, deliberately naive, executable transcription of the
// Ethereum consensus specification (beacon chain state transition) for the forks
// phase0, altair, bellatrix, capella and deneb (spec v1.4.x).
//
// It is used as an ORACLE for the library under test. It only imports the plain data
// structs (and their struct-form hash_tree_root) from the library; every formula and
// every loop of the specification is written here from scratch, in the most direct style:
// no epoch caches, committees and proposers are computed per index with
// compute_shuffled_index, total balances are recomputed from the registry.
package refspec

import (
	"github.com/protolambda/zrnt/eth2/beacon/common"
	"github.com/protolambda/zrnt/eth2/beacon/phase0"
)

// Fork identifies the consensus fork a State is in.
type Fork int

const (
	Phase0 Fork = iota
	Altair
	Bellatrix
	Capella
	Deneb
)

func (f Fork) String() string {
	switch f {
	case Phase0:
		return "phase0"
	case Altair:
		return "altair"
	case Bellatrix:
		return "bellatrix"
	case Capella:
		return "capella"
	case Deneb:
		return "deneb"
	default:
		return "unknown-fork"
	}
}

type Checkpoint struct {
	Epoch uint64
	Root  [32]byte
}

type Validator struct {
	Pubkey                     [48]byte
	WithdrawalCredentials      [32]byte
	EffectiveBalance           uint64
	Slashed                    bool
	ActivationEligibilityEpoch uint64
	ActivationEpoch            uint64
	ExitEpoch                  uint64
	WithdrawableEpoch          uint64
}

type PendingAttestation struct {
	AggregationBits []byte // SSZ bitlist bytes incl. delimiter
	Data            phase0.AttestationData
	InclusionDelay  uint64
	ProposerIndex   uint64
}

type SyncCommittee struct {
	Pubkeys         [][48]byte
	AggregatePubkey [48]byte
}

// ExecHeader is a superset of the bellatrix/capella/deneb ExecutionPayloadHeader,
// zero where the fork lacks the field.
type ExecHeader struct {
	ParentHash       [32]byte
	FeeRecipient     [20]byte
	StateRoot        [32]byte
	ReceiptsRoot     [32]byte
	LogsBloom        [256]byte
	PrevRandao       [32]byte
	BlockNumber      uint64
	GasLimit         uint64
	GasUsed          uint64
	Timestamp        uint64
	ExtraData        []byte
	BaseFeePerGas    [32]byte // little-endian uint256 bytes
	BlockHash        [32]byte
	TransactionsRoot [32]byte
	WithdrawalsRoot  [32]byte
	BlobGasUsed      uint64
	ExcessBlobGas    uint64
}

type HistoricalSummary struct {
	BlockSummaryRoot [32]byte
	StateSummaryRoot [32]byte
}

type State struct {
	Fork Fork

	GenesisTime           uint64
	GenesisValidatorsRoot [32]byte
	Slot                  uint64
	ForkPrevVersion       [4]byte
	ForkCurVersion        [4]byte
	ForkEpoch             uint64

	LatestBlockHeader common.BeaconBlockHeader
	BlockRoots        [][32]byte // length SLOTS_PER_HISTORICAL_ROOT
	StateRoots        [][32]byte // length SLOTS_PER_HISTORICAL_ROOT
	HistoricalRoots   [][32]byte

	Eth1Data         common.Eth1Data
	Eth1DataVotes    []common.Eth1Data
	Eth1DepositIndex uint64

	Validators  []Validator
	Balances    []uint64
	RandaoMixes [][32]byte // length EPOCHS_PER_HISTORICAL_VECTOR
	Slashings   []uint64   // length EPOCHS_PER_SLASHINGS_VECTOR

	PreviousEpochAttestations []PendingAttestation // phase0 only
	CurrentEpochAttestations  []PendingAttestation // phase0 only

	PreviousEpochParticipation []byte // altair+
	CurrentEpochParticipation  []byte // altair+

	JustificationBits byte // bit i = justification_bits[i]
	PreviousJustified Checkpoint
	CurrentJustified  Checkpoint
	Finalized         Checkpoint

	InactivityScores []uint64 // altair+

	CurrentSyncCommittee *SyncCommittee // altair+
	NextSyncCommittee    *SyncCommittee // altair+

	LatestExecutionPayloadHeader *ExecHeader // bellatrix+

	NextWithdrawalIndex          uint64              // capella+
	NextWithdrawalValidatorIndex uint64              // capella+
	HistoricalSummaries          []HistoricalSummary // capella+
}

func copyRoots(in [][32]byte) [][32]byte {
	if in == nil {
		return nil
	}
	out := make([][32]byte, len(in))
	copy(out, in)
	return out
}

func copyU64s(in []uint64) []uint64 {
	if in == nil {
		return nil
	}
	out := make([]uint64, len(in))
	copy(out, in)
	return out
}

func copyBytes(in []byte) []byte {
	if in == nil {
		return nil
	}
	out := make([]byte, len(in))
	copy(out, in)
	return out
}

func copyPending(in []PendingAttestation) []PendingAttestation {
	if in == nil {
		return nil
	}
	out := make([]PendingAttestation, len(in))
	for i := range in {
		out[i] = in[i]
		out[i].AggregationBits = copyBytes(in[i].AggregationBits)
	}
	return out
}

func (c *SyncCommittee) copy() *SyncCommittee {
	if c == nil {
		return nil
	}
	out := &SyncCommittee{AggregatePubkey: c.AggregatePubkey}
	if c.Pubkeys != nil {
		out.Pubkeys = make([][48]byte, len(c.Pubkeys))
		copy(out.Pubkeys, c.Pubkeys)
	}
	return out
}

func (h *ExecHeader) copy() *ExecHeader {
	if h == nil {
		return nil
	}
	out := *h
	out.ExtraData = copyBytes(h.ExtraData)
	return &out
}

// Copy returns a deep copy of the state.
func (s *State) Copy() *State {
	if s == nil {
		return nil
	}
	out := *s // copies all plain value fields (arrays, structs without slices)
	out.BlockRoots = copyRoots(s.BlockRoots)
	out.StateRoots = copyRoots(s.StateRoots)
	out.HistoricalRoots = copyRoots(s.HistoricalRoots)
	if s.Eth1DataVotes != nil {
		out.Eth1DataVotes = make([]common.Eth1Data, len(s.Eth1DataVotes))
		copy(out.Eth1DataVotes, s.Eth1DataVotes)
	}
	if s.Validators != nil {
		out.Validators = make([]Validator, len(s.Validators))
		copy(out.Validators, s.Validators)
	}
	out.Balances = copyU64s(s.Balances)
	out.RandaoMixes = copyRoots(s.RandaoMixes)
	out.Slashings = copyU64s(s.Slashings)
	out.PreviousEpochAttestations = copyPending(s.PreviousEpochAttestations)
	out.CurrentEpochAttestations = copyPending(s.CurrentEpochAttestations)
	out.PreviousEpochParticipation = copyBytes(s.PreviousEpochParticipation)
	out.CurrentEpochParticipation = copyBytes(s.CurrentEpochParticipation)
	out.InactivityScores = copyU64s(s.InactivityScores)
	out.CurrentSyncCommittee = s.CurrentSyncCommittee.copy()
	out.NextSyncCommittee = s.NextSyncCommittee.copy()
	out.LatestExecutionPayloadHeader = s.LatestExecutionPayloadHeader.copy()
	if s.HistoricalSummaries != nil {
		out.HistoricalSummaries = make([]HistoricalSummary, len(s.HistoricalSummaries))
		copy(out.HistoricalSummaries, s.HistoricalSummaries)
	}
	return &out
}
