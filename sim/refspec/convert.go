package refspec

import (
	"bytes"
	"fmt"
	"strings"

	"github.com/protolambda/zrnt/eth2/beacon/altair"
	"github.com/protolambda/zrnt/eth2/beacon/bellatrix"
	"github.com/protolambda/zrnt/eth2/beacon/capella"
	"github.com/protolambda/zrnt/eth2/beacon/common"
	"github.com/protolambda/zrnt/eth2/beacon/deneb"
	"github.com/protolambda/zrnt/eth2/beacon/phase0"
	"github.com/protolambda/ztyp/tree"
	"github.com/protolambda/ztyp/view"
)

// ---------------------------------------------------------------------------------------------
// raw -> State
// ---------------------------------------------------------------------------------------------

func rootsIn(in []common.Root) [][32]byte {
	out := make([][32]byte, len(in))
	for i := range in {
		out[i] = in[i]
	}
	return out
}

func rootsOut(in [][32]byte) []common.Root {
	out := make([]common.Root, len(in))
	for i := range in {
		out[i] = in[i]
	}
	return out
}

func checkpointIn(c common.Checkpoint) Checkpoint {
	return Checkpoint{Epoch: uint64(c.Epoch), Root: c.Root}
}

func checkpointOut(c Checkpoint) common.Checkpoint {
	return common.Checkpoint{Epoch: common.Epoch(c.Epoch), Root: c.Root}
}

func validatorsIn(in phase0.ValidatorRegistry) []Validator {
	out := make([]Validator, len(in))
	for i, v := range in {
		if v == nil {
			fail("raw state: nil validator at %d", i)
		}
		out[i] = Validator{
			Pubkey:                     v.Pubkey,
			WithdrawalCredentials:      v.WithdrawalCredentials,
			EffectiveBalance:           uint64(v.EffectiveBalance),
			Slashed:                    v.Slashed,
			ActivationEligibilityEpoch: uint64(v.ActivationEligibilityEpoch),
			ActivationEpoch:            uint64(v.ActivationEpoch),
			ExitEpoch:                  uint64(v.ExitEpoch),
			WithdrawableEpoch:          uint64(v.WithdrawableEpoch),
		}
	}
	return out
}

func validatorsOut(in []Validator) phase0.ValidatorRegistry {
	out := make(phase0.ValidatorRegistry, len(in))
	for i := range in {
		v := &in[i]
		out[i] = &phase0.Validator{
			Pubkey:                     v.Pubkey,
			WithdrawalCredentials:      v.WithdrawalCredentials,
			EffectiveBalance:           common.Gwei(v.EffectiveBalance),
			Slashed:                    v.Slashed,
			ActivationEligibilityEpoch: common.Epoch(v.ActivationEligibilityEpoch),
			ActivationEpoch:            common.Epoch(v.ActivationEpoch),
			ExitEpoch:                  common.Epoch(v.ExitEpoch),
			WithdrawableEpoch:          common.Epoch(v.WithdrawableEpoch),
		}
	}
	return out
}

func gweisIn(in []common.Gwei) []uint64 {
	out := make([]uint64, len(in))
	for i := range in {
		out[i] = uint64(in[i])
	}
	return out
}

func gweisOut(in []uint64) []common.Gwei {
	out := make([]common.Gwei, len(in))
	for i := range in {
		out[i] = common.Gwei(in[i])
	}
	return out
}

func pendingIn(in phase0.PendingAttestations) []PendingAttestation {
	out := make([]PendingAttestation, len(in))
	for i, a := range in {
		if a == nil {
			fail("raw state: nil pending attestation at %d", i)
		}
		out[i] = PendingAttestation{
			AggregationBits: copyBytes(a.AggregationBits),
			Data:            a.Data,
			InclusionDelay:  uint64(a.InclusionDelay),
			ProposerIndex:   uint64(a.ProposerIndex),
		}
	}
	return out
}

func pendingOut(in []PendingAttestation) phase0.PendingAttestations {
	out := make(phase0.PendingAttestations, len(in))
	for i := range in {
		a := &in[i]
		out[i] = &phase0.PendingAttestation{
			AggregationBits: phase0.AttestationBits(copyBytes(a.AggregationBits)),
			Data:            a.Data,
			InclusionDelay:  common.Slot(a.InclusionDelay),
			ProposerIndex:   common.ValidatorIndex(a.ProposerIndex),
		}
	}
	return out
}

func participationIn(in altair.ParticipationRegistry) []byte {
	out := make([]byte, len(in))
	for i := range in {
		out[i] = byte(in[i])
	}
	return out
}

func participationOut(in []byte) altair.ParticipationRegistry {
	out := make(altair.ParticipationRegistry, len(in))
	for i := range in {
		out[i] = altair.ParticipationFlags(in[i])
	}
	return out
}

func scoresIn(in altair.InactivityScores) []uint64 {
	out := make([]uint64, len(in))
	for i := range in {
		out[i] = uint64(in[i])
	}
	return out
}

func scoresOut(in []uint64) altair.InactivityScores {
	out := make(altair.InactivityScores, len(in))
	for i := range in {
		out[i] = view.Uint64View(in[i])
	}
	return out
}

func syncCommitteeIn(in *common.SyncCommittee) *SyncCommittee {
	out := &SyncCommittee{AggregatePubkey: in.AggregatePubkey}
	out.Pubkeys = make([][48]byte, len(in.Pubkeys))
	for i := range in.Pubkeys {
		out.Pubkeys[i] = in.Pubkeys[i]
	}
	return out
}

func syncCommitteeOut(p *params, in *SyncCommittee, name string) common.SyncCommittee {
	must(in != nil, "%s is nil", name)
	must(uint64(len(in.Pubkeys)) == p.SyncCommitteeSize, "%s has %d pubkeys, want %d", name, len(in.Pubkeys), p.SyncCommitteeSize)
	out := common.SyncCommittee{AggregatePubkey: in.AggregatePubkey}
	out.Pubkeys = make(common.SyncCommitteePubkeys, len(in.Pubkeys))
	for i := range in.Pubkeys {
		out.Pubkeys[i] = in.Pubkeys[i]
	}
	return out
}

func eth1VotesIn(in phase0.Eth1DataVotes) []common.Eth1Data {
	out := make([]common.Eth1Data, len(in))
	copy(out, in)
	return out
}

func eth1VotesOut(in []common.Eth1Data) phase0.Eth1DataVotes {
	out := make(phase0.Eth1DataVotes, len(in))
	copy(out, in)
	return out
}

func summariesIn(in capella.HistoricalSummaries) []HistoricalSummary {
	out := make([]HistoricalSummary, len(in))
	for i := range in {
		out[i] = HistoricalSummary{BlockSummaryRoot: in[i].BlockSummaryRoot, StateSummaryRoot: in[i].StateSummaryRoot}
	}
	return out
}

func summariesOut(in []HistoricalSummary) capella.HistoricalSummaries {
	out := make(capella.HistoricalSummaries, len(in))
	for i := range in {
		out[i] = capella.HistoricalSummary{BlockSummaryRoot: in[i].BlockSummaryRoot, StateSummaryRoot: in[i].StateSummaryRoot}
	}
	return out
}

func u256In(v view.Uint256View) [32]byte { return v.Bytes32() }

func u256Out(b [32]byte) view.Uint256View {
	var v view.Uint256View
	v.SetBytes32(b)
	return v
}

func headerFromBellatrix(h *bellatrix.ExecutionPayloadHeader) *ExecHeader {
	return &ExecHeader{
		ParentHash: h.ParentHash, FeeRecipient: h.FeeRecipient, StateRoot: h.StateRoot, ReceiptsRoot: h.ReceiptsRoot,
		LogsBloom: h.LogsBloom, PrevRandao: h.PrevRandao, BlockNumber: uint64(h.BlockNumber), GasLimit: uint64(h.GasLimit),
		GasUsed: uint64(h.GasUsed), Timestamp: uint64(h.Timestamp), ExtraData: copyBytes(h.ExtraData),
		BaseFeePerGas: u256In(h.BaseFeePerGas), BlockHash: h.BlockHash, TransactionsRoot: h.TransactionsRoot,
	}
}

func headerFromCapella(h *capella.ExecutionPayloadHeader) *ExecHeader {
	return &ExecHeader{
		ParentHash: h.ParentHash, FeeRecipient: h.FeeRecipient, StateRoot: h.StateRoot, ReceiptsRoot: h.ReceiptsRoot,
		LogsBloom: h.LogsBloom, PrevRandao: h.PrevRandao, BlockNumber: uint64(h.BlockNumber), GasLimit: uint64(h.GasLimit),
		GasUsed: uint64(h.GasUsed), Timestamp: uint64(h.Timestamp), ExtraData: copyBytes(h.ExtraData),
		BaseFeePerGas: u256In(h.BaseFeePerGas), BlockHash: h.BlockHash, TransactionsRoot: h.TransactionsRoot,
		WithdrawalsRoot: h.WithdrawalsRoot,
	}
}

func headerFromDeneb(h *deneb.ExecutionPayloadHeader) *ExecHeader {
	return &ExecHeader{
		ParentHash: h.ParentHash, FeeRecipient: h.FeeRecipient, StateRoot: h.StateRoot, ReceiptsRoot: h.ReceiptsRoot,
		LogsBloom: h.LogsBloom, PrevRandao: h.PrevRandao, BlockNumber: uint64(h.BlockNumber), GasLimit: uint64(h.GasLimit),
		GasUsed: uint64(h.GasUsed), Timestamp: uint64(h.Timestamp), ExtraData: copyBytes(h.ExtraData),
		BaseFeePerGas: u256In(h.BaseFeePerGas), BlockHash: h.BlockHash, TransactionsRoot: h.TransactionsRoot,
		WithdrawalsRoot: h.WithdrawalsRoot, BlobGasUsed: uint64(h.BlobGasUsed), ExcessBlobGas: uint64(h.ExcessBlobGas),
	}
}

func headerToBellatrix(h *ExecHeader) bellatrix.ExecutionPayloadHeader {
	return bellatrix.ExecutionPayloadHeader{
		ParentHash: h.ParentHash, FeeRecipient: h.FeeRecipient, StateRoot: h.StateRoot, ReceiptsRoot: h.ReceiptsRoot,
		LogsBloom: h.LogsBloom, PrevRandao: h.PrevRandao, BlockNumber: view.Uint64View(h.BlockNumber),
		GasLimit: view.Uint64View(h.GasLimit), GasUsed: view.Uint64View(h.GasUsed), Timestamp: common.Timestamp(h.Timestamp),
		ExtraData: common.ExtraData(copyBytes(h.ExtraData)), BaseFeePerGas: u256Out(h.BaseFeePerGas),
		BlockHash: h.BlockHash, TransactionsRoot: h.TransactionsRoot,
	}
}

func headerToCapella(h *ExecHeader) capella.ExecutionPayloadHeader {
	return capella.ExecutionPayloadHeader{
		ParentHash: h.ParentHash, FeeRecipient: h.FeeRecipient, StateRoot: h.StateRoot, ReceiptsRoot: h.ReceiptsRoot,
		LogsBloom: h.LogsBloom, PrevRandao: h.PrevRandao, BlockNumber: view.Uint64View(h.BlockNumber),
		GasLimit: view.Uint64View(h.GasLimit), GasUsed: view.Uint64View(h.GasUsed), Timestamp: common.Timestamp(h.Timestamp),
		ExtraData: common.ExtraData(copyBytes(h.ExtraData)), BaseFeePerGas: u256Out(h.BaseFeePerGas),
		BlockHash: h.BlockHash, TransactionsRoot: h.TransactionsRoot, WithdrawalsRoot: h.WithdrawalsRoot,
	}
}

func headerToDeneb(h *ExecHeader) deneb.ExecutionPayloadHeader {
	return deneb.ExecutionPayloadHeader{
		ParentHash: h.ParentHash, FeeRecipient: h.FeeRecipient, StateRoot: h.StateRoot, ReceiptsRoot: h.ReceiptsRoot,
		LogsBloom: h.LogsBloom, PrevRandao: h.PrevRandao, BlockNumber: view.Uint64View(h.BlockNumber),
		GasLimit: view.Uint64View(h.GasLimit), GasUsed: view.Uint64View(h.GasUsed), Timestamp: common.Timestamp(h.Timestamp),
		ExtraData: common.ExtraData(copyBytes(h.ExtraData)), BaseFeePerGas: u256Out(h.BaseFeePerGas),
		BlockHash: h.BlockHash, TransactionsRoot: h.TransactionsRoot, WithdrawalsRoot: h.WithdrawalsRoot,
		BlobGasUsed: view.Uint64View(h.BlobGasUsed), ExcessBlobGas: view.Uint64View(h.ExcessBlobGas),
	}
}

// FromRaw converts one of the raw state structs (*phase0.BeaconState, *altair.BeaconState,
// *bellatrix.BeaconState, *capella.BeaconState, *deneb.BeaconState) into a State.
func FromRaw(raw interface{}) (out *State, err error) {
	defer catch(&err)
	switch r := raw.(type) {
	case *phase0.BeaconState:
		must(r != nil, "nil raw state")
		s := &State{Fork: Phase0}
		s.GenesisTime, s.GenesisValidatorsRoot, s.Slot = uint64(r.GenesisTime), r.GenesisValidatorsRoot, uint64(r.Slot)
		s.ForkPrevVersion, s.ForkCurVersion, s.ForkEpoch = r.Fork.PreviousVersion, r.Fork.CurrentVersion, uint64(r.Fork.Epoch)
		s.LatestBlockHeader = r.LatestBlockHeader
		s.BlockRoots, s.StateRoots, s.HistoricalRoots = rootsIn(r.BlockRoots), rootsIn(r.StateRoots), rootsIn(r.HistoricalRoots)
		s.Eth1Data, s.Eth1DataVotes, s.Eth1DepositIndex = r.Eth1Data, eth1VotesIn(r.Eth1DataVotes), uint64(r.Eth1DepositIndex)
		s.Validators, s.Balances = validatorsIn(r.Validators), gweisIn(r.Balances)
		s.RandaoMixes, s.Slashings = rootsIn(r.RandaoMixes), gweisIn(r.Slashings)
		s.PreviousEpochAttestations = pendingIn(r.PreviousEpochAttestations)
		s.CurrentEpochAttestations = pendingIn(r.CurrentEpochAttestations)
		s.JustificationBits = r.JustificationBits[0]
		s.PreviousJustified, s.CurrentJustified = checkpointIn(r.PreviousJustifiedCheckpoint), checkpointIn(r.CurrentJustifiedCheckpoint)
		s.Finalized = checkpointIn(r.FinalizedCheckpoint)
		return s, nil
	case *altair.BeaconState:
		must(r != nil, "nil raw state")
		s := &State{Fork: Altair}
		s.GenesisTime, s.GenesisValidatorsRoot, s.Slot = uint64(r.GenesisTime), r.GenesisValidatorsRoot, uint64(r.Slot)
		s.ForkPrevVersion, s.ForkCurVersion, s.ForkEpoch = r.Fork.PreviousVersion, r.Fork.CurrentVersion, uint64(r.Fork.Epoch)
		s.LatestBlockHeader = r.LatestBlockHeader
		s.BlockRoots, s.StateRoots, s.HistoricalRoots = rootsIn(r.BlockRoots), rootsIn(r.StateRoots), rootsIn(r.HistoricalRoots)
		s.Eth1Data, s.Eth1DataVotes, s.Eth1DepositIndex = r.Eth1Data, eth1VotesIn(r.Eth1DataVotes), uint64(r.Eth1DepositIndex)
		s.Validators, s.Balances = validatorsIn(r.Validators), gweisIn(r.Balances)
		s.RandaoMixes, s.Slashings = rootsIn(r.RandaoMixes), gweisIn(r.Slashings)
		s.PreviousEpochParticipation = participationIn(r.PreviousEpochParticipation)
		s.CurrentEpochParticipation = participationIn(r.CurrentEpochParticipation)
		s.JustificationBits = r.JustificationBits[0]
		s.PreviousJustified, s.CurrentJustified = checkpointIn(r.PreviousJustifiedCheckpoint), checkpointIn(r.CurrentJustifiedCheckpoint)
		s.Finalized = checkpointIn(r.FinalizedCheckpoint)
		s.InactivityScores = scoresIn(r.InactivityScores)
		s.CurrentSyncCommittee, s.NextSyncCommittee = syncCommitteeIn(&r.CurrentSyncCommittee), syncCommitteeIn(&r.NextSyncCommittee)
		return s, nil
	case *bellatrix.BeaconState:
		must(r != nil, "nil raw state")
		s := &State{Fork: Bellatrix}
		s.GenesisTime, s.GenesisValidatorsRoot, s.Slot = uint64(r.GenesisTime), r.GenesisValidatorsRoot, uint64(r.Slot)
		s.ForkPrevVersion, s.ForkCurVersion, s.ForkEpoch = r.Fork.PreviousVersion, r.Fork.CurrentVersion, uint64(r.Fork.Epoch)
		s.LatestBlockHeader = r.LatestBlockHeader
		s.BlockRoots, s.StateRoots, s.HistoricalRoots = rootsIn(r.BlockRoots), rootsIn(r.StateRoots), rootsIn(r.HistoricalRoots)
		s.Eth1Data, s.Eth1DataVotes, s.Eth1DepositIndex = r.Eth1Data, eth1VotesIn(r.Eth1DataVotes), uint64(r.Eth1DepositIndex)
		s.Validators, s.Balances = validatorsIn(r.Validators), gweisIn(r.Balances)
		s.RandaoMixes, s.Slashings = rootsIn(r.RandaoMixes), gweisIn(r.Slashings)
		s.PreviousEpochParticipation = participationIn(r.PreviousEpochParticipation)
		s.CurrentEpochParticipation = participationIn(r.CurrentEpochParticipation)
		s.JustificationBits = r.JustificationBits[0]
		s.PreviousJustified, s.CurrentJustified = checkpointIn(r.PreviousJustifiedCheckpoint), checkpointIn(r.CurrentJustifiedCheckpoint)
		s.Finalized = checkpointIn(r.FinalizedCheckpoint)
		s.InactivityScores = scoresIn(r.InactivityScores)
		s.CurrentSyncCommittee, s.NextSyncCommittee = syncCommitteeIn(&r.CurrentSyncCommittee), syncCommitteeIn(&r.NextSyncCommittee)
		s.LatestExecutionPayloadHeader = headerFromBellatrix(&r.LatestExecutionPayloadHeader)
		return s, nil
	case *capella.BeaconState:
		must(r != nil, "nil raw state")
		s := &State{Fork: Capella}
		s.GenesisTime, s.GenesisValidatorsRoot, s.Slot = uint64(r.GenesisTime), r.GenesisValidatorsRoot, uint64(r.Slot)
		s.ForkPrevVersion, s.ForkCurVersion, s.ForkEpoch = r.Fork.PreviousVersion, r.Fork.CurrentVersion, uint64(r.Fork.Epoch)
		s.LatestBlockHeader = r.LatestBlockHeader
		s.BlockRoots, s.StateRoots, s.HistoricalRoots = rootsIn(r.BlockRoots), rootsIn(r.StateRoots), rootsIn(r.HistoricalRoots)
		s.Eth1Data, s.Eth1DataVotes, s.Eth1DepositIndex = r.Eth1Data, eth1VotesIn(r.Eth1DataVotes), uint64(r.Eth1DepositIndex)
		s.Validators, s.Balances = validatorsIn(r.Validators), gweisIn(r.Balances)
		s.RandaoMixes, s.Slashings = rootsIn(r.RandaoMixes), gweisIn(r.Slashings)
		s.PreviousEpochParticipation = participationIn(r.PreviousEpochParticipation)
		s.CurrentEpochParticipation = participationIn(r.CurrentEpochParticipation)
		s.JustificationBits = r.JustificationBits[0]
		s.PreviousJustified, s.CurrentJustified = checkpointIn(r.PreviousJustifiedCheckpoint), checkpointIn(r.CurrentJustifiedCheckpoint)
		s.Finalized = checkpointIn(r.FinalizedCheckpoint)
		s.InactivityScores = scoresIn(r.InactivityScores)
		s.CurrentSyncCommittee, s.NextSyncCommittee = syncCommitteeIn(&r.CurrentSyncCommittee), syncCommitteeIn(&r.NextSyncCommittee)
		s.LatestExecutionPayloadHeader = headerFromCapella(&r.LatestExecutionPayloadHeader)
		s.NextWithdrawalIndex, s.NextWithdrawalValidatorIndex = uint64(r.NextWithdrawalIndex), uint64(r.NextWithdrawalValidatorIndex)
		s.HistoricalSummaries = summariesIn(r.HistoricalSummaries)
		return s, nil
	case *deneb.BeaconState:
		must(r != nil, "nil raw state")
		s := &State{Fork: Deneb}
		s.GenesisTime, s.GenesisValidatorsRoot, s.Slot = uint64(r.GenesisTime), r.GenesisValidatorsRoot, uint64(r.Slot)
		s.ForkPrevVersion, s.ForkCurVersion, s.ForkEpoch = r.Fork.PreviousVersion, r.Fork.CurrentVersion, uint64(r.Fork.Epoch)
		s.LatestBlockHeader = r.LatestBlockHeader
		s.BlockRoots, s.StateRoots, s.HistoricalRoots = rootsIn(r.BlockRoots), rootsIn(r.StateRoots), rootsIn(r.HistoricalRoots)
		s.Eth1Data, s.Eth1DataVotes, s.Eth1DepositIndex = r.Eth1Data, eth1VotesIn(r.Eth1DataVotes), uint64(r.Eth1DepositIndex)
		s.Validators, s.Balances = validatorsIn(r.Validators), gweisIn(r.Balances)
		s.RandaoMixes, s.Slashings = rootsIn(r.RandaoMixes), gweisIn(r.Slashings)
		s.PreviousEpochParticipation = participationIn(r.PreviousEpochParticipation)
		s.CurrentEpochParticipation = participationIn(r.CurrentEpochParticipation)
		s.JustificationBits = r.JustificationBits[0]
		s.PreviousJustified, s.CurrentJustified = checkpointIn(r.PreviousJustifiedCheckpoint), checkpointIn(r.CurrentJustifiedCheckpoint)
		s.Finalized = checkpointIn(r.FinalizedCheckpoint)
		s.InactivityScores = scoresIn(r.InactivityScores)
		s.CurrentSyncCommittee, s.NextSyncCommittee = syncCommitteeIn(&r.CurrentSyncCommittee), syncCommitteeIn(&r.NextSyncCommittee)
		s.LatestExecutionPayloadHeader = headerFromDeneb(&r.LatestExecutionPayloadHeader)
		s.NextWithdrawalIndex, s.NextWithdrawalValidatorIndex = uint64(r.NextWithdrawalIndex), uint64(r.NextWithdrawalValidatorIndex)
		s.HistoricalSummaries = summariesIn(r.HistoricalSummaries)
		return s, nil
	default:
		return nil, fmt.Errorf("FromRaw: unsupported raw state type %T", raw)
	}
}

// ---------------------------------------------------------------------------------------------
// State -> raw
// ---------------------------------------------------------------------------------------------

// checkShape verifies the SSZ type constraints (vector lengths, list limits, parallel lists) that
// the raw structs cannot express; hash_tree_root of an ill-shaped state is undefined.
func checkShape(p *params, s *State) {
	must(s != nil, "nil state")
	must(s.Fork >= Phase0 && s.Fork <= Deneb, "unknown fork %d", int(s.Fork))
	must(uint64(len(s.BlockRoots)) == p.SlotsPerHistoricalRoot, "BlockRoots has length %d, want %d", len(s.BlockRoots), p.SlotsPerHistoricalRoot)
	must(uint64(len(s.StateRoots)) == p.SlotsPerHistoricalRoot, "StateRoots has length %d, want %d", len(s.StateRoots), p.SlotsPerHistoricalRoot)
	must(uint64(len(s.RandaoMixes)) == p.EpochsPerHistoricalVector, "RandaoMixes has length %d, want %d", len(s.RandaoMixes), p.EpochsPerHistoricalVector)
	must(uint64(len(s.Slashings)) == p.EpochsPerSlashingsVector, "Slashings has length %d, want %d", len(s.Slashings), p.EpochsPerSlashingsVector)
	must(uint64(len(s.HistoricalRoots)) <= p.HistoricalRootsLimit, "HistoricalRoots exceeds its limit")
	must(uint64(len(s.Eth1DataVotes)) <= mul(p.EpochsPerEth1VotingPeriod, p.SlotsPerEpoch), "Eth1DataVotes exceeds its limit")
	must(uint64(len(s.Validators)) <= p.ValidatorRegistryLimit, "Validators exceeds its limit")
	must(len(s.Balances) == len(s.Validators), "Balances has length %d, Validators %d", len(s.Balances), len(s.Validators))
	must(s.JustificationBits>>justificationBitsLength == 0, "JustificationBits has bits beyond the vector length")
	if s.Fork == Phase0 {
		lim := mul(p.MaxAttestations, p.SlotsPerEpoch)
		must(uint64(len(s.PreviousEpochAttestations)) <= lim, "PreviousEpochAttestations exceeds its limit")
		must(uint64(len(s.CurrentEpochAttestations)) <= lim, "CurrentEpochAttestations exceeds its limit")
		for i := range s.PreviousEpochAttestations {
			bitlistLen(s.PreviousEpochAttestations[i].AggregationBits, p.MaxValidatorsPerCommittee)
		}
		for i := range s.CurrentEpochAttestations {
			bitlistLen(s.CurrentEpochAttestations[i].AggregationBits, p.MaxValidatorsPerCommittee)
		}
	} else {
		must(len(s.PreviousEpochParticipation) == len(s.Validators), "PreviousEpochParticipation has length %d, Validators %d", len(s.PreviousEpochParticipation), len(s.Validators))
		must(len(s.CurrentEpochParticipation) == len(s.Validators), "CurrentEpochParticipation has length %d, Validators %d", len(s.CurrentEpochParticipation), len(s.Validators))
		must(len(s.InactivityScores) == len(s.Validators), "InactivityScores has length %d, Validators %d", len(s.InactivityScores), len(s.Validators))
		must(s.CurrentSyncCommittee != nil && uint64(len(s.CurrentSyncCommittee.Pubkeys)) == p.SyncCommitteeSize, "CurrentSyncCommittee is missing or ill-sized")
		must(s.NextSyncCommittee != nil && uint64(len(s.NextSyncCommittee.Pubkeys)) == p.SyncCommitteeSize, "NextSyncCommittee is missing or ill-sized")
	}
	if s.Fork >= Bellatrix {
		must(s.LatestExecutionPayloadHeader != nil, "LatestExecutionPayloadHeader is nil")
		must(uint64(len(s.LatestExecutionPayloadHeader.ExtraData)) <= p.MaxExtraDataBytes, "header extra data too long")
	}
	if s.Fork >= Capella {
		must(uint64(len(s.HistoricalSummaries)) <= p.HistoricalRootsLimit, "HistoricalSummaries exceeds its limit")
	}
}

func toRaw(spec *common.Spec, p *params, s *State) interface{} {
	checkShape(p, s)
	fork := common.Fork{PreviousVersion: s.ForkPrevVersion, CurrentVersion: s.ForkCurVersion, Epoch: common.Epoch(s.ForkEpoch)}
	jb := common.JustificationBits{s.JustificationBits}
	switch s.Fork {
	case Phase0:
		return &phase0.BeaconState{
			GenesisTime: common.Timestamp(s.GenesisTime), GenesisValidatorsRoot: s.GenesisValidatorsRoot, Slot: common.Slot(s.Slot), Fork: fork,
			LatestBlockHeader: s.LatestBlockHeader, BlockRoots: rootsOut(s.BlockRoots), StateRoots: rootsOut(s.StateRoots), HistoricalRoots: rootsOut(s.HistoricalRoots),
			Eth1Data: s.Eth1Data, Eth1DataVotes: eth1VotesOut(s.Eth1DataVotes), Eth1DepositIndex: common.DepositIndex(s.Eth1DepositIndex),
			Validators: validatorsOut(s.Validators), Balances: gweisOut(s.Balances), RandaoMixes: rootsOut(s.RandaoMixes), Slashings: gweisOut(s.Slashings),
			PreviousEpochAttestations: pendingOut(s.PreviousEpochAttestations), CurrentEpochAttestations: pendingOut(s.CurrentEpochAttestations),
			JustificationBits: jb, PreviousJustifiedCheckpoint: checkpointOut(s.PreviousJustified),
			CurrentJustifiedCheckpoint: checkpointOut(s.CurrentJustified), FinalizedCheckpoint: checkpointOut(s.Finalized),
		}
	case Altair:
		return &altair.BeaconState{
			GenesisTime: common.Timestamp(s.GenesisTime), GenesisValidatorsRoot: s.GenesisValidatorsRoot, Slot: common.Slot(s.Slot), Fork: fork,
			LatestBlockHeader: s.LatestBlockHeader, BlockRoots: rootsOut(s.BlockRoots), StateRoots: rootsOut(s.StateRoots), HistoricalRoots: rootsOut(s.HistoricalRoots),
			Eth1Data: s.Eth1Data, Eth1DataVotes: eth1VotesOut(s.Eth1DataVotes), Eth1DepositIndex: common.DepositIndex(s.Eth1DepositIndex),
			Validators: validatorsOut(s.Validators), Balances: gweisOut(s.Balances), RandaoMixes: rootsOut(s.RandaoMixes), Slashings: gweisOut(s.Slashings),
			PreviousEpochParticipation: participationOut(s.PreviousEpochParticipation), CurrentEpochParticipation: participationOut(s.CurrentEpochParticipation),
			JustificationBits: jb, PreviousJustifiedCheckpoint: checkpointOut(s.PreviousJustified),
			CurrentJustifiedCheckpoint: checkpointOut(s.CurrentJustified), FinalizedCheckpoint: checkpointOut(s.Finalized),
			InactivityScores:     scoresOut(s.InactivityScores),
			CurrentSyncCommittee: syncCommitteeOut(p, s.CurrentSyncCommittee, "CurrentSyncCommittee"),
			NextSyncCommittee:    syncCommitteeOut(p, s.NextSyncCommittee, "NextSyncCommittee"),
		}
	case Bellatrix:
		return &bellatrix.BeaconState{
			GenesisTime: common.Timestamp(s.GenesisTime), GenesisValidatorsRoot: s.GenesisValidatorsRoot, Slot: common.Slot(s.Slot), Fork: fork,
			LatestBlockHeader: s.LatestBlockHeader, BlockRoots: rootsOut(s.BlockRoots), StateRoots: rootsOut(s.StateRoots), HistoricalRoots: rootsOut(s.HistoricalRoots),
			Eth1Data: s.Eth1Data, Eth1DataVotes: eth1VotesOut(s.Eth1DataVotes), Eth1DepositIndex: common.DepositIndex(s.Eth1DepositIndex),
			Validators: validatorsOut(s.Validators), Balances: gweisOut(s.Balances), RandaoMixes: rootsOut(s.RandaoMixes), Slashings: gweisOut(s.Slashings),
			PreviousEpochParticipation: participationOut(s.PreviousEpochParticipation), CurrentEpochParticipation: participationOut(s.CurrentEpochParticipation),
			JustificationBits: jb, PreviousJustifiedCheckpoint: checkpointOut(s.PreviousJustified),
			CurrentJustifiedCheckpoint: checkpointOut(s.CurrentJustified), FinalizedCheckpoint: checkpointOut(s.Finalized),
			InactivityScores:             scoresOut(s.InactivityScores),
			CurrentSyncCommittee:         syncCommitteeOut(p, s.CurrentSyncCommittee, "CurrentSyncCommittee"),
			NextSyncCommittee:            syncCommitteeOut(p, s.NextSyncCommittee, "NextSyncCommittee"),
			LatestExecutionPayloadHeader: headerToBellatrix(s.LatestExecutionPayloadHeader),
		}
	case Capella:
		return &capella.BeaconState{
			GenesisTime: common.Timestamp(s.GenesisTime), GenesisValidatorsRoot: s.GenesisValidatorsRoot, Slot: common.Slot(s.Slot), Fork: fork,
			LatestBlockHeader: s.LatestBlockHeader, BlockRoots: rootsOut(s.BlockRoots), StateRoots: rootsOut(s.StateRoots), HistoricalRoots: rootsOut(s.HistoricalRoots),
			Eth1Data: s.Eth1Data, Eth1DataVotes: eth1VotesOut(s.Eth1DataVotes), Eth1DepositIndex: common.DepositIndex(s.Eth1DepositIndex),
			Validators: validatorsOut(s.Validators), Balances: gweisOut(s.Balances), RandaoMixes: rootsOut(s.RandaoMixes), Slashings: gweisOut(s.Slashings),
			PreviousEpochParticipation: participationOut(s.PreviousEpochParticipation), CurrentEpochParticipation: participationOut(s.CurrentEpochParticipation),
			JustificationBits: jb, PreviousJustifiedCheckpoint: checkpointOut(s.PreviousJustified),
			CurrentJustifiedCheckpoint: checkpointOut(s.CurrentJustified), FinalizedCheckpoint: checkpointOut(s.Finalized),
			InactivityScores:             scoresOut(s.InactivityScores),
			CurrentSyncCommittee:         syncCommitteeOut(p, s.CurrentSyncCommittee, "CurrentSyncCommittee"),
			NextSyncCommittee:            syncCommitteeOut(p, s.NextSyncCommittee, "NextSyncCommittee"),
			LatestExecutionPayloadHeader: headerToCapella(s.LatestExecutionPayloadHeader),
			NextWithdrawalIndex:          common.WithdrawalIndex(s.NextWithdrawalIndex),
			NextWithdrawalValidatorIndex: common.ValidatorIndex(s.NextWithdrawalValidatorIndex),
			HistoricalSummaries:          summariesOut(s.HistoricalSummaries),
		}
	case Deneb:
		return &deneb.BeaconState{
			GenesisTime: common.Timestamp(s.GenesisTime), GenesisValidatorsRoot: s.GenesisValidatorsRoot, Slot: common.Slot(s.Slot), Fork: fork,
			LatestBlockHeader: s.LatestBlockHeader, BlockRoots: rootsOut(s.BlockRoots), StateRoots: rootsOut(s.StateRoots), HistoricalRoots: rootsOut(s.HistoricalRoots),
			Eth1Data: s.Eth1Data, Eth1DataVotes: eth1VotesOut(s.Eth1DataVotes), Eth1DepositIndex: common.DepositIndex(s.Eth1DepositIndex),
			Validators: validatorsOut(s.Validators), Balances: gweisOut(s.Balances), RandaoMixes: rootsOut(s.RandaoMixes), Slashings: gweisOut(s.Slashings),
			PreviousEpochParticipation: participationOut(s.PreviousEpochParticipation), CurrentEpochParticipation: participationOut(s.CurrentEpochParticipation),
			JustificationBits: jb, PreviousJustifiedCheckpoint: checkpointOut(s.PreviousJustified),
			CurrentJustifiedCheckpoint: checkpointOut(s.CurrentJustified), FinalizedCheckpoint: checkpointOut(s.Finalized),
			InactivityScores:             scoresOut(s.InactivityScores),
			CurrentSyncCommittee:         syncCommitteeOut(p, s.CurrentSyncCommittee, "CurrentSyncCommittee"),
			NextSyncCommittee:            syncCommitteeOut(p, s.NextSyncCommittee, "NextSyncCommittee"),
			LatestExecutionPayloadHeader: headerToDeneb(s.LatestExecutionPayloadHeader),
			NextWithdrawalIndex:          common.WithdrawalIndex(s.NextWithdrawalIndex),
			NextWithdrawalValidatorIndex: common.ValidatorIndex(s.NextWithdrawalValidatorIndex),
			HistoricalSummaries:          summariesOut(s.HistoricalSummaries),
		}
	}
	fail("unknown fork %d", int(s.Fork))
	return nil
}

// ToRaw converts back to the raw struct of s.Fork.
func ToRaw(spec *common.Spec, s *State) (out interface{}, err error) {
	defer catch(&err)
	return toRaw(spec, loadParams(spec), s), nil
}

func stateRoot(spec *common.Spec, p *params, s *State) [32]byte {
	hFn := tree.GetHashFn()
	switch r := toRaw(spec, p, s).(type) {
	case *phase0.BeaconState:
		return r.HashTreeRoot(spec, hFn)
	case *altair.BeaconState:
		return r.HashTreeRoot(spec, hFn)
	case *bellatrix.BeaconState:
		return r.HashTreeRoot(spec, hFn)
	case *capella.BeaconState:
		return r.HashTreeRoot(spec, hFn)
	case *deneb.BeaconState:
		return r.HashTreeRoot(spec, hFn)
	}
	fail("unknown raw state type")
	return [32]byte{}
}

// Root = hash_tree_root(state).
func Root(spec *common.Spec, s *State) (out [32]byte, err error) {
	defer catch(&err)
	return stateRoot(spec, loadParams(spec), s), nil
}

// ---------------------------------------------------------------------------------------------
// Diff
// ---------------------------------------------------------------------------------------------

type differ struct {
	entries []string
	more    int
}

const maxDiffEntries = 10

func (d *differ) add(path string, a, b interface{}) {
	if len(d.entries) >= maxDiffEntries {
		d.more++
		return
	}
	d.entries = append(d.entries, fmt.Sprintf("%s: %s != %s", path, fmtVal(a), fmtVal(b)))
}

func fmtVal(v interface{}) string {
	switch x := v.(type) {
	case [32]byte:
		return fmt.Sprintf("0x%x", x[:])
	case common.Root:
		return fmt.Sprintf("0x%x", x[:])
	case [48]byte:
		return fmt.Sprintf("0x%x", x[:])
	case [20]byte:
		return fmt.Sprintf("0x%x", x[:])
	case [4]byte:
		return fmt.Sprintf("0x%x", x[:])
	case [256]byte:
		return fmt.Sprintf("0x%x..", x[:8])
	case []byte:
		return fmt.Sprintf("0x%x", x)
	case byte:
		return fmt.Sprintf("0b%04b", x)
	default:
		return fmt.Sprintf("%v", v)
	}
}

func (d *differ) u64(path string, a, b uint64) {
	if a != b {
		d.add(path, a, b)
	}
}

func (d *differ) root(path string, a, b [32]byte) {
	if a != b {
		d.add(path, a, b)
	}
}

func (d *differ) length(path string, a, b int) bool {
	if a != b {
		d.add("len("+path+")", a, b)
		return false
	}
	return true
}

func (d *differ) roots(path string, a, b [][32]byte) {
	d.length(path, len(a), len(b))
	for i := 0; i < len(a) && i < len(b); i++ {
		d.root(fmt.Sprintf("%s[%d]", path, i), a[i], b[i])
	}
}

func (d *differ) u64s(path string, a, b []uint64) {
	d.length(path, len(a), len(b))
	for i := 0; i < len(a) && i < len(b); i++ {
		d.u64(fmt.Sprintf("%s[%d]", path, i), a[i], b[i])
	}
}

func (d *differ) flags(path string, a, b []byte) {
	d.length(path, len(a), len(b))
	for i := 0; i < len(a) && i < len(b); i++ {
		if a[i] != b[i] {
			d.add(fmt.Sprintf("%s[%d]", path, i), fmt.Sprintf("0b%03b", a[i]), fmt.Sprintf("0b%03b", b[i]))
		}
	}
}

func (d *differ) checkpoint(path string, a, b Checkpoint) {
	d.u64(path+".Epoch", a.Epoch, b.Epoch)
	d.root(path+".Root", a.Root, b.Root)
}

func (d *differ) header(path string, a, b common.BeaconBlockHeader) {
	d.u64(path+".Slot", uint64(a.Slot), uint64(b.Slot))
	d.u64(path+".ProposerIndex", uint64(a.ProposerIndex), uint64(b.ProposerIndex))
	d.root(path+".ParentRoot", a.ParentRoot, b.ParentRoot)
	d.root(path+".StateRoot", a.StateRoot, b.StateRoot)
	d.root(path+".BodyRoot", a.BodyRoot, b.BodyRoot)
}

func (d *differ) eth1(path string, a, b common.Eth1Data) {
	d.root(path+".DepositRoot", a.DepositRoot, b.DepositRoot)
	d.u64(path+".DepositCount", uint64(a.DepositCount), uint64(b.DepositCount))
	d.root(path+".BlockHash", a.BlockHash, b.BlockHash)
}

func (d *differ) attData(path string, a, b phase0.AttestationData) {
	d.u64(path+".Slot", uint64(a.Slot), uint64(b.Slot))
	d.u64(path+".Index", uint64(a.Index), uint64(b.Index))
	d.root(path+".BeaconBlockRoot", a.BeaconBlockRoot, b.BeaconBlockRoot)
	d.checkpoint(path+".Source", checkpointIn(a.Source), checkpointIn(b.Source))
	d.checkpoint(path+".Target", checkpointIn(a.Target), checkpointIn(b.Target))
}

func (d *differ) pending(path string, a, b []PendingAttestation) {
	d.length(path, len(a), len(b))
	for i := 0; i < len(a) && i < len(b); i++ {
		pi := fmt.Sprintf("%s[%d]", path, i)
		if !bytes.Equal(a[i].AggregationBits, b[i].AggregationBits) {
			d.add(pi+".AggregationBits", a[i].AggregationBits, b[i].AggregationBits)
		}
		d.attData(pi+".Data", a[i].Data, b[i].Data)
		d.u64(pi+".InclusionDelay", a[i].InclusionDelay, b[i].InclusionDelay)
		d.u64(pi+".ProposerIndex", a[i].ProposerIndex, b[i].ProposerIndex)
	}
}

func (d *differ) syncCommittee(path string, a, b *SyncCommittee) {
	if (a == nil) != (b == nil) {
		d.add(path, a != nil, b != nil)
		return
	}
	if a == nil {
		return
	}
	d.length(path+".Pubkeys", len(a.Pubkeys), len(b.Pubkeys))
	for i := 0; i < len(a.Pubkeys) && i < len(b.Pubkeys); i++ {
		if a.Pubkeys[i] != b.Pubkeys[i] {
			d.add(fmt.Sprintf("%s.Pubkeys[%d]", path, i), a.Pubkeys[i], b.Pubkeys[i])
		}
	}
	if a.AggregatePubkey != b.AggregatePubkey {
		d.add(path+".AggregatePubkey", a.AggregatePubkey, b.AggregatePubkey)
	}
}

func (d *differ) execHeader(path string, a, b *ExecHeader) {
	if (a == nil) != (b == nil) {
		d.add(path, a != nil, b != nil)
		return
	}
	if a == nil {
		return
	}
	d.root(path+".ParentHash", a.ParentHash, b.ParentHash)
	if a.FeeRecipient != b.FeeRecipient {
		d.add(path+".FeeRecipient", a.FeeRecipient, b.FeeRecipient)
	}
	d.root(path+".StateRoot", a.StateRoot, b.StateRoot)
	d.root(path+".ReceiptsRoot", a.ReceiptsRoot, b.ReceiptsRoot)
	if a.LogsBloom != b.LogsBloom {
		d.add(path+".LogsBloom", a.LogsBloom, b.LogsBloom)
	}
	d.root(path+".PrevRandao", a.PrevRandao, b.PrevRandao)
	d.u64(path+".BlockNumber", a.BlockNumber, b.BlockNumber)
	d.u64(path+".GasLimit", a.GasLimit, b.GasLimit)
	d.u64(path+".GasUsed", a.GasUsed, b.GasUsed)
	d.u64(path+".Timestamp", a.Timestamp, b.Timestamp)
	if !bytes.Equal(a.ExtraData, b.ExtraData) {
		d.add(path+".ExtraData", a.ExtraData, b.ExtraData)
	}
	d.root(path+".BaseFeePerGas", a.BaseFeePerGas, b.BaseFeePerGas)
	d.root(path+".BlockHash", a.BlockHash, b.BlockHash)
	d.root(path+".TransactionsRoot", a.TransactionsRoot, b.TransactionsRoot)
	d.root(path+".WithdrawalsRoot", a.WithdrawalsRoot, b.WithdrawalsRoot)
	d.u64(path+".BlobGasUsed", a.BlobGasUsed, b.BlobGasUsed)
	d.u64(path+".ExcessBlobGas", a.ExcessBlobGas, b.ExcessBlobGas)
}

// Diff returns "" if the states are equal, else a short human-readable list of differing field
// paths with both values.
func Diff(a, b *State) string {
	if a == nil || b == nil {
		if a == b {
			return ""
		}
		return fmt.Sprintf("state: nil=%v != nil=%v", a == nil, b == nil)
	}
	d := &differ{}
	if a.Fork != b.Fork {
		d.add("Fork", a.Fork, b.Fork)
	}
	d.u64("GenesisTime", a.GenesisTime, b.GenesisTime)
	d.root("GenesisValidatorsRoot", a.GenesisValidatorsRoot, b.GenesisValidatorsRoot)
	d.u64("Slot", a.Slot, b.Slot)
	if a.ForkPrevVersion != b.ForkPrevVersion {
		d.add("ForkPrevVersion", a.ForkPrevVersion, b.ForkPrevVersion)
	}
	if a.ForkCurVersion != b.ForkCurVersion {
		d.add("ForkCurVersion", a.ForkCurVersion, b.ForkCurVersion)
	}
	d.u64("ForkEpoch", a.ForkEpoch, b.ForkEpoch)
	d.header("LatestBlockHeader", a.LatestBlockHeader, b.LatestBlockHeader)
	d.roots("BlockRoots", a.BlockRoots, b.BlockRoots)
	d.roots("StateRoots", a.StateRoots, b.StateRoots)
	d.roots("HistoricalRoots", a.HistoricalRoots, b.HistoricalRoots)
	d.eth1("Eth1Data", a.Eth1Data, b.Eth1Data)
	d.length("Eth1DataVotes", len(a.Eth1DataVotes), len(b.Eth1DataVotes))
	for i := 0; i < len(a.Eth1DataVotes) && i < len(b.Eth1DataVotes); i++ {
		d.eth1(fmt.Sprintf("Eth1DataVotes[%d]", i), a.Eth1DataVotes[i], b.Eth1DataVotes[i])
	}
	d.u64("Eth1DepositIndex", a.Eth1DepositIndex, b.Eth1DepositIndex)
	d.length("Validators", len(a.Validators), len(b.Validators))
	for i := 0; i < len(a.Validators) && i < len(b.Validators); i++ {
		va, vb := &a.Validators[i], &b.Validators[i]
		if *va == *vb {
			continue
		}
		pi := fmt.Sprintf("Validators[%d]", i)
		if va.Pubkey != vb.Pubkey {
			d.add(pi+".Pubkey", va.Pubkey, vb.Pubkey)
		}
		d.root(pi+".WithdrawalCredentials", va.WithdrawalCredentials, vb.WithdrawalCredentials)
		d.u64(pi+".EffectiveBalance", va.EffectiveBalance, vb.EffectiveBalance)
		if va.Slashed != vb.Slashed {
			d.add(pi+".Slashed", va.Slashed, vb.Slashed)
		}
		d.u64(pi+".ActivationEligibilityEpoch", va.ActivationEligibilityEpoch, vb.ActivationEligibilityEpoch)
		d.u64(pi+".ActivationEpoch", va.ActivationEpoch, vb.ActivationEpoch)
		d.u64(pi+".ExitEpoch", va.ExitEpoch, vb.ExitEpoch)
		d.u64(pi+".WithdrawableEpoch", va.WithdrawableEpoch, vb.WithdrawableEpoch)
	}
	d.u64s("Balances", a.Balances, b.Balances)
	d.roots("RandaoMixes", a.RandaoMixes, b.RandaoMixes)
	d.u64s("Slashings", a.Slashings, b.Slashings)
	d.pending("PreviousEpochAttestations", a.PreviousEpochAttestations, b.PreviousEpochAttestations)
	d.pending("CurrentEpochAttestations", a.CurrentEpochAttestations, b.CurrentEpochAttestations)
	d.flags("PreviousEpochParticipation", a.PreviousEpochParticipation, b.PreviousEpochParticipation)
	d.flags("CurrentEpochParticipation", a.CurrentEpochParticipation, b.CurrentEpochParticipation)
	if a.JustificationBits != b.JustificationBits {
		d.add("JustificationBits", a.JustificationBits, b.JustificationBits)
	}
	d.checkpoint("PreviousJustified", a.PreviousJustified, b.PreviousJustified)
	d.checkpoint("CurrentJustified", a.CurrentJustified, b.CurrentJustified)
	d.checkpoint("Finalized", a.Finalized, b.Finalized)
	d.u64s("InactivityScores", a.InactivityScores, b.InactivityScores)
	d.syncCommittee("CurrentSyncCommittee", a.CurrentSyncCommittee, b.CurrentSyncCommittee)
	d.syncCommittee("NextSyncCommittee", a.NextSyncCommittee, b.NextSyncCommittee)
	d.execHeader("LatestExecutionPayloadHeader", a.LatestExecutionPayloadHeader, b.LatestExecutionPayloadHeader)
	d.u64("NextWithdrawalIndex", a.NextWithdrawalIndex, b.NextWithdrawalIndex)
	d.u64("NextWithdrawalValidatorIndex", a.NextWithdrawalValidatorIndex, b.NextWithdrawalValidatorIndex)
	d.length("HistoricalSummaries", len(a.HistoricalSummaries), len(b.HistoricalSummaries))
	for i := 0; i < len(a.HistoricalSummaries) && i < len(b.HistoricalSummaries); i++ {
		pi := fmt.Sprintf("HistoricalSummaries[%d]", i)
		d.root(pi+".BlockSummaryRoot", a.HistoricalSummaries[i].BlockSummaryRoot, b.HistoricalSummaries[i].BlockSummaryRoot)
		d.root(pi+".StateSummaryRoot", a.HistoricalSummaries[i].StateSummaryRoot, b.HistoricalSummaries[i].StateSummaryRoot)
	}
	if len(d.entries) == 0 {
		return ""
	}
	out := strings.Join(d.entries, "; ")
	if d.more > 0 {
		out += fmt.Sprintf("; ... and %d more", d.more)
	}
	return out
}
