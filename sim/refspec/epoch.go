package refspec

import (
	"sort"

	"github.com/protolambda/zrnt/eth2/beacon/common"
	"github.com/protolambda/zrnt/eth2/beacon/phase0"
	"github.com/protolambda/ztyp/tree"
)

// processEpoch: process_epoch of the state's fork.
func (m *machine) processEpoch() {
	if m.s.Fork == Phase0 {
		m.processJustificationAndFinalizationPhase0()
		m.processRewardsAndPenaltiesPhase0()
		m.processRegistryUpdates()
		m.processSlashings()
		m.processEth1DataReset()
		m.processEffectiveBalanceUpdates()
		m.processSlashingsReset()
		m.processRandaoMixesReset()
		m.processHistoricalRootsUpdate()
		m.processParticipationRecordUpdates()
		return
	}
	m.processJustificationAndFinalizationAltair()
	m.processInactivityUpdates()
	m.processRewardsAndPenaltiesAltair()
	m.processRegistryUpdates()
	m.processSlashings()
	m.processEth1DataReset()
	m.processEffectiveBalanceUpdates()
	m.processSlashingsReset()
	m.processRandaoMixesReset()
	if m.s.Fork >= Capella {
		m.processHistoricalSummariesUpdate()
	} else {
		m.processHistoricalRootsUpdate()
	}
	m.processParticipationFlagUpdates()
	m.processSyncCommitteeUpdates()
}

// ---------------------------------------------------------------------------------------------
// phase0: pending-attestation helpers
// ---------------------------------------------------------------------------------------------

func (m *machine) getMatchingSourceAttestations(epoch uint64) []PendingAttestation {
	must(epoch == m.getPreviousEpoch() || epoch == m.getCurrentEpoch(), "get_matching_source_attestations: epoch %d not previous/current", epoch)
	if epoch == m.getCurrentEpoch() {
		return m.s.CurrentEpochAttestations
	}
	return m.s.PreviousEpochAttestations
}

func (m *machine) getMatchingTargetAttestations(epoch uint64) []PendingAttestation {
	blockRoot := m.getBlockRoot(epoch)
	out := []PendingAttestation{}
	for _, a := range m.getMatchingSourceAttestations(epoch) {
		if a.Data.Target.Root == blockRoot {
			out = append(out, a)
		}
	}
	return out
}

func (m *machine) getMatchingHeadAttestations(epoch uint64) []PendingAttestation {
	out := []PendingAttestation{}
	for _, a := range m.getMatchingTargetAttestations(epoch) {
		if a.Data.BeaconBlockRoot == m.getBlockRootAtSlot(uint64(a.Data.Slot)) {
			out = append(out, a)
		}
	}
	return out
}

// getUnslashedAttestingIndices returns a sorted set.
func (m *machine) getUnslashedAttestingIndices(attestations []PendingAttestation) []uint64 {
	output := map[uint64]struct{}{}
	for i := range attestations {
		a := &attestations[i]
		for _, index := range m.getAttestingIndices(&a.Data, a.AggregationBits) {
			output[index] = struct{}{}
		}
	}
	for index := range output {
		if m.validator(index).Slashed {
			delete(output, index)
		}
	}
	return sortedKeys(output)
}

func (m *machine) getAttestingBalance(attestations []PendingAttestation) uint64 {
	return m.getTotalBalance(m.getUnslashedAttestingIndices(attestations))
}

// ---------------------------------------------------------------------------------------------
// Justification and finalization
// ---------------------------------------------------------------------------------------------

func (m *machine) processJustificationAndFinalizationPhase0() {
	// Initial FFG checkpoint values have a `0x00` stub for `root`.
	// Skip FFG updates in the first two epochs to avoid corner cases that might result in modifying this stub.
	if m.getCurrentEpoch() <= genesisEpoch+1 {
		return
	}
	previousAttestations := m.getMatchingTargetAttestations(m.getPreviousEpoch())
	currentAttestations := m.getMatchingTargetAttestations(m.getCurrentEpoch())
	totalActiveBalance := m.getTotalActiveBalance()
	previousTargetBalance := m.getAttestingBalance(previousAttestations)
	currentTargetBalance := m.getAttestingBalance(currentAttestations)
	m.weighJustificationAndFinalization(totalActiveBalance, previousTargetBalance, currentTargetBalance)
}

func (m *machine) processJustificationAndFinalizationAltair() {
	if m.getCurrentEpoch() <= genesisEpoch+1 {
		return
	}
	previousIndices := m.getUnslashedParticipatingIndices(timelyTargetFlagIndex, m.getPreviousEpoch())
	currentIndices := m.getUnslashedParticipatingIndices(timelyTargetFlagIndex, m.getCurrentEpoch())
	totalActiveBalance := m.getTotalActiveBalance()
	previousTargetBalance := m.getTotalBalance(previousIndices)
	currentTargetBalance := m.getTotalBalance(currentIndices)
	m.weighJustificationAndFinalization(totalActiveBalance, previousTargetBalance, currentTargetBalance)
}

func (m *machine) weighJustificationAndFinalization(totalActiveBalance, previousEpochTargetBalance, currentEpochTargetBalance uint64) {
	s := m.s
	previousEpoch := m.getPreviousEpoch()
	currentEpoch := m.getCurrentEpoch()
	oldPreviousJustifiedCheckpoint := s.PreviousJustified
	oldCurrentJustifiedCheckpoint := s.CurrentJustified

	// Process justifications
	s.PreviousJustified = s.CurrentJustified
	// justification_bits[1:] = justification_bits[:JUSTIFICATION_BITS_LENGTH - 1]; justification_bits[0] = 0b0
	s.JustificationBits = (s.JustificationBits << 1) & ((1 << justificationBitsLength) - 1)
	if mul(previousEpochTargetBalance, 3) >= mul(totalActiveBalance, 2) {
		s.CurrentJustified = Checkpoint{Epoch: previousEpoch, Root: m.getBlockRoot(previousEpoch)}
		s.JustificationBits |= 1 << 1
	}
	if mul(currentEpochTargetBalance, 3) >= mul(totalActiveBalance, 2) {
		s.CurrentJustified = Checkpoint{Epoch: currentEpoch, Root: m.getBlockRoot(currentEpoch)}
		s.JustificationBits |= 1 << 0
	}

	// Process finalizations
	bits := s.JustificationBits
	all := func(from, to uint) bool { // all(bits[from:to])
		for i := from; i < to; i++ {
			if bits&(1<<i) == 0 {
				return false
			}
		}
		return true
	}
	// The 2nd/3rd/4th most recent epochs are justified, the 2nd using the 4th as source
	if all(1, 4) && add(oldPreviousJustifiedCheckpoint.Epoch, 3) == currentEpoch {
		s.Finalized = oldPreviousJustifiedCheckpoint
	}
	// The 2nd/3rd most recent epochs are justified, the 2nd using the 3rd as source
	if all(1, 3) && add(oldPreviousJustifiedCheckpoint.Epoch, 2) == currentEpoch {
		s.Finalized = oldPreviousJustifiedCheckpoint
	}
	// The 1st/2nd/3rd most recent epochs are justified, the 1st using the 3rd as source
	if all(0, 3) && add(oldCurrentJustifiedCheckpoint.Epoch, 2) == currentEpoch {
		s.Finalized = oldCurrentJustifiedCheckpoint
	}
	// The 1st/2nd most recent epochs are justified, the 1st using the 2nd as source
	if all(0, 2) && add(oldCurrentJustifiedCheckpoint.Epoch, 1) == currentEpoch {
		s.Finalized = oldCurrentJustifiedCheckpoint
	}
}

// ---------------------------------------------------------------------------------------------
// Rewards and penalties: shared helpers
// ---------------------------------------------------------------------------------------------

func (m *machine) getFinalityDelay() uint64 {
	return sub(m.getPreviousEpoch(), m.s.Finalized.Epoch)
}

func (m *machine) isInInactivityLeak() bool {
	return m.getFinalityDelay() > m.p.MinEpochsToInactivityPenalty
}

func (m *machine) getEligibleValidatorIndices() []uint64 {
	previousEpoch := m.getPreviousEpoch()
	out := []uint64{}
	for i := range m.s.Validators {
		v := &m.s.Validators[i]
		if isActiveValidator(v, previousEpoch) || (v.Slashed && add(previousEpoch, 1) < v.WithdrawableEpoch) {
			out = append(out, uint64(i))
		}
	}
	return out
}

// ---------------------------------------------------------------------------------------------
// phase0 rewards and penalties
// ---------------------------------------------------------------------------------------------

// getBaseRewardPhase0: get_base_reward (phase0). totalBalance = get_total_active_balance(state), which the
// callers evaluate once per delta function (it cannot change while deltas are being computed).
func (m *machine) getBaseRewardPhase0(totalBalance, index uint64) uint64 {
	effectiveBalance := m.validator(index).EffectiveBalance
	return div(div(mul(effectiveBalance, m.p.BaseRewardFactor), integerSquareroot(totalBalance)), baseRewardsPerEpoch)
}

func (m *machine) getProposerReward(totalBalance, attestingIndex uint64) uint64 {
	return div(m.getBaseRewardPhase0(totalBalance, attestingIndex), m.p.ProposerRewardQuotient)
}

// getAttestationComponentDeltas: helper with shared logic for use by get source, target, and head deltas functions
func (m *machine) getAttestationComponentDeltas(attestations []PendingAttestation) (rewards, penalties []uint64) {
	n := len(m.s.Validators)
	rewards, penalties = make([]uint64, n), make([]uint64, n)
	totalBalance := m.getTotalActiveBalance()
	unslashedAttestingIndices := m.getUnslashedAttestingIndices(attestations)
	attestingSet := toSet(unslashedAttestingIndices)
	attestingBalance := m.getTotalBalance(unslashedAttestingIndices)
	for _, index := range m.getEligibleValidatorIndices() {
		if _, ok := attestingSet[index]; ok {
			increment := m.p.EffectiveBalanceIncrement // Factored out from balance totals to avoid uint64 overflow
			if m.isInInactivityLeak() {
				// Since full base reward will be canceled out by inactivity penalty deltas,
				// optimal participation receives full base reward compensation here.
				rewards[index] = add(rewards[index], m.getBaseRewardPhase0(totalBalance, index))
			} else {
				rewardNumerator := mul(m.getBaseRewardPhase0(totalBalance, index), div(attestingBalance, increment))
				rewards[index] = add(rewards[index], div(rewardNumerator, div(totalBalance, increment)))
			}
		} else {
			penalties[index] = add(penalties[index], m.getBaseRewardPhase0(totalBalance, index))
		}
	}
	return rewards, penalties
}

func (m *machine) getSourceDeltas() ([]uint64, []uint64) {
	return m.getAttestationComponentDeltas(m.getMatchingSourceAttestations(m.getPreviousEpoch()))
}

func (m *machine) getTargetDeltas() ([]uint64, []uint64) {
	return m.getAttestationComponentDeltas(m.getMatchingTargetAttestations(m.getPreviousEpoch()))
}

func (m *machine) getHeadDeltas() ([]uint64, []uint64) {
	return m.getAttestationComponentDeltas(m.getMatchingHeadAttestations(m.getPreviousEpoch()))
}

// getInclusionDelayDeltas: proposer and inclusion delay micro-rewards
func (m *machine) getInclusionDelayDeltas() (rewards, penalties []uint64) {
	n := len(m.s.Validators)
	rewards, penalties = make([]uint64, n), make([]uint64, n)
	totalBalance := m.getTotalActiveBalance()
	matchingSourceAttestations := m.getMatchingSourceAttestations(m.getPreviousEpoch())
	// get_attesting_indices of each attestation, evaluated once per attestation (pure hoisting)
	attesting := make([]map[uint64]struct{}, len(matchingSourceAttestations))
	for i := range matchingSourceAttestations {
		a := &matchingSourceAttestations[i]
		attesting[i] = toSet(m.getAttestingIndices(&a.Data, a.AggregationBits))
	}
	for _, index := range m.getUnslashedAttestingIndices(matchingSourceAttestations) {
		// attestation = min([a for a in matching_source_attestations if index in attesting_indices(a)],
		//                   key=lambda a: a.inclusion_delay)   -- python's min keeps the FIRST minimum
		var attestation *PendingAttestation
		for i := range matchingSourceAttestations {
			if _, ok := attesting[i][index]; !ok {
				continue
			}
			a := &matchingSourceAttestations[i]
			if attestation == nil || a.InclusionDelay < attestation.InclusionDelay {
				attestation = a
			}
		}
		must(attestation != nil, "get_inclusion_delay_deltas: no attestation for attester %d", index)
		must(attestation.ProposerIndex < uint64(n), "pending attestation proposer index %d out of range", attestation.ProposerIndex)
		rewards[attestation.ProposerIndex] = add(rewards[attestation.ProposerIndex], m.getProposerReward(totalBalance, index))
		maxAttesterReward := sub(m.getBaseRewardPhase0(totalBalance, index), m.getProposerReward(totalBalance, index))
		rewards[index] = add(rewards[index], div(maxAttesterReward, attestation.InclusionDelay))
	}
	// No penalties associated with inclusion delay
	return rewards, penalties
}

func (m *machine) getInactivityPenaltyDeltasPhase0() (rewards, penalties []uint64) {
	n := len(m.s.Validators)
	rewards, penalties = make([]uint64, n), make([]uint64, n)
	if m.isInInactivityLeak() {
		totalBalance := m.getTotalActiveBalance()
		matchingTargetAttestations := m.getMatchingTargetAttestations(m.getPreviousEpoch())
		matchingTargetAttestingIndices := toSet(m.getUnslashedAttestingIndices(matchingTargetAttestations))
		for _, index := range m.getEligibleValidatorIndices() {
			// If validator is performing optimally this cancels all rewards for a neutral balance
			baseReward := m.getBaseRewardPhase0(totalBalance, index)
			penalties[index] = add(penalties[index], sub(mul(baseRewardsPerEpoch, baseReward), m.getProposerReward(totalBalance, index)))
			if _, ok := matchingTargetAttestingIndices[index]; !ok {
				effectiveBalance := m.validator(index).EffectiveBalance
				penalties[index] = add(penalties[index], div(mul(effectiveBalance, m.getFinalityDelay()), m.p.InactivityPenaltyQuotient))
			}
		}
	}
	// No rewards associated with inactivity penalties
	return rewards, penalties
}

func (m *machine) getAttestationDeltas() (rewards, penalties []uint64) {
	sourceRewards, sourcePenalties := m.getSourceDeltas()
	targetRewards, targetPenalties := m.getTargetDeltas()
	headRewards, headPenalties := m.getHeadDeltas()
	inclusionDelayRewards, _ := m.getInclusionDelayDeltas()
	_, inactivityPenalties := m.getInactivityPenaltyDeltasPhase0()
	n := len(m.s.Validators)
	rewards, penalties = make([]uint64, n), make([]uint64, n)
	for i := 0; i < n; i++ {
		rewards[i] = add(add(add(sourceRewards[i], targetRewards[i]), headRewards[i]), inclusionDelayRewards[i])
		penalties[i] = add(add(add(sourcePenalties[i], targetPenalties[i]), headPenalties[i]), inactivityPenalties[i])
	}
	return rewards, penalties
}

func (m *machine) processRewardsAndPenaltiesPhase0() {
	// No rewards are applied at the end of `GENESIS_EPOCH` because rewards are for work done in the previous epoch
	if m.getCurrentEpoch() == genesisEpoch {
		return
	}
	rewards, penalties := m.getAttestationDeltas()
	for index := range m.s.Validators {
		m.increaseBalance(uint64(index), rewards[index])
		m.decreaseBalance(uint64(index), penalties[index])
	}
}

// ---------------------------------------------------------------------------------------------
// altair+ participation, inactivity, rewards and penalties
// ---------------------------------------------------------------------------------------------

func hasFlag(flags byte, flagIndex int) bool {
	flag := byte(1) << uint(flagIndex)
	return flags&flag == flag
}

func addFlag(flags byte, flagIndex int) byte {
	return flags | (byte(1) << uint(flagIndex))
}

// getUnslashedParticipatingIndices returns a sorted set.
func (m *machine) getUnslashedParticipatingIndices(flagIndex int, epoch uint64) []uint64 {
	must(epoch == m.getPreviousEpoch() || epoch == m.getCurrentEpoch(), "get_unslashed_participating_indices: epoch %d not previous/current", epoch)
	epochParticipation := m.s.PreviousEpochParticipation
	if epoch == m.getCurrentEpoch() {
		epochParticipation = m.s.CurrentEpochParticipation
	}
	out := []uint64{}
	for _, i := range m.getActiveValidatorIndices(epoch) {
		must(i < uint64(len(epochParticipation)), "participation index %d out of range", i)
		if hasFlag(epochParticipation[i], flagIndex) && !m.validator(i).Slashed {
			out = append(out, i)
		}
	}
	return out
}

func (m *machine) processInactivityUpdates() {
	// Skip the genesis epoch as score updates are based on the previous epoch participation
	if m.getCurrentEpoch() == genesisEpoch {
		return
	}
	must(len(m.s.InactivityScores) == len(m.s.Validators), "InactivityScores ill-sized")
	// evaluated once: the participation flags do not change inside the loop
	participating := toSet(m.getUnslashedParticipatingIndices(timelyTargetFlagIndex, m.getPreviousEpoch()))
	for _, index := range m.getEligibleValidatorIndices() {
		// Increase the inactivity score of inactive validators
		if _, ok := participating[index]; ok {
			m.s.InactivityScores[index] -= minU(1, m.s.InactivityScores[index])
		} else {
			m.s.InactivityScores[index] = add(m.s.InactivityScores[index], m.p.InactivityScoreBias)
		}
		// Decrease the inactivity score of all eligible validators during a leak-free epoch
		if !m.isInInactivityLeak() {
			m.s.InactivityScores[index] -= minU(m.p.InactivityScoreRecoveryRate, m.s.InactivityScores[index])
		}
	}
}

func (m *machine) getBaseRewardPerIncrement() uint64 {
	return div(mul(m.p.EffectiveBalanceIncrement, m.p.BaseRewardFactor), integerSquareroot(m.getTotalActiveBalance()))
}

// getBaseRewardAltair: get_base_reward (altair). baseRewardPerIncrement = get_base_reward_per_increment(state),
// evaluated once by the caller.
func (m *machine) getBaseRewardAltair(baseRewardPerIncrement, index uint64) uint64 {
	increments := div(m.validator(index).EffectiveBalance, m.p.EffectiveBalanceIncrement)
	return mul(increments, baseRewardPerIncrement)
}

func (m *machine) getFlagIndexDeltas(flagIndex int) (rewards, penalties []uint64) {
	n := len(m.s.Validators)
	rewards, penalties = make([]uint64, n), make([]uint64, n)
	previousEpoch := m.getPreviousEpoch()
	unslashedParticipatingIndices := m.getUnslashedParticipatingIndices(flagIndex, previousEpoch)
	participatingSet := toSet(unslashedParticipatingIndices)
	weight := participationFlagWeights[flagIndex]
	unslashedParticipatingBalance := m.getTotalBalance(unslashedParticipatingIndices)
	unslashedParticipatingIncrements := div(unslashedParticipatingBalance, m.p.EffectiveBalanceIncrement)
	activeIncrements := div(m.getTotalActiveBalance(), m.p.EffectiveBalanceIncrement)
	baseRewardPerIncrement := m.getBaseRewardPerIncrement()
	for _, index := range m.getEligibleValidatorIndices() {
		baseReward := m.getBaseRewardAltair(baseRewardPerIncrement, index)
		if _, ok := participatingSet[index]; ok {
			if !m.isInInactivityLeak() {
				rewardNumerator := mul(mul(baseReward, weight), unslashedParticipatingIncrements)
				rewards[index] = add(rewards[index], div(rewardNumerator, mul(activeIncrements, weightDenominator)))
			}
		} else if flagIndex != timelyHeadFlagIndex {
			penalties[index] = add(penalties[index], div(mul(baseReward, weight), weightDenominator))
		}
	}
	return rewards, penalties
}

func (m *machine) getInactivityPenaltyDeltasAltair() (rewards, penalties []uint64) {
	n := len(m.s.Validators)
	rewards, penalties = make([]uint64, n), make([]uint64, n)
	previousEpoch := m.getPreviousEpoch()
	matchingTargetIndices := toSet(m.getUnslashedParticipatingIndices(timelyTargetFlagIndex, previousEpoch))
	inactivityPenaltyQuotient := m.p.InactivityPenaltyQuotientAltair
	if m.s.Fork >= Bellatrix {
		inactivityPenaltyQuotient = m.p.InactivityPenaltyQuotientBellatrix
	}
	must(len(m.s.InactivityScores) == n, "InactivityScores ill-sized")
	for _, index := range m.getEligibleValidatorIndices() {
		if _, ok := matchingTargetIndices[index]; !ok {
			penaltyNumerator := mul(m.validator(index).EffectiveBalance, m.s.InactivityScores[index])
			penaltyDenominator := mul(m.p.InactivityScoreBias, inactivityPenaltyQuotient)
			penalties[index] = add(penalties[index], div(penaltyNumerator, penaltyDenominator))
		}
	}
	return rewards, penalties
}

func (m *machine) processRewardsAndPenaltiesAltair() {
	// No rewards are applied at the end of `GENESIS_EPOCH` because rewards are for work done in the previous epoch
	if m.getCurrentEpoch() == genesisEpoch {
		return
	}
	type pair struct{ rewards, penalties []uint64 }
	deltas := []pair{}
	for flagIndex := 0; flagIndex < len(participationFlagWeights); flagIndex++ {
		r, p := m.getFlagIndexDeltas(flagIndex)
		deltas = append(deltas, pair{r, p})
	}
	r, p := m.getInactivityPenaltyDeltasAltair()
	deltas = append(deltas, pair{r, p})
	for _, d := range deltas {
		for index := range m.s.Validators {
			m.increaseBalance(uint64(index), d.rewards[index])
			m.decreaseBalance(uint64(index), d.penalties[index])
		}
	}
}

// ---------------------------------------------------------------------------------------------
// Registry updates, slashings, final updates (all forks)
// ---------------------------------------------------------------------------------------------

func (m *machine) processRegistryUpdates() {
	// Process activation eligibility and ejections
	currentEpoch := m.getCurrentEpoch()
	for index := range m.s.Validators {
		validator := &m.s.Validators[index]
		if m.isEligibleForActivationQueue(validator) {
			validator.ActivationEligibilityEpoch = add(currentEpoch, 1)
		}
		if isActiveValidator(validator, currentEpoch) && validator.EffectiveBalance <= m.p.EjectionBalance {
			m.initiateValidatorExit(uint64(index))
		}
	}

	// Queue validators eligible for activation and not yet dequeued for activation
	activationQueue := []uint64{}
	for index := range m.s.Validators {
		if m.isEligibleForActivation(&m.s.Validators[index]) {
			activationQueue = append(activationQueue, uint64(index))
		}
	}
	// Order by the sequence of activation_eligibility_epoch setting and then index
	sort.SliceStable(activationQueue, func(a, b int) bool {
		va, vb := &m.s.Validators[activationQueue[a]], &m.s.Validators[activationQueue[b]]
		if va.ActivationEligibilityEpoch != vb.ActivationEligibilityEpoch {
			return va.ActivationEligibilityEpoch < vb.ActivationEligibilityEpoch
		}
		return activationQueue[a] < activationQueue[b]
	})
	// Dequeued validators for activation up to churn limit (deneb: activation churn limit)
	limit := m.getValidatorChurnLimit()
	if m.s.Fork >= Deneb {
		limit = m.getValidatorActivationChurnLimit()
	}
	for i, index := range activationQueue {
		if uint64(i) >= limit {
			break
		}
		m.s.Validators[index].ActivationEpoch = m.computeActivationExitEpoch(currentEpoch)
	}
}

func (m *machine) processSlashings() {
	epoch := m.getCurrentEpoch()
	totalBalance := m.getTotalActiveBalance()
	var multiplier uint64
	switch {
	case m.s.Fork == Phase0:
		multiplier = m.p.ProportionalSlashingMultiplier
	case m.s.Fork == Altair:
		multiplier = m.p.ProportionalSlashingMultiplierAltair
	default:
		multiplier = m.p.ProportionalSlashingMultiplierBellatrix
	}
	sum := uint64(0)
	for _, x := range m.s.Slashings {
		sum = add(sum, x)
	}
	adjustedTotalSlashingBalance := minU(mul(sum, multiplier), totalBalance)
	for index := range m.s.Validators {
		validator := &m.s.Validators[index]
		if validator.Slashed && add(epoch, m.p.EpochsPerSlashingsVector/2) == validator.WithdrawableEpoch {
			increment := m.p.EffectiveBalanceIncrement // Factored out from penalty numerator to avoid uint64 overflow
			penaltyNumerator := mul(div(validator.EffectiveBalance, increment), adjustedTotalSlashingBalance)
			penalty := mul(div(penaltyNumerator, totalBalance), increment)
			m.decreaseBalance(uint64(index), penalty)
		}
	}
}

func (m *machine) processEth1DataReset() {
	nextEpoch := add(m.getCurrentEpoch(), 1)
	// Reset eth1 data votes
	if mod(nextEpoch, m.p.EpochsPerEth1VotingPeriod) == 0 {
		m.s.Eth1DataVotes = []common.Eth1Data{}
	}
}

func (m *machine) processEffectiveBalanceUpdates() {
	// Update effective balances with hysteresis
	for index := range m.s.Validators {
		validator := &m.s.Validators[index]
		balance := m.balance(uint64(index))
		hysteresisIncrement := div(m.p.EffectiveBalanceIncrement, m.p.HysteresisQuotient)
		downwardThreshold := mul(hysteresisIncrement, m.p.HysteresisDownwardMultiplier)
		upwardThreshold := mul(hysteresisIncrement, m.p.HysteresisUpwardMultiplier)
		if add(balance, downwardThreshold) < validator.EffectiveBalance || add(validator.EffectiveBalance, upwardThreshold) < balance {
			validator.EffectiveBalance = minU(balance-mod(balance, m.p.EffectiveBalanceIncrement), m.p.MaxEffectiveBalance)
		}
	}
}

func (m *machine) processSlashingsReset() {
	nextEpoch := add(m.getCurrentEpoch(), 1)
	// Reset slashings
	must(uint64(len(m.s.Slashings)) == m.p.EpochsPerSlashingsVector, "Slashings ill-sized")
	m.s.Slashings[mod(nextEpoch, m.p.EpochsPerSlashingsVector)] = 0
}

func (m *machine) processRandaoMixesReset() {
	currentEpoch := m.getCurrentEpoch()
	nextEpoch := add(currentEpoch, 1)
	// Set randao mix
	mix := m.getRandaoMix(currentEpoch)
	m.s.RandaoMixes[mod(nextEpoch, m.p.EpochsPerHistoricalVector)] = mix
}

func (m *machine) historicalBatchParts() (blockRoots, stateRoots phase0.HistoricalBatchRoots) {
	must(uint64(len(m.s.BlockRoots)) == m.p.SlotsPerHistoricalRoot, "BlockRoots ill-sized")
	must(uint64(len(m.s.StateRoots)) == m.p.SlotsPerHistoricalRoot, "StateRoots ill-sized")
	return phase0.HistoricalBatchRoots(rootsOut(m.s.BlockRoots)), phase0.HistoricalBatchRoots(rootsOut(m.s.StateRoots))
}

func (m *machine) processHistoricalRootsUpdate() {
	// Set historical root accumulator
	nextEpoch := add(m.getCurrentEpoch(), 1)
	if mod(nextEpoch, div(m.p.SlotsPerHistoricalRoot, m.p.SlotsPerEpoch)) == 0 {
		br, sr := m.historicalBatchParts()
		historicalBatch := phase0.HistoricalBatch{BlockRoots: br, StateRoots: sr}
		must(uint64(len(m.s.HistoricalRoots)) < m.p.HistoricalRootsLimit, "historical_roots is full")
		m.s.HistoricalRoots = append(m.s.HistoricalRoots, historicalBatch.HashTreeRoot(m.spec, tree.GetHashFn()))
	}
}

// processHistoricalSummariesUpdate: capella+
func (m *machine) processHistoricalSummariesUpdate() {
	// Set historical block root accumulator.
	nextEpoch := add(m.getCurrentEpoch(), 1)
	if mod(nextEpoch, div(m.p.SlotsPerHistoricalRoot, m.p.SlotsPerEpoch)) == 0 {
		br, sr := m.historicalBatchParts()
		historicalSummary := HistoricalSummary{
			BlockSummaryRoot: br.HashTreeRoot(m.spec, tree.GetHashFn()),
			StateSummaryRoot: sr.HashTreeRoot(m.spec, tree.GetHashFn()),
		}
		must(uint64(len(m.s.HistoricalSummaries)) < m.p.HistoricalRootsLimit, "historical_summaries is full")
		m.s.HistoricalSummaries = append(m.s.HistoricalSummaries, historicalSummary)
	}
}

func (m *machine) processParticipationRecordUpdates() {
	// Rotate current/previous epoch attestations
	m.s.PreviousEpochAttestations = m.s.CurrentEpochAttestations
	m.s.CurrentEpochAttestations = []PendingAttestation{}
}

func (m *machine) processParticipationFlagUpdates() {
	m.s.PreviousEpochParticipation = m.s.CurrentEpochParticipation
	m.s.CurrentEpochParticipation = make([]byte, len(m.s.Validators))
}

func (m *machine) processSyncCommitteeUpdates() {
	nextEpoch := add(m.getCurrentEpoch(), 1)
	if mod(nextEpoch, m.p.EpochsPerSyncCommitteePeriod) == 0 {
		m.s.CurrentSyncCommittee = m.s.NextSyncCommittee
		m.s.NextSyncCommittee = m.getNextSyncCommittee()
	}
}

// getNextSyncCommitteeIndices: get_next_sync_committee_indices (with possible duplicates)
func (m *machine) getNextSyncCommitteeIndices() []uint64 {
	epoch := add(m.getCurrentEpoch(), 1)
	activeValidatorIndices := m.getActiveValidatorIndices(epoch)
	activeValidatorCount := uint64(len(activeValidatorIndices))
	must(activeValidatorCount > 0, "get_next_sync_committee_indices: no active validators")
	seed := m.getSeed(epoch, domainSyncCommittee)
	syncCommitteeIndices := []uint64{}
	for i := uint64(0); uint64(len(syncCommitteeIndices)) < m.p.SyncCommitteeSize; i++ {
		must(i < 1<<26, "get_next_sync_committee_indices: did not fill after 2^26 trials")
		shuffledIndex := m.computeShuffledIndex(i%activeValidatorCount, activeValidatorCount, seed)
		candidateIndex := activeValidatorIndices[shuffledIndex]
		randomByte := uint64(hash(seed[:], uintToBytes8(i/32))[i%32])
		effectiveBalance := m.validator(candidateIndex).EffectiveBalance
		if mul(effectiveBalance, maxRandomByte) >= mul(m.p.MaxEffectiveBalance, randomByte) {
			syncCommitteeIndices = append(syncCommitteeIndices, candidateIndex)
		}
	}
	return syncCommitteeIndices
}

func (m *machine) getNextSyncCommittee() *SyncCommittee {
	indices := m.getNextSyncCommitteeIndices()
	pubkeys := make([][48]byte, 0, len(indices))
	for _, index := range indices {
		pubkeys = append(pubkeys, m.validator(index).Pubkey)
	}
	aggregatePubkey := ethAggregatePubkeys(pubkeys)
	return &SyncCommittee{Pubkeys: pubkeys, AggregatePubkey: aggregatePubkey}
}
