package refspec

import (
	"github.com/protolambda/zrnt/eth2/beacon/altair"
	"github.com/protolambda/zrnt/eth2/beacon/bellatrix"
	"github.com/protolambda/zrnt/eth2/beacon/capella"
	"github.com/protolambda/zrnt/eth2/beacon/common"
	"github.com/protolambda/zrnt/eth2/beacon/deneb"
	"github.com/protolambda/zrnt/eth2/beacon/phase0"
	"github.com/protolambda/ztyp/tree"
)

// ---------------------------------------------------------------------------------------------
// Slots
// ---------------------------------------------------------------------------------------------

func (m *machine) processSlot() {
	s, p := m.s, m.p
	// Cache state root
	previousStateRoot := stateRoot(m.spec, p, s)
	s.StateRoots[s.Slot%p.SlotsPerHistoricalRoot] = previousStateRoot
	// Cache latest block header state root
	if s.LatestBlockHeader.StateRoot == (common.Root{}) {
		s.LatestBlockHeader.StateRoot = previousStateRoot
	}
	// Cache block root
	previousBlockRoot := s.LatestBlockHeader.HashTreeRoot(tree.GetHashFn())
	s.BlockRoots[s.Slot%p.SlotsPerHistoricalRoot] = previousBlockRoot
}

func (m *machine) processSlots(slot uint64) {
	s, p := m.s, m.p
	must(s.Slot < slot, "process_slots: target slot %d is not after state slot %d", slot, s.Slot)
	checkShape(p, s)
	for s.Slot < slot {
		m.processSlot()
		// Process epoch on the start slot of the next epoch
		if mod(add(s.Slot, 1), p.SlotsPerEpoch) == 0 {
			m.processEpoch()
		}
		s.Slot = add(s.Slot, 1)
		// Fork upgrades happen in place when the first slot of a fork epoch is reached.
		// Several forks may share one epoch: they are applied in order.
		if mod(s.Slot, p.SlotsPerEpoch) == 0 {
			epoch := m.computeEpochAtSlot(s.Slot)
			if s.Fork == Phase0 && epoch == p.AltairForkEpoch {
				m.upgradeToAltair()
			}
			if s.Fork == Altair && epoch == p.BellatrixForkEpoch {
				m.upgradeToBellatrix()
			}
			if s.Fork == Bellatrix && epoch == p.CapellaForkEpoch {
				m.upgradeToCapella()
			}
			if s.Fork == Capella && epoch == p.DenebForkEpoch {
				m.upgradeToDeneb()
			}
		}
	}
}

// ---------------------------------------------------------------------------------------------
// Upgrades (in place)
// ---------------------------------------------------------------------------------------------

func (m *machine) bumpFork(newVersion [4]byte) {
	epoch := m.getCurrentEpoch()
	m.s.ForkPrevVersion = m.s.ForkCurVersion
	m.s.ForkCurVersion = newVersion
	m.s.ForkEpoch = epoch
}

func (m *machine) upgradeToAltair() {
	s := m.s
	must(s.Fork == Phase0, "upgrade_to_altair on a %s state", s.Fork)
	pendingPrevious := s.PreviousEpochAttestations
	m.bumpFork(m.p.AltairForkVersion)
	s.Fork = Altair
	s.PreviousEpochAttestations = nil
	s.CurrentEpochAttestations = nil
	s.PreviousEpochParticipation = make([]byte, len(s.Validators))
	s.CurrentEpochParticipation = make([]byte, len(s.Validators))
	s.InactivityScores = make([]uint64, len(s.Validators))
	// Fill in previous epoch participation from the pre state's pending attestations
	m.translateParticipation(pendingPrevious)
	// Fill in sync committees
	// Note: A duplicate committee is assigned for the current and next committee at the fork boundary
	s.CurrentSyncCommittee = m.getNextSyncCommittee()
	s.NextSyncCommittee = m.getNextSyncCommittee()
}

func (m *machine) translateParticipation(pendingAttestations []PendingAttestation) {
	for i := range pendingAttestations {
		attestation := &pendingAttestations[i]
		data := &attestation.Data
		inclusionDelay := attestation.InclusionDelay
		// Translate attestation inclusion info to flag indices
		participationFlagIndices := m.getAttestationParticipationFlagIndices(data, inclusionDelay)
		// Apply flags to all attesting validators
		epochParticipation := m.s.PreviousEpochParticipation
		for _, index := range m.getAttestingIndices(data, attestation.AggregationBits) {
			must(index < uint64(len(epochParticipation)), "participation index %d out of range", index)
			for flagIndex := range participationFlagWeights {
				if participationFlagIndices[flagIndex] {
					epochParticipation[index] = addFlag(epochParticipation[index], flagIndex)
				}
			}
		}
	}
}

func (m *machine) upgradeToBellatrix() {
	s := m.s
	must(s.Fork == Altair, "upgrade_to_bellatrix on a %s state", s.Fork)
	m.bumpFork(m.p.BellatrixForkVersion)
	s.Fork = Bellatrix
	s.LatestExecutionPayloadHeader = &ExecHeader{}
}

func (m *machine) upgradeToCapella() {
	s := m.s
	must(s.Fork == Bellatrix, "upgrade_to_capella on a %s state", s.Fork)
	must(s.LatestExecutionPayloadHeader != nil, "LatestExecutionPayloadHeader is nil")
	m.bumpFork(m.p.CapellaForkVersion)
	s.Fork = Capella
	header := s.LatestExecutionPayloadHeader.copy()
	header.WithdrawalsRoot = [32]byte{} // [New in Capella]
	header.BlobGasUsed, header.ExcessBlobGas = 0, 0
	s.LatestExecutionPayloadHeader = header
	s.NextWithdrawalIndex = 0
	s.NextWithdrawalValidatorIndex = 0
	s.HistoricalSummaries = []HistoricalSummary{}
}

func (m *machine) upgradeToDeneb() {
	s := m.s
	must(s.Fork == Capella, "upgrade_to_deneb on a %s state", s.Fork)
	must(s.LatestExecutionPayloadHeader != nil, "LatestExecutionPayloadHeader is nil")
	m.bumpFork(m.p.DenebForkVersion)
	s.Fork = Deneb
	header := s.LatestExecutionPayloadHeader.copy()
	header.BlobGasUsed = 0   // [New in Deneb:EIP4844]
	header.ExcessBlobGas = 0 // [New in Deneb:EIP4844]
	s.LatestExecutionPayloadHeader = header
}

// ---------------------------------------------------------------------------------------------
// state_transition
// ---------------------------------------------------------------------------------------------

func unwrapSigned(signed interface{}) (block interface{}, signature [96]byte) {
	switch sb := signed.(type) {
	case *phase0.SignedBeaconBlock:
		must(sb != nil, "nil signed block")
		return &sb.Message, sb.Signature
	case *altair.SignedBeaconBlock:
		must(sb != nil, "nil signed block")
		return &sb.Message, sb.Signature
	case *bellatrix.SignedBeaconBlock:
		must(sb != nil, "nil signed block")
		return &sb.Message, sb.Signature
	case *capella.SignedBeaconBlock:
		must(sb != nil, "nil signed block")
		return &sb.Message, sb.Signature
	case *deneb.SignedBeaconBlock:
		must(sb != nil, "nil signed block")
		return &sb.Message, sb.Signature
	}
	fail("unsupported signed block type %T", signed)
	return nil, [96]byte{}
}

func (m *machine) verifyBlockSignature(b *blockView, signature [96]byte) bool {
	proposer := m.validator(b.proposerIndex)
	signingRoot := computeSigningRoot(b.blockRoot(), m.getDomain(domainBeaconProposer, m.getCurrentEpoch()))
	return blsVerify(proposer.Pubkey, signingRoot, signature)
}

func (m *machine) stateTransition(signed interface{}, validateResult bool) {
	block, signature := unwrapSigned(signed)
	b := m.viewBlock(block)
	// Process slots (including those with no blocks) since block
	m.processSlots(b.slot)
	// Verify signature
	if validateResult {
		must(m.verifyBlockSignature(b, signature), "invalid block signature")
	}
	// Process block
	m.processBlock(b)
	// Verify state root
	if validateResult {
		root := stateRoot(m.spec, m.p, m.s)
		must(b.stateRoot == root, "block state root %x != post state root %x", b.stateRoot[:], root[:])
	}
}

// ---------------------------------------------------------------------------------------------
// Genesis
// ---------------------------------------------------------------------------------------------

func initializeBeaconStateFromEth1(spec *common.Spec, eth1BlockHash [32]byte, eth1Timestamp uint64, deposits []common.Deposit) *State {
	p := loadParams(spec)
	s := &State{
		Fork:            Phase0,
		GenesisTime:     add(eth1Timestamp, p.GenesisDelay),
		ForkPrevVersion: p.GenesisForkVersion,
		ForkCurVersion:  p.GenesisForkVersion,
		ForkEpoch:       genesisEpoch,
		Eth1Data:        common.Eth1Data{BlockHash: eth1BlockHash, DepositCount: common.DepositIndex(len(deposits))},
		BlockRoots:      make([][32]byte, p.SlotsPerHistoricalRoot),
		StateRoots:      make([][32]byte, p.SlotsPerHistoricalRoot),
		HistoricalRoots: [][32]byte{},
		Eth1DataVotes:   []common.Eth1Data{},
		Validators:      []Validator{},
		Balances:        []uint64{},
		RandaoMixes:     make([][32]byte, p.EpochsPerHistoricalVector), // Seed RANDAO with Eth1 entropy (below)
		Slashings:       make([]uint64, p.EpochsPerSlashingsVector),

		PreviousEpochAttestations: []PendingAttestation{},
		CurrentEpochAttestations:  []PendingAttestation{},
	}
	emptyBody := phase0.BeaconBlockBody{}
	s.LatestBlockHeader = common.BeaconBlockHeader{BodyRoot: emptyBody.HashTreeRoot(spec, tree.GetHashFn())}
	for i := range s.RandaoMixes {
		s.RandaoMixes[i] = eth1BlockHash
	}
	m := &machine{spec: spec, p: p, s: s}

	// Process deposits
	leaves := make([][32]byte, 0, len(deposits))
	for i := range deposits {
		leaves = append(leaves, deposits[i].Data.HashTreeRoot(tree.GetHashFn()))
	}
	for index := range deposits {
		// deposit_data_list = List[DepositData, 2**DEPOSIT_CONTRACT_TREE_DEPTH](*leaves[:index + 1])
		// state.eth1_data.deposit_root = hash_tree_root(deposit_data_list)
		s.Eth1Data.DepositRoot = mixInLength(merkleizeChunks(leaves[:index+1], depositContractTreeDepth), uint64(index+1))
		m.processDeposit(&deposits[index])
	}

	// Process activations
	for index := range s.Validators {
		validator := &s.Validators[index]
		balance := s.Balances[index]
		validator.EffectiveBalance = minU(balance-mod(balance, p.EffectiveBalanceIncrement), p.MaxEffectiveBalance)
		if validator.EffectiveBalance == p.MaxEffectiveBalance {
			validator.ActivationEligibilityEpoch = genesisEpoch
			validator.ActivationEpoch = genesisEpoch
		}
	}

	// Set genesis validators root for domain separation and chain versioning
	s.GenesisValidatorsRoot = validatorsOut(s.Validators).HashTreeRoot(spec, tree.GetHashFn())
	return s
}

func (m *machine) isValidGenesisState() bool {
	if m.s.GenesisTime < m.p.MinGenesisTime {
		return false
	}
	if uint64(len(m.getActiveValidatorIndices(genesisEpoch))) < m.p.MinGenesisActiveValidatorCount {
		return false
	}
	return true
}
