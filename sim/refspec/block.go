package refspec

import (
	"bytes"

	"github.com/protolambda/zrnt/eth2/beacon/altair"
	"github.com/protolambda/zrnt/eth2/beacon/bellatrix"
	"github.com/protolambda/zrnt/eth2/beacon/capella"
	"github.com/protolambda/zrnt/eth2/beacon/common"
	"github.com/protolambda/zrnt/eth2/beacon/deneb"
	"github.com/protolambda/zrnt/eth2/beacon/phase0"
	"github.com/protolambda/ztyp/tree"
)

// ---------------------------------------------------------------------------------------------
// A fork-independent view of the block structs
// ---------------------------------------------------------------------------------------------

// execPayload is the superset of the bellatrix/capella/deneb ExecutionPayload.
type execPayload struct {
	header       ExecHeader // all scalar fields; TransactionsRoot / WithdrawalsRoot filled by rootsFn
	transactions common.PayloadTransactions
	withdrawals  common.Withdrawals
}

type blockView struct {
	fork          Fork
	slot          uint64
	proposerIndex uint64
	parentRoot    [32]byte
	stateRoot     [32]byte
	bodyRoot      func() [32]byte // hash_tree_root(block.body)
	blockRoot     func() [32]byte // hash_tree_root(block)

	randaoReveal      [96]byte
	eth1Data          common.Eth1Data
	proposerSlashings phase0.ProposerSlashings
	attesterSlashings phase0.AttesterSlashings
	attestations      phase0.Attestations
	deposits          phase0.Deposits
	voluntaryExits    phase0.VoluntaryExits

	syncAggregate *altair.SyncAggregate // altair+

	payload *execPayload // bellatrix+

	blsToExecutionChanges common.SignedBLSToExecutionChanges // capella+

	blobKZGCommitments deneb.KZGCommitments // deneb
}

func (m *machine) viewBlock(block interface{}) *blockView {
	spec := m.spec
	v := &blockView{}
	switch b := block.(type) {
	case *phase0.BeaconBlock:
		must(b != nil, "nil block")
		v.fork = Phase0
		v.slot, v.proposerIndex, v.parentRoot, v.stateRoot = uint64(b.Slot), uint64(b.ProposerIndex), b.ParentRoot, b.StateRoot
		v.bodyRoot = func() [32]byte { return b.Body.HashTreeRoot(spec, tree.GetHashFn()) }
		v.blockRoot = func() [32]byte { return b.HashTreeRoot(spec, tree.GetHashFn()) }
		body := &b.Body
		v.randaoReveal, v.eth1Data = body.RandaoReveal, body.Eth1Data
		v.proposerSlashings, v.attesterSlashings, v.attestations = body.ProposerSlashings, body.AttesterSlashings, body.Attestations
		v.deposits, v.voluntaryExits = body.Deposits, body.VoluntaryExits
	case *altair.BeaconBlock:
		must(b != nil, "nil block")
		v.fork = Altair
		v.slot, v.proposerIndex, v.parentRoot, v.stateRoot = uint64(b.Slot), uint64(b.ProposerIndex), b.ParentRoot, b.StateRoot
		v.bodyRoot = func() [32]byte { return b.Body.HashTreeRoot(spec, tree.GetHashFn()) }
		v.blockRoot = func() [32]byte { return b.HashTreeRoot(spec, tree.GetHashFn()) }
		body := &b.Body
		v.randaoReveal, v.eth1Data = body.RandaoReveal, body.Eth1Data
		v.proposerSlashings, v.attesterSlashings, v.attestations = body.ProposerSlashings, body.AttesterSlashings, body.Attestations
		v.deposits, v.voluntaryExits = body.Deposits, body.VoluntaryExits
		v.syncAggregate = &body.SyncAggregate
	case *bellatrix.BeaconBlock:
		must(b != nil, "nil block")
		v.fork = Bellatrix
		v.slot, v.proposerIndex, v.parentRoot, v.stateRoot = uint64(b.Slot), uint64(b.ProposerIndex), b.ParentRoot, b.StateRoot
		v.bodyRoot = func() [32]byte { return b.Body.HashTreeRoot(spec, tree.GetHashFn()) }
		v.blockRoot = func() [32]byte { return b.HashTreeRoot(spec, tree.GetHashFn()) }
		body := &b.Body
		v.randaoReveal, v.eth1Data = body.RandaoReveal, body.Eth1Data
		v.proposerSlashings, v.attesterSlashings, v.attestations = body.ProposerSlashings, body.AttesterSlashings, body.Attestations
		v.deposits, v.voluntaryExits = body.Deposits, body.VoluntaryExits
		v.syncAggregate = &body.SyncAggregate
		ep := &body.ExecutionPayload
		v.payload = &execPayload{
			header: ExecHeader{
				ParentHash: ep.ParentHash, FeeRecipient: ep.FeeRecipient, StateRoot: ep.StateRoot, ReceiptsRoot: ep.ReceiptsRoot,
				LogsBloom: ep.LogsBloom, PrevRandao: ep.PrevRandao, BlockNumber: uint64(ep.BlockNumber), GasLimit: uint64(ep.GasLimit),
				GasUsed: uint64(ep.GasUsed), Timestamp: uint64(ep.Timestamp), ExtraData: copyBytes(ep.ExtraData),
				BaseFeePerGas: u256In(ep.BaseFeePerGas), BlockHash: ep.BlockHash,
			},
			transactions: ep.Transactions,
		}
	case *capella.BeaconBlock:
		must(b != nil, "nil block")
		v.fork = Capella
		v.slot, v.proposerIndex, v.parentRoot, v.stateRoot = uint64(b.Slot), uint64(b.ProposerIndex), b.ParentRoot, b.StateRoot
		v.bodyRoot = func() [32]byte { return b.Body.HashTreeRoot(spec, tree.GetHashFn()) }
		v.blockRoot = func() [32]byte { return b.HashTreeRoot(spec, tree.GetHashFn()) }
		body := &b.Body
		v.randaoReveal, v.eth1Data = body.RandaoReveal, body.Eth1Data
		v.proposerSlashings, v.attesterSlashings, v.attestations = body.ProposerSlashings, body.AttesterSlashings, body.Attestations
		v.deposits, v.voluntaryExits = body.Deposits, body.VoluntaryExits
		v.syncAggregate = &body.SyncAggregate
		ep := &body.ExecutionPayload
		v.payload = &execPayload{
			header: ExecHeader{
				ParentHash: ep.ParentHash, FeeRecipient: ep.FeeRecipient, StateRoot: ep.StateRoot, ReceiptsRoot: ep.ReceiptsRoot,
				LogsBloom: ep.LogsBloom, PrevRandao: ep.PrevRandao, BlockNumber: uint64(ep.BlockNumber), GasLimit: uint64(ep.GasLimit),
				GasUsed: uint64(ep.GasUsed), Timestamp: uint64(ep.Timestamp), ExtraData: copyBytes(ep.ExtraData),
				BaseFeePerGas: u256In(ep.BaseFeePerGas), BlockHash: ep.BlockHash,
			},
			transactions: ep.Transactions,
			withdrawals:  ep.Withdrawals,
		}
		v.blsToExecutionChanges = body.BLSToExecutionChanges
	case *deneb.BeaconBlock:
		must(b != nil, "nil block")
		v.fork = Deneb
		v.slot, v.proposerIndex, v.parentRoot, v.stateRoot = uint64(b.Slot), uint64(b.ProposerIndex), b.ParentRoot, b.StateRoot
		v.bodyRoot = func() [32]byte { return b.Body.HashTreeRoot(spec, tree.GetHashFn()) }
		v.blockRoot = func() [32]byte { return b.HashTreeRoot(spec, tree.GetHashFn()) }
		body := &b.Body
		v.randaoReveal, v.eth1Data = body.RandaoReveal, body.Eth1Data
		v.proposerSlashings, v.attesterSlashings, v.attestations = body.ProposerSlashings, body.AttesterSlashings, body.Attestations
		v.deposits, v.voluntaryExits = body.Deposits, body.VoluntaryExits
		v.syncAggregate = &body.SyncAggregate
		ep := &body.ExecutionPayload
		v.payload = &execPayload{
			header: ExecHeader{
				ParentHash: ep.ParentHash, FeeRecipient: ep.FeeRecipient, StateRoot: ep.StateRoot, ReceiptsRoot: ep.ReceiptsRoot,
				LogsBloom: ep.LogsBloom, PrevRandao: ep.PrevRandao, BlockNumber: uint64(ep.BlockNumber), GasLimit: uint64(ep.GasLimit),
				GasUsed: uint64(ep.GasUsed), Timestamp: uint64(ep.Timestamp), ExtraData: copyBytes(ep.ExtraData),
				BaseFeePerGas: u256In(ep.BaseFeePerGas), BlockHash: ep.BlockHash,
				BlobGasUsed: uint64(ep.BlobGasUsed), ExcessBlobGas: uint64(ep.ExcessBlobGas),
			},
			transactions: ep.Transactions,
			withdrawals:  ep.Withdrawals,
		}
		v.blsToExecutionChanges = body.BLSToExecutionChanges
		v.blobKZGCommitments = body.BlobKZGCommitments
	default:
		fail("unsupported block type %T", block)
	}
	m.checkBlockWellFormed(v)
	return v
}

// checkBlockWellFormed asserts the SSZ type constraints (list limits, bitfield shapes) which the Go
// structs cannot express: an object violating them does not exist at the spec level.
func (m *machine) checkBlockWellFormed(v *blockView) {
	p := m.p
	must(uint64(len(v.proposerSlashings)) <= p.MaxProposerSlashings, "too many proposer slashings: %d", len(v.proposerSlashings))
	must(uint64(len(v.attesterSlashings)) <= p.MaxAttesterSlashings, "too many attester slashings: %d", len(v.attesterSlashings))
	must(uint64(len(v.attestations)) <= p.MaxAttestations, "too many attestations: %d", len(v.attestations))
	must(uint64(len(v.deposits)) <= p.MaxDeposits, "too many deposits: %d", len(v.deposits))
	must(uint64(len(v.voluntaryExits)) <= p.MaxVoluntaryExits, "too many voluntary exits: %d", len(v.voluntaryExits))
	for i := range v.attestations {
		bitlistLen(v.attestations[i].AggregationBits, p.MaxValidatorsPerCommittee)
	}
	for i := range v.attesterSlashings {
		must(uint64(len(v.attesterSlashings[i].Attestation1.AttestingIndices)) <= p.MaxValidatorsPerCommittee, "attester slashing %d: too many indices", i)
		must(uint64(len(v.attesterSlashings[i].Attestation2.AttestingIndices)) <= p.MaxValidatorsPerCommittee, "attester slashing %d: too many indices", i)
	}
	if v.syncAggregate != nil && v.syncAggregate.SyncCommitteeBits != nil {
		bitsLen := (p.SyncCommitteeSize + 7) / 8
		b := v.syncAggregate.SyncCommitteeBits
		must(uint64(len(b)) == bitsLen, "sync committee bits: %d bytes, want %d", len(b), bitsLen)
		if p.SyncCommitteeSize%8 != 0 && bitsLen > 0 {
			must(b[bitsLen-1]>>(p.SyncCommitteeSize%8) == 0, "sync committee bits: padding bits set")
		}
	}
	if v.payload != nil {
		must(uint64(len(v.payload.header.ExtraData)) <= p.MaxExtraDataBytes, "execution payload: extra data too long")
		must(uint64(len(v.payload.transactions)) <= p.MaxTransactionsPerPayload, "execution payload: too many transactions")
		for i := range v.payload.transactions {
			must(uint64(len(v.payload.transactions[i])) <= p.MaxBytesPerTransaction, "execution payload: transaction %d too long", i)
		}
		must(uint64(len(v.payload.withdrawals)) <= p.MaxWithdrawalsPerPayload, "execution payload: too many withdrawals")
	}
	must(uint64(len(v.blsToExecutionChanges)) <= p.MaxBLSToExecutionChanges, "too many bls_to_execution_changes: %d", len(v.blsToExecutionChanges))
	must(uint64(len(v.blobKZGCommitments)) <= p.MaxBlobCommitmentsPerBlock, "too many blob kzg commitments: %d", len(v.blobKZGCommitments))
}

// ---------------------------------------------------------------------------------------------
// process_block
// ---------------------------------------------------------------------------------------------

func (m *machine) processBlock(b *blockView) {
	must(b.fork == m.s.Fork, "block of fork %s cannot be applied to a state of fork %s", b.fork, m.s.Fork)
	m.processBlockHeader(b)
	switch {
	case m.s.Fork == Bellatrix:
		if m.isExecutionEnabled(b.payload) {
			m.processExecutionPayload(b)
		}
	case m.s.Fork >= Capella:
		m.processWithdrawals(b.payload)
		m.processExecutionPayload(b)
	}
	m.processRandao(b)
	m.processEth1Data(b)
	m.processOperations(b)
	if m.s.Fork >= Altair {
		m.processSyncAggregate(b.syncAggregate)
	}
}

func (m *machine) processBlockHeader(b *blockView) {
	s := m.s
	// Verify that the slots match
	must(b.slot == s.Slot, "block slot %d != state slot %d", b.slot, s.Slot)
	// Verify that the block is newer than latest block header
	must(b.slot > uint64(s.LatestBlockHeader.Slot), "block slot %d is not newer than the latest block header slot %d", b.slot, uint64(s.LatestBlockHeader.Slot))
	// Verify that proposer index is the correct index
	expectedProposer := m.getBeaconProposerIndex()
	must(b.proposerIndex == expectedProposer, "block proposer index %d != expected %d", b.proposerIndex, expectedProposer)
	// Verify that the parent matches
	parent := s.LatestBlockHeader.HashTreeRoot(tree.GetHashFn())
	must(b.parentRoot == [32]byte(parent), "block parent root %x != latest block header root %x", b.parentRoot[:], parent[:])
	// Cache current block as the new latest block
	s.LatestBlockHeader = common.BeaconBlockHeader{
		Slot:          common.Slot(b.slot),
		ProposerIndex: common.ValidatorIndex(b.proposerIndex),
		ParentRoot:    b.parentRoot,
		StateRoot:     common.Root{}, // Overwritten in the next process_slot call
		BodyRoot:      b.bodyRoot(),
	}
	// Verify proposer is not slashed
	proposer := m.validator(b.proposerIndex)
	must(!proposer.Slashed, "block proposer %d is slashed", b.proposerIndex)
}

func (m *machine) processRandao(b *blockView) {
	epoch := m.getCurrentEpoch()
	// Verify RANDAO reveal
	proposer := m.validator(m.getBeaconProposerIndex())
	signingRoot := computeSigningRoot(uint64Root(epoch), m.getDomain(domainRandao, epoch))
	must(blsVerify(proposer.Pubkey, signingRoot, b.randaoReveal), "invalid randao reveal")
	// Mix in RANDAO reveal
	mix := xor32(m.getRandaoMix(epoch), hash(b.randaoReveal[:]))
	m.s.RandaoMixes[epoch%m.p.EpochsPerHistoricalVector] = mix
}

func (m *machine) processEth1Data(b *blockView) {
	limit := mul(m.p.EpochsPerEth1VotingPeriod, m.p.SlotsPerEpoch)
	must(uint64(len(m.s.Eth1DataVotes)) < limit, "eth1_data_votes is full")
	m.s.Eth1DataVotes = append(m.s.Eth1DataVotes, b.eth1Data)
	count := uint64(0)
	for i := range m.s.Eth1DataVotes {
		if m.s.Eth1DataVotes[i] == b.eth1Data {
			count++
		}
	}
	if mul(count, 2) > limit {
		m.s.Eth1Data = b.eth1Data
	}
}

func (m *machine) processOperations(b *blockView) {
	// Verify that outstanding deposits are processed up to the maximum number of deposits
	outstanding := sub(uint64(m.s.Eth1Data.DepositCount), m.s.Eth1DepositIndex)
	must(uint64(len(b.deposits)) == minU(m.p.MaxDeposits, outstanding),
		"block has %d deposits, expected %d", len(b.deposits), minU(m.p.MaxDeposits, outstanding))

	for i := range b.proposerSlashings {
		m.processProposerSlashing(&b.proposerSlashings[i])
	}
	for i := range b.attesterSlashings {
		m.processAttesterSlashing(&b.attesterSlashings[i])
	}
	for i := range b.attestations {
		m.processAttestation(&b.attestations[i])
	}
	for i := range b.deposits {
		m.processDeposit(&b.deposits[i])
	}
	for i := range b.voluntaryExits {
		m.processVoluntaryExit(&b.voluntaryExits[i])
	}
	if m.s.Fork >= Capella {
		for i := range b.blsToExecutionChanges {
			m.processBLSToExecutionChange(&b.blsToExecutionChanges[i])
		}
	}
}

// ---------------------------------------------------------------------------------------------
// Operations
// ---------------------------------------------------------------------------------------------

func (m *machine) processProposerSlashing(ps *phase0.ProposerSlashing) {
	header1 := ps.SignedHeader1.Message
	header2 := ps.SignedHeader2.Message

	// Verify header slots match
	must(header1.Slot == header2.Slot, "proposer slashing: header slots differ")
	// Verify header proposer indices match
	must(header1.ProposerIndex == header2.ProposerIndex, "proposer slashing: proposer indices differ")
	// Verify the headers are different
	must(header1 != header2, "proposer slashing: headers are identical")
	// Verify the proposer is slashable
	proposer := m.validator(uint64(header1.ProposerIndex))
	must(isSlashableValidator(proposer, m.getCurrentEpoch()), "proposer slashing: proposer %d is not slashable", uint64(header1.ProposerIndex))
	// Verify signatures
	for _, signedHeader := range []*common.SignedBeaconBlockHeader{&ps.SignedHeader1, &ps.SignedHeader2} {
		domain := m.getDomain(domainBeaconProposer, m.computeEpochAtSlot(uint64(signedHeader.Message.Slot)))
		signingRoot := computeSigningRoot(signedHeader.Message.HashTreeRoot(tree.GetHashFn()), domain)
		must(blsVerify(proposer.Pubkey, signingRoot, signedHeader.Signature), "proposer slashing: invalid header signature")
	}

	m.slashValidator(uint64(header1.ProposerIndex), nil)
}

func indicesOf(in common.CommitteeIndices) []uint64 {
	out := make([]uint64, len(in))
	for i := range in {
		out[i] = uint64(in[i])
	}
	return out
}

func (m *machine) processAttesterSlashing(as *phase0.AttesterSlashing) {
	attestation1 := &as.Attestation1
	attestation2 := &as.Attestation2
	must(isSlashableAttestationData(&attestation1.Data, &attestation2.Data), "attester slashing: attestation data not slashable")
	indices1 := indicesOf(attestation1.AttestingIndices)
	indices2 := indicesOf(attestation2.AttestingIndices)
	must(m.isValidIndexedAttestation(indices1, &attestation1.Data, attestation1.Signature), "attester slashing: attestation 1 invalid")
	must(m.isValidIndexedAttestation(indices2, &attestation2.Data, attestation2.Signature), "attester slashing: attestation 2 invalid")

	slashedAny := false
	set2 := toSet(indices2)
	intersection := map[uint64]struct{}{}
	for _, i := range indices1 {
		if _, ok := set2[i]; ok {
			intersection[i] = struct{}{}
		}
	}
	for _, index := range sortedKeys(intersection) {
		if isSlashableValidator(m.validator(index), m.getCurrentEpoch()) {
			m.slashValidator(index, nil)
			slashedAny = true
		}
	}
	must(slashedAny, "attester slashing: nobody slashed")
}

func sameCheckpoint(a common.Checkpoint, b Checkpoint) bool {
	return uint64(a.Epoch) == b.Epoch && [32]byte(a.Root) == b.Root
}

func (m *machine) processAttestation(att *phase0.Attestation) {
	s, p := m.s, m.p
	data := &att.Data
	targetEpoch := uint64(data.Target.Epoch)
	dataSlot := uint64(data.Slot)
	must(targetEpoch == m.getPreviousEpoch() || targetEpoch == m.getCurrentEpoch(), "attestation: target epoch %d not previous/current", targetEpoch)
	must(targetEpoch == m.computeEpochAtSlot(dataSlot), "attestation: target epoch %d does not match slot %d", targetEpoch, dataSlot)
	if s.Fork >= Deneb {
		// [Modified in Deneb:EIP7045]
		must(add(dataSlot, p.MinAttestationInclusionDelay) <= s.Slot, "attestation: included too early")
	} else {
		must(add(dataSlot, p.MinAttestationInclusionDelay) <= s.Slot && s.Slot <= add(dataSlot, p.SlotsPerEpoch),
			"attestation: slot %d not within the inclusion window of state slot %d", dataSlot, s.Slot)
	}
	must(uint64(data.Index) < m.getCommitteeCountPerSlot(targetEpoch), "attestation: committee index %d out of range", uint64(data.Index))

	committee := m.getBeaconCommittee(dataSlot, uint64(data.Index))
	bitsLen := bitlistLen(att.AggregationBits, p.MaxValidatorsPerCommittee)
	must(bitsLen == uint64(len(committee)), "attestation: %d aggregation bits for a committee of %d", bitsLen, len(committee))

	if s.Fork == Phase0 {
		pendingAttestation := PendingAttestation{
			Data:            *data,
			AggregationBits: copyBytes(att.AggregationBits),
			InclusionDelay:  sub(s.Slot, dataSlot),
			ProposerIndex:   m.getBeaconProposerIndex(),
		}
		limit := mul(p.MaxAttestations, p.SlotsPerEpoch)
		if targetEpoch == m.getCurrentEpoch() {
			must(sameCheckpoint(data.Source, s.CurrentJustified), "attestation: source does not match the current justified checkpoint")
			must(uint64(len(s.CurrentEpochAttestations)) < limit, "current_epoch_attestations is full")
			s.CurrentEpochAttestations = append(s.CurrentEpochAttestations, pendingAttestation)
		} else {
			must(sameCheckpoint(data.Source, s.PreviousJustified), "attestation: source does not match the previous justified checkpoint")
			must(uint64(len(s.PreviousEpochAttestations)) < limit, "previous_epoch_attestations is full")
			s.PreviousEpochAttestations = append(s.PreviousEpochAttestations, pendingAttestation)
		}
		// Verify signature
		indices := m.getAttestingIndices(data, att.AggregationBits) // get_indexed_attestation: sorted
		must(m.isValidIndexedAttestation(indices, data, att.Signature), "attestation: invalid indexed attestation")
		return
	}

	// altair+
	// Participation flag indices
	participationFlagIndices := m.getAttestationParticipationFlagIndices(data, sub(s.Slot, dataSlot))

	// Verify signature
	indices := m.getAttestingIndices(data, att.AggregationBits) // get_indexed_attestation: sorted
	must(m.isValidIndexedAttestation(indices, data, att.Signature), "attestation: invalid indexed attestation")

	// Update epoch participation flags
	epochParticipation := s.PreviousEpochParticipation
	if targetEpoch == m.getCurrentEpoch() {
		epochParticipation = s.CurrentEpochParticipation
	}
	baseRewardPerIncrement := m.getBaseRewardPerIncrement()
	proposerRewardNumerator := uint64(0)
	for _, index := range indices {
		must(index < uint64(len(epochParticipation)), "participation index %d out of range", index)
		for flagIndex, weight := range participationFlagWeights {
			if participationFlagIndices[flagIndex] && !hasFlag(epochParticipation[index], flagIndex) {
				epochParticipation[index] = addFlag(epochParticipation[index], flagIndex)
				proposerRewardNumerator = add(proposerRewardNumerator, mul(m.getBaseRewardAltair(baseRewardPerIncrement, index), weight))
			}
		}
	}

	// Reward proposer
	proposerRewardDenominator := div(mul(sub(weightDenominator, proposerWeight), weightDenominator), proposerWeight)
	proposerReward := div(proposerRewardNumerator, proposerRewardDenominator)
	m.increaseBalance(m.getBeaconProposerIndex(), proposerReward)
}

// getAttestationParticipationFlagIndices: get_attestation_participation_flag_indices; result[f] tells whether
// flag index f is in the returned list.
func (m *machine) getAttestationParticipationFlagIndices(data *phase0.AttestationData, inclusionDelay uint64) [3]bool {
	s, p := m.s, m.p
	justifiedCheckpoint := s.PreviousJustified
	if uint64(data.Target.Epoch) == m.getCurrentEpoch() {
		justifiedCheckpoint = s.CurrentJustified
	}

	// Matching roots
	isMatchingSource := sameCheckpoint(data.Source, justifiedCheckpoint)
	isMatchingTarget := isMatchingSource && [32]byte(data.Target.Root) == m.getBlockRoot(uint64(data.Target.Epoch))
	isMatchingHead := isMatchingTarget && [32]byte(data.BeaconBlockRoot) == m.getBlockRootAtSlot(uint64(data.Slot))
	must(isMatchingSource, "attestation: source does not match the justified checkpoint")

	var out [3]bool
	if isMatchingSource && inclusionDelay <= integerSquareroot(p.SlotsPerEpoch) {
		out[timelySourceFlagIndex] = true
	}
	if s.Fork >= Deneb {
		// [Modified in Deneb:EIP7045]
		if isMatchingTarget {
			out[timelyTargetFlagIndex] = true
		}
	} else if isMatchingTarget && inclusionDelay <= p.SlotsPerEpoch {
		out[timelyTargetFlagIndex] = true
	}
	if isMatchingHead && inclusionDelay == p.MinAttestationInclusionDelay {
		out[timelyHeadFlagIndex] = true
	}
	return out
}

func (m *machine) processDeposit(deposit *common.Deposit) {
	// Verify the Merkle branch
	leaf := deposit.Data.HashTreeRoot(tree.GetHashFn())
	branch := make([][32]byte, len(deposit.Proof))
	for i := range deposit.Proof {
		branch[i] = deposit.Proof[i]
	}
	must(isValidMerkleBranch(leaf, branch, depositContractTreeDepth+1, // Add 1 for the List length mix-in
		m.s.Eth1DepositIndex, m.s.Eth1Data.DepositRoot), "deposit: invalid merkle branch")

	// Deposits must be processed in order
	m.s.Eth1DepositIndex = add(m.s.Eth1DepositIndex, 1)

	m.applyDeposit(deposit.Data.Pubkey, deposit.Data.WithdrawalCredentials, uint64(deposit.Data.Amount), deposit.Data.Signature)
}

func (m *machine) applyDeposit(pubkey [48]byte, withdrawalCredentials [32]byte, amount uint64, signature [96]byte) {
	// validator_pubkeys = [v.pubkey for v in state.validators]
	found := -1
	for i := range m.s.Validators {
		if m.s.Validators[i].Pubkey == pubkey {
			found = i // validator_pubkeys.index(pubkey): first match
			break
		}
	}
	if found < 0 {
		// Verify the deposit signature (proof of possession) which is not checked by the deposit contract
		depositMessage := common.DepositMessage{Pubkey: pubkey, WithdrawalCredentials: withdrawalCredentials, Amount: common.Gwei(amount)}
		// Fork-agnostic domain since deposits are valid across forks
		domain := computeDomain(domainDeposit, m.p.GenesisForkVersion, [32]byte{})
		signingRoot := computeSigningRoot(depositMessage.HashTreeRoot(tree.GetHashFn()), domain)
		if blsVerify(pubkey, signingRoot, signature) {
			m.addValidatorToRegistry(pubkey, withdrawalCredentials, amount)
		}
	} else {
		// Increase balance by deposit amount
		m.increaseBalance(uint64(found), amount)
	}
}

func (m *machine) addValidatorToRegistry(pubkey [48]byte, withdrawalCredentials [32]byte, amount uint64) {
	s := m.s
	must(uint64(len(s.Validators)) < m.p.ValidatorRegistryLimit, "validator registry is full")
	// get_validator_from_deposit
	effectiveBalance := minU(amount-mod(amount, m.p.EffectiveBalanceIncrement), m.p.MaxEffectiveBalance)
	s.Validators = append(s.Validators, Validator{
		Pubkey:                     pubkey,
		WithdrawalCredentials:      withdrawalCredentials,
		ActivationEligibilityEpoch: farFutureEpoch,
		ActivationEpoch:            farFutureEpoch,
		ExitEpoch:                  farFutureEpoch,
		WithdrawableEpoch:          farFutureEpoch,
		EffectiveBalance:           effectiveBalance,
	})
	s.Balances = append(s.Balances, amount)
	if s.Fork >= Altair {
		s.PreviousEpochParticipation = append(s.PreviousEpochParticipation, 0)
		s.CurrentEpochParticipation = append(s.CurrentEpochParticipation, 0)
		s.InactivityScores = append(s.InactivityScores, 0)
	}
}

func (m *machine) processVoluntaryExit(signed *phase0.SignedVoluntaryExit) {
	voluntaryExit := &signed.Message
	validator := m.validator(uint64(voluntaryExit.ValidatorIndex))
	currentEpoch := m.getCurrentEpoch()
	// Verify the validator is active
	must(isActiveValidator(validator, currentEpoch), "voluntary exit: validator not active")
	// Verify exit has not been initiated
	must(validator.ExitEpoch == farFutureEpoch, "voluntary exit: exit already initiated")
	// Exits must specify an epoch when they become valid; they are not valid before then
	must(currentEpoch >= uint64(voluntaryExit.Epoch), "voluntary exit: not yet valid")
	// Verify the validator has been active long enough
	must(currentEpoch >= add(validator.ActivationEpoch, m.p.ShardCommitteePeriod), "voluntary exit: validator not active long enough")
	// Verify signature
	var domain [32]byte
	if m.s.Fork >= Deneb {
		// [Modified in Deneb:EIP7044]
		domain = computeDomain(domainVoluntaryExit, m.p.CapellaForkVersion, m.s.GenesisValidatorsRoot)
	} else {
		domain = m.getDomain(domainVoluntaryExit, uint64(voluntaryExit.Epoch))
	}
	signingRoot := computeSigningRoot(voluntaryExit.HashTreeRoot(tree.GetHashFn()), domain)
	must(blsVerify(validator.Pubkey, signingRoot, signed.Signature), "voluntary exit: invalid signature")
	// Initiate exit
	m.initiateValidatorExit(uint64(voluntaryExit.ValidatorIndex))
}

func (m *machine) processBLSToExecutionChange(signed *common.SignedBLSToExecutionChange) {
	addressChange := &signed.BLSToExecutionChange

	must(uint64(addressChange.ValidatorIndex) < uint64(len(m.s.Validators)), "bls_to_execution_change: validator index out of range")

	validator := m.validator(uint64(addressChange.ValidatorIndex))

	must(validator.WithdrawalCredentials[0] == blsWithdrawalPrefix, "bls_to_execution_change: not a BLS withdrawal credential")
	pubkeyHash := hash(addressChange.FromBLSPubKey[:])
	must(bytes.Equal(validator.WithdrawalCredentials[1:], pubkeyHash[1:]), "bls_to_execution_change: pubkey does not match the withdrawal credentials")

	// Fork-agnostic domain since address changes are valid across forks
	domain := computeDomain(domainBLSToExecutionChange, m.p.GenesisForkVersion, m.s.GenesisValidatorsRoot)
	signingRoot := computeSigningRoot(addressChange.HashTreeRoot(tree.GetHashFn()), domain)
	must(blsVerify(addressChange.FromBLSPubKey, signingRoot, signed.Signature), "bls_to_execution_change: invalid signature")

	var wc [32]byte
	wc[0] = eth1AddressWithdrawalPrefix
	// 11 zero bytes
	copy(wc[12:], addressChange.ToExecutionAddress[:])
	validator.WithdrawalCredentials = wc
}

// ---------------------------------------------------------------------------------------------
// Sync aggregate (altair+)
// ---------------------------------------------------------------------------------------------

func (m *machine) processSyncAggregate(agg *altair.SyncAggregate) {
	s, p := m.s, m.p
	must(agg != nil, "missing sync aggregate")
	must(s.CurrentSyncCommittee != nil && uint64(len(s.CurrentSyncCommittee.Pubkeys)) == p.SyncCommitteeSize, "CurrentSyncCommittee ill-sized")
	bits := []byte(agg.SyncCommitteeBits)
	if bits == nil {
		// the struct's zero value stands for the default (all-zero) bitvector
		bits = make([]byte, (p.SyncCommitteeSize+7)/8)
	}
	// Verify sync committee aggregate signature signing over the previous slot block root
	committeePubkeys := s.CurrentSyncCommittee.Pubkeys
	participantPubkeys := [][48]byte{}
	for i := uint64(0); i < p.SyncCommitteeSize; i++ {
		if getBit(bits, i) {
			participantPubkeys = append(participantPubkeys, committeePubkeys[i])
		}
	}
	previousSlot := maxU(s.Slot, 1) - 1
	domain := m.getDomain(domainSyncCommittee, m.computeEpochAtSlot(previousSlot))
	signingRoot := computeSigningRoot(m.getBlockRootAtSlot(previousSlot), domain)
	must(ethFastAggregateVerify(participantPubkeys, signingRoot, agg.SyncCommitteeSignature), "sync aggregate: invalid signature")

	// Compute participant and proposer rewards
	totalActiveIncrements := div(m.getTotalActiveBalance(), p.EffectiveBalanceIncrement)
	totalBaseRewards := mul(m.getBaseRewardPerIncrement(), totalActiveIncrements)
	maxParticipantRewards := div(div(mul(totalBaseRewards, syncRewardWeight), weightDenominator), p.SlotsPerEpoch)
	participantReward := div(maxParticipantRewards, p.SyncCommitteeSize)
	proposerReward := div(mul(participantReward, proposerWeight), sub(weightDenominator, proposerWeight))

	// Apply participant and proposer rewards
	// all_pubkeys = [v.pubkey for v in state.validators]
	// committee_indices = [all_pubkeys.index(pubkey) for pubkey in state.current_sync_committee.pubkeys]
	committeeIndices := make([]uint64, 0, len(committeePubkeys))
	for _, pubkey := range committeePubkeys {
		found := -1
		for i := range s.Validators {
			if s.Validators[i].Pubkey == pubkey {
				found = i
				break
			}
		}
		must(found >= 0, "sync aggregate: committee pubkey is not in the registry")
		committeeIndices = append(committeeIndices, uint64(found))
	}
	for i, participantIndex := range committeeIndices {
		if getBit(bits, uint64(i)) {
			m.increaseBalance(participantIndex, participantReward)
			m.increaseBalance(m.getBeaconProposerIndex(), proposerReward)
		} else {
			m.decreaseBalance(participantIndex, participantReward)
		}
	}
}

// ---------------------------------------------------------------------------------------------
// Execution payload (bellatrix+) and withdrawals (capella+)
// ---------------------------------------------------------------------------------------------

func (h *ExecHeader) isDefault() bool {
	return h.ParentHash == [32]byte{} && h.FeeRecipient == [20]byte{} && h.StateRoot == [32]byte{} && h.ReceiptsRoot == [32]byte{} &&
		h.LogsBloom == [256]byte{} && h.PrevRandao == [32]byte{} && h.BlockNumber == 0 && h.GasLimit == 0 && h.GasUsed == 0 &&
		h.Timestamp == 0 && len(h.ExtraData) == 0 && h.BaseFeePerGas == [32]byte{} && h.BlockHash == [32]byte{} &&
		h.TransactionsRoot == [32]byte{} && h.WithdrawalsRoot == [32]byte{} && h.BlobGasUsed == 0 && h.ExcessBlobGas == 0
}

func (ep *execPayload) isDefault() bool {
	// ExecutionPayload(): all scalar fields zero and all lists empty (the roots in header are not yet filled)
	return ep.header.isDefault() && len(ep.transactions) == 0 && len(ep.withdrawals) == 0
}

func (m *machine) isMergeTransitionComplete() bool {
	must(m.s.LatestExecutionPayloadHeader != nil, "LatestExecutionPayloadHeader is nil")
	return !m.s.LatestExecutionPayloadHeader.isDefault()
}

func (m *machine) isMergeTransitionBlock(payload *execPayload) bool {
	return !m.isMergeTransitionComplete() && !payload.isDefault()
}

func (m *machine) isExecutionEnabled(payload *execPayload) bool {
	return m.isMergeTransitionBlock(payload) || m.isMergeTransitionComplete()
}

func (m *machine) computeTimestampAtSlot(slot uint64) uint64 {
	slotsSinceGenesis := sub(slot, genesisSlot)
	return add(m.s.GenesisTime, mul(slotsSinceGenesis, m.p.SecondsPerSlot))
}

func (m *machine) processExecutionPayload(b *blockView) {
	s := m.s
	payload := b.payload
	must(payload != nil, "missing execution payload")
	must(s.LatestExecutionPayloadHeader != nil, "LatestExecutionPayloadHeader is nil")

	// Verify consistency of the parent hash with respect to the previous execution payload header
	if s.Fork == Bellatrix {
		if m.isMergeTransitionComplete() {
			must(payload.header.ParentHash == s.LatestExecutionPayloadHeader.BlockHash, "execution payload: parent hash mismatch")
		}
	} else {
		// [Modified in Capella] Removed `is_merge_transition_complete` check
		must(payload.header.ParentHash == s.LatestExecutionPayloadHeader.BlockHash, "execution payload: parent hash mismatch")
	}
	// Verify prev_randao
	must(payload.header.PrevRandao == m.getRandaoMix(m.getCurrentEpoch()), "execution payload: prev_randao mismatch")
	// Verify timestamp
	must(payload.header.Timestamp == m.computeTimestampAtSlot(s.Slot), "execution payload: timestamp %d != expected %d", payload.header.Timestamp, m.computeTimestampAtSlot(s.Slot))

	if s.Fork >= Deneb {
		// [New in Deneb:EIP4844] Verify commitments are under limit
		must(uint64(len(b.blobKZGCommitments)) <= m.p.MaxBlobsPerBlock, "too many blob commitments: %d", len(b.blobKZGCommitments))
	}

	// Verify the execution payload is valid: the execution engine is assumed to answer VALID.

	// Cache execution payload header
	header := payload.header // copy of all scalar fields
	header.ExtraData = copyBytes(payload.header.ExtraData)
	header.TransactionsRoot = payload.transactions.HashTreeRoot(m.spec, tree.GetHashFn())
	if s.Fork >= Capella {
		header.WithdrawalsRoot = payload.withdrawals.HashTreeRoot(m.spec, tree.GetHashFn())
	}
	s.LatestExecutionPayloadHeader = &header
}

func hasEth1WithdrawalCredential(v *Validator) bool {
	return v.WithdrawalCredentials[0] == eth1AddressWithdrawalPrefix
}

func isFullyWithdrawableValidator(v *Validator, balance, epoch uint64) bool {
	return hasEth1WithdrawalCredential(v) && v.WithdrawableEpoch <= epoch && balance > 0
}

func (m *machine) isPartiallyWithdrawableValidator(v *Validator, balance uint64) bool {
	hasMaxEffectiveBalance := v.EffectiveBalance == m.p.MaxEffectiveBalance
	hasExcessBalance := balance > m.p.MaxEffectiveBalance
	return hasEth1WithdrawalCredential(v) && hasMaxEffectiveBalance && hasExcessBalance
}

func (m *machine) getExpectedWithdrawals() []common.Withdrawal {
	s, p := m.s, m.p
	epoch := m.getCurrentEpoch()
	withdrawalIndex := s.NextWithdrawalIndex
	validatorIndex := s.NextWithdrawalValidatorIndex
	withdrawals := []common.Withdrawal{}
	bound := minU(uint64(len(s.Validators)), p.MaxValidatorsPerWithdrawalsSweep)
	for i := uint64(0); i < bound; i++ {
		validator := m.validator(validatorIndex)
		balance := m.balance(validatorIndex)
		var address common.Eth1Address
		copy(address[:], validator.WithdrawalCredentials[12:])
		if isFullyWithdrawableValidator(validator, balance, epoch) {
			withdrawals = append(withdrawals, common.Withdrawal{
				Index:          common.WithdrawalIndex(withdrawalIndex),
				ValidatorIndex: common.ValidatorIndex(validatorIndex),
				Address:        address,
				Amount:         common.Gwei(balance),
			})
			withdrawalIndex = add(withdrawalIndex, 1)
		} else if m.isPartiallyWithdrawableValidator(validator, balance) {
			withdrawals = append(withdrawals, common.Withdrawal{
				Index:          common.WithdrawalIndex(withdrawalIndex),
				ValidatorIndex: common.ValidatorIndex(validatorIndex),
				Address:        address,
				Amount:         common.Gwei(sub(balance, p.MaxEffectiveBalance)),
			})
			withdrawalIndex = add(withdrawalIndex, 1)
		}
		if uint64(len(withdrawals)) == p.MaxWithdrawalsPerPayload {
			break
		}
		validatorIndex = mod(add(validatorIndex, 1), uint64(len(s.Validators)))
	}
	return withdrawals
}

func (m *machine) processWithdrawals(payload *execPayload) {
	s, p := m.s, m.p
	must(payload != nil, "missing execution payload")
	expectedWithdrawals := m.getExpectedWithdrawals()
	must(len(payload.withdrawals) == len(expectedWithdrawals), "withdrawals: payload has %d, expected %d", len(payload.withdrawals), len(expectedWithdrawals))

	for i := range expectedWithdrawals {
		expected, withdrawal := expectedWithdrawals[i], payload.withdrawals[i]
		must(withdrawal == expected, "withdrawals: withdrawal %d does not match the expected one", i)
		m.decreaseBalance(uint64(withdrawal.ValidatorIndex), uint64(withdrawal.Amount))
	}

	// Update the next withdrawal index if this block contained withdrawals
	if len(expectedWithdrawals) != 0 {
		latestWithdrawal := expectedWithdrawals[len(expectedWithdrawals)-1]
		s.NextWithdrawalIndex = add(uint64(latestWithdrawal.Index), 1)
	}

	// Update the next validator index to start the next withdrawal sweep
	if uint64(len(expectedWithdrawals)) == p.MaxWithdrawalsPerPayload {
		// Next sweep starts after the latest withdrawal's validator index
		latest := expectedWithdrawals[len(expectedWithdrawals)-1]
		s.NextWithdrawalValidatorIndex = mod(add(uint64(latest.ValidatorIndex), 1), uint64(len(s.Validators)))
	} else {
		// Advance sweep by the max length of the sweep if there was not a full set of withdrawals
		nextIndex := add(s.NextWithdrawalValidatorIndex, p.MaxValidatorsPerWithdrawalsSweep)
		s.NextWithdrawalValidatorIndex = mod(nextIndex, uint64(len(s.Validators)))
	}
}
