package refspec

// Test helpers shared by the self tests and the (build-tagged) comparison test: deterministic keys,
// deposit trees and a block producer that only uses the model's own exported API and the BLS library.

import (
	"crypto/sha256"
	"encoding/binary"
	"fmt"
	"testing"

	blsu "github.com/protolambda/bls12-381-util"
	"github.com/protolambda/zrnt/eth2/beacon/altair"
	"github.com/protolambda/zrnt/eth2/beacon/bellatrix"
	"github.com/protolambda/zrnt/eth2/beacon/capella"
	"github.com/protolambda/zrnt/eth2/beacon/common"
	"github.com/protolambda/zrnt/eth2/beacon/deneb"
	"github.com/protolambda/zrnt/eth2/beacon/phase0"
	"github.com/protolambda/zrnt/eth2/configs"
	"github.com/protolambda/ztyp/tree"
	"github.com/protolambda/ztyp/view"
)

// ---- keys ------------------------------------------------------------------------------------

type testKeys struct {
	sks    []*blsu.SecretKey
	pubs   [][48]byte
	byPub  map[[48]byte]int
	wdSks  []*blsu.SecretKey // withdrawal keys (BLS credentials)
	wdPubs [][48]byte
}

func deriveKey(tag string, i int) (*blsu.SecretKey, [48]byte) {
	var idx [8]byte
	binary.LittleEndian.PutUint64(idx[:], uint64(i))
	seed := sha256.Sum256(append([]byte(tag), idx[:]...))
	seed[0] &= 0x3f // keep it below the group order
	var sk blsu.SecretKey
	if err := sk.Deserialize(&seed); err != nil {
		panic(err)
	}
	pk, err := blsu.SkToPk(&sk)
	if err != nil {
		panic(err)
	}
	return &sk, pk.Serialize()
}

func newTestKeys(n int) *testKeys {
	k := &testKeys{byPub: map[[48]byte]int{}}
	for i := 0; i < n; i++ {
		sk, pub := deriveKey("refspec-validator-key", i)
		k.sks = append(k.sks, sk)
		k.pubs = append(k.pubs, pub)
		k.byPub[pub] = i
		wsk, wpub := deriveKey("refspec-withdrawal-key", i)
		k.wdSks = append(k.wdSks, wsk)
		k.wdPubs = append(k.wdPubs, wpub)
	}
	return k
}

func signWith(sk *blsu.SecretKey, root [32]byte) [96]byte {
	return blsu.Sign(sk, root[:]).Serialize()
}

func aggregateSigs(sigs [][96]byte) [96]byte {
	parsed := make([]*blsu.Signature, 0, len(sigs))
	for i := range sigs {
		var s blsu.Signature
		if err := s.Deserialize(&sigs[i]); err != nil {
			panic(err)
		}
		parsed = append(parsed, &s)
	}
	agg, err := blsu.Aggregate(parsed)
	if err != nil {
		panic(err)
	}
	return agg.Serialize()
}

// blsCredentials = BLS_WITHDRAWAL_PREFIX ++ hash(pubkey)[1:]
func blsCredentials(pub [48]byte) [32]byte {
	h := sha256.Sum256(pub[:])
	h[0] = blsWithdrawalPrefix
	return h
}

func eth1Credentials(addr [20]byte) [32]byte {
	var wc [32]byte
	wc[0] = eth1AddressWithdrawalPrefix
	copy(wc[12:], addr[:])
	return wc
}

// ---- spec ------------------------------------------------------------------------------------

// testSpec returns a private copy of the minimal spec, used as a table of constants that tests may edit.
func testSpec() *common.Spec {
	cp := *configs.Minimal
	return &cp
}

// ---- deposits --------------------------------------------------------------------------------

func makeDepositData(spec *common.Spec, sk *blsu.SecretKey, pub [48]byte, wc [32]byte, amount uint64, validSig bool) common.DepositData {
	d := common.DepositData{Pubkey: pub, WithdrawalCredentials: wc, Amount: common.Gwei(amount)}
	msg := common.DepositMessage{Pubkey: pub, WithdrawalCredentials: wc, Amount: common.Gwei(amount)}
	domain := ComputeDomain(domainDeposit, [4]byte(spec.GENESIS_FORK_VERSION), [32]byte{})
	root := SigningRoot(msg.HashTreeRoot(tree.GetHashFn()), domain)
	if !validSig {
		root[0] ^= 0xff // a well-formed signature over the wrong message
	}
	d.Signature = signWith(sk, root)
	return d
}

// depositTree is a naive deposit-contract tree over a growing list of DepositData.
type depositTree struct {
	leaves [][32]byte
}

func (dt *depositTree) push(d *common.DepositData) {
	dt.leaves = append(dt.leaves, d.HashTreeRoot(tree.GetHashFn()))
}

// root of the list made of the first n leaves: hash_tree_root(List[DepositData, 2**32](leaves[:n]))
func (dt *depositTree) root(n int) [32]byte {
	return mixInLength(merkleizeChunks(dt.leaves[:n], depositContractTreeDepth), uint64(n))
}

// proof of leaf `index` against root(n)
func (dt *depositTree) proof(index, n int) (out common.DepositProof) {
	layer := make([][32]byte, n)
	copy(layer, dt.leaves[:n])
	pos := index
	for d := 0; d < depositContractTreeDepth; d++ {
		sib := pos ^ 1
		if sib < len(layer) {
			out[d] = layer[sib]
		} else {
			out[d] = zeroHashes[d]
		}
		next := make([][32]byte, 0, (len(layer)+1)/2)
		for i := 0; i < len(layer); i += 2 {
			if i+1 < len(layer) {
				next = append(next, hash2(layer[i], layer[i+1]))
			} else {
				next = append(next, hash2(layer[i], zeroHashes[d]))
			}
		}
		layer = next
		pos >>= 1
	}
	out[depositContractTreeDepth] = uint64Root(uint64(n))
	return out
}

// genesisDeposits builds n genesis deposits of MAX_EFFECTIVE_BALANCE; deposit i proves against the
// root of the first i+1 deposits, as initialize_beacon_state_from_eth1 requires.
func genesisDeposits(spec *common.Spec, keys *testKeys, n int, eth1Creds map[int][20]byte) ([]common.Deposit, *depositTree) {
	dt := &depositTree{}
	deps := make([]common.Deposit, n)
	for i := 0; i < n; i++ {
		wc := blsCredentials(keys.wdPubs[i])
		if a, ok := eth1Creds[i]; ok {
			wc = eth1Credentials(a)
		}
		deps[i].Data = makeDepositData(spec, keys.sks[i], keys.pubs[i], wc, uint64(spec.MAX_EFFECTIVE_BALANCE), true)
		dt.push(&deps[i].Data)
		deps[i].Proof = dt.proof(i, i+1)
	}
	return deps, dt
}

// ---- block production ------------------------------------------------------------------------

type blockOps struct {
	eth1Data          *common.Eth1Data
	proposerSlashings phase0.ProposerSlashings
	attesterSlashings phase0.AttesterSlashings
	attestations      phase0.Attestations
	deposits          phase0.Deposits
	voluntaryExits    phase0.VoluntaryExits
	blsChanges        common.SignedBLSToExecutionChanges
	syncParticipation func(position int) bool // nil = everybody
	noPayload         bool                    // bellatrix pre-merge: keep the default payload
	blobCommitments   int
	graffiti          [32]byte
}

func mustNoErr(t testing.TB, err error, what string) {
	t.Helper()
	if err != nil {
		t.Fatalf("%s: %v", what, err)
	}
}

// makeAttestations produces one fully-participating aggregate per committee of attSlot, as seen from
// state st (st.Slot > attSlot, same or next epoch).
func makeAttestations(t testing.TB, spec *common.Spec, keys *testKeys, st *State, attSlot uint64, participate func(validator uint64) bool) phase0.Attestations {
	t.Helper()
	spe := uint64(spec.SLOTS_PER_EPOCH)
	epoch := attSlot / spe
	cur := CurrentEpoch(spec, st)
	if attSlot >= st.Slot {
		t.Fatalf("makeAttestations: attSlot %d >= state slot %d", attSlot, st.Slot)
	}
	var source Checkpoint
	if epoch == cur {
		source = st.CurrentJustified
	} else {
		source = st.PreviousJustified
	}
	n := uint64(len(st.BlockRoots))
	headRoot := st.BlockRoots[attSlot%n]
	var targetRoot [32]byte
	if epoch*spe == attSlot {
		targetRoot = headRoot
	} else {
		targetRoot = st.BlockRoots[(epoch*spe)%n]
	}
	out := phase0.Attestations{}
	count := CommitteeCountPerSlot(spec, st, epoch)
	for ci := uint64(0); ci < count; ci++ {
		committee, err := BeaconCommittee(spec, st, attSlot, ci)
		mustNoErr(t, err, "BeaconCommittee")
		data := phase0.AttestationData{
			Slot: common.Slot(attSlot), Index: common.CommitteeIndex(ci), BeaconBlockRoot: headRoot,
			Source: common.Checkpoint{Epoch: common.Epoch(source.Epoch), Root: source.Root},
			Target: common.Checkpoint{Epoch: common.Epoch(epoch), Root: targetRoot},
		}
		domain := Domain(spec, st, domainBeaconAttester, epoch)
		root := SigningRoot(data.HashTreeRoot(tree.GetHashFn()), domain)
		bits := make([]byte, len(committee)/8+1)
		sigs := [][96]byte{}
		for pos, vi := range committee {
			if participate != nil && !participate(vi) {
				continue
			}
			bits[pos/8] |= 1 << (uint(pos) % 8)
			sigs = append(sigs, signWith(keys.sks[keys.byPub[st.Validators[vi].Pubkey]], root))
		}
		bits[len(committee)/8] |= 1 << (uint(len(committee)) % 8) // delimiter
		if len(sigs) == 0 {
			continue
		}
		out = append(out, phase0.Attestation{AggregationBits: bits, Data: data, Signature: aggregateSigs(sigs)})
	}
	return out
}

func makeSyncAggregate(t testing.TB, spec *common.Spec, keys *testKeys, st *State, participate func(position int) bool) altair.SyncAggregate {
	t.Helper()
	size := int(spec.SYNC_COMMITTEE_SIZE)
	bits := make([]byte, (size+7)/8)
	prevSlot := st.Slot - 1
	domain := Domain(spec, st, domainSyncCommittee, prevSlot/uint64(spec.SLOTS_PER_EPOCH))
	root := SigningRoot(st.BlockRoots[prevSlot%uint64(len(st.BlockRoots))], domain)
	sigs := [][96]byte{}
	for pos := 0; pos < size; pos++ {
		if participate != nil && !participate(pos) {
			continue
		}
		bits[pos/8] |= 1 << (uint(pos) % 8)
		sigs = append(sigs, signWith(keys.sks[keys.byPub[st.CurrentSyncCommittee.Pubkeys[pos]]], root))
	}
	agg := altair.SyncAggregate{SyncCommitteeBits: bits}
	if len(sigs) == 0 {
		agg.SyncCommitteeSignature = g2PointAtInfinity
	} else {
		agg.SyncCommitteeSignature = aggregateSigs(sigs)
	}
	return agg
}

// produceBlock builds and signs a valid block for `slot` on top of `pre` (not mutated), using only the
// model itself to fill in the proposer, randao reveal, payload and post-state root.
func produceBlock(t testing.TB, spec *common.Spec, keys *testKeys, pre *State, slot uint64, ops *blockOps) interface{} {
	t.Helper()
	if ops == nil {
		ops = &blockOps{}
	}
	st := pre.Copy()
	if slot > st.Slot {
		mustNoErr(t, ProcessSlots(spec, st, slot), "produceBlock: ProcessSlots")
	}
	proposer, err := BeaconProposerIndex(spec, st)
	mustNoErr(t, err, "produceBlock: BeaconProposerIndex")
	proposerKey := keys.sks[keys.byPub[st.Validators[proposer].Pubkey]]
	epoch := CurrentEpoch(spec, st)
	randaoReveal := signWith(proposerKey, SigningRoot(uint64Root(epoch), Domain(spec, st, domainRandao, epoch)))
	parentRoot := st.LatestBlockHeader.HashTreeRoot(tree.GetHashFn())
	eth1Data := st.Eth1Data
	if ops.eth1Data != nil {
		eth1Data = *ops.eth1Data
	}

	var syncAgg altair.SyncAggregate
	if st.Fork >= Altair {
		syncAgg = makeSyncAggregate(t, spec, keys, st, ops.syncParticipation)
	}

	// execution payload pieces
	var (
		parentHash, prevRandao, blockHash [32]byte
		timestamp                         uint64
		withdrawals                       common.Withdrawals
		withPayload                       bool
	)
	if st.Fork >= Bellatrix && !(st.Fork == Bellatrix && ops.noPayload) {
		withPayload = true
		parentHash = st.LatestExecutionPayloadHeader.BlockHash
		prevRandao = st.RandaoMixes[epoch%uint64(len(st.RandaoMixes))]
		timestamp = st.GenesisTime + slot*uint64(spec.SECONDS_PER_SLOT)
		blockHash = sha256.Sum256([]byte(fmt.Sprintf("exec-block-%d", slot)))
		if st.Fork >= Capella {
			ws, err := ExpectedWithdrawals(spec, st)
			mustNoErr(t, err, "produceBlock: ExpectedWithdrawals")
			withdrawals = ws
		}
	}
	baseFee := view.Uint256View{7}
	txs := common.PayloadTransactions{common.Transaction{0x02, 0x01, byte(slot)}}

	var (
		block     interface{}
		setRoot   func(r [32]byte)
		blockRoot func() [32]byte
		wrap      func(sig [96]byte) interface{}
	)
	switch st.Fork {
	case Phase0:
		b := &phase0.BeaconBlock{Slot: common.Slot(slot), ProposerIndex: common.ValidatorIndex(proposer), ParentRoot: parentRoot}
		b.Body = phase0.BeaconBlockBody{RandaoReveal: randaoReveal, Eth1Data: eth1Data, Graffiti: ops.graffiti,
			ProposerSlashings: ops.proposerSlashings, AttesterSlashings: ops.attesterSlashings, Attestations: ops.attestations,
			Deposits: ops.deposits, VoluntaryExits: ops.voluntaryExits}
		block = b
		setRoot = func(r [32]byte) { b.StateRoot = r }
		blockRoot = func() [32]byte { return b.HashTreeRoot(spec, tree.GetHashFn()) }
		wrap = func(sig [96]byte) interface{} { return &phase0.SignedBeaconBlock{Message: *b, Signature: sig} }
	case Altair:
		b := &altair.BeaconBlock{Slot: common.Slot(slot), ProposerIndex: common.ValidatorIndex(proposer), ParentRoot: parentRoot}
		b.Body = altair.BeaconBlockBody{RandaoReveal: randaoReveal, Eth1Data: eth1Data, Graffiti: ops.graffiti,
			ProposerSlashings: ops.proposerSlashings, AttesterSlashings: ops.attesterSlashings, Attestations: ops.attestations,
			Deposits: ops.deposits, VoluntaryExits: ops.voluntaryExits, SyncAggregate: syncAgg}
		block = b
		setRoot = func(r [32]byte) { b.StateRoot = r }
		blockRoot = func() [32]byte { return b.HashTreeRoot(spec, tree.GetHashFn()) }
		wrap = func(sig [96]byte) interface{} { return &altair.SignedBeaconBlock{Message: *b, Signature: sig} }
	case Bellatrix:
		b := &bellatrix.BeaconBlock{Slot: common.Slot(slot), ProposerIndex: common.ValidatorIndex(proposer), ParentRoot: parentRoot}
		b.Body = bellatrix.BeaconBlockBody{RandaoReveal: randaoReveal, Eth1Data: eth1Data, Graffiti: ops.graffiti,
			ProposerSlashings: ops.proposerSlashings, AttesterSlashings: ops.attesterSlashings, Attestations: ops.attestations,
			Deposits: ops.deposits, VoluntaryExits: ops.voluntaryExits, SyncAggregate: syncAgg}
		if withPayload {
			b.Body.ExecutionPayload = bellatrix.ExecutionPayload{ParentHash: parentHash, PrevRandao: prevRandao, Timestamp: common.Timestamp(timestamp),
				BlockHash: blockHash, BlockNumber: view.Uint64View(slot), GasLimit: 30000000, GasUsed: 21000, BaseFeePerGas: baseFee,
				ExtraData: common.ExtraData{0xab}, Transactions: txs}
		}
		block = b
		setRoot = func(r [32]byte) { b.StateRoot = r }
		blockRoot = func() [32]byte { return b.HashTreeRoot(spec, tree.GetHashFn()) }
		wrap = func(sig [96]byte) interface{} { return &bellatrix.SignedBeaconBlock{Message: *b, Signature: sig} }
	case Capella:
		b := &capella.BeaconBlock{Slot: common.Slot(slot), ProposerIndex: common.ValidatorIndex(proposer), ParentRoot: parentRoot}
		b.Body = capella.BeaconBlockBody{RandaoReveal: randaoReveal, Eth1Data: eth1Data, Graffiti: ops.graffiti,
			ProposerSlashings: ops.proposerSlashings, AttesterSlashings: ops.attesterSlashings, Attestations: ops.attestations,
			Deposits: ops.deposits, VoluntaryExits: ops.voluntaryExits, SyncAggregate: syncAgg, BLSToExecutionChanges: ops.blsChanges}
		b.Body.ExecutionPayload = capella.ExecutionPayload{ParentHash: parentHash, PrevRandao: prevRandao, Timestamp: common.Timestamp(timestamp),
			BlockHash: blockHash, BlockNumber: view.Uint64View(slot), GasLimit: 30000000, GasUsed: 21000, BaseFeePerGas: baseFee,
			ExtraData: common.ExtraData{0xab}, Transactions: txs, Withdrawals: withdrawals}
		block = b
		setRoot = func(r [32]byte) { b.StateRoot = r }
		blockRoot = func() [32]byte { return b.HashTreeRoot(spec, tree.GetHashFn()) }
		wrap = func(sig [96]byte) interface{} { return &capella.SignedBeaconBlock{Message: *b, Signature: sig} }
	case Deneb:
		b := &deneb.BeaconBlock{Slot: common.Slot(slot), ProposerIndex: common.ValidatorIndex(proposer), ParentRoot: parentRoot}
		b.Body = deneb.BeaconBlockBody{RandaoReveal: randaoReveal, Eth1Data: eth1Data, Graffiti: ops.graffiti,
			ProposerSlashings: ops.proposerSlashings, AttesterSlashings: ops.attesterSlashings, Attestations: ops.attestations,
			Deposits: ops.deposits, VoluntaryExits: ops.voluntaryExits, SyncAggregate: syncAgg, BLSToExecutionChanges: ops.blsChanges}
		b.Body.ExecutionPayload = deneb.ExecutionPayload{ParentHash: parentHash, PrevRandao: prevRandao, Timestamp: common.Timestamp(timestamp),
			BlockHash: blockHash, BlockNumber: view.Uint64View(slot), GasLimit: 30000000, GasUsed: 21000, BaseFeePerGas: baseFee,
			ExtraData: common.ExtraData{0xab}, Transactions: txs, Withdrawals: withdrawals, BlobGasUsed: 131072, ExcessBlobGas: view.Uint64View(slot)}
		for i := 0; i < ops.blobCommitments; i++ {
			var c common.KZGCommitment
			c[0], c[1] = 0xc0, 0 // shape only: commitments are opaque to the state transition
			c[47] = byte(i)
			b.Body.BlobKZGCommitments = append(b.Body.BlobKZGCommitments, c)
		}
		block = b
		setRoot = func(r [32]byte) { b.StateRoot = r }
		blockRoot = func() [32]byte { return b.HashTreeRoot(spec, tree.GetHashFn()) }
		wrap = func(sig [96]byte) interface{} { return &deneb.SignedBeaconBlock{Message: *b, Signature: sig} }
	default:
		t.Fatalf("produceBlock: unknown fork")
	}

	post := st.Copy()
	mustNoErr(t, ProcessBlock(spec, post, block), fmt.Sprintf("produceBlock(slot %d, %s): ProcessBlock", slot, st.Fork))
	root, err := Root(spec, post)
	mustNoErr(t, err, "produceBlock: Root")
	setRoot(root)
	sig := signWith(proposerKey, SigningRoot(blockRoot(), Domain(spec, st, domainBeaconProposer, epoch)))
	return wrap(sig)
}
