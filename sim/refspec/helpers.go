package refspec

import (
	"sort"
	"sync"

	"github.com/protolambda/zrnt/eth2/beacon/common"
	"github.com/protolambda/zrnt/eth2/beacon/phase0"
	"github.com/protolambda/ztyp/tree"
)

// machine bundles what every spec function takes: the constants and the state.
type machine struct {
	spec *common.Spec // only handed to struct-form HashTreeRoot methods and read as a table
	p    *params
	s    *State
}

func newMachine(spec *common.Spec, s *State) *machine {
	p := loadParams(spec)
	must(s != nil, "nil state")
	return &machine{spec: spec, p: p, s: s}
}

// ---------------------------------------------------------------------------------------------
// Bitfields (own code; SSZ bitlist = little-endian bit order with a delimiter bit)
// ---------------------------------------------------------------------------------------------

// bitlistLen returns the number of bits of a serialised SSZ bitlist, asserting well-formedness.
func bitlistLen(b []byte, limit uint64) uint64 {
	must(len(b) > 0, "malformed bitlist: empty")
	last := b[len(b)-1]
	must(last != 0, "malformed bitlist: missing delimiter bit")
	msb := uint64(0)
	for i := uint(0); i < 8; i++ {
		if last&(1<<i) != 0 {
			msb = uint64(i)
		}
	}
	n := uint64(len(b)-1)*8 + msb
	must(n <= limit, "bitlist of %d bits exceeds limit %d", n, limit)
	return n
}

func getBit(b []byte, i uint64) bool {
	must(i/8 < uint64(len(b)), "bit index %d out of range", i)
	return b[i/8]&(1<<(i%8)) != 0
}

// ---------------------------------------------------------------------------------------------
// Predicates
// ---------------------------------------------------------------------------------------------

func isActiveValidator(v *Validator, epoch uint64) bool {
	return v.ActivationEpoch <= epoch && epoch < v.ExitEpoch
}

func (m *machine) isEligibleForActivationQueue(v *Validator) bool {
	return v.ActivationEligibilityEpoch == farFutureEpoch && v.EffectiveBalance == m.p.MaxEffectiveBalance
}

func (m *machine) isEligibleForActivation(v *Validator) bool {
	// Placement in queue is finalized, and has not yet been activated
	return v.ActivationEligibilityEpoch <= m.s.Finalized.Epoch && v.ActivationEpoch == farFutureEpoch
}

func isSlashableValidator(v *Validator, epoch uint64) bool {
	return !v.Slashed && v.ActivationEpoch <= epoch && epoch < v.WithdrawableEpoch
}

func isSlashableAttestationData(d1, d2 *phase0.AttestationData) bool {
	// Double vote
	if *d1 != *d2 && d1.Target.Epoch == d2.Target.Epoch {
		return true
	}
	// Surround vote
	return d1.Source.Epoch < d2.Source.Epoch && d2.Target.Epoch < d1.Target.Epoch
}

func attestationDataRoot(d *phase0.AttestationData) [32]byte {
	return d.HashTreeRoot(tree.GetHashFn())
}

// isValidIndexedAttestation: is_valid_indexed_attestation
func (m *machine) isValidIndexedAttestation(indices []uint64, data *phase0.AttestationData, sig [96]byte) bool {
	// Verify indices are sorted and unique (and non-empty)
	if len(indices) == 0 {
		return false
	}
	for i := 1; i < len(indices); i++ {
		if indices[i-1] >= indices[i] {
			return false
		}
	}
	// Verify aggregate signature
	pubkeys := make([][48]byte, 0, len(indices))
	for _, i := range indices {
		pubkeys = append(pubkeys, m.validator(i).Pubkey)
	}
	domain := m.getDomain(domainBeaconAttester, uint64(data.Target.Epoch))
	signingRoot := computeSigningRoot(attestationDataRoot(data), domain)
	return blsFastAggregateVerify(pubkeys, signingRoot, sig)
}

func isValidMerkleBranch(leaf [32]byte, branch [][32]byte, depth uint64, index uint64, root [32]byte) bool {
	must(uint64(len(branch)) >= depth, "merkle branch too short")
	value := leaf
	for i := uint64(0); i < depth; i++ {
		var bit uint64
		if i < 64 {
			bit = (index >> i) % 2 // index // (2**i) % 2
		}
		if bit == 1 {
			value = hash2(branch[i], value)
		} else {
			value = hash2(value, branch[i])
		}
	}
	return value == root
}

// ---------------------------------------------------------------------------------------------
// Misc
// ---------------------------------------------------------------------------------------------

type shuffleKey struct {
	seed   [32]byte
	index  uint64
	count  uint64
	rounds uint64
}

// Memoisation of compute_shuffled_index: a pure function, keyed by ALL its inputs.
var (
	shuffleMemoMu sync.Mutex
	shuffleMemo   = map[shuffleKey]uint64{}
)

// computeShuffledIndex: compute_shuffled_index
func (m *machine) computeShuffledIndex(index, indexCount uint64, seed [32]byte) uint64 {
	must(index < indexCount, "compute_shuffled_index: index %d >= count %d", index, indexCount)
	key := shuffleKey{seed: seed, index: index, count: indexCount, rounds: m.p.ShuffleRoundCount}
	shuffleMemoMu.Lock()
	if v, ok := shuffleMemo[key]; ok {
		shuffleMemoMu.Unlock()
		return v
	}
	shuffleMemoMu.Unlock()

	// Swap or not (https://link.springer.com/content/pdf/10.1007%2F978-3-642-32009-5_1.pdf)
	for currentRound := uint64(0); currentRound < m.p.ShuffleRoundCount; currentRound++ {
		roundByte := []byte{uint8(currentRound)}
		h := hash(seed[:], roundByte)
		pivot := bytesToUint64(h[0:8]) % indexCount
		flip := sub(add(pivot, indexCount), index) % indexCount
		position := maxU(index, flip)
		must(position/256 <= 0xffffffff, "overflow: position // 256 does not fit uint32")
		source := hash(seed[:], roundByte, uintToBytes4(uint32(position/256)))
		byt := source[(position%256)/8]
		bit := (byt >> (position % 8)) % 2
		if bit == 1 {
			index = flip
		}
	}

	shuffleMemoMu.Lock()
	if len(shuffleMemo) > 1<<21 {
		shuffleMemo = map[shuffleKey]uint64{}
	}
	shuffleMemo[key] = index
	shuffleMemoMu.Unlock()
	return index
}

// computeProposerIndex: compute_proposer_index (1-byte sampling, MAX_RANDOM_BYTE = 255)
func (m *machine) computeProposerIndex(indices []uint64, seed [32]byte) uint64 {
	must(len(indices) > 0, "compute_proposer_index: no active validators")
	total := uint64(len(indices))
	for i := uint64(0); ; i++ {
		must(i < 1<<26, "compute_proposer_index: no candidate accepted after 2^26 trials")
		candidateIndex := indices[m.computeShuffledIndex(i%total, total, seed)]
		randomByte := uint64(hash(seed[:], uintToBytes8(i/32))[i%32])
		effectiveBalance := m.validator(candidateIndex).EffectiveBalance
		if mul(effectiveBalance, maxRandomByte) >= mul(m.p.MaxEffectiveBalance, randomByte) {
			return candidateIndex
		}
	}
}

// computeCommittee: compute_committee
func (m *machine) computeCommittee(indices []uint64, seed [32]byte, index, count uint64) []uint64 {
	n := uint64(len(indices))
	start := div(mul(n, index), count)
	end := div(mul(n, add(index, 1)), count)
	out := make([]uint64, 0, end-start)
	for i := start; i < end; i++ {
		out = append(out, indices[m.computeShuffledIndex(i, n, seed)])
	}
	return out
}

func (m *machine) computeEpochAtSlot(slot uint64) uint64 {
	return div(slot, m.p.SlotsPerEpoch)
}

func (m *machine) computeStartSlotAtEpoch(epoch uint64) uint64 {
	return mul(epoch, m.p.SlotsPerEpoch)
}

func (m *machine) computeActivationExitEpoch(epoch uint64) uint64 {
	return add(add(epoch, 1), m.p.MaxSeedLookahead)
}

func computeForkDataRoot(currentVersion [4]byte, genesisValidatorsRoot [32]byte) [32]byte {
	// hash_tree_root(ForkData(current_version, genesis_validators_root))
	var versionChunk [32]byte
	copy(versionChunk[:4], currentVersion[:])
	return hash2(versionChunk, genesisValidatorsRoot)
}

func computeDomain(domainType [4]byte, forkVersion [4]byte, genesisValidatorsRoot [32]byte) [32]byte {
	forkDataRoot := computeForkDataRoot(forkVersion, genesisValidatorsRoot)
	var out [32]byte
	copy(out[0:4], domainType[:])
	copy(out[4:32], forkDataRoot[:28])
	return out
}

func computeSigningRoot(objectRoot [32]byte, domain [32]byte) [32]byte {
	// hash_tree_root(SigningData(object_root, domain))
	return hash2(objectRoot, domain)
}

// ---------------------------------------------------------------------------------------------
// Accessors
// ---------------------------------------------------------------------------------------------

func (m *machine) validator(i uint64) *Validator {
	must(i < uint64(len(m.s.Validators)), "validator index %d out of range (%d validators)", i, len(m.s.Validators))
	return &m.s.Validators[i]
}

func (m *machine) balance(i uint64) uint64 {
	must(i < uint64(len(m.s.Balances)), "balance index %d out of range", i)
	return m.s.Balances[i]
}

func (m *machine) getCurrentEpoch() uint64 {
	return m.computeEpochAtSlot(m.s.Slot)
}

func (m *machine) getPreviousEpoch() uint64 {
	cur := m.getCurrentEpoch()
	if cur == genesisEpoch {
		return genesisEpoch
	}
	return cur - 1
}

func (m *machine) getBlockRoot(epoch uint64) [32]byte {
	return m.getBlockRootAtSlot(m.computeStartSlotAtEpoch(epoch))
}

func (m *machine) getBlockRootAtSlot(slot uint64) [32]byte {
	must(slot < m.s.Slot && m.s.Slot <= add(slot, m.p.SlotsPerHistoricalRoot),
		"get_block_root_at_slot: slot %d not within the history of state slot %d", slot, m.s.Slot)
	must(uint64(len(m.s.BlockRoots)) == m.p.SlotsPerHistoricalRoot, "BlockRoots ill-sized")
	return m.s.BlockRoots[slot%m.p.SlotsPerHistoricalRoot]
}

func (m *machine) getRandaoMix(epoch uint64) [32]byte {
	must(uint64(len(m.s.RandaoMixes)) == m.p.EpochsPerHistoricalVector && m.p.EpochsPerHistoricalVector > 0, "RandaoMixes ill-sized")
	return m.s.RandaoMixes[epoch%m.p.EpochsPerHistoricalVector]
}

func (m *machine) getActiveValidatorIndices(epoch uint64) []uint64 {
	out := []uint64{}
	for i := range m.s.Validators {
		if isActiveValidator(&m.s.Validators[i], epoch) {
			out = append(out, uint64(i))
		}
	}
	return out
}

func (m *machine) getValidatorChurnLimit() uint64 {
	active := uint64(len(m.getActiveValidatorIndices(m.getCurrentEpoch())))
	return maxU(m.p.MinPerEpochChurnLimit, div(active, m.p.ChurnLimitQuotient))
}

// getValidatorActivationChurnLimit: deneb (EIP-7514)
func (m *machine) getValidatorActivationChurnLimit() uint64 {
	return minU(m.p.MaxPerEpochActivationChurnLimit, m.getValidatorChurnLimit())
}

func (m *machine) getSeed(epoch uint64, domainType [4]byte) [32]byte {
	// Avoid underflow
	mix := m.getRandaoMix(sub(sub(add(epoch, m.p.EpochsPerHistoricalVector), m.p.MinSeedLookahead), 1))
	return hash(domainType[:], uintToBytes8(epoch), mix[:])
}

func (m *machine) getCommitteeCountPerSlot(epoch uint64) uint64 {
	active := uint64(len(m.getActiveValidatorIndices(epoch)))
	return maxU(1, minU(m.p.MaxCommitteesPerSlot, div(div(active, m.p.SlotsPerEpoch), m.p.TargetCommitteeSize)))
}

func (m *machine) getBeaconCommittee(slot, index uint64) []uint64 {
	epoch := m.computeEpochAtSlot(slot)
	committeesPerSlot := m.getCommitteeCountPerSlot(epoch)
	return m.computeCommittee(
		m.getActiveValidatorIndices(epoch),
		m.getSeed(epoch, domainBeaconAttester),
		add(mul(slot%m.p.SlotsPerEpoch, committeesPerSlot), index),
		mul(committeesPerSlot, m.p.SlotsPerEpoch),
	)
}

// proposerIndexAtSlot is get_beacon_proposer_index generalised to any slot of the current epoch
// (the spec's function is the case slot == state.slot).
func (m *machine) proposerIndexAtSlot(slot uint64) uint64 {
	epoch := m.getCurrentEpoch()
	must(m.computeEpochAtSlot(slot) == epoch, "slot %d is not in the current epoch %d", slot, epoch)
	es := m.getSeed(epoch, domainBeaconProposer)
	seed := hash(es[:], uintToBytes8(slot))
	indices := m.getActiveValidatorIndices(epoch)
	return m.computeProposerIndex(indices, seed)
}

func (m *machine) getBeaconProposerIndex() uint64 {
	return m.proposerIndexAtSlot(m.s.Slot)
}

// getTotalBalance: get_total_balance; indices must be a set (no duplicates).
func (m *machine) getTotalBalance(indices []uint64) uint64 {
	sum := uint64(0)
	for _, i := range indices {
		sum = add(sum, m.validator(i).EffectiveBalance)
	}
	return maxU(m.p.EffectiveBalanceIncrement, sum)
}

func (m *machine) getTotalActiveBalance() uint64 {
	return m.getTotalBalance(m.getActiveValidatorIndices(m.getCurrentEpoch()))
}

func (m *machine) getDomain(domainType [4]byte, epoch uint64) [32]byte {
	forkVersion := m.s.ForkCurVersion
	if epoch < m.s.ForkEpoch {
		forkVersion = m.s.ForkPrevVersion
	}
	return computeDomain(domainType, forkVersion, m.s.GenesisValidatorsRoot)
}

// getAttestingIndices: get_attesting_indices; returned as a sorted, duplicate-free slice (a set).
func (m *machine) getAttestingIndices(data *phase0.AttestationData, bits []byte) []uint64 {
	committee := m.getBeaconCommittee(uint64(data.Slot), uint64(data.Index))
	n := bitlistLen(bits, m.p.MaxValidatorsPerCommittee)
	must(uint64(len(committee)) <= n, "aggregation bits (%d) shorter than committee (%d)", n, len(committee))
	set := map[uint64]struct{}{}
	for i, index := range committee {
		if getBit(bits, uint64(i)) {
			set[index] = struct{}{}
		}
	}
	return sortedKeys(set)
}

func sortedKeys(set map[uint64]struct{}) []uint64 {
	out := make([]uint64, 0, len(set))
	for k := range set {
		out = append(out, k)
	}
	sort.Slice(out, func(a, b int) bool { return out[a] < out[b] })
	return out
}

func toSet(indices []uint64) map[uint64]struct{} {
	set := make(map[uint64]struct{}, len(indices))
	for _, i := range indices {
		set[i] = struct{}{}
	}
	return set
}

// ---------------------------------------------------------------------------------------------
// Mutators
// ---------------------------------------------------------------------------------------------

func (m *machine) increaseBalance(index, delta uint64) {
	must(index < uint64(len(m.s.Balances)), "balance index %d out of range", index)
	m.s.Balances[index] = add(m.s.Balances[index], delta)
}

func (m *machine) decreaseBalance(index, delta uint64) {
	must(index < uint64(len(m.s.Balances)), "balance index %d out of range", index)
	if delta > m.s.Balances[index] {
		m.s.Balances[index] = 0
	} else {
		m.s.Balances[index] -= delta
	}
}

func (m *machine) initiateValidatorExit(index uint64) {
	// Return if validator already initiated exit
	validator := m.validator(index)
	if validator.ExitEpoch != farFutureEpoch {
		return
	}
	// Compute exit queue epoch
	exitQueueEpoch := m.computeActivationExitEpoch(m.getCurrentEpoch())
	for i := range m.s.Validators {
		e := m.s.Validators[i].ExitEpoch
		if e != farFutureEpoch && e > exitQueueEpoch {
			exitQueueEpoch = e
		}
	}
	exitQueueChurn := uint64(0)
	for i := range m.s.Validators {
		if m.s.Validators[i].ExitEpoch == exitQueueEpoch {
			exitQueueChurn++
		}
	}
	if exitQueueChurn >= m.getValidatorChurnLimit() {
		exitQueueEpoch = add(exitQueueEpoch, 1)
	}
	// Set validator exit epoch and withdrawable epoch
	validator.ExitEpoch = exitQueueEpoch
	validator.WithdrawableEpoch = add(validator.ExitEpoch, m.p.MinValidatorWithdrawabilityDelay)
}

// slashValidator: slash_validator; whistleblower == nil means None.
func (m *machine) slashValidator(slashedIndex uint64, whistleblower *uint64) {
	epoch := m.getCurrentEpoch()
	m.initiateValidatorExit(slashedIndex)
	validator := m.validator(slashedIndex)
	validator.Slashed = true
	validator.WithdrawableEpoch = maxU(validator.WithdrawableEpoch, add(epoch, m.p.EpochsPerSlashingsVector))
	must(uint64(len(m.s.Slashings)) == m.p.EpochsPerSlashingsVector && m.p.EpochsPerSlashingsVector > 0, "Slashings ill-sized")
	k := epoch % m.p.EpochsPerSlashingsVector
	m.s.Slashings[k] = add(m.s.Slashings[k], validator.EffectiveBalance)

	var minSlashingPenaltyQuotient uint64
	switch {
	case m.s.Fork == Phase0:
		minSlashingPenaltyQuotient = m.p.MinSlashingPenaltyQuotient
	case m.s.Fork == Altair:
		minSlashingPenaltyQuotient = m.p.MinSlashingPenaltyQuotientAltair
	default: // bellatrix and later
		minSlashingPenaltyQuotient = m.p.MinSlashingPenaltyQuotientBellatrix
	}
	m.decreaseBalance(slashedIndex, div(validator.EffectiveBalance, minSlashingPenaltyQuotient))

	// Apply proposer and whistleblower rewards
	proposerIndex := m.getBeaconProposerIndex()
	whistleblowerIndex := proposerIndex
	if whistleblower != nil {
		whistleblowerIndex = *whistleblower
	}
	whistleblowerReward := div(validator.EffectiveBalance, m.p.WhistleblowerRewardQuotient)
	var proposerReward uint64
	if m.s.Fork == Phase0 {
		proposerReward = div(whistleblowerReward, m.p.ProposerRewardQuotient)
	} else {
		proposerReward = div(mul(whistleblowerReward, proposerWeight), weightDenominator)
	}
	m.increaseBalance(proposerIndex, proposerReward)
	m.increaseBalance(whistleblowerIndex, sub(whistleblowerReward, proposerReward))
}
