//go:build zrntcmp

package refspec

// Debugging aid, NOT part of the default test run (build tag zrntcmp): drives the library under test and
// the model with the same blocks and compares the states after every block. A disagreement is to be judged
// against the specification; the model is never bent to match the library.
//
//	go test -tags zrntcmp -run ZrntCmp ./refspec/

import (
	"bytes"
	"context"
	"fmt"
	"testing"

	"github.com/protolambda/zrnt/eth2/beacon"
	"github.com/protolambda/zrnt/eth2/beacon/altair"
	"github.com/protolambda/zrnt/eth2/beacon/bellatrix"
	"github.com/protolambda/zrnt/eth2/beacon/capella"
	"github.com/protolambda/zrnt/eth2/beacon/common"
	"github.com/protolambda/zrnt/eth2/beacon/deneb"
	"github.com/protolambda/zrnt/eth2/beacon/phase0"
	"github.com/protolambda/ztyp/codec"
	"github.com/protolambda/ztyp/tree"
)

type yesEngine struct{}

func (yesEngine) BellatrixNotifyNewPayload(context.Context, *bellatrix.ExecutionPayload) (bool, error) {
	return true, nil
}
func (yesEngine) BellatrixIsValidBlockHash(context.Context, *bellatrix.ExecutionPayload) (bool, error) {
	return true, nil
}
func (yesEngine) CapellaNotifyNewPayload(context.Context, *capella.ExecutionPayload) (bool, error) {
	return true, nil
}
func (yesEngine) CapellaIsValidBlockHash(context.Context, *capella.ExecutionPayload) (bool, error) {
	return true, nil
}
func (yesEngine) DenebNotifyNewPayload(context.Context, *deneb.ExecutionPayload, common.Root) (bool, error) {
	return true, nil
}
func (yesEngine) DenebIsValidVersionedHashes(context.Context, *deneb.ExecutionPayload, []common.Hash32) (bool, error) {
	return true, nil
}
func (yesEngine) DenebIsValidBlockHash(context.Context, *deneb.ExecutionPayload, common.Root) (bool, error) {
	return true, nil
}

func serializeRaw(spec *common.Spec, raw interface{}) []byte {
	var buf bytes.Buffer
	w := codec.NewEncodingWriter(&buf)
	var err error
	switch r := raw.(type) {
	case *phase0.BeaconState:
		err = r.Serialize(spec, w)
	case *altair.BeaconState:
		err = r.Serialize(spec, w)
	case *bellatrix.BeaconState:
		err = r.Serialize(spec, w)
	case *capella.BeaconState:
		err = r.Serialize(spec, w)
	case *deneb.BeaconState:
		err = r.Serialize(spec, w)
	}
	if err != nil {
		panic(err)
	}
	return buf.Bytes()
}

// toZrnt converts a model state into the library's tree-backed state.
func toZrnt(t testing.TB, spec *common.Spec, s *State) common.BeaconState {
	raw, err := ToRaw(spec, s)
	mustNoErr(t, err, "ToRaw")
	data := serializeRaw(spec, raw)
	dr := codec.NewDecodingReader(bytes.NewReader(data), uint64(len(data)))
	var out common.BeaconState
	switch s.Fork {
	case Phase0:
		out, err = phase0.AsBeaconStateView(phase0.BeaconStateType(spec).Deserialize(dr))
	case Altair:
		out, err = altair.AsBeaconStateView(altair.BeaconStateType(spec).Deserialize(dr))
	case Bellatrix:
		out, err = bellatrix.AsBeaconStateView(bellatrix.BeaconStateType(spec).Deserialize(dr))
	case Capella:
		out, err = capella.AsBeaconStateView(capella.BeaconStateType(spec).Deserialize(dr))
	case Deneb:
		out, err = deneb.AsBeaconStateView(deneb.BeaconStateType(spec).Deserialize(dr))
	}
	mustNoErr(t, err, "deserialize into view")
	return out
}

func fromZrnt(t testing.TB, spec *common.Spec, st common.BeaconState) *State {
	var raw interface{}
	var err error
	switch v := st.(type) {
	case *phase0.BeaconStateView:
		raw, err = v.Raw(spec)
	case *altair.BeaconStateView:
		raw, err = v.Raw(spec)
	case *bellatrix.BeaconStateView:
		raw, err = v.Raw(spec)
	case *capella.BeaconStateView:
		raw, err = v.Raw(spec)
	case *deneb.BeaconStateView:
		raw, err = v.Raw(spec)
	default:
		t.Fatalf("unknown zrnt state type %T", st)
	}
	mustNoErr(t, err, "Raw")
	out, err := FromRaw(raw)
	mustNoErr(t, err, "FromRaw")
	return out
}

func envelope(spec *common.Spec, s *State, signed interface{}) *common.BeaconBlockEnvelope {
	// the digest of the fork the block belongs to
	var digest common.ForkDigest
	mk := func(f Fork) {
		r := computeForkDataRoot(ForkVersionOf(spec, f), s.GenesisValidatorsRoot)
		copy(digest[:], r[:4])
	}
	switch b := signed.(type) {
	case *phase0.SignedBeaconBlock:
		mk(Phase0)
		return b.Envelope(spec, digest)
	case *altair.SignedBeaconBlock:
		mk(Altair)
		return b.Envelope(spec, digest)
	case *bellatrix.SignedBeaconBlock:
		mk(Bellatrix)
		return b.Envelope(spec, digest)
	case *capella.SignedBeaconBlock:
		mk(Capella)
		return b.Envelope(spec, digest)
	case *deneb.SignedBeaconBlock:
		mk(Deneb)
		return b.Envelope(spec, digest)
	}
	panic("unknown signed block type")
}

// pair keeps a model state and a library state in lock step.
type pair struct {
	t    *testing.T
	spec *common.Spec
	c    *chain
	z    *beacon.StandardUpgradeableBeaconState
	epc  *common.EpochsContext
}

func newPair(t *testing.T, spec *common.Spec, c *chain) *pair {
	spec.ExecutionEngine = yesEngine{}
	zs := toZrnt(t, spec, c.st)
	epc, err := common.NewEpochsContext(spec, zs)
	mustNoErr(t, err, "NewEpochsContext")
	return &pair{t: t, spec: spec, c: c, z: &beacon.StandardUpgradeableBeaconState{BeaconState: zs}, epc: epc}
}

func (p *pair) compare(what string) {
	p.t.Helper()
	zm := fromZrnt(p.t, p.spec, p.z.BeaconState)
	if d := Diff(p.c.st, zm); d != "" {
		p.t.Fatalf("%s: model != zrnt: %s", what, d)
	}
	mr, err := Root(p.spec, p.c.st)
	mustNoErr(p.t, err, "Root")
	if zr := p.z.BeaconState.HashTreeRoot(tree.GetHashFn()); mr != [32]byte(zr) {
		p.t.Fatalf("%s: roots differ although Diff is empty", what)
	}
}

// resync rebuilds the library state (and its caches) from the model state, after the test edited the state directly.
func (p *pair) resync() {
	zs := toZrnt(p.t, p.spec, p.c.st)
	epc, err := common.NewEpochsContext(p.spec, zs)
	mustNoErr(p.t, err, "NewEpochsContext")
	p.z.BeaconState, p.epc = zs, epc
}

// step: the model produces the block (validated by the model), then the library must accept it too and
// reach the same state.
func (p *pair) step(ops *blockOps) {
	p.t.Helper()
	signed := p.c.step(ops)
	benv := envelope(p.spec, p.c.st, signed)
	if err := common.StateTransition(context.Background(), p.spec, p.epc, p.z, benv, true); err != nil {
		p.t.Fatalf("slot %d (%s): zrnt rejects a block the model accepts: %v", p.c.st.Slot, p.c.st.Fork, err)
	}
	p.compare(fmt.Sprintf("after block at slot %d (%s)", p.c.st.Slot, p.c.st.Fork))
}

// both applies a signed block to copies of both sides and reports the two verdicts.
func (p *pair) verdicts(signed interface{}, validate bool) (modelErr, zrntErr error) {
	ms := p.c.st.Copy()
	modelErr = StateTransition(p.spec, ms, signed, validate)
	zs, err := p.z.BeaconState.CopyState()
	mustNoErr(p.t, err, "CopyState")
	epc := p.epc.Clone()
	zrntErr = common.StateTransition(context.Background(), p.spec, epc, &beacon.StandardUpgradeableBeaconState{BeaconState: zs}, envelope(p.spec, p.c.st, signed), validate)
	return
}

func TestZrntCmpGenesis(t *testing.T) {
	spec := testSpec()
	keys := newTestKeys(66)
	deps, dt := genesisDeposits(spec, keys, 64, map[int][20]byte{3: {3}})
	extra := []common.DepositData{
		makeDepositData(spec, keys.sks[3], keys.pubs[3], [32]byte{}, 1e9, false),
		makeDepositData(spec, keys.sks[64], keys.pubs[64], blsCredentials(keys.wdPubs[64]), 16e9, true),
		makeDepositData(spec, keys.sks[65], keys.pubs[65], blsCredentials(keys.wdPubs[65]), 32e9, false),
		makeDepositData(spec, keys.sks[64], keys.pubs[64], [32]byte{}, 16e9, false), // tops validator 64 up to 32 ETH
	}
	for i := range extra {
		dt.push(&extra[i])
		n := len(dt.leaves)
		deps = append(deps, common.Deposit{Data: extra[i], Proof: dt.proof(n-1, n)})
	}
	ms, err := InitializeFromEth1(spec, [32]byte{0x42}, uint64(spec.MIN_GENESIS_TIME), deps)
	mustNoErr(t, err, "InitializeFromEth1")
	zs, _, err := phase0.GenesisFromEth1(spec, [32]byte{0x42}, common.Timestamp(spec.MIN_GENESIS_TIME), deps, false)
	mustNoErr(t, err, "GenesisFromEth1")
	if d := Diff(ms, fromZrnt(t, spec, zs)); d != "" {
		t.Fatalf("genesis differs: %s", d)
	}
	zv, err := phase0.IsValidGenesisState(spec, zs)
	mustNoErr(t, err, "IsValidGenesisState")
	if zv != IsValidGenesisState(spec, ms) {
		t.Fatal("is_valid_genesis_state differs")
	}
}

func TestZrntCmpEmptySlots(t *testing.T) {
	spec := testSpec()
	spec.ALTAIR_FORK_EPOCH, spec.BELLATRIX_FORK_EPOCH, spec.CAPELLA_FORK_EPOCH, spec.DENEB_FORK_EPOCH = 2, 4, 4, 6
	c := newChain(t, spec, 64, 64, nil)
	p := newPair(t, spec, c)
	for slot := uint64(1); slot <= 12*uint64(spec.SLOTS_PER_EPOCH); slot++ {
		mustNoErr(t, ProcessSlots(spec, c.st, slot), "model ProcessSlots")
		mustNoErr(t, common.ProcessSlots(context.Background(), spec, p.epc, p.z, common.Slot(slot)), "zrnt ProcessSlots")
		p.compare(fmt.Sprintf("empty slot %d", slot))
	}
	if c.st.Fork != Deneb {
		t.Fatal("expected deneb")
	}
}

func TestZrntCmpChainAcrossForks(t *testing.T) {
	spec := testSpec()
	spec.ALTAIR_FORK_EPOCH, spec.BELLATRIX_FORK_EPOCH, spec.CAPELLA_FORK_EPOCH, spec.DENEB_FORK_EPOCH = 2, 3, 4, 5
	c := newChain(t, spec, 64, 64, map[int][20]byte{1: {0xaa}, 2: {0xbb}})
	c.st.Balances[1] += 5e9
	p := newPair(t, spec, c)
	spe := uint64(spec.SLOTS_PER_EPOCH)
	for c.st.Slot < 8*spe {
		ops := &blockOps{}
		if next := c.st.Slot + 1; next >= 3*spe && next < 3*spe+2 {
			ops.noPayload = true
		}
		if c.st.Fork == Deneb {
			ops.blobCommitments = int(c.st.Slot % 3)
		}
		// partial participation, different per slot
		sl := c.st.Slot
		if sl%4 == 1 {
			ops.syncParticipation = func(pos int) bool { return (uint64(pos)+sl)%3 != 0 }
		}
		if sl%7 == 3 {
			ops.syncParticipation = func(pos int) bool { return false }
		}
		p.step(ops)
	}
	if c.st.Finalized.Epoch < 4 {
		t.Fatalf("finalized epoch = %d", c.st.Finalized.Epoch)
	}
}

// Partial attestation participation, late inclusion, skipped slots, a long non-finality period (leak).
func TestZrntCmpPartialParticipationAndLeak(t *testing.T) {
	for _, forkEpochs := range [][4]uint64{{^uint64(0), ^uint64(0), ^uint64(0), ^uint64(0)}, {1, ^uint64(0), ^uint64(0), ^uint64(0)}, {1, 1, 1, 2}} {
		spec := testSpec()
		spec.ALTAIR_FORK_EPOCH, spec.BELLATRIX_FORK_EPOCH = common.Epoch(forkEpochs[0]), common.Epoch(forkEpochs[1])
		spec.CAPELLA_FORK_EPOCH, spec.DENEB_FORK_EPOCH = common.Epoch(forkEpochs[2]), common.Epoch(forkEpochs[3])
		spec.MIN_EPOCHS_TO_INACTIVITY_PENALTY = 2
		c := newChain(t, spec, 64, 64, nil)
		p := newPair(t, spec, c)
		spe := uint64(spec.SLOTS_PER_EPOCH)
		var pendingLate phase0.Attestations
		for c.st.Slot < 12*spe {
			slot := c.st.Slot + 1
			epoch := slot / spe
			if slot%5 == 4 { // skipped slot
				slot++
			}
			adv := c.st.Copy()
			mustNoErr(t, ProcessSlots(spec, adv, slot), "advance")
			prop, err := BeaconProposerIndex(spec, adv)
			mustNoErr(t, err, "proposer")
			if adv.Validators[prop].Slashed {
				continue
			}
			// epochs 3..7: only 40% attest -> no justification -> leak; afterwards 90%
			part := func(v uint64) bool { return v%10 != 0 }
			if epoch >= 3 && epoch <= 7 {
				part = func(v uint64) bool { return v%5 < 2 }
			}
			atts := makeAttestations(t, spec, c.keys, adv, slot-1, part)
			// every third slot the attestations are withheld and included two slots later
			if slot%3 == 0 && (slot+2)/spe == epoch {
				pendingLate = append(pendingLate, atts...)
				atts = phase0.Attestations{}
			} else if len(pendingLate) > 0 && slot%3 == 2 {
				atts = append(atts, pendingLate...)
				pendingLate = nil
			}
			if len(pendingLate) > 0 && (slot+1)/spe != epoch {
				pendingLate = nil
			}
			signed := produceBlock(t, spec, c.keys, c.st, slot, &blockOps{attestations: atts})
			mustNoErr(t, StateTransition(spec, c.st, signed, true), "model StateTransition")
			if err := common.StateTransition(context.Background(), spec, p.epc, p.z, envelope(spec, c.st, signed), true); err != nil {
				t.Fatalf("slot %d: zrnt rejects: %v", slot, err)
			}
			p.compare(fmt.Sprintf("forks %v slot %d", forkEpochs[:1], slot))
		}
		t.Logf("forks %v: finalized epoch %d, justified %d", forkEpochs, c.st.Finalized.Epoch, c.st.CurrentJustified.Epoch)
	}
}

func TestZrntCmpOperations(t *testing.T) {
	for _, forkEpochs := range [][4]uint64{{^uint64(0), ^uint64(0), ^uint64(0), ^uint64(0)}, {1, ^uint64(0), ^uint64(0), ^uint64(0)}, {1, 1, ^uint64(0), ^uint64(0)}, {1, 1, 1, ^uint64(0)}, {1, 1, 1, 1}} {
		spec := testSpec()
		spec.ALTAIR_FORK_EPOCH, spec.BELLATRIX_FORK_EPOCH = common.Epoch(forkEpochs[0]), common.Epoch(forkEpochs[1])
		spec.CAPELLA_FORK_EPOCH, spec.DENEB_FORK_EPOCH = common.Epoch(forkEpochs[2]), common.Epoch(forkEpochs[3])
		spec.SHARD_COMMITTEE_PERIOD = 1
		spec.MIN_VALIDATOR_WITHDRAWABILITY_DELAY = 2
		c := newChain(t, spec, 64, 72, map[int][20]byte{7: {0x77}, 23: {0x23}})
		p := newPair(t, spec, c)
		spe := uint64(spec.SLOTS_PER_EPOCH)
		for c.st.Slot < spe+2 {
			p.step(nil)
		}
		st := c.st

		// outstanding deposits (edit eth1_data on both sides)
		newDeps := []common.DepositData{
			makeDepositData(spec, c.keys.sks[64], c.keys.pubs[64], blsCredentials(c.keys.wdPubs[64]), 32e9, true),
			makeDepositData(spec, c.keys.sks[65], c.keys.pubs[65], blsCredentials(c.keys.wdPubs[65]), 32e9, false), // bad PoP
			makeDepositData(spec, c.keys.sks[10], c.keys.pubs[10], [32]byte{}, 2e9, false),                         // top-up
			makeDepositData(spec, c.keys.sks[66], c.keys.pubs[66], eth1Credentials([20]byte{0x66}), 17e9, true),
			makeDepositData(spec, c.keys.sks[66], c.keys.pubs[66], [32]byte{1}, 17e9, false), // top-up in the same block
		}
		for i := range newDeps {
			c.dt.push(&newDeps[i])
		}
		total := len(c.dt.leaves)
		st.Eth1Data.DepositCount = common.DepositIndex(total)
		st.Eth1Data.DepositRoot = c.dt.root(total)
		p.resync()
		deposits := phase0.Deposits{}
		for i := range newDeps {
			deposits = append(deposits, common.Deposit{Data: newDeps[i], Proof: c.dt.proof(64+i, total)})
		}

		mkHeader := func(proposer uint64, graffiti byte) common.SignedBeaconBlockHeader {
			h := common.BeaconBlockHeader{Slot: common.Slot(st.Slot), ProposerIndex: common.ValidatorIndex(proposer), BodyRoot: [32]byte{graffiti}}
			dom := Domain(spec, st, domainBeaconProposer, CurrentEpoch(spec, st))
			return common.SignedBeaconBlockHeader{Message: h, Signature: signWith(c.keys.sks[proposer], SigningRoot(h.HashTreeRoot(tree.GetHashFn()), dom))}
		}
		ps := phase0.ProposerSlashing{SignedHeader1: mkHeader(20, 1), SignedHeader2: mkHeader(20, 2)}
		mkIndexed := func(root byte, indices ...uint64) phase0.IndexedAttestation {
			data := phase0.AttestationData{Slot: common.Slot(st.Slot), BeaconBlockRoot: [32]byte{root}, Target: common.Checkpoint{Epoch: common.Epoch(CurrentEpoch(spec, st))}}
			dom := Domain(spec, st, domainBeaconAttester, CurrentEpoch(spec, st))
			sr := SigningRoot(data.HashTreeRoot(tree.GetHashFn()), dom)
			sigs := [][96]byte{}
			ia := phase0.IndexedAttestation{Data: data}
			for _, i := range indices {
				ia.AttestingIndices = append(ia.AttestingIndices, common.ValidatorIndex(i))
				sigs = append(sigs, signWith(c.keys.sks[i], sr))
			}
			ia.Signature = aggregateSigs(sigs)
			return ia
		}
		as := phase0.AttesterSlashing{Attestation1: mkIndexed(1, 21, 22, 30), Attestation2: mkIndexed(2, 21, 22, 31)}
		mkExit := func(v uint64) phase0.SignedVoluntaryExit {
			exit := phase0.VoluntaryExit{Epoch: common.Epoch(CurrentEpoch(spec, st)), ValidatorIndex: common.ValidatorIndex(v)}
			dom := Domain(spec, st, domainVoluntaryExit, CurrentEpoch(spec, st))
			if st.Fork >= Deneb {
				dom = ComputeDomain(domainVoluntaryExit, [4]byte(spec.CAPELLA_FORK_VERSION), st.GenesisValidatorsRoot)
			}
			return phase0.SignedVoluntaryExit{Message: exit, Signature: signWith(c.keys.sks[v], SigningRoot(exit.HashTreeRoot(tree.GetHashFn()), dom))}
		}
		ops := &blockOps{deposits: deposits, proposerSlashings: phase0.ProposerSlashings{ps},
			attesterSlashings: phase0.AttesterSlashings{as}, voluntaryExits: phase0.VoluntaryExits{mkExit(23), mkExit(25), mkExit(26)}}
		if st.Fork >= Capella {
			change := common.BLSToExecutionChange{ValidatorIndex: 24, FromBLSPubKey: c.keys.wdPubs[24], ToExecutionAddress: common.Eth1Address{0x24}}
			changeDom := ComputeDomain(domainBLSToExecutionChange, [4]byte(spec.GENESIS_FORK_VERSION), st.GenesisValidatorsRoot)
			ops.blsChanges = common.SignedBLSToExecutionChanges{{BLSToExecutionChange: change,
				Signature: signWith(c.keys.wdSks[24], SigningRoot(change.HashTreeRoot(tree.GetHashFn()), changeDom))}}
		}
		p.step(ops)
		if len(c.st.Validators) != 66 {
			t.Fatalf("validators: %d", len(c.st.Validators))
		}
		// run long enough for activations, exits, withdrawability and (capella+) withdrawals of the exited validator 23
		for c.st.Slot < 14*spe {
			var o *blockOps
			if c.st.Slot%6 == 0 {
				sl := c.st.Slot
				o = &blockOps{syncParticipation: func(pos int) bool { return (uint64(pos)+sl)%4 != 0 }}
			}
			p.step(o)
		}
		t.Logf("forks %v: fork=%s finalized=%d validators=%d active=%d nextWithdrawalIndex=%d balance[23]=%d", forkEpochs, c.st.Fork, c.st.Finalized.Epoch,
			len(c.st.Validators), len(ActiveValidatorIndices(spec, c.st, CurrentEpoch(spec, c.st))), c.st.NextWithdrawalIndex, c.st.Balances[23])
	}
}

// stepDiff is step without the fatal comparison: it returns the Diff (or the library's error).
func (p *pair) stepDiff(ops *blockOps) string {
	p.t.Helper()
	signed := p.c.step(ops)
	benv := envelope(p.spec, p.c.st, signed)
	// validate=false on the library side: a state-root mismatch then shows up as a Diff instead of an error
	if err := common.StateTransition(context.Background(), p.spec, p.epc, p.z, benv, false); err != nil {
		return "zrnt error: " + err.Error()
	}
	return Diff(p.c.st, fromZrnt(p.t, p.spec, p.z.BeaconState))
}

// The three scenarios below target places where the library is suspected to deviate from the specification.
// They assert the MODEL's behaviour against hand-computed spec expectations and only LOG a disagreement
// with the library.

// Scenario A (altair+): a nearly drained validator misses the timely-source flag but earns the timely-target
// flag. The spec applies the (rewards, penalties) pairs one after the other, each with a saturating decrease.
func TestZrntCmpScenarioDrainedBalanceSequentialDeltas(t *testing.T) {
	spec := testSpec()
	spec.ALTAIR_FORK_EPOCH = 1
	c := newChain(t, spec, 64, 64, nil)
	p := newPair(t, spec, c)
	spe := uint64(spec.SLOTS_PER_EPOCH)
	for c.st.Slot < 3*spe {
		p.step(nil)
	}
	// epoch 3: the vote of validator `victim` is included late
	adv := c.st.Copy()
	mustNoErr(t, ProcessSlots(spec, adv, 3*spe+2), "advance")
	committee, err := BeaconCommittee(spec, adv, 3*spe+1, 0)
	mustNoErr(t, err, "committee")
	victim := committee[0]
	var late phase0.Attestations
	for c.st.Slot < 5*spe-1 {
		slot := c.st.Slot + 1
		a := c.st.Copy()
		mustNoErr(t, ProcessSlots(spec, a, slot), "advance")
		atts := makeAttestations(t, spec, c.keys, a, slot-1, func(v uint64) bool { return v != victim || slot-1 != 3*spe+1 })
		if slot-1 == 3*spe+1 {
			late = makeAttestations(t, spec, c.keys, a, slot-1, func(v uint64) bool { return v == victim })
		}
		if slot == 3*spe+1+4 { // inclusion delay 4 > integer_squareroot(8) = 2: target (and no source, no head) flag
			atts = append(atts, late...)
		}
		p.step(&blockOps{attestations: atts})
		if slot == 3*spe+1+4 && c.st.CurrentEpochParticipation[victim] != 1<<timelyTargetFlagIndex {
			t.Fatalf("victim flags = %03b, want target only", c.st.CurrentEpochParticipation[victim])
		}
	}
	// last slot of epoch 4: drain the victim to 20000 gwei (its effective balance is still 32 ETH)
	if c.st.PreviousEpochParticipation[victim] != 1<<timelyTargetFlagIndex {
		t.Fatalf("victim previous-epoch flags = %03b, want target only", c.st.PreviousEpochParticipation[victim])
	}
	c.st.Balances[victim] = 20000
	p.resync()

	// hand computation for the epoch transition 4 -> 5 (rewards for epoch 3)
	pre := c.st.Copy()
	balBefore := pre.Balances[victim]
	total := TotalActiveBalance(spec, pre)
	inc := uint64(spec.EFFECTIVE_BALANCE_INCREMENT)
	perInc := inc * uint64(spec.BASE_REWARD_FACTOR) / integerSquareroot(total)
	base := (pre.Validators[victim].EffectiveBalance / inc) * perInc
	targetIncs := uint64(0)
	for i, f := range pre.PreviousEpochParticipation {
		if f&(1<<timelyTargetFlagIndex) != 0 && !pre.Validators[i].Slashed {
			targetIncs += pre.Validators[i].EffectiveBalance / inc
		}
	}
	sourcePenalty := base * timelySourceWeight / weightDenominator
	targetReward := base * timelyTargetWeight * targetIncs / ((total / inc) * weightDenominator)
	if balBefore >= sourcePenalty {
		t.Fatalf("test setup: balance %d not drained below the source penalty %d", balBefore, sourcePenalty)
	}
	// source pair: 20000 - penalty saturates at 0; target pair: + reward; head pair: no penalty; inactivity: score 0
	want := targetReward
	post := pre.Copy()
	mustNoErr(t, ProcessSlots(spec, post, 5*spe), "epoch transition")
	if post.Balances[victim] != want {
		t.Fatalf("model: balance after the epoch transition = %d, hand-computed %d (before %d, source penalty %d, target reward %d)",
			post.Balances[victim], want, balBefore, sourcePenalty, targetReward)
	}
	sumThenSaturate := uint64(0)
	if balBefore+targetReward > sourcePenalty {
		sumThenSaturate = balBefore + targetReward - sourcePenalty
	}
	t.Logf("spec (sequential pairs): %d; a sum-then-saturate implementation would give %d", want, sumThenSaturate)
	mustNoErr(t, common.ProcessSlots(context.Background(), spec, p.epc, p.z, common.Slot(5*spe)), "zrnt ProcessSlots")
	if d := Diff(post, fromZrnt(t, spec, p.z.BeaconState)); d != "" {
		t.Logf("DISAGREEMENT with zrnt: %s", d)
	} else {
		t.Logf("no disagreement with zrnt")
	}
}

// Scenario B (altair+): validators activated in the current epoch count towards the current-epoch target
// balance ("active in THAT epoch"); here they tip the 2/3 threshold exactly.
func TestZrntCmpScenarioNewlyActivatedCountForJustification(t *testing.T) {
	spec := testSpec()
	spec.ALTAIR_FORK_EPOCH = 1
	c := newChain(t, spec, 64, 66, nil)
	p := newPair(t, spec, c)
	spe := uint64(spec.SLOTS_PER_EPOCH)
	for c.st.Slot < 4*spe-2 {
		p.step(nil)
	}
	// two more validators, active from epoch 4 on
	for i := 64; i < 66; i++ {
		c.st.Validators = append(c.st.Validators, Validator{Pubkey: c.keys.pubs[i], WithdrawalCredentials: blsCredentials(c.keys.wdPubs[i]),
			EffectiveBalance: 32e9, ActivationEligibilityEpoch: 1, ActivationEpoch: 4, ExitEpoch: farFutureEpoch, WithdrawableEpoch: farFutureEpoch})
		c.st.Balances = append(c.st.Balances, 32e9)
		c.st.PreviousEpochParticipation = append(c.st.PreviousEpochParticipation, 0)
		c.st.CurrentEpochParticipation = append(c.st.CurrentEpochParticipation, 0)
		c.st.InactivityScores = append(c.st.InactivityScores, 0)
	}
	p.resync()
	disagreement := ""
	for c.st.Slot < 4*spe {
		if d := p.stepDiff(nil); d != "" && disagreement == "" {
			disagreement = fmt.Sprintf("slot %d: %s", c.st.Slot, d)
			p.resync()
		}
	}
	if n := len(ActiveValidatorIndices(spec, c.st, 4)); n != 66 {
		t.Fatalf("active validators in epoch 4: %d", n)
	}
	// epoch 4: exactly 44 of the 66 validators attest (44*3 == 66*2), among them the new ones; nobody of them sits in
	// a committee of the last slot of the epoch (those votes arrive after the epoch boundary)
	inLastSlot := map[uint64]bool{}
	for ci := uint64(0); ci < CommitteeCountPerSlot(spec, c.st, 4); ci++ {
		cm, err := BeaconCommittee(spec, c.st, 5*spe-1, ci)
		mustNoErr(t, err, "committee")
		for _, v := range cm {
			inLastSlot[v] = true
		}
	}
	attesters := map[uint64]bool{}
	newCount := 0
	for v := uint64(64); v < 66; v++ {
		if !inLastSlot[v] {
			attesters[v] = true
			newCount++
		}
	}
	for v := uint64(0); v < 64 && len(attesters) < 44; v++ {
		if !inLastSlot[v] {
			attesters[v] = true
		}
	}
	if newCount == 0 || len(attesters) != 44 {
		t.Skipf("seed does not allow the scenario (new validators outside the last slot: %d, attesters %d)", newCount, len(attesters))
	}
	for c.st.Slot < 5*spe {
		slot := c.st.Slot + 1
		a := c.st.Copy()
		mustNoErr(t, ProcessSlots(spec, a, slot), "advance")
		atts := makeAttestations(t, spec, c.keys, a, slot-1, func(v uint64) bool { return attesters[v] })
		if d := p.stepDiff(&blockOps{attestations: atts}); d != "" && disagreement == "" {
			disagreement = fmt.Sprintf("slot %d: %s", c.st.Slot, d)
			p.resync()
		}
	}
	// spec: the current-epoch target balance counts validators active in epoch 4, i.e. including the new ones:
	// 44 * 32 ETH * 3 >= 66 * 32 ETH * 2, so epoch 4 is justified at the 4 -> 5 boundary.
	t.Logf("after epoch 4: %d new validators among 44 attesters, justification bits %04b, current justified epoch %d", newCount, c.st.JustificationBits, c.st.CurrentJustified.Epoch)
	if c.st.CurrentJustified.Epoch != 4 || c.st.JustificationBits&1 == 0 {
		t.Fatalf("model: epoch 4 must be justified at the boundary")
	}
	if disagreement != "" {
		t.Logf("DISAGREEMENT with zrnt: %s", disagreement)
	} else {
		t.Logf("no disagreement with zrnt")
	}
}

// Scenario C: an ejection that joins an exit queue whose last epoch is only partially filled.
func TestZrntCmpScenarioEjectionJoinsPartiallyFilledExitEpoch(t *testing.T) {
	for _, altairEpoch := range []uint64{^uint64(0), 1} {
		spec := testSpec()
		spec.ALTAIR_FORK_EPOCH = common.Epoch(altairEpoch)
		spec.SHARD_COMMITTEE_PERIOD = 1
		c := newChain(t, spec, 64, 64, nil)
		p := newPair(t, spec, c)
		spe := uint64(spec.SLOTS_PER_EPOCH)
		for c.st.Slot < 2*spe+1 {
			p.step(nil)
		}
		st := c.st
		mkExit := func(v uint64) phase0.SignedVoluntaryExit {
			exit := phase0.VoluntaryExit{Epoch: common.Epoch(CurrentEpoch(spec, st)), ValidatorIndex: common.ValidatorIndex(v)}
			dom := Domain(spec, st, domainVoluntaryExit, CurrentEpoch(spec, st))
			return phase0.SignedVoluntaryExit{Message: exit, Signature: signWith(c.keys.sks[v], SigningRoot(exit.HashTreeRoot(tree.GetHashFn()), dom))}
		}
		// three exits with a churn limit of 2: validators 10, 11 exit at e0, validator 50 at e0+1 (one free seat)
		p.step(&blockOps{voluntaryExits: phase0.VoluntaryExits{mkExit(10), mkExit(11), mkExit(50)}})
		e0 := CurrentEpoch(spec, c.st) + 1 + uint64(spec.MAX_SEED_LOOKAHEAD)
		if c.st.Validators[10].ExitEpoch != e0 || c.st.Validators[11].ExitEpoch != e0 || c.st.Validators[50].ExitEpoch != e0+1 {
			t.Fatalf("exit queue setup: %d %d %d (e0 = %d)", c.st.Validators[10].ExitEpoch, c.st.Validators[11].ExitEpoch, c.st.Validators[50].ExitEpoch, e0)
		}
		// validator 30 drops to the ejection balance
		c.st.Balances[30] = 15e9
		c.st.Validators[30].EffectiveBalance = 15e9
		p.resync()
		disagreement := ""
		for c.st.Slot < 3*spe {
			if d := p.stepDiff(nil); d != "" && disagreement == "" {
				disagreement = fmt.Sprintf("slot %d: %s", c.st.Slot, d)
				p.resync()
			}
		}
		// spec: exit_queue_epoch = max(e0+1, compute_activation_exit_epoch(2) = e0) = e0+1, churn there = 1 < 2 -> exit at e0+1
		if got := c.st.Validators[30].ExitEpoch; got != e0+1 {
			t.Fatalf("model: ejected validator exits at %d, spec says %d", got, e0+1)
		}
		if disagreement != "" {
			t.Logf("altair epoch %d: DISAGREEMENT with zrnt: %s", altairEpoch, disagreement)
		} else {
			t.Logf("altair epoch %d: no disagreement with zrnt", altairEpoch)
		}
	}
}

// Eth1 data adoption by majority vote, the correlation penalty of process_slashings (shortened slashings vector),
// and EIP-7045 inclusion of old attestations.
func TestZrntCmpEth1VotesSlashingsPenaltyOldAttestations(t *testing.T) {
	for _, forkEpochs := range [][4]uint64{{^uint64(0), ^uint64(0), ^uint64(0), ^uint64(0)}, {1, ^uint64(0), ^uint64(0), ^uint64(0)}, {1, 1, 1, 1}} {
		spec := testSpec()
		spec.ALTAIR_FORK_EPOCH, spec.BELLATRIX_FORK_EPOCH = common.Epoch(forkEpochs[0]), common.Epoch(forkEpochs[1])
		spec.CAPELLA_FORK_EPOCH, spec.DENEB_FORK_EPOCH = common.Epoch(forkEpochs[2]), common.Epoch(forkEpochs[3])
		spec.EPOCHS_PER_SLASHINGS_VECTOR = 8
		spec.MIN_VALIDATOR_WITHDRAWABILITY_DELAY = 1
		c := newChain(t, spec, 64, 64, nil)
		p := newPair(t, spec, c)
		spe := uint64(spec.SLOTS_PER_EPOCH)
		for c.st.Slot < spe+2 {
			p.step(nil)
		}
		st := c.st
		// slash 12 validators at once so that the correlation penalty is visible
		mkIndexed := func(root byte, indices ...uint64) phase0.IndexedAttestation {
			data := phase0.AttestationData{Slot: common.Slot(st.Slot), BeaconBlockRoot: [32]byte{root}, Target: common.Checkpoint{Epoch: common.Epoch(CurrentEpoch(spec, st))}}
			dom := Domain(spec, st, domainBeaconAttester, CurrentEpoch(spec, st))
			sr := SigningRoot(data.HashTreeRoot(tree.GetHashFn()), dom)
			sigs := [][96]byte{}
			ia := phase0.IndexedAttestation{Data: data}
			for _, i := range indices {
				ia.AttestingIndices = append(ia.AttestingIndices, common.ValidatorIndex(i))
				sigs = append(sigs, signWith(c.keys.sks[i], sr))
			}
			ia.Signature = aggregateSigs(sigs)
			return ia
		}
		idx := []uint64{}
		for i := uint64(40); i < 52; i++ {
			idx = append(idx, i)
		}
		as := phase0.AttesterSlashing{Attestation1: mkIndexed(1, idx...), Attestation2: mkIndexed(2, idx...)}
		p.step(&blockOps{attesterSlashings: phase0.AttesterSlashings{as}})
		newEth1 := common.Eth1Data{DepositRoot: c.st.Eth1Data.DepositRoot, DepositCount: c.st.Eth1Data.DepositCount, BlockHash: [32]byte{0xe1}}
		balBefore := uint64(0)
		for c.st.Slot < 10*spe {
			ops := &blockOps{}
			// voting period 2 = epochs 4..7: all blocks but those of every 4th slot vote for newEth1 (slots of slashed proposers are empty)
			if e := (c.st.Slot + 1) / spe; e >= 4 && e < 8 && (c.st.Slot+1)%4 != 0 {
				ops.eth1Data = &newEth1
			}
			if c.st.Slot+1 == 5*spe {
				balBefore = c.st.Balances[40]
			}
			// deneb: on the last slot of every epoch also include the votes for the first slot of the previous epoch
			if c.st.Fork >= Deneb && (c.st.Slot+2)%spe == 0 && c.st.Slot > 3*spe {
				slot := c.st.Slot + 1
				adv := c.st.Copy()
				mustNoErr(t, ProcessSlots(spec, adv, slot), "advance")
				prop, err := BeaconProposerIndex(spec, adv)
				mustNoErr(t, err, "proposer")
				if !adv.Validators[prop].Slashed {
					cur := slot / spe
					atts := makeAttestations(t, spec, c.keys, adv, slot-1, func(v uint64) bool { return !adv.Validators[v].Slashed })
					// half of the committee of the first slot of the previous epoch votes again: no new flags for those who
					// were on time, but the attestation is valid in deneb
					atts = append(atts, makeAttestations(t, spec, c.keys, adv, (cur-1)*spe, func(v uint64) bool { return v%2 == 0 })...)
					ops.attestations = atts
				}
			}
			p.step(ops)
		}
		if c.st.Eth1Data != newEth1 {
			t.Fatalf("forks %v: eth1 data not adopted", forkEpochs)
		}
		// slashed in epoch 1, withdrawable at 1 + 8 = 9, correlation penalty at the end of epoch 5
		if !c.st.Validators[40].Slashed || c.st.Validators[40].WithdrawableEpoch != 9 {
			t.Fatalf("withdrawable epoch %d", c.st.Validators[40].WithdrawableEpoch)
		}
		t.Logf("forks %v: balance of slashed validator 40 before the epoch-5 boundary block %d, at the end %d; eff %d", forkEpochs, balBefore, c.st.Balances[40], c.st.Validators[40].EffectiveBalance)
	}
}
