package refspec

// Self tests of the model. None of them depends on the transition logic of the library under test:
// only its data structs (and their struct-form hash_tree_root) and the BLS library are used.

import (
	"bytes"
	"strings"
	"testing"

	"github.com/protolambda/zrnt/eth2/beacon/altair"
	"github.com/protolambda/zrnt/eth2/beacon/bellatrix"
	"github.com/protolambda/zrnt/eth2/beacon/capella"
	"github.com/protolambda/zrnt/eth2/beacon/common"
	"github.com/protolambda/zrnt/eth2/beacon/deneb"
	"github.com/protolambda/zrnt/eth2/beacon/phase0"
	"github.com/protolambda/ztyp/codec"
	"github.com/protolambda/ztyp/tree"
)

func TestIntegerSquareroot(t *testing.T) {
	cases := map[uint64]uint64{0: 0, 1: 1, 2: 1, 3: 1, 4: 2, 8: 2, 9: 3, 15: 3, 16: 4, 1 << 32: 1 << 16,
		(1 << 32) - 1: 65535, ^uint64(0): 4294967295, (^uint64(0)) - 1: 4294967295, 4294967295 * 4294967295: 4294967295,
		4294967295*4294967295 - 1: 4294967294, 32000000000 * 64: 1431083}
	for n, want := range cases {
		if got := integerSquareroot(n); got != want {
			t.Errorf("integer_squareroot(%d) = %d, want %d", n, got, want)
		}
	}
	for n := uint64(0); n < 5000; n++ {
		x := integerSquareroot(n)
		if x*x > n || (x+1)*(x+1) <= n {
			t.Fatalf("integer_squareroot(%d) = %d", n, x)
		}
	}
}

func TestShuffledIndexIsBijection(t *testing.T) {
	spec := testSpec()
	m := &machine{spec: spec, p: loadParams(spec), s: &State{}}
	for _, count := range []uint64{1, 2, 3, 7, 8, 64, 100, 255, 256, 257, 1000} {
		for seedByte := byte(0); seedByte < 3; seedByte++ {
			seed := hash([]byte{seedByte, byte(count)})
			seen := make(map[uint64]bool, count)
			for i := uint64(0); i < count; i++ {
				j := m.computeShuffledIndex(i, count, seed)
				if j >= count {
					t.Fatalf("count %d: shuffled index %d out of range", count, j)
				}
				if seen[j] {
					t.Fatalf("count %d: shuffled index %d hit twice", count, j)
				}
				seen[j] = true
				// memoised answer must equal a fresh one
				if again := m.computeShuffledIndex(i, count, seed); again != j {
					t.Fatalf("memoisation changed the answer")
				}
			}
		}
	}
	// out of range input is an error, not a panic
	err := readonly(spec, &State{}, func(m *machine) { m.computeShuffledIndex(5, 5, [32]byte{}) })
	if err == nil {
		t.Fatal("expected an error for index >= count")
	}
}

func TestCommitteesPartitionTheActiveSet(t *testing.T) {
	spec := testSpec()
	keys := newTestKeys(70)
	deps, _ := genesisDeposits(spec, keys, 70, nil)
	st, err := InitializeFromEth1(spec, [32]byte{1}, uint64(spec.MIN_GENESIS_TIME), deps)
	mustNoErr(t, err, "genesis")
	for _, epoch := range []uint64{0, 1} {
		seen := map[uint64]int{}
		count := CommitteeCountPerSlot(spec, st, epoch)
		for slot := epoch * uint64(spec.SLOTS_PER_EPOCH); slot < (epoch+1)*uint64(spec.SLOTS_PER_EPOCH); slot++ {
			for ci := uint64(0); ci < count; ci++ {
				c, err := BeaconCommittee(spec, st, slot, ci)
				mustNoErr(t, err, "BeaconCommittee")
				for _, v := range c {
					seen[v]++
				}
			}
			if _, err := BeaconCommittee(spec, st, slot, count); err == nil {
				t.Fatal("expected an error for an out-of-range committee index")
			}
		}
		active := ActiveValidatorIndices(spec, st, epoch)
		if len(seen) != len(active) {
			t.Fatalf("epoch %d: committees cover %d validators, active set has %d", epoch, len(seen), len(active))
		}
		for v, n := range seen {
			if n != 1 {
				t.Fatalf("validator %d is in %d committees of epoch %d", v, n, epoch)
			}
		}
	}
	if _, err := BeaconCommittee(spec, st, 3*uint64(spec.SLOTS_PER_EPOCH), 0); err == nil {
		t.Fatal("expected an error for a slot two epochs ahead")
	}
	// proposers: ProposerIndexAtSlot(state.slot) == BeaconProposerIndex
	a, err := BeaconProposerIndex(spec, st)
	mustNoErr(t, err, "BeaconProposerIndex")
	b, err := ProposerIndexAtSlot(spec, st, st.Slot)
	mustNoErr(t, err, "ProposerIndexAtSlot")
	if a != b {
		t.Fatalf("proposer mismatch %d != %d", a, b)
	}
	if _, err := ProposerIndexAtSlot(spec, st, uint64(spec.SLOTS_PER_EPOCH)); err == nil {
		t.Fatal("expected an error for a slot outside the current epoch")
	}
}

// zeroRaw builds zero-valued raw states with the vector lengths of the spec.
func zeroRaw(spec *common.Spec, f Fork) interface{} {
	roots := func(n uint64) []common.Root { return make([]common.Root, n) }
	sphr, ephv, epsv := uint64(spec.SLOTS_PER_HISTORICAL_ROOT), uint64(spec.EPOCHS_PER_HISTORICAL_VECTOR), uint64(spec.EPOCHS_PER_SLASHINGS_VECTOR)
	sc := func() common.SyncCommittee {
		return common.SyncCommittee{Pubkeys: make(common.SyncCommitteePubkeys, spec.SYNC_COMMITTEE_SIZE)}
	}
	switch f {
	case Phase0:
		return &phase0.BeaconState{BlockRoots: roots(sphr), StateRoots: roots(sphr), RandaoMixes: roots(ephv), Slashings: make(phase0.SlashingsHistory, epsv)}
	case Altair:
		return &altair.BeaconState{BlockRoots: roots(sphr), StateRoots: roots(sphr), RandaoMixes: roots(ephv), Slashings: make(phase0.SlashingsHistory, epsv),
			CurrentSyncCommittee: sc(), NextSyncCommittee: sc()}
	case Bellatrix:
		return &bellatrix.BeaconState{BlockRoots: roots(sphr), StateRoots: roots(sphr), RandaoMixes: roots(ephv), Slashings: make(phase0.SlashingsHistory, epsv),
			CurrentSyncCommittee: sc(), NextSyncCommittee: sc()}
	case Capella:
		return &capella.BeaconState{BlockRoots: roots(sphr), StateRoots: roots(sphr), RandaoMixes: roots(ephv), Slashings: make(phase0.SlashingsHistory, epsv),
			CurrentSyncCommittee: sc(), NextSyncCommittee: sc()}
	case Deneb:
		return &deneb.BeaconState{BlockRoots: roots(sphr), StateRoots: roots(sphr), RandaoMixes: roots(ephv), Slashings: make(phase0.SlashingsHistory, epsv),
			CurrentSyncCommittee: sc(), NextSyncCommittee: sc()}
	}
	return nil
}

func rawRoot(spec *common.Spec, raw interface{}) [32]byte {
	hFn := tree.GetHashFn()
	switch r := raw.(type) {
	case *phase0.BeaconState:
		return r.HashTreeRoot(spec, hFn)
	case *altair.BeaconState:
		return r.HashTreeRoot(spec, hFn)
	case *bellatrix.BeaconState:
		return r.HashTreeRoot(spec, hFn)
	case *capella.BeaconState:
		return r.HashTreeRoot(spec, hFn)
	case *deneb.BeaconState:
		return r.HashTreeRoot(spec, hFn)
	}
	panic("unknown raw type")
}

func TestRawRoundTripZeroStates(t *testing.T) {
	spec := testSpec()
	for f := Phase0; f <= Deneb; f++ {
		raw := zeroRaw(spec, f)
		want := rawRoot(spec, raw)
		st, err := FromRaw(raw)
		mustNoErr(t, err, "FromRaw "+f.String())
		if st.Fork != f {
			t.Fatalf("fork %s != %s", st.Fork, f)
		}
		got, err := Root(spec, st)
		mustNoErr(t, err, "Root "+f.String())
		if got != want {
			t.Fatalf("%s: Root(FromRaw(raw)) = %x, raw root = %x", f, got[:], want[:])
		}
		back, err := ToRaw(spec, st)
		mustNoErr(t, err, "ToRaw "+f.String())
		if r := rawRoot(spec, back); r != want {
			t.Fatalf("%s: ToRaw(FromRaw(raw)) root = %x, want %x", f, r[:], want[:])
		}
		st2, err := FromRaw(back)
		mustNoErr(t, err, "FromRaw(back)")
		if d := Diff(st, st2); d != "" {
			t.Fatalf("%s: round trip differs: %s", f, d)
		}
		cp := st.Copy()
		if d := Diff(st, cp); d != "" {
			t.Fatalf("%s: copy differs: %s", f, d)
		}
	}
	// A populated state: every field non-default, round trip through each fork's raw struct.
	for f := Phase0; f <= Deneb; f++ {
		st, err := FromRaw(zeroRaw(spec, f))
		mustNoErr(t, err, "FromRaw")
		populate(st)
		raw, err := ToRaw(spec, st)
		mustNoErr(t, err, "ToRaw populated "+f.String())
		st2, err := FromRaw(raw)
		mustNoErr(t, err, "FromRaw populated "+f.String())
		if d := Diff(st, st2); d != "" {
			t.Fatalf("%s: populated round trip differs: %s", f, d)
		}
		r1, err := Root(spec, st)
		mustNoErr(t, err, "Root")
		if r2 := rawRoot(spec, raw); r1 != r2 {
			t.Fatalf("%s: Root != raw root", f)
		}
		// Copy is deep: mutating the copy must not leak.
		cp := st.Copy()
		cp.Balances[0]++
		cp.Validators[1].Slashed = !cp.Validators[1].Slashed
		cp.BlockRoots[3][0] ^= 1
		if f == Phase0 {
			cp.PreviousEpochAttestations[0].AggregationBits[0] ^= 1
		} else {
			cp.CurrentEpochParticipation[0] ^= 1
			cp.NextSyncCommittee.Pubkeys[0][0] ^= 1
		}
		if f >= Bellatrix {
			cp.LatestExecutionPayloadHeader.ExtraData[0] ^= 1
		}
		d := Diff(st, cp)
		if !strings.Contains(d, "Balances[0]") || !strings.Contains(d, "Validators[1].Slashed") || !strings.Contains(d, "BlockRoots[3]") {
			t.Fatalf("%s: Diff misses entries: %q", f, d)
		}
		r3, _ := Root(spec, st)
		if r3 != r1 {
			t.Fatalf("%s: mutation of the copy leaked into the original", f)
		}
	}
}

func populate(s *State) {
	b32 := func(x byte) (o [32]byte) {
		for i := range o {
			o[i] = x + byte(i)
		}
		return
	}
	s.GenesisTime, s.GenesisValidatorsRoot, s.Slot = 11, b32(1), 77
	s.ForkPrevVersion, s.ForkCurVersion, s.ForkEpoch = [4]byte{1, 2, 3, 4}, [4]byte{5, 6, 7, 8}, 9
	s.LatestBlockHeader = common.BeaconBlockHeader{Slot: 76, ProposerIndex: 2, ParentRoot: b32(2), StateRoot: b32(3), BodyRoot: b32(4)}
	for i := range s.BlockRoots {
		s.BlockRoots[i], s.StateRoots[i] = b32(byte(i)), b32(byte(i)+100)
	}
	s.HistoricalRoots = [][32]byte{b32(5), b32(6)}
	s.Eth1Data = common.Eth1Data{DepositRoot: b32(7), DepositCount: 3, BlockHash: b32(8)}
	s.Eth1DataVotes = []common.Eth1Data{s.Eth1Data, {DepositRoot: b32(9), DepositCount: 4}}
	s.Eth1DepositIndex = 3
	for i := 0; i < 3; i++ {
		v := Validator{WithdrawalCredentials: b32(byte(20 + i)), EffectiveBalance: uint64(31+i) * 1e9, Slashed: i == 2,
			ActivationEligibilityEpoch: uint64(i), ActivationEpoch: uint64(i + 1), ExitEpoch: farFutureEpoch - uint64(i), WithdrawableEpoch: farFutureEpoch}
		v.Pubkey[0], v.Pubkey[47] = byte(i+1), byte(i+2)
		s.Validators = append(s.Validators, v)
		s.Balances = append(s.Balances, uint64(32+i)*1e9+uint64(i))
	}
	for i := range s.RandaoMixes {
		s.RandaoMixes[i] = b32(byte(i) + 50)
	}
	for i := range s.Slashings {
		s.Slashings[i] = uint64(i) * 1000
	}
	s.JustificationBits = 0b1011
	s.PreviousJustified, s.CurrentJustified, s.Finalized = Checkpoint{7, b32(30)}, Checkpoint{8, b32(31)}, Checkpoint{6, b32(32)}
	if s.Fork == Phase0 {
		att := PendingAttestation{AggregationBits: []byte{0x0f, 0x01}, InclusionDelay: 2, ProposerIndex: 1,
			Data: phase0.AttestationData{Slot: 70, Index: 1, BeaconBlockRoot: b32(40), Source: common.Checkpoint{Epoch: 7, Root: b32(41)}, Target: common.Checkpoint{Epoch: 8, Root: b32(42)}}}
		s.PreviousEpochAttestations = []PendingAttestation{att}
		att.InclusionDelay = 1
		s.CurrentEpochAttestations = []PendingAttestation{att, att}
	} else {
		s.PreviousEpochParticipation, s.CurrentEpochParticipation = []byte{1, 3, 7}, []byte{0, 2, 5}
		s.InactivityScores = []uint64{0, 4, 99}
		for i := range s.CurrentSyncCommittee.Pubkeys {
			s.CurrentSyncCommittee.Pubkeys[i][1], s.NextSyncCommittee.Pubkeys[i][2] = byte(i), byte(i)
		}
		s.CurrentSyncCommittee.AggregatePubkey[5], s.NextSyncCommittee.AggregatePubkey[6] = 9, 9
	}
	if s.Fork >= Bellatrix {
		h := s.LatestExecutionPayloadHeader
		h.ParentHash, h.StateRoot, h.ReceiptsRoot, h.PrevRandao, h.BlockHash, h.TransactionsRoot = b32(60), b32(61), b32(62), b32(63), b32(64), b32(65)
		h.FeeRecipient[3], h.LogsBloom[200] = 4, 5
		h.BlockNumber, h.GasLimit, h.GasUsed, h.Timestamp = 1, 2, 3, 4
		h.ExtraData = []byte{1, 2, 3}
		h.BaseFeePerGas = b32(66)
	}
	if s.Fork >= Capella {
		s.LatestExecutionPayloadHeader.WithdrawalsRoot = b32(67)
		s.NextWithdrawalIndex, s.NextWithdrawalValidatorIndex = 12, 2
		s.HistoricalSummaries = []HistoricalSummary{{b32(70), b32(71)}}
	}
	if s.Fork >= Deneb {
		s.LatestExecutionPayloadHeader.BlobGasUsed, s.LatestExecutionPayloadHeader.ExcessBlobGas = 5, 6
	}
}

func TestShapeErrorsAreErrors(t *testing.T) {
	spec := testSpec()
	st, err := FromRaw(zeroRaw(spec, Altair))
	mustNoErr(t, err, "FromRaw")
	bad := st.Copy()
	bad.BlockRoots = bad.BlockRoots[:3]
	if _, err := Root(spec, bad); err == nil || strings.Contains(err.Error(), "model panic") {
		t.Fatalf("expected a shape error, got %v", err)
	}
	bad = st.Copy()
	bad.CurrentSyncCommittee = nil
	if _, err := ToRaw(spec, bad); err == nil || strings.Contains(err.Error(), "model panic") {
		t.Fatalf("expected a shape error, got %v", err)
	}
	if _, err := FromRaw(42); err == nil {
		t.Fatal("expected an error for an unsupported raw type")
	}
	if err := ProcessSlots(spec, nil, 1); err == nil {
		t.Fatal("expected an error for a nil state")
	}
	if err := ProcessSlots(nil, st, 1); err == nil {
		t.Fatal("expected an error for a nil spec")
	}
	if err := ProcessSlots(spec, st, 0); err == nil {
		t.Fatal("expected an error for slot <= state.slot")
	}
	if err := ProcessBlock(spec, st, &phase0.BeaconBlock{}); err == nil {
		t.Fatal("expected an error for a block of another fork")
	}
	if err := ProcessBlock(spec, st, nil); err == nil {
		t.Fatal("expected an error for a nil block")
	}
	if err := StateTransition(spec, st, (*altair.SignedBeaconBlock)(nil), true); err == nil {
		t.Fatal("expected an error for a nil signed block")
	}
	// A structurally broken state (Balances shorter than Validators) must give an error, never a panic.
	broken := st.Copy()
	broken.Validators = append(broken.Validators, Validator{ExitEpoch: farFutureEpoch})
	if err := ProcessSlots(spec, broken, 1); err == nil {
		t.Fatal("expected an error for a broken state")
	}
	if TotalActiveBalance(spec, nil) != 0 || CurrentEpoch(nil, st) != 0 || IsValidGenesisState(spec, nil) {
		t.Fatal("helpers must tolerate nil input")
	}
}

func TestForkSchedule(t *testing.T) {
	spec := testSpec()
	if f := ForkAtEpoch(spec, 1000); f != Phase0 {
		t.Fatalf("minimal config without fork epochs: got %s", f)
	}
	if f := ForkAtEpoch(spec, ^uint64(0)); f != Phase0 {
		t.Fatalf("a fork epoch of 2^64-1 never activates: got %s", f)
	}
	spec.ALTAIR_FORK_EPOCH, spec.BELLATRIX_FORK_EPOCH, spec.CAPELLA_FORK_EPOCH, spec.DENEB_FORK_EPOCH = 2, 2, 5, 9
	want := map[uint64]Fork{0: Phase0, 1: Phase0, 2: Bellatrix, 4: Bellatrix, 5: Capella, 8: Capella, 9: Deneb, 100: Deneb}
	for e, f := range want {
		if got := ForkAtEpoch(spec, e); got != f {
			t.Fatalf("ForkAtEpoch(%d) = %s, want %s", e, got, f)
		}
	}
	if ForkVersionOf(spec, Capella) != [4]byte(spec.CAPELLA_FORK_VERSION) || ForkVersionOf(spec, Phase0) != [4]byte(spec.GENESIS_FORK_VERSION) {
		t.Fatal("ForkVersionOf")
	}
}

func TestGenesisAndEmptyEpochs(t *testing.T) {
	spec := testSpec()
	keys := newTestKeys(66)
	deps, dt := genesisDeposits(spec, keys, 64, nil)
	// a top-up of validator 3, a half deposit of a new validator, and an invalid proof-of-possession
	extra := []common.DepositData{
		makeDepositData(spec, keys.sks[3], keys.pubs[3], [32]byte{}, 1e9, false), // top-up: signature not checked
		makeDepositData(spec, keys.sks[64], keys.pubs[64], blsCredentials(keys.wdPubs[64]), 16e9, true),
		makeDepositData(spec, keys.sks[65], keys.pubs[65], blsCredentials(keys.wdPubs[65]), 32e9, false), // skipped
	}
	for i := range extra {
		dt.push(&extra[i])
		n := len(dt.leaves)
		deps = append(deps, common.Deposit{Data: extra[i], Proof: dt.proof(n-1, n)})
	}
	st, err := InitializeFromEth1(spec, [32]byte{0x42}, uint64(spec.MIN_GENESIS_TIME), deps)
	mustNoErr(t, err, "InitializeFromEth1")
	if len(st.Validators) != 65 {
		t.Fatalf("expected 65 validators (invalid PoP skipped), got %d", len(st.Validators))
	}
	if st.Balances[3] != 33e9 || st.Validators[3].EffectiveBalance != 32e9 {
		t.Fatalf("top-up not applied: %d / %d", st.Balances[3], st.Validators[3].EffectiveBalance)
	}
	if st.Validators[64].EffectiveBalance != 16e9 || st.Validators[64].ActivationEpoch != farFutureEpoch {
		t.Fatal("half-deposited validator must not be active at genesis")
	}
	if st.Eth1DepositIndex != 67 || uint64(st.Eth1Data.DepositCount) != 67 || st.Eth1Data.DepositRoot != dt.root(67) {
		t.Fatal("eth1 deposit bookkeeping")
	}
	if st.GenesisTime != uint64(spec.MIN_GENESIS_TIME)+uint64(spec.GENESIS_DELAY) {
		t.Fatal("genesis time")
	}
	if !IsValidGenesisState(spec, st) {
		t.Fatal("genesis state should be valid")
	}
	few, err := InitializeFromEth1(spec, [32]byte{0x42}, uint64(spec.MIN_GENESIS_TIME), deps[:10])
	mustNoErr(t, err, "InitializeFromEth1 few")
	if IsValidGenesisState(spec, few) {
		t.Fatal("10 validators must not be a valid genesis")
	}
	early, err := InitializeFromEth1(spec, [32]byte{0x42}, 5, deps)
	mustNoErr(t, err, "InitializeFromEth1 early")
	if IsValidGenesisState(spec, early) {
		t.Fatal("too early genesis must not be valid")
	}
	// a bad proof is an error
	badDeps := append([]common.Deposit{}, deps...)
	badDeps[5].Proof[2][0] ^= 1
	if _, err := InitializeFromEth1(spec, [32]byte{0x42}, 5, badDeps); err == nil {
		t.Fatal("expected an error for a bad deposit proof")
	}

	// Three empty epochs: nobody attests.
	before := st.Copy()
	mustNoErr(t, ProcessSlots(spec, st, 3*uint64(spec.SLOTS_PER_EPOCH)+1), "ProcessSlots")
	if st.Slot != 3*uint64(spec.SLOTS_PER_EPOCH)+1 {
		t.Fatal("slot")
	}
	if st.Balances[0] >= before.Balances[0] {
		t.Fatal("idle validators must be penalised")
	}
	if len(st.PreviousEpochAttestations) != 0 || st.Finalized.Epoch != 0 {
		t.Fatal("nothing should be justified")
	}
	// determinism: same input, same output; split processing gives the same result
	again := before.Copy()
	mustNoErr(t, ProcessSlots(spec, again, 9), "ProcessSlots")
	mustNoErr(t, ProcessSlots(spec, again, 3*uint64(spec.SLOTS_PER_EPOCH)+1), "ProcessSlots")
	if d := Diff(st, again); d != "" {
		t.Fatalf("split slot processing differs: %s", d)
	}
}

// chain drives a model-only chain where every slot has a block with full participation.
type chain struct {
	t    *testing.T
	spec *common.Spec
	keys *testKeys
	st   *State
	dt   *depositTree
}

func newChain(t *testing.T, spec *common.Spec, nValidators, nKeys int, eth1Creds map[int][20]byte) *chain {
	keys := newTestKeys(nKeys)
	deps, dt := genesisDeposits(spec, keys, nValidators, eth1Creds)
	st, err := InitializeFromEth1(spec, [32]byte{0x42}, uint64(spec.MIN_GENESIS_TIME), deps)
	mustNoErr(t, err, "InitializeFromEth1")
	return &chain{t: t, spec: spec, keys: keys, st: st, dt: dt}
}

// step produces and applies the block of the next slot whose proposer is not slashed (attesting to the
// slot before it), and returns the signed block.
func (c *chain) step(ops *blockOps) interface{} {
	c.t.Helper()
	if ops == nil {
		ops = &blockOps{}
	}
	slot := c.st.Slot + 1
	var adv *State
	for {
		adv = c.st.Copy()
		mustNoErr(c.t, ProcessSlots(c.spec, adv, slot), "advance")
		proposer, err := BeaconProposerIndex(c.spec, adv)
		mustNoErr(c.t, err, "proposer")
		if !adv.Validators[proposer].Slashed {
			break
		}
		slot++
	}
	if ops.attestations == nil && slot >= 2 {
		ops.attestations = makeAttestations(c.t, c.spec, c.keys, adv, slot-1, func(v uint64) bool { return !adv.Validators[v].Slashed })
	}
	signed := produceBlock(c.t, c.spec, c.keys, c.st, slot, ops)
	mustNoErr(c.t, StateTransition(c.spec, c.st, signed, true), "StateTransition")
	return signed
}

func TestChainAcrossAllForks(t *testing.T) {
	spec := testSpec()
	spec.ALTAIR_FORK_EPOCH, spec.BELLATRIX_FORK_EPOCH, spec.CAPELLA_FORK_EPOCH, spec.DENEB_FORK_EPOCH = 2, 3, 4, 5
	c := newChain(t, spec, 64, 64, map[int][20]byte{1: {0xaa}, 2: {0xbb}})
	c.st.Balances[1] += 5e9 // excess balance: partially withdrawable from capella on
	spe := uint64(spec.SLOTS_PER_EPOCH)
	forkSeen := map[Fork]bool{}
	for c.st.Slot < 7*spe {
		ops := &blockOps{}
		if next := c.st.Slot + 1; next >= 3*spe && next < 3*spe+2 {
			ops.noPayload = true // two pre-merge bellatrix blocks, then the merge transition block
		}
		if c.st.Fork == Deneb {
			ops.blobCommitments = int(c.st.Slot % 3)
		}
		c.step(ops)
		forkSeen[c.st.Fork] = true
		if want := ForkAtEpoch(spec, CurrentEpoch(spec, c.st)); c.st.Fork != want {
			t.Fatalf("slot %d: state fork %s, schedule says %s", c.st.Slot, c.st.Fork, want)
		}
	}
	if len(forkSeen) != 5 {
		t.Fatalf("forks seen: %v", forkSeen)
	}
	if c.st.Finalized.Epoch < 4 {
		t.Fatalf("with full participation the chain must finalize; finalized epoch = %d", c.st.Finalized.Epoch)
	}
	if c.st.ForkCurVersion != [4]byte(spec.DENEB_FORK_VERSION) || c.st.ForkPrevVersion != [4]byte(spec.CAPELLA_FORK_VERSION) || c.st.ForkEpoch != 5 {
		t.Fatal("fork versions after the deneb upgrade")
	}
	if c.st.Balances[1] != 32e9 && c.st.Balances[1] > 32e9+1e8 {
		t.Fatalf("excess balance of validator 1 was not swept: %d", c.st.Balances[1])
	}
	if c.st.NextWithdrawalIndex == 0 {
		t.Fatal("no withdrawal happened")
	}
	if c.st.LatestExecutionPayloadHeader.BlobGasUsed == 0 {
		t.Fatal("deneb header not cached")
	}
	if c.st.Balances[5] <= 32e9 {
		t.Fatal("a fully participating validator must have earned rewards")
	}
	for i, sc := range c.st.InactivityScores {
		if sc != 0 {
			t.Fatalf("inactivity score of %d is %d", i, sc)
		}
	}
}

func TestFailedTransitionLeavesStateUntouched(t *testing.T) {
	spec := testSpec()
	c := newChain(t, spec, 64, 64, nil)
	c.step(nil)
	c.step(nil)
	before := c.st.Copy()
	adv := c.st.Copy()
	mustNoErr(t, ProcessSlots(spec, adv, c.st.Slot+1), "advance")
	atts := makeAttestations(t, spec, c.keys, adv, c.st.Slot, nil)
	signed := produceBlock(t, spec, c.keys, c.st, c.st.Slot+1, &blockOps{attestations: atts}).(*phase0.SignedBeaconBlock)

	bad := *signed
	bad.Message.StateRoot[0] ^= 1
	if err := StateTransition(spec, c.st, &bad, true); err == nil {
		t.Fatal("a block with a wrong state root (and thus wrong signature) must fail")
	}
	if d := Diff(before, c.st); d != "" {
		t.Fatalf("state changed by a failed transition: %s", d)
	}
	// without validation the same block passes
	cp := c.st.Copy()
	mustNoErr(t, StateTransition(spec, cp, &bad, false), "StateTransition(validate=false)")

	bad = *signed
	bad.Signature[5] ^= 1
	if err := StateTransition(spec, c.st, &bad, true); err == nil {
		t.Fatal("a block with a corrupted signature must fail")
	}
	bad = *signed
	bad.Message.Body.RandaoReveal = signed.Signature
	if err := StateTransition(spec, c.st, &bad, false); err == nil || !strings.Contains(err.Error(), "randao") {
		t.Fatalf("a block with a wrong randao reveal must fail, got %v", err)
	}
	bad = *signed
	bad.Message.ProposerIndex++
	if err := StateTransition(spec, c.st, &bad, false); err == nil {
		t.Fatal("a block with a wrong proposer must fail")
	}
	bad = *signed
	bad.Message.ParentRoot[0] ^= 1
	if err := StateTransition(spec, c.st, &bad, false); err == nil {
		t.Fatal("a block with a wrong parent must fail")
	}
	// malformed bitlist in an attestation: an error, not a panic
	bad = *signed
	bad.Message.Body.Attestations = append(phase0.Attestations{}, signed.Message.Body.Attestations...)
	bad.Message.Body.Attestations[0].AggregationBits = []byte{}
	if err := StateTransition(spec, c.st, &bad, false); err == nil || strings.Contains(err.Error(), "model panic") {
		t.Fatalf("malformed bitlist: %v", err)
	}
	if d := Diff(before, c.st); d != "" {
		t.Fatalf("state changed by failed transitions: %s", d)
	}
	mustNoErr(t, StateTransition(spec, c.st, signed, true), "the good block")
}

func TestOperations(t *testing.T) {
	spec := testSpec()
	spec.ALTAIR_FORK_EPOCH, spec.BELLATRIX_FORK_EPOCH, spec.CAPELLA_FORK_EPOCH, spec.DENEB_FORK_EPOCH = 1, 1, 1, 3
	spec.SHARD_COMMITTEE_PERIOD = 1
	c := newChain(t, spec, 64, 70, map[int][20]byte{7: {0x77}})
	spe := uint64(spec.SLOTS_PER_EPOCH)
	for c.st.Slot < spe+2 {
		c.step(nil)
	}
	if c.st.Fork != Capella {
		t.Fatalf("fork = %s", c.st.Fork)
	}
	st := c.st

	// --- deposits: make three deposits outstanding by editing eth1_data directly
	newDeps := []common.DepositData{
		makeDepositData(spec, c.keys.sks[64], c.keys.pubs[64], blsCredentials(c.keys.wdPubs[64]), 32e9, true),
		makeDepositData(spec, c.keys.sks[65], c.keys.pubs[65], blsCredentials(c.keys.wdPubs[65]), 32e9, false), // bad PoP
		makeDepositData(spec, c.keys.sks[10], c.keys.pubs[10], [32]byte{}, 2e9, false),                         // top-up
	}
	for i := range newDeps {
		c.dt.push(&newDeps[i])
	}
	total := len(c.dt.leaves)
	st.Eth1Data.DepositCount = common.DepositIndex(total)
	st.Eth1Data.DepositRoot = c.dt.root(total)
	deposits := phase0.Deposits{}
	for i := range newDeps {
		deposits = append(deposits, common.Deposit{Data: newDeps[i], Proof: c.dt.proof(64+i, total)})
	}
	// a block without the outstanding deposits is invalid
	adv := st.Copy()
	mustNoErr(t, ProcessSlots(spec, adv, st.Slot+1), "advance")
	atts := makeAttestations(t, spec, c.keys, adv, st.Slot, nil)
	func() {
		defer func() { recover() }()
		ft := &fatalCatcher{TB: t}
		produceBlock(ft, spec, c.keys, st, st.Slot+1, &blockOps{attestations: atts})
		if !ft.failed {
			t.Fatal("a block omitting outstanding deposits must be rejected")
		}
	}()

	// --- a proposer slashing of validator 20, an attester slashing of 21 and 22, an exit of 23, a bls change of 24
	mkHeader := func(proposer uint64, graffiti byte) common.SignedBeaconBlockHeader {
		h := common.BeaconBlockHeader{Slot: common.Slot(st.Slot), ProposerIndex: common.ValidatorIndex(proposer), BodyRoot: [32]byte{graffiti}}
		dom := Domain(spec, st, domainBeaconProposer, CurrentEpoch(spec, st))
		return common.SignedBeaconBlockHeader{Message: h, Signature: signWith(c.keys.sks[proposer], SigningRoot(h.HashTreeRoot(tree.GetHashFn()), dom))}
	}
	ps := phase0.ProposerSlashing{SignedHeader1: mkHeader(20, 1), SignedHeader2: mkHeader(20, 2)}
	mkIndexed := func(root byte, indices ...uint64) phase0.IndexedAttestation {
		data := phase0.AttestationData{Slot: common.Slot(st.Slot), BeaconBlockRoot: [32]byte{root}, Target: common.Checkpoint{Epoch: common.Epoch(CurrentEpoch(spec, st))}}
		dom := Domain(spec, st, domainBeaconAttester, CurrentEpoch(spec, st))
		sr := SigningRoot(data.HashTreeRoot(tree.GetHashFn()), dom)
		sigs := [][96]byte{}
		ia := phase0.IndexedAttestation{Data: data}
		for _, i := range indices {
			ia.AttestingIndices = append(ia.AttestingIndices, common.ValidatorIndex(i))
			sigs = append(sigs, signWith(c.keys.sks[i], sr))
		}
		ia.Signature = aggregateSigs(sigs)
		return ia
	}
	as := phase0.AttesterSlashing{Attestation1: mkIndexed(1, 21, 22, 30), Attestation2: mkIndexed(2, 21, 22, 31)}
	exit := phase0.VoluntaryExit{Epoch: common.Epoch(CurrentEpoch(spec, st)), ValidatorIndex: 23}
	exitDom := Domain(spec, st, domainVoluntaryExit, CurrentEpoch(spec, st))
	signedExit := phase0.SignedVoluntaryExit{Message: exit, Signature: signWith(c.keys.sks[23], SigningRoot(exit.HashTreeRoot(tree.GetHashFn()), exitDom))}
	change := common.BLSToExecutionChange{ValidatorIndex: 24, FromBLSPubKey: c.keys.wdPubs[24], ToExecutionAddress: common.Eth1Address{0x24}}
	changeDom := ComputeDomain(domainBLSToExecutionChange, [4]byte(spec.GENESIS_FORK_VERSION), st.GenesisValidatorsRoot)
	signedChange := common.SignedBLSToExecutionChange{BLSToExecutionChange: change,
		Signature: signWith(c.keys.wdSks[24], SigningRoot(change.HashTreeRoot(tree.GetHashFn()), changeDom))}

	pre := st.Copy()
	c.step(&blockOps{attestations: atts, deposits: deposits, proposerSlashings: phase0.ProposerSlashings{ps},
		attesterSlashings: phase0.AttesterSlashings{as}, voluntaryExits: phase0.VoluntaryExits{signedExit},
		blsChanges: common.SignedBLSToExecutionChanges{signedChange}})
	st = c.st
	if len(st.Validators) != 65 || st.Validators[64].Pubkey != c.keys.pubs[64] || len(st.InactivityScores) != 65 || len(st.CurrentEpochParticipation) != 65 {
		t.Fatalf("deposit of a new validator: %d validators", len(st.Validators))
	}
	if st.Eth1DepositIndex != 67 {
		t.Fatalf("eth1 deposit index %d", st.Eth1DepositIndex)
	}
	if st.Balances[10] < pre.Balances[10]+2e9 {
		t.Fatal("top-up not credited")
	}
	for _, i := range []int{20, 21, 22} {
		if !st.Validators[i].Slashed || st.Validators[i].ExitEpoch == farFutureEpoch {
			t.Fatalf("validator %d not slashed", i)
		}
	}
	if st.Validators[30].Slashed || st.Validators[31].Slashed {
		t.Fatal("only the intersection is slashed")
	}
	if st.Slashings[CurrentEpoch(spec, st)%uint64(len(st.Slashings))] != 96e9 {
		t.Fatalf("slashings vector: %d", st.Slashings[CurrentEpoch(spec, st)%uint64(len(st.Slashings))])
	}
	if st.Validators[23].ExitEpoch == farFutureEpoch || st.Validators[23].Slashed {
		t.Fatal("voluntary exit not initiated")
	}
	// exit queue: churn limit is 2 (minimal), 4 exits in one block -> two different exit epochs
	e0 := CurrentEpoch(spec, st) + 1 + uint64(spec.MAX_SEED_LOOKAHEAD)
	exits := map[uint64]int{}
	for _, i := range []int{20, 21, 22, 23} {
		exits[st.Validators[i].ExitEpoch]++
	}
	if exits[e0] != 2 || exits[e0+1] != 2 {
		t.Fatalf("exit queue: %v (first exit epoch %d)", exits, e0)
	}
	if st.Validators[24].WithdrawalCredentials != eth1Credentials([20]byte{0x24}) {
		t.Fatal("bls_to_execution_change not applied")
	}
	// the same operations again are all invalid
	for name, ops := range map[string]*blockOps{
		"proposer slashing": {proposerSlashings: phase0.ProposerSlashings{ps}},
		"attester slashing": {attesterSlashings: phase0.AttesterSlashings{as}},
		"voluntary exit":    {voluntaryExits: phase0.VoluntaryExits{signedExit}},
		"bls change":        {blsChanges: common.SignedBLSToExecutionChanges{signedChange}},
	} {
		func() {
			defer func() { recover() }()
			ft := &fatalCatcher{TB: t}
			produceBlock(ft, spec, c.keys, st, st.Slot+1, ops)
			if !ft.failed {
				t.Fatalf("replayed %s must be rejected", name)
			}
		}()
	}
	// keep going through the deneb fork; slashed validators do not attest any more
	for c.st.Slot < 4*spe {
		c.step(&blockOps{syncParticipation: func(pos int) bool { return pos%5 != 0 }})
	}
	if c.st.Fork != Deneb {
		t.Fatal("expected deneb")
	}
	// deneb: an exit signed under the capella fork version is valid, one under the deneb version is not
	st = c.st
	exit = phase0.VoluntaryExit{Epoch: common.Epoch(CurrentEpoch(spec, st)), ValidatorIndex: 40}
	capDom := ComputeDomain(domainVoluntaryExit, [4]byte(spec.CAPELLA_FORK_VERSION), st.GenesisValidatorsRoot)
	denebDom := ComputeDomain(domainVoluntaryExit, [4]byte(spec.DENEB_FORK_VERSION), st.GenesisValidatorsRoot)
	if Domain(spec, st, domainVoluntaryExit, CurrentEpoch(spec, st)) != denebDom {
		t.Fatal("get_domain in deneb should use the deneb version")
	}
	okExit := phase0.SignedVoluntaryExit{Message: exit, Signature: signWith(c.keys.sks[40], SigningRoot(exit.HashTreeRoot(tree.GetHashFn()), capDom))}
	badExit := phase0.SignedVoluntaryExit{Message: exit, Signature: signWith(c.keys.sks[40], SigningRoot(exit.HashTreeRoot(tree.GetHashFn()), denebDom))}
	func() {
		defer func() { recover() }()
		ft := &fatalCatcher{TB: t}
		produceBlock(ft, spec, c.keys, st, st.Slot+1, &blockOps{voluntaryExits: phase0.VoluntaryExits{badExit}})
		if !ft.failed {
			t.Fatal("EIP-7044: exit signed with the deneb domain must be rejected")
		}
	}()
	c.step(&blockOps{voluntaryExits: phase0.VoluntaryExits{okExit}})
	if c.st.Validators[40].ExitEpoch == farFutureEpoch {
		t.Fatal("EIP-7044 exit not applied")
	}
	// EIP-7045: an attestation from two epochs... (previous epoch, older than SLOTS_PER_EPOCH slots) is includable in deneb
	st = c.st
	oldSlot := (CurrentEpoch(spec, st) - 1) * spe // first slot of the previous epoch
	target := (CurrentEpoch(spec, st)+1)*spe - 1  // the last slot of the epoch, or an earlier one with an unslashed proposer
	for {
		adv = st.Copy()
		mustNoErr(t, ProcessSlots(spec, adv, target), "advance towards the last slot of the epoch")
		proposer, err := BeaconProposerIndex(spec, adv)
		mustNoErr(t, err, "proposer")
		if !adv.Validators[proposer].Slashed {
			break
		}
		target--
	}
	if adv.Slot-oldSlot <= spe {
		t.Fatal("test setup")
	}
	old := makeAttestations(t, spec, c.keys, adv, oldSlot, func(v uint64) bool { return !adv.Validators[v].Slashed && v%2 == 0 })
	tmp := st.Copy()
	signed := produceBlock(t, spec, c.keys, tmp, adv.Slot, &blockOps{attestations: old})
	mustNoErr(t, StateTransition(spec, tmp, signed, true), "EIP-7045 old attestation")
}

// fatalCatcher turns t.Fatalf of helpers into a flag (used to assert that block production fails).
type fatalCatcher struct {
	testing.TB
	failed bool
}

func (f *fatalCatcher) Fatalf(format string, args ...interface{}) {
	f.failed = true
	panic("fatal")
}
func (f *fatalCatcher) Helper() {}

// Mutated blocks (byte flips in the SSZ encoding, re-decoded with the data structs' own decoder) must give
// an error or succeed, never a "model panic", and must never modify the state on failure.
func TestMutatedBlocksNeverPanic(t *testing.T) {
	spec := testSpec()
	spec.ALTAIR_FORK_EPOCH, spec.BELLATRIX_FORK_EPOCH, spec.CAPELLA_FORK_EPOCH, spec.DENEB_FORK_EPOCH = 1, 1, 1, 1
	c := newChain(t, spec, 64, 64, map[int][20]byte{1: {1}})
	spe := uint64(spec.SLOTS_PER_EPOCH)
	for c.st.Slot < spe+3 {
		c.step(nil)
	}
	adv := c.st.Copy()
	mustNoErr(t, ProcessSlots(spec, adv, c.st.Slot+1), "advance")
	atts := makeAttestations(t, spec, c.keys, adv, c.st.Slot, nil)
	signed := produceBlock(t, spec, c.keys, c.st, c.st.Slot+1, &blockOps{attestations: atts, blobCommitments: 2}).(*deneb.SignedBeaconBlock)
	var buf bytes.Buffer
	mustNoErr(t, signed.Serialize(spec, codec.NewEncodingWriter(&buf)), "serialize")
	enc := buf.Bytes()
	before := c.st.Copy()
	rng := uint64(0x9e3779b97f4a7c15)
	next := func() uint64 { rng ^= rng << 13; rng ^= rng >> 7; rng ^= rng << 17; return rng }
	decoded, applied := 0, 0
	for i := 0; i < 120; i++ {
		mut := append([]byte{}, enc...)
		for k := uint64(0); k <= next()%3; k++ {
			mut[next()%uint64(len(mut))] ^= byte(1 << (next() % 8))
		}
		var b deneb.SignedBeaconBlock
		if err := b.Deserialize(spec, codec.NewDecodingReader(bytes.NewReader(mut), uint64(len(mut)))); err != nil {
			continue
		}
		decoded++
		for _, validate := range []bool{true, false} {
			st := c.st.Copy()
			err := StateTransition(spec, st, &b, validate)
			if err != nil {
				if strings.Contains(err.Error(), "model panic") {
					t.Fatalf("mutation %d: %v", i, err)
				}
				if d := Diff(before, st); d != "" {
					t.Fatalf("mutation %d: failed transition modified the state: %s", i, d)
				}
			} else {
				applied++
			}
		}
	}
	if decoded < 50 {
		t.Fatalf("only %d mutations decoded", decoded)
	}
	t.Logf("%d mutations decoded, %d transitions succeeded (validate=false tolerates state-root/signature flips)", decoded, applied)
}
