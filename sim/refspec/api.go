package refspec

import (
	"github.com/protolambda/zrnt/eth2/beacon/common"
)

// mutate runs f on a deep copy of s and commits the result only if f succeeds, so that a failed
// transition leaves *s untouched. Spec failures and model panics are both turned into errors.
func mutate(spec *common.Spec, s *State, f func(m *machine)) (err error) {
	defer catch(&err)
	must(s != nil, "nil state")
	work := s.Copy()
	m := newMachine(spec, work)
	f(m)
	*s = *work
	return nil
}

// ProcessSlots is the spec's process_slots including per-slot caching, process_epoch of the state's
// fork, and the in-place upgrade_to_<fork> when the slot reaches a fork epoch start.
func ProcessSlots(spec *common.Spec, s *State, slot uint64) error {
	return mutate(spec, s, func(m *machine) { m.processSlots(slot) })
}

// ProcessBlock is the spec's process_block for the state's fork. block is a pointer to the fork's
// unsigned block struct.
func ProcessBlock(spec *common.Spec, s *State, block interface{}) error {
	return mutate(spec, s, func(m *machine) { m.processBlock(m.viewBlock(block)) })
}

// StateTransition is the spec's state_transition(state, signed_block, validate_result).
func StateTransition(spec *common.Spec, s *State, signed interface{}, validate bool) error {
	return mutate(spec, s, func(m *machine) { m.stateTransition(signed, validate) })
}

// InitializeFromEth1 is initialize_beacon_state_from_eth1 (phase0).
func InitializeFromEth1(spec *common.Spec, eth1BlockHash [32]byte, eth1Timestamp uint64, deposits []common.Deposit) (out *State, err error) {
	defer catch(&err)
	return initializeBeaconStateFromEth1(spec, eth1BlockHash, eth1Timestamp, deposits), nil
}

// IsValidGenesisState is is_valid_genesis_state.
func IsValidGenesisState(spec *common.Spec, s *State) (ok bool) {
	var err error
	defer func() {
		if err != nil {
			ok = false
		}
	}()
	defer catch(&err)
	return newMachine(spec, s).isValidGenesisState()
}

// readonly runs f against the state without the possibility of mutating the caller's view of
// errors: all failures are returned.
func readonly(spec *common.Spec, s *State, f func(m *machine)) (err error) {
	defer catch(&err)
	f(newMachine(spec, s))
	return nil
}

// CurrentEpoch is get_current_epoch (0 on a malformed spec).
func CurrentEpoch(spec *common.Spec, s *State) (out uint64) {
	_ = readonly(spec, s, func(m *machine) { out = m.getCurrentEpoch() })
	return out
}

// ActiveValidatorIndices is get_active_validator_indices.
func ActiveValidatorIndices(spec *common.Spec, s *State, epoch uint64) (out []uint64) {
	_ = readonly(spec, s, func(m *machine) { out = m.getActiveValidatorIndices(epoch) })
	return out
}

// CommitteeCountPerSlot is get_committee_count_per_slot.
func CommitteeCountPerSlot(spec *common.Spec, s *State, epoch uint64) (out uint64) {
	_ = readonly(spec, s, func(m *machine) { out = m.getCommitteeCountPerSlot(epoch) })
	return out
}

// BeaconCommittee is get_beacon_committee; the epoch of slot must be within [current-1, current+1]
// and index must be a valid committee index of that slot.
func BeaconCommittee(spec *common.Spec, s *State, slot, index uint64) (out []uint64, err error) {
	err = readonly(spec, s, func(m *machine) {
		epoch := m.computeEpochAtSlot(slot)
		current := m.getCurrentEpoch()
		must(add(epoch, 1) >= current && epoch <= add(current, 1), "epoch %d of slot %d is not within one epoch of the current epoch %d", epoch, slot, current)
		must(index < m.getCommitteeCountPerSlot(epoch), "committee index %d out of range", index)
		out = m.getBeaconCommittee(slot, index)
	})
	return out, err
}

// BeaconProposerIndex is get_beacon_proposer_index (for s.Slot).
func BeaconProposerIndex(spec *common.Spec, s *State) (out uint64, err error) {
	err = readonly(spec, s, func(m *machine) { out = m.getBeaconProposerIndex() })
	return out, err
}

// ProposerIndexAtSlot is the proposer of a slot within the current epoch of s: the epoch seed
// mixed with that slot, fed to compute_proposer_index over the active set of the current epoch.
func ProposerIndexAtSlot(spec *common.Spec, s *State, slot uint64) (out uint64, err error) {
	err = readonly(spec, s, func(m *machine) { out = m.proposerIndexAtSlot(slot) })
	return out, err
}

// NextSyncCommitteeIndices is get_next_sync_committee_indices.
func NextSyncCommitteeIndices(spec *common.Spec, s *State) (out []uint64, err error) {
	err = readonly(spec, s, func(m *machine) { out = m.getNextSyncCommitteeIndices() })
	return out, err
}

// TotalActiveBalance is get_total_active_balance (0 if it cannot be computed).
func TotalActiveBalance(spec *common.Spec, s *State) (out uint64) {
	if err := readonly(spec, s, func(m *machine) { out = m.getTotalActiveBalance() }); err != nil {
		return 0
	}
	return out
}

// Domain is get_domain.
func Domain(spec *common.Spec, s *State, domainType [4]byte, epoch uint64) (out [32]byte) {
	_ = readonly(spec, s, func(m *machine) { out = m.getDomain(domainType, epoch) })
	return out
}

// ComputeDomain is compute_domain.
func ComputeDomain(domainType [4]byte, forkVersion [4]byte, genesisValidatorsRoot [32]byte) [32]byte {
	return computeDomain(domainType, forkVersion, genesisValidatorsRoot)
}

// SigningRoot is compute_signing_root, given hash_tree_root(object).
func SigningRoot(objectRoot [32]byte, domain [32]byte) [32]byte {
	return computeSigningRoot(objectRoot, domain)
}

// ExpectedWithdrawals is get_expected_withdrawals (capella+).
func ExpectedWithdrawals(spec *common.Spec, s *State) (out []common.Withdrawal, err error) {
	err = readonly(spec, s, func(m *machine) {
		must(m.s.Fork >= Capella, "get_expected_withdrawals needs a capella+ state, got %s", m.s.Fork)
		out = m.getExpectedWithdrawals()
	})
	return out, err
}

// ForkAtEpoch is the model's fork-schedule function: the latest fork whose fork epoch is <= epoch.
func ForkAtEpoch(spec *common.Spec, epoch uint64) (out Fork) {
	var err error
	defer catch(&err)
	p := loadParams(spec)
	switch {
	case p.DenebForkEpoch != farFutureEpoch && epoch >= p.DenebForkEpoch:
		return Deneb
	case p.CapellaForkEpoch != farFutureEpoch && epoch >= p.CapellaForkEpoch:
		return Capella
	case p.BellatrixForkEpoch != farFutureEpoch && epoch >= p.BellatrixForkEpoch:
		return Bellatrix
	case p.AltairForkEpoch != farFutureEpoch && epoch >= p.AltairForkEpoch:
		return Altair
	default:
		return Phase0
	}
}

// ForkVersionOf returns the fork version constant of a fork.
func ForkVersionOf(spec *common.Spec, f Fork) (out [4]byte) {
	var err error
	defer catch(&err)
	p := loadParams(spec)
	switch f {
	case Phase0:
		return p.GenesisForkVersion
	case Altair:
		return p.AltairForkVersion
	case Bellatrix:
		return p.BellatrixForkVersion
	case Capella:
		return p.CapellaForkVersion
	case Deneb:
		return p.DenebForkVersion
	}
	return [4]byte{}
}
