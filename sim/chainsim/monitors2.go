package chainsim

import (
	"verif/sim/codecsim"
	"bytes"
	"context"
	"crypto/sha256"
	"encoding/json"
	"errors"
	"fmt"
	"io"
	"reflect"
	"strings"

	"github.com/protolambda/zrnt/eth2/beacon"
	"github.com/protolambda/zrnt/eth2/beacon/altair"
	"github.com/protolambda/zrnt/eth2/beacon/bellatrix"
	"github.com/protolambda/zrnt/eth2/beacon/capella"
	"github.com/protolambda/zrnt/eth2/beacon/common"
	"github.com/protolambda/zrnt/eth2/beacon/deneb"
	"github.com/protolambda/zrnt/eth2/beacon/electra"
	"github.com/protolambda/zrnt/eth2/beacon/phase0"
	"github.com/protolambda/ztyp/codec"
	"github.com/protolambda/ztyp/tree"
	"github.com/protolambda/ztyp/view"
	"gopkg.in/yaml.v3"
)

// ---------- C18: cancellation points and engine verdicts, enumerated ----------

func (s *sim) engine() *scriptedEngine { return s.w.spec.ExecutionEngine.(*scriptedEngine) }

// faultEnumerate: for the transition parent -> block, enumerate EVERY context poll
// (cancel from poll k on) and EVERY engine call x {invalid, error}.
func (s *sim) faultEnumerate(parent *stateBox, b *blockRec, env *common.BeaconBlockEnvelope) {
	w := s.w
	eng := s.engine()
	for _, validate := range []bool{true, false} {
		// undisturbed run with the counting context and the recording engine
		box, _ := parent.copy()
		ctx := newCountingCtx(-1)
		eng.reset()
		var err error
		if p := guard(func() { err = common.StateTransition(ctx, w.spec, box.epc, box.st, env, validate) }); p != nil {
			s.viol("C18", "panic/undisturbed/"+p.frame, p.val)
			return
		}
		if err != nil {
			s.viol("C18", "undisturbed-run-differs", fmt.Sprintf("block at slot %d is accepted with context.Background() but refused with a counting context: %v", b.slot, err))
			return
		}
		if r := box.st.HashTreeRoot(tree.GetHashFn()); r != b.env.StateRoot {
			s.viol("C18", "undisturbed-run-differs", fmt.Sprintf("block at slot %d: post-state root differs under a counting context and recording engine", b.slot))
			return
		}
		polls := ctx.polls
		calls := append([]engineCall(nil), eng.calls...)
		s.res.Stat("c18_transitions", 1)
		if validate {
			s.checkEngineArgs(b, calls)
			if s.stop {
				return
			}
		}
		// every cancellation point (quick tier: all points for a third of the transitions, else a sample)
		stride := 1
		if s.opt.Tier != "thorough" && !s.frng.Chance(1, 3) && polls > 12 {
			stride = polls/8 + 1
		}
		for k := 0; k < polls; k += stride {
			box, _ := parent.copy()
			c := newCountingCtx(k)
			eng.reset()
			var err error
			if p := guard(func() { err = common.StateTransition(c, w.spec, box.epc, box.st, env, validate) }); p != nil {
				s.viol("C18", "panic/cancelled/"+p.frame, p.val)
				return
			}
			s.res.Stat("fault_ctx_cancel", 1)
			if err == nil {
				s.viol("C18", fmt.Sprintf("cancellation-swallowed/validate=%v", validate), fmt.Sprintf("block at slot %d (%s, kinds %b): context cancelled from poll %d of %d on, StateTransition(validateResult=%v) still reported success", b.slot, forkName(box.st), b.kinds, k, polls, validate))
				return
			}
		}
		// every engine call x verdict
		for e := range calls {
			for _, verdict := range []string{"invalid", "error", "timeout", "valid+error"} {
				box, _ := parent.copy()
				eng.reset()
				eng.armed, eng.failAt, eng.verdict = true, e, verdict
				var err error
				if p := guard(func() {
					err = common.StateTransition(context.Background(), w.spec, box.epc, box.st, env, validate)
				}); p != nil {
					s.viol("C18", "panic/engine-fault/"+p.frame, p.val)
					return
				}
				s.res.Stat("fault_engine_"+verdict, 1)
				if err == nil {
					s.viol("C18", "engine-verdict-swallowed/"+calls[e].Method+"/"+verdict, fmt.Sprintf("block at slot %d (%s): engine answered %q to its %s query (call %d of %d), the transition still reported success", b.slot, forkName(box.st), verdict, calls[e].Method, e, len(calls)))
					eng.reset()
					return
				}
			}
		}
		eng.reset()
	}
	// ProcessSlots alone (empty slots up to the block's slot and one epoch beyond)
	box, _ := parent.copy()
	cur, _ := box.st.Slot()
	target := common.Slot(b.slot) + common.Slot(s.cfg.SPE)
	ctx := newCountingCtx(-1)
	if err := common.ProcessSlots(ctx, w.spec, box.epc, box.st, target); err != nil {
		if strings.Contains(err.Error(), "no active validators") || w.activeSetRunsOutOf(parent.st, uint64(target)) {
			// one epoch beyond the block every validator has exited: the chain (of the specification as well) ends there
			s.res.Stat("c18_slots_beyond_the_end_of_the_chain", 1)
			return
		}
		s.viol("C18", "undisturbed-run-differs", fmt.Sprintf("ProcessSlots %d -> %d: %v", cur, target, err))
		return
	}
	for k := 0; k < ctx.polls; k++ {
		box, _ := parent.copy()
		c := newCountingCtx(k)
		var err error
		if p := guard(func() { err = common.ProcessSlots(c, w.spec, box.epc, box.st, target) }); p != nil {
			s.viol("C18", "panic/cancelled-slots/"+p.frame, p.val)
			return
		}
		s.res.Stat("fault_ctx_cancel", 1)
		if err == nil {
			s.viol("C18", "cancellation-swallowed/process-slots", fmt.Sprintf("ProcessSlots %d -> %d (%s): context cancelled from poll %d of %d on, still reported success", cur, target, forkName(box.st), k, ctx.polls))
			return
		}
	}
}

// the engine must be shown exactly what the specification prescribes
func (s *sim) checkEngineArgs(b *blockRec, calls []engineCall) {
	var blockHash, parentHash common.Root
	var ts uint64
	nw := 0
	var commitments []common.KZGCommitment
	hasPayload := true
	switch body := b.env.Body.(type) {
	case *bellatrix.BeaconBlockBody:
		blockHash, parentHash, ts = body.ExecutionPayload.BlockHash, body.ExecutionPayload.ParentHash, uint64(body.ExecutionPayload.Timestamp)
		if b.kinds&kPayload == 0 {
			hasPayload = false // before the merge: an empty payload, execution is not enabled
		}
	case *capella.BeaconBlockBody:
		blockHash, parentHash, ts, nw = body.ExecutionPayload.BlockHash, body.ExecutionPayload.ParentHash, uint64(body.ExecutionPayload.Timestamp), len(body.ExecutionPayload.Withdrawals)
	case *deneb.BeaconBlockBody:
		blockHash, parentHash, ts, nw = body.ExecutionPayload.BlockHash, body.ExecutionPayload.ParentHash, uint64(body.ExecutionPayload.Timestamp), len(body.ExecutionPayload.Withdrawals)
		commitments = body.BlobKZGCommitments
	default:
		hasPayload = false
	}
	if !hasPayload {
		if len(calls) != 0 {
			s.viol("C18", "engine-args/unexpected-call", fmt.Sprintf("block at slot %d has no payload but the engine was queried %d time(s)", b.slot, len(calls)))
		}
		return
	}
	notified := false
	for _, c := range calls {
		if c.BlockHash != blockHash {
			s.viol("C18", "engine-args/payload", fmt.Sprintf("slot %d: engine %s query shows block hash %s, the body's payload has %s", b.slot, c.Method, c.BlockHash, blockHash))
			return
		}
		switch c.Method {
		case "notify", "blockhash":
			if c.ParentHash != parentHash || c.Timestamp != ts || c.NWithdraw != nw {
				s.viol("C18", "engine-args/payload", fmt.Sprintf("slot %d: engine %s query shows another payload than the block body carries", b.slot, c.Method))
				return
			}
			if _, isDeneb := b.env.Body.(*deneb.BeaconBlockBody); isDeneb && c.ParentRoot != b.parent {
				s.viol("C18", "engine-args/parent-beacon-root", fmt.Sprintf("slot %d: engine %s query shows parent beacon block root %s, the block's parent root is %s", b.slot, c.Method, c.ParentRoot, b.parent))
				return
			}
			if c.Method == "notify" {
				notified = true
			}
		case "versioned":
			if len(c.Hashes) != len(commitments) {
				s.viol("C18", "engine-args/versioned-hashes", fmt.Sprintf("slot %d: %d versioned hashes shown for %d commitments", b.slot, len(c.Hashes), len(commitments)))
				return
			}
			for i, cm := range commitments {
				h := sha256.Sum256(cm[:])
				h[0] = 0x01
				if common.Hash32(h) != c.Hashes[i] {
					s.viol("C18", "engine-args/versioned-hashes", fmt.Sprintf("slot %d: versioned hash %d is %s, expected 0x01||sha256(commitment)[1:] = %x", b.slot, i, c.Hashes[i], h))
					return
				}
			}
		}
	}
	if !notified {
		s.viol("C18", "engine-args/never-notified", fmt.Sprintf("block at slot %d (%T) carries a payload but the engine never received it", b.slot, b.env.Body))
	}
	if _, isDeneb := b.env.Body.(*deneb.BeaconBlockBody); isDeneb {
		seen := false
		for _, c := range calls {
			if c.Method == "versioned" {
				seen = true
			}
		}
		if !seen {
			s.viol("C18", "engine-args/versioned-hashes-not-checked", fmt.Sprintf("deneb block at slot %d: the engine was never asked about the blob versioned hashes (%d commitments)", b.slot, len(commitments)))
		}
	}
}

// ---------- C04: what crosses a seam round-trips; faulty streams surface ----------

type shortReader struct {
	r     io.Reader
	n     int
	errAt int
	read  int
}

func (s *shortReader) Read(p []byte) (int, error) {
	if s.errAt >= 0 && s.read >= s.errAt {
		return 0, errors.New("injected read error")
	}
	if len(p) > s.n {
		p = p[:s.n]
	}
	if s.errAt >= 0 && s.read+len(p) > s.errAt {
		p = p[:s.errAt-s.read]
		if len(p) == 0 {
			return 0, errors.New("injected read error")
		}
	}
	k, err := s.r.Read(p)
	s.read += k
	return k, err
}

type failWriter struct {
	n, failAt int
}

func (f *failWriter) Write(p []byte) (int, error) {
	if f.n+len(p) > f.failAt {
		k := f.failAt - f.n
		if k < 0 {
			k = 0
		}
		f.n += k
		return k, errors.New("injected write error")
	}
	f.n += len(p)
	return len(p), nil
}

func (s *sim) checkBlockCodec(b *blockRec) {
	spec := s.w.spec
	s.res.Stat("seam_crossings_block", 1)
	if uint64(len(b.bytes)) != b.signed.ByteLength(spec) {
		s.viol("C04", "block/byte-length", fmt.Sprintf("%T at slot %d: ByteLength() = %d, Serialize wrote %d bytes", b.signed, b.slot, b.signed.ByteLength(spec), len(b.bytes)))
		return
	}
	if fl := b.signed.FixedLength(spec); fl != 0 {
		s.viol("C04", "block/fixed-length", fmt.Sprintf("%T is variable-size but FixedLength() = %d", b.signed, fl))
		return
	}
	alloc, err := s.w.dec.BlockAllocator(b.digest)
	if err != nil {
		s.viol("C14", "block-allocator", fmt.Sprintf("no allocator for digest %s of the block at slot %d: %v", b.digest, b.slot, err))
		return
	}
	fresh := func() common.SpecObj { return alloc().(common.SpecObj) }
	d1 := fresh()
	if reflect.TypeOf(d1) != reflect.TypeOf(b.signed) {
		s.viol("C14", "block-allocator-type", fmt.Sprintf("digest of fork at slot %d allocates %T, the block is %T", b.slot, d1, b.signed))
		return
	}
	if err := d1.Deserialize(spec, codec.NewDecodingReader(bytes.NewReader(b.bytes), uint64(len(b.bytes)))); err != nil {
		s.viol("C04", "block/decode-own-bytes", err.Error())
		return
	}
	if !bytes.Equal(serObj(spec, d1), b.bytes) || d1.HashTreeRoot(spec, tree.GetHashFn()) != b.signed.HashTreeRoot(spec, tree.GetHashFn()) {
		s.viol("C04", "block/roundtrip", fmt.Sprintf("%T at slot %d: decode(encode(v)) encodes differently or has another root", b.signed, b.slot))
		return
	}
	// legal short reads change nothing
	d2 := fresh()
	if err := d2.Deserialize(spec, codec.NewDecodingReader(&shortReader{r: bytes.NewReader(b.bytes), n: 1 + s.frng.Intn(7), errAt: -1}, uint64(len(b.bytes)))); err != nil || !bytes.Equal(serObj(spec, d2), b.bytes) {
		s.viol("C04", "block/short-reads", fmt.Sprintf("%T at slot %d: decoding from a reader that returns few bytes per Read fails or differs: %v", b.signed, b.slot, err))
		return
	}
	s.res.Stat("fault_reader_short", 1)
	// a read error at any point surfaces as an error
	at := s.frng.Intn(len(b.bytes))
	d3 := fresh()
	if err := d3.Deserialize(spec, codec.NewDecodingReader(&shortReader{r: bytes.NewReader(b.bytes), n: 64, errAt: at}, uint64(len(b.bytes)))); err == nil {
		s.viol("C04", "block/read-error-swallowed", fmt.Sprintf("%T: reader failed at byte %d of %d, Deserialize returned nil", b.signed, at, len(b.bytes)))
		return
	}
	s.res.Stat("fault_reader_err", 1)
	// truncation (torn write / cut frame) is refused
	cut := s.frng.Intn(len(b.bytes))
	d4 := fresh()
	if err := d4.Deserialize(spec, codec.NewDecodingReader(bytes.NewReader(b.bytes[:cut]), uint64(cut))); err == nil {
		// a cut at an element boundary of the trailing list is the valid encoding of another value;
		// anything else that decodes is a truncated input that was not refused
		if !bytes.Equal(serObj(spec, d4), b.bytes[:cut]) {
			s.viol("C04", "block/truncated-accepted", fmt.Sprintf("%T: %d of %d bytes decoded without error although they are not a valid encoding", b.signed, cut, len(b.bytes)))
			return
		}
		s.res.Stat("truncation_at_element_boundary", 1)
	}
	s.res.Stat("fault_torn_frame", 1)
	// inconsistent first offset is refused (signed block: offset of the message = 4 + 96)
	bad := append([]byte(nil), b.bytes...)
	bad[0]++
	d5 := fresh()
	if err := d5.Deserialize(spec, codec.NewDecodingReader(bytes.NewReader(bad), uint64(len(bad)))); err == nil {
		s.viol("C04", "block/bad-first-offset-accepted", fmt.Sprintf("%T: first offset %d instead of 100 decoded without error", b.signed, bad[0]))
		return
	}
	s.res.Stat("fault_bad_offset", 1)
	// a failing writer surfaces as an error from Serialize
	fw := &failWriter{failAt: s.frng.Intn(len(b.bytes))}
	if err := b.signed.Serialize(spec, codec.NewEncodingWriter(fw)); err == nil {
		s.viol("C04", "block/write-error-swallowed", fmt.Sprintf("%T: writer failed after %d bytes, Serialize returned nil", b.signed, fw.failAt))
		return
	}
	s.res.Stat("fault_writer_err", 1)
	// JSON and YAML text forms (validator-client seam)
	js, err := json.Marshal(b.signed)
	if err != nil {
		s.viol("C04", "block/json-marshal", err.Error())
		return
	}
	d6 := fresh()
	if err := json.Unmarshal(js, d6); err != nil || !bytes.Equal(serObj(spec, d6), b.bytes) {
		s.viol("C04", "block/json-roundtrip", fmt.Sprintf("%T at slot %d: JSON round trip fails or changes the value: %v", b.signed, b.slot, err))
		return
	}
	ys, err := yaml.Marshal(b.signed)
	if err != nil {
		s.viol("C04", "block/yaml-marshal", err.Error())
		return
	}
	d7 := fresh()
	if err := yaml.Unmarshal(ys, d7); err != nil || !bytes.Equal(serObj(spec, d7), b.bytes) {
		s.viol("C04", "block/yaml-roundtrip", fmt.Sprintf("%T at slot %d: YAML round trip fails or changes the value: %v", b.signed, b.slot, err))
		return
	}
	// the tree-view type of the fork's signed block agrees with the struct form
	var bt view.TypeDef
	switch b.signed.(type) {
	case *phase0.SignedBeaconBlock:
		bt = phase0.SignedBeaconBlockType(spec)
	case *altair.SignedBeaconBlock:
		bt = altair.SignedBeaconBlockType(spec)
	case *bellatrix.SignedBeaconBlock:
		bt = bellatrix.SignedBeaconBlockType(spec)
	case *capella.SignedBeaconBlock:
		bt = capella.SignedBeaconBlockType(spec)
	case *deneb.SignedBeaconBlock:
		bt = deneb.SignedBeaconBlockType(spec)
	}
	if bt != nil {
		s.viewAgrees("block", bt, b.bytes, b.signed.HashTreeRoot(spec, tree.GetHashFn()), false)
		if s.stop {
			return
		}
	}
	// C05 for what rides the seam: root from the struct == root of the decoded copy == envelope root
	hdrRoot := b.env.BeaconBlockHeader.HashTreeRoot(tree.GetHashFn())
	if hdrRoot != b.root {
		s.viol("C05", "block/header-root-vs-envelope-root", fmt.Sprintf("slot %d", b.slot))
	}
}

// sszPlain: the spec-independent SSZ object interface (SpecObj values are wrapped with spec.Wrap).
type sszPlain interface {
	Serialize(w *codec.EncodingWriter) error
	Deserialize(dr *codec.DecodingReader) error
	ByteLength() uint64
	FixedLength() uint64
	HashTreeRoot(h tree.HashFn) common.Root
}

func serPlain(v sszPlain) []byte {
	var buf bytes.Buffer
	if err := v.Serialize(codec.NewEncodingWriter(&buf)); err != nil {
		return nil
	}
	return buf.Bytes()
}

// viewAgrees (C05/C04): the tree-view form of the same bytes has the same root, the same
// encoding and the same fixed/variable classification as the struct form.
func (s *sim) viewAgrees(what string, vt view.TypeDef, b []byte, structRoot common.Root, fixedSize bool) {
	var v view.View
	var err error
	if p := guard(func() { v, err = vt.Deserialize(codec.NewDecodingReader(bytes.NewReader(b), uint64(len(b)))) }); p != nil {
		s.viol("C05", what+"/view-decode-panic/"+p.frame, p.val)
		return
	}
	s.res.Stat("view_vs_struct_checks", 1)
	if err != nil {
		s.viol("C05", what+"/view-refuses-struct-bytes", fmt.Sprintf("the tree-view type %s does not decode the bytes the struct form wrote: %v", vt.String(), err))
		return
	}
	if r := v.HashTreeRoot(tree.GetHashFn()); r != structRoot {
		s.viol("C05", what+"/struct-root-vs-view-root", fmt.Sprintf("struct form %s, tree view %s (%s)", structRoot, r, vt.String()))
		return
	}
	var buf bytes.Buffer
	if err := v.Serialize(codec.NewEncodingWriter(&buf)); err != nil || !bytes.Equal(buf.Bytes(), b) {
		s.viol("C04", what+"/view-bytes-vs-struct-bytes", fmt.Sprintf("the tree view re-encodes to %d bytes, the struct form wrote %d (err %v)", buf.Len(), len(b), err))
		return
	}
	if vt.IsFixedByteLength() != fixedSize || (fixedSize && vt.TypeByteLength() != uint64(len(b))) {
		s.viol("C04", what+"/view-type-length", fmt.Sprintf("%s: IsFixedByteLength=%v TypeByteLength=%d for a %d-byte value (schema fixed-size=%v)", vt.String(), vt.IsFixedByteLength(), vt.TypeByteLength(), len(b), fixedSize))
	}
}

// wireCheck: a gossip message crosses the wire (C04/C05 at the gossip seam). v is the message,
// fresh() allocates an empty one of the same type, fixedSize says what the SSZ schema says.
func (s *sim) wireCheck(name string, v sszPlain, fresh func() sszPlain, fixedSize bool, vt view.TypeDef) {
	if s.stop {
		return
	}
	s.res.Stat("seam_crossings_"+name, 1)
	b := serPlain(v)
	if b == nil {
		s.viol("C04", "gossip/"+name+"/serialize-error", "Serialize of an honestly produced message failed")
		return
	}
	if uint64(len(b)) != v.ByteLength() {
		s.viol("C04", "gossip/"+name+"/byte-length", fmt.Sprintf("ByteLength() = %d, Serialize wrote %d bytes", v.ByteLength(), len(b)))
		return
	}
	if fl := v.FixedLength(); (fixedSize && fl != uint64(len(b))) || (!fixedSize && fl != 0) {
		s.viol("C04", "gossip/"+name+"/fixed-length", fmt.Sprintf("FixedLength() = %d for a %d-byte value of a type whose schema is fixed-size=%v", fl, len(b), fixedSize))
		return
	}
	d := fresh()
	if err := d.Deserialize(codec.NewDecodingReader(bytes.NewReader(b), uint64(len(b)))); err != nil {
		s.viol("C04", "gossip/"+name+"/decode-own-bytes", err.Error())
		return
	}
	if !bytes.Equal(serPlain(d), b) {
		s.viol("C04", "gossip/"+name+"/roundtrip", "decode(encode(v)) encodes differently")
		return
	}
	if d.HashTreeRoot(tree.GetHashFn()) != v.HashTreeRoot(tree.GetHashFn()) {
		s.viol("C05", "gossip/"+name+"/root-after-roundtrip", "the decoded copy has another hash-tree-root than the value that was sent")
		return
	}
	if vt != nil {
		s.viewAgrees("gossip/"+name, vt, b, v.HashTreeRoot(tree.GetHashFn()), fixedSize)
		if s.stop {
			return
		}
	}
	d2 := fresh()
	if err := d2.Deserialize(codec.NewDecodingReader(&shortReader{r: bytes.NewReader(b), n: 1 + s.frng.Intn(5), errAt: -1}, uint64(len(b)))); err != nil || !bytes.Equal(serPlain(d2), b) {
		s.viol("C04", "gossip/"+name+"/short-reads", fmt.Sprintf("decoding from a reader that returns few bytes per Read fails or differs: %v", err))
		return
	}
	if len(b) > 1 {
		cut := s.frng.Intn(len(b)-1) + 1
		d3 := fresh()
		if err := d3.Deserialize(codec.NewDecodingReader(bytes.NewReader(b[:cut]), uint64(cut))); err == nil && !bytes.Equal(serPlain(d3), b[:cut]) {
			s.viol("C04", "gossip/"+name+"/truncated-accepted", fmt.Sprintf("%d of %d bytes decoded without error although they are not a valid encoding", cut, len(b)))
			return
		}
	}
	js, err := json.Marshal(v)
	if err != nil {
		s.viol("C04", "gossip/"+name+"/json-marshal", err.Error())
		return
	}
	d4 := fresh()
	if err := json.Unmarshal(js, d4); err != nil || !bytes.Equal(serPlain(d4), b) {
		s.viol("C04", "gossip/"+name+"/json-roundtrip", fmt.Sprintf("JSON round trip fails or changes the value: %v", err))
		return
	}
}

// C14: the envelope check accepts the honest signature and refuses the same block signed under
// every OTHER fork version of the schedule (and under another chain's genesis validators root).
func (s *sim) checkEnvelopeSignature(b *blockRec, pre *stateBox) {
	w := s.w
	pub, ok := pre.epc.ValidatorPubkeyCache.Pubkey(b.env.ProposerIndex)
	ki := w.keyOf(pre.st, b.env.ProposerIndex)
	if !ok || ki < 0 {
		return
	}
	s.res.Stat("envelope_signature_checks", 1)
	if !b.env.VerifySignature(w.spec, w.gvr, b.env.ProposerIndex, pub) {
		s.viol("C14", "envelope-signature/honest-refused", fmt.Sprintf("block at slot %d (%s) signed under the version its slot implies does not verify through BeaconBlockEnvelope.VerifySignature", b.slot, forkName(b.post.st)))
		return
	}
	// the signed header of the signed block: the block's root, the envelope's header and the signature
	if sh, ok := b.signed.(interface {
		SignedHeader(spec *common.Spec) *common.SignedBeaconBlockHeader
	}); ok {
		h := sh.SignedHeader(w.spec)
		if h == nil || h.Message != b.env.BeaconBlockHeader || h.Signature != b.env.Signature || h.Message.HashTreeRoot(tree.GetHashFn()) != b.root {
			s.viol("C14", "signed-header-of-block", fmt.Sprintf("block at slot %d (%s): SignedHeader() is %+v, the envelope holds header %+v", b.slot, forkName(b.post.st), h, b.env.BeaconBlockHeader))
			return
		}
	}
	fidx := w.forkIndexAt(w.epochOf(b.slot))
	for f := 0; f < 5; f++ {
		if w.versionOfFork(f) == w.versionOfFork(fidx) {
			continue
		}
		bad := *b.env
		bad.Signature = w.keys.sign(ki, signingRoot(bad.BlockRoot, computeDomain(common.DOMAIN_BEACON_PROPOSER, w.versionOfFork(f), w.gvr)))
		if bad.VerifySignature(w.spec, w.gvr, bad.ProposerIndex, pub) {
			s.viol("C14", "envelope-signature/other-version-accepted", fmt.Sprintf("block at slot %d (fork #%d) signed under the version of fork #%d verifies through the envelope check", b.slot, fidx, f))
			return
		}
		// the digest of the other fork with the matching signature must not verify either
		bad.ForkDigest = w.digestOfFork(f)
		if bad.VerifySignature(w.spec, w.gvr, bad.ProposerIndex, pub) {
			s.viol("C14", "envelope-signature/other-version-accepted", fmt.Sprintf("block at slot %d (fork #%d) with digest and signature of fork #%d verifies through the envelope check", b.slot, fidx, f))
			return
		}
	}
	g := w.gvr
	g[5] ^= 1
	bad := *b.env
	bad.Signature = w.keys.sign(ki, signingRoot(bad.BlockRoot, computeDomain(common.DOMAIN_BEACON_PROPOSER, w.versionOfFork(fidx), g)))
	if bad.VerifySignature(w.spec, w.gvr, bad.ProposerIndex, pub) {
		s.viol("C14", "envelope-signature/other-chain-accepted", fmt.Sprintf("block at slot %d signed for another genesis validators root verifies", b.slot))
	}
}

// ---------- C15: accessors on reached states ----------

func (s *sim) rawOf(st common.BeaconState) interface{} {
	b := serializeState(st)
	dr := func() *codec.DecodingReader { return codec.NewDecodingReader(bytes.NewReader(b), uint64(len(b))) }
	switch forkIndexOfState(st) {
	case 0:
		var r phase0.BeaconState
		r.Deserialize(s.w.spec, dr())
		return &r
	case 1:
		var r altair.BeaconState
		r.Deserialize(s.w.spec, dr())
		return &r
	case 2:
		var r bellatrix.BeaconState
		r.Deserialize(s.w.spec, dr())
		return &r
	case 3:
		var r capella.BeaconState
		r.Deserialize(s.w.spec, dr())
		return &r
	case 4:
		var r deneb.BeaconState
		r.Deserialize(s.w.spec, dr())
		return &r
	case 5:
		var r electra.BeaconState
		r.Deserialize(s.w.spec, dr())
		return &r
	}
	return nil
}

// electraOf: an electra state holding the content of a deneb state, with generated values in the
// fields that electra adds (the library has accessors for electra states but no transition, so no
// electra state is ever reached by the chain itself)
func (s *sim) electraOf(box *stateBox) *stateBox {
	d, ok := s.rawOf(unwrap(box.st)).(*deneb.BeaconState)
	if !ok {
		return nil
	}
	var e electra.BeaconState
	dv, ev := reflect.ValueOf(d).Elem(), reflect.ValueOf(&e).Elem()
	for i := 0; i < ev.NumField(); i++ {
		if f := dv.FieldByName(ev.Type().Field(i).Name); f.IsValid() && f.Type().AssignableTo(ev.Field(i).Type()) {
			ev.Field(i).Set(f)
		}
	}
	r := s.frng
	e.DepositRequestsStartIndex = view.Uint64View(r.U64())
	e.DepositBalanceToConsume = common.Gwei(r.U64() >> 20)
	e.ExitBalanceToConsume = common.Gwei(r.U64() >> 20)
	e.EarliestExitEpoch = common.Epoch(r.U64() >> 40)
	e.ConsolidationBalanceToConsume = common.Gwei(r.U64() >> 20)
	e.EarliestConsolidationEpoch = common.Epoch(r.U64() >> 40)
	for i, n := 0, r.Intn(4); i < n; i++ {
		pd := common.PendingDeposit{Amount: common.Gwei(r.U64() >> 24), Slot: common.Slot(r.U64() >> 40), WithdrawalCredentials: fnvRoot("pd-wc", uint64(i))}
		copy(pd.Pubkey[:], s.w.keys.pub[i%len(s.w.keys.pub)][:])
		pd.Signature[0], pd.Signature[95] = 0xc0, byte(i)
		e.PendingDeposits = append(e.PendingDeposits, pd)
	}
	for i, n := 0, r.Intn(4); i < n; i++ {
		e.PendingPartialWithdrawals = append(e.PendingPartialWithdrawals, common.PendingPartialWithdrawal{ValidatorIndex: common.ValidatorIndex(r.Intn(len(e.Validators) + 1)), Amount: common.Gwei(r.U64() >> 24), WithdrawableEpoch: common.Epoch(r.U64() >> 40)})
	}
	for i, n := 0, r.Intn(3); i < n; i++ {
		e.PendingConsolidations = append(e.PendingConsolidations, common.PendingConsolidation{SourceIndex: common.ValidatorIndex(i), TargetIndex: common.ValidatorIndex(i + 1)})
	}
	var buf bytes.Buffer
	if err := e.Serialize(s.w.spec, codec.NewEncodingWriter(&buf)); err != nil {
		return nil
	}
	st, err := decodeState(s.w.spec, 5, buf.Bytes())
	if err != nil {
		return nil
	}
	return &stateBox{st: &beacon.StandardUpgradeableBeaconState{BeaconState: st}, epc: box.epc}
}

func fieldOf(raw interface{}, name string) interface{} {
	v := reflect.ValueOf(raw).Elem().FieldByName(name)
	if !v.IsValid() {
		return nil
	}
	return v.Interface()
}

func changedFields(a, b interface{}) []string {
	va, vb := reflect.ValueOf(a).Elem(), reflect.ValueOf(b).Elem()
	var out []string
	for i := 0; i < va.NumField(); i++ {
		if !reflect.DeepEqual(va.Field(i).Interface(), vb.Field(i).Interface()) {
			out = append(out, va.Type().Field(i).Name)
		}
	}
	return out
}

func (s *sim) checkAccessors(box *stateBox, where string) {
	st := unwrap(box.st)
	raw := s.rawOf(st)
	if raw == nil {
		return
	}
	s.res.Stat("accessor_sweeps", 1)
	bad := func(name string, got, want interface{}) {
		s.viol("C15", "getter/"+name, fmt.Sprintf("%s (%s): getter returns %v, the encoded state holds %v", where, forkName(st), got, want))
	}
	// a historical batch view over this state's roots: the typed sub-views read the vector they name
	{
		hb := phase0.HistoricalBatch{BlockRoots: fieldOf(raw, "BlockRoots").(phase0.HistoricalBatchRoots), StateRoots: fieldOf(raw, "StateRoots").(phase0.HistoricalBatchRoots)}
		var buf bytes.Buffer
		if hb.Serialize(s.w.spec, codec.NewEncodingWriter(&buf)) == nil {
			hv, err := phase0.AsHistoricalBatch(phase0.HistoricalBatchType(s.w.spec).Deserialize(codec.NewDecodingReader(bytes.NewReader(buf.Bytes()), uint64(buf.Len()))))
			if err == nil {
				bv, e1 := hv.BlockRoots()
				sv, e2 := hv.StateRoots()
				if e1 != nil || e2 != nil {
					bad("HistoricalBatchView", fmt.Sprint(e1, e2), "no error")
					return
				}
				for _, i := range []int{0, len(hb.BlockRoots) / 2, len(hb.BlockRoots) - 1} {
					b, _ := bv.GetRoot(common.Slot(i))
					t, _ := sv.GetRoot(common.Slot(i))
					if b != hb.BlockRoots[i] || t != hb.StateRoots[i] {
						bad(fmt.Sprintf("HistoricalBatchView[%d]", i), fmt.Sprint(b, t), fmt.Sprint(hb.BlockRoots[i], hb.StateRoots[i]))
						return
					}
				}
				s.res.Stat("setter_checks", 1)
			}
		}
	}
	// a fresh state view of this fork holds the default value of the fork's state type
	if nm := map[int]func() common.BeaconState{
		1: func() common.BeaconState { return altair.NewBeaconStateView(s.w.spec) },
		2: func() common.BeaconState { return bellatrix.NewBeaconStateView(s.w.spec) },
		3: func() common.BeaconState { return capella.NewBeaconStateView(s.w.spec) },
		4: func() common.BeaconState { return deneb.NewBeaconStateView(s.w.spec) },
		5: func() common.BeaconState { return electra.NewBeaconStateView(s.w.spec) },
	}[forkIndexOfState(st)]; nm != nil && s.frng.Chance(1, 4) {
		fresh := nm()
		name := forkName(st) + ".BeaconState"
		if want, ok := codecsim.DefaultRoot(s.w.spec, name); ok {
			s.res.Stat("setter_checks", 1)
			if got := fresh.HashTreeRoot(tree.GetHashFn()); got != want {
				s.viol("C05", "state/new-view-default-root/"+forkName(st), fmt.Sprintf("%s: NewBeaconStateView has root %s, the default value of the specification's schema has root %s", name, got, want))
				return
			}
		}
	}
	// activation predicates of the validator wrapper against the encoded fields
	if fin, err := st.FinalizedCheckpoint(); err == nil {
		if vals, err := st.Validators(); err == nil {
			rv := fieldOf(raw, "Validators").(phase0.ValidatorRegistry)
			for i := range rv {
				v, err := vals.Validator(common.ValidatorIndex(i))
				if err != nil {
					break
				}
				q, _ := phase0.IsEligibleForActivationQueue(v, s.w.spec)
				a, _ := phase0.IsEligibleForActivation(v, fin.Epoch)
				wq := uint64(rv[i].ActivationEligibilityEpoch) == farFuture && rv[i].EffectiveBalance == s.w.spec.MAX_EFFECTIVE_BALANCE
				wa := rv[i].ActivationEligibilityEpoch <= fin.Epoch && uint64(rv[i].ActivationEpoch) == farFuture
				if q != wq || a != wa {
					bad(fmt.Sprintf("Validators[%d] activation predicates", i), fmt.Sprint(q, a), fmt.Sprint(wq, wa))
					return
				}
			}
		}
	}
	// Raw(): the library's own flattening of the state is the encoded state
	if rm := reflect.ValueOf(st).MethodByName("Raw"); rm.IsValid() && rm.Type().NumIn() == 1 {
		var outs []reflect.Value
		if p := guard(func() { outs = rm.Call([]reflect.Value{reflect.ValueOf(s.w.spec)}) }); p != nil {
			s.viol("C15", "getter-panic/Raw/"+p.frame, p.val)
			return
		}
		if len(outs) == 2 && outs[1].IsNil() && !outs[0].IsNil() {
			s.res.Stat("setter_checks", 1)
			if ch := changedFields(raw, outs[0].Interface()); len(ch) != 0 {
				s.viol("C15", "getter/Raw", fmt.Sprintf("%s (%s): Raw() differs from the encoded state in %v", where, forkName(st), ch))
				return
			}
		} else if len(outs) == 2 && !outs[1].IsNil() {
			s.viol("C15", "getter/Raw", fmt.Sprintf("%s (%s): Raw() fails: %v", where, forkName(st), outs[1].Interface()))
			return
		}
	}
	if v, _ := st.GenesisTime(); !reflect.DeepEqual(v, fieldOf(raw, "GenesisTime")) {
		bad("GenesisTime", v, fieldOf(raw, "GenesisTime"))
		return
	}
	if v, _ := st.GenesisValidatorsRoot(); !reflect.DeepEqual(v, fieldOf(raw, "GenesisValidatorsRoot")) {
		bad("GenesisValidatorsRoot", v, fieldOf(raw, "GenesisValidatorsRoot"))
		return
	}
	if v, _ := st.Slot(); !reflect.DeepEqual(v, fieldOf(raw, "Slot")) {
		bad("Slot", v, fieldOf(raw, "Slot"))
		return
	}
	if v, _ := st.Fork(); !reflect.DeepEqual(v, fieldOf(raw, "Fork")) {
		bad("Fork", v, fieldOf(raw, "Fork"))
		return
	}
	if v, _ := st.LatestBlockHeader(); v == nil || !reflect.DeepEqual(*v, fieldOf(raw, "LatestBlockHeader")) {
		bad("LatestBlockHeader", v, fieldOf(raw, "LatestBlockHeader"))
		return
	}
	if v, _ := st.Eth1Data(); !reflect.DeepEqual(v, fieldOf(raw, "Eth1Data")) {
		bad("Eth1Data", v, fieldOf(raw, "Eth1Data"))
		return
	}
	if v, _ := st.Eth1DepositIndex(); !reflect.DeepEqual(v, fieldOf(raw, "Eth1DepositIndex")) {
		bad("Eth1DepositIndex", v, fieldOf(raw, "Eth1DepositIndex"))
		return
	}
	if v, _ := st.JustificationBits(); !reflect.DeepEqual(v, fieldOf(raw, "JustificationBits")) {
		bad("JustificationBits", v, fieldOf(raw, "JustificationBits"))
		return
	}
	if v, _ := st.PreviousJustifiedCheckpoint(); !reflect.DeepEqual(v, fieldOf(raw, "PreviousJustifiedCheckpoint")) {
		bad("PreviousJustifiedCheckpoint", v, fieldOf(raw, "PreviousJustifiedCheckpoint"))
		return
	}
	if v, _ := st.CurrentJustifiedCheckpoint(); !reflect.DeepEqual(v, fieldOf(raw, "CurrentJustifiedCheckpoint")) {
		bad("CurrentJustifiedCheckpoint", v, fieldOf(raw, "CurrentJustifiedCheckpoint"))
		return
	}
	if v, _ := st.FinalizedCheckpoint(); !reflect.DeepEqual(v, fieldOf(raw, "FinalizedCheckpoint")) {
		bad("FinalizedCheckpoint", v, fieldOf(raw, "FinalizedCheckpoint"))
		return
	}
	// registry sub-views
	vals, _ := st.Validators()
	rawVals := fieldOf(raw, "Validators").(phase0.ValidatorRegistry)
	if n, _ := vals.ValidatorCount(); int(n) != len(rawVals) {
		bad("Validators.count", n, len(rawVals))
		return
	}
	bals, _ := st.Balances()
	rawBals := fieldOf(raw, "Balances").(phase0.Balances)
	for i := range rawVals {
		v, err := vals.Validator(common.ValidatorIndex(i))
		if err != nil {
			bad("Validators.element", err, i)
			return
		}
		var flat common.FlatValidator
		v.Flatten(&flat)
		rv := rawVals[i]
		eff, _ := v.EffectiveBalance()
		sl, _ := v.Slashed()
		ex, _ := v.ExitEpoch()
		wc, _ := v.WithdrawalCredentials()
		pk, _ := v.Pubkey()
		if eff != rv.EffectiveBalance || sl != rv.Slashed || ex != rv.ExitEpoch || wc != rv.WithdrawalCredentials || pk != rv.Pubkey ||
			flat.EffectiveBalance != rv.EffectiveBalance || flat.ActivationEpoch != rv.ActivationEpoch || flat.WithdrawableEpoch != rv.WithdrawableEpoch || flat.ActivationEligibilityEpoch != rv.ActivationEligibilityEpoch {
			bad(fmt.Sprintf("Validators[%d]", i), flat, *rv)
			return
		}
		if b, _ := bals.GetBalance(common.ValidatorIndex(i)); b != rawBals[i] {
			bad(fmt.Sprintf("Balances[%d]", i), b, rawBals[i])
			return
		}
	}
	mixes, _ := st.RandaoMixes()
	rawMixes := fieldOf(raw, "RandaoMixes").(phase0.RandaoMixes)
	for e := 0; e < len(rawMixes); e++ {
		if m, _ := mixes.GetRandomMix(common.Epoch(e)); m != rawMixes[e] {
			bad(fmt.Sprintf("RandaoMixes[%d]", e), m, rawMixes[e])
			return
		}
	}
	brs, _ := st.BlockRoots()
	srs, _ := st.StateRoots()
	rawBR := fieldOf(raw, "BlockRoots").(phase0.HistoricalBatchRoots)
	rawSR := fieldOf(raw, "StateRoots").(phase0.HistoricalBatchRoots)
	for i := range rawBR {
		if r, _ := brs.GetRoot(common.Slot(i)); r != rawBR[i] {
			bad(fmt.Sprintf("BlockRoots[%d]", i), r, rawBR[i])
			return
		}
		if r, _ := srs.GetRoot(common.Slot(i)); r != rawSR[i] {
			bad(fmt.Sprintf("StateRoots[%d]", i), r, rawSR[i])
			return
		}
	}
	sls, _ := st.Slashings()
	rawSl := fieldOf(raw, "Slashings").(phase0.SlashingsHistory)
	for i := range rawSl {
		if v, _ := sls.GetSlashingsValue(common.Epoch(i)); v != rawSl[i] {
			bad(fmt.Sprintf("Slashings[%d]", i), v, rawSl[i])
			return
		}
	}
	// aggregates over the lists
	if all, err := bals.AllBalances(); err != nil || !reflect.DeepEqual(phase0.Balances(all), rawBals) && !(len(all) == 0 && len(rawBals) == 0) {
		bad("Balances.AllBalances", len(all), len(rawBals))
		return
	}
	if l, err := bals.Length(); err != nil || l != uint64(len(rawBals)) {
		bad("Balances.Length", l, len(rawBals))
		return
	}
	{
		next := bals.Iter()
		for i := 0; ; i++ {
			b, ok, err := next()
			if err != nil || ok != (i < len(rawBals)) || (ok && b != rawBals[i]) {
				bad("Balances.Iter", fmt.Sprintf("%d@%d ok=%v err=%v", b, i, ok, err), len(rawBals))
				return
			}
			if !ok {
				break
			}
		}
		nextV := vals.Iter()
		for i := 0; ; i++ {
			v, ok, err := nextV()
			if err != nil || ok != (i < len(rawVals)) {
				bad("Validators.Iter", fmt.Sprintf("entry %d ok=%v err=%v", i, ok, err), len(rawVals))
				return
			}
			if !ok {
				break
			}
			if pk, _ := v.Pubkey(); pk != rawVals[i].Pubkey {
				bad("Validators.Iter", fmt.Sprintf("entry %d has another pubkey", i), rawVals[i].Pubkey)
				return
			}
		}
		if ok, _ := vals.IsValidIndex(common.ValidatorIndex(len(rawVals))); ok {
			bad("Validators.IsValidIndex", "index == count is valid", len(rawVals))
			return
		}
		if len(rawVals) > 0 {
			if ok, _ := vals.IsValidIndex(common.ValidatorIndex(len(rawVals) - 1)); !ok {
				bad("Validators.IsValidIndex", "last index is not valid", len(rawVals))
				return
			}
		}
	}
	{
		sum := common.Gwei(0)
		for _, v := range rawSl {
			sum += v
		}
		if tot, err := sls.Total(); err != nil || tot != sum {
			bad("Slashings.Total", tot, sum)
			return
		}
	}
	// altair+: participation registries and inactivity scores, entry by entry
	if al, ok := st.(altair.AltairLikeBeaconState); ok {
		for _, which := range []string{"PreviousEpochParticipation", "CurrentEpochParticipation"} {
			rawP, _ := fieldOf(raw, which).(altair.ParticipationRegistry)
			var pv *altair.ParticipationRegistryView
			var err error
			if which == "PreviousEpochParticipation" {
				pv, err = al.PreviousEpochParticipation()
			} else {
				pv, err = al.CurrentEpochParticipation()
			}
			if err != nil {
				bad(which, err, len(rawP))
				return
			}
			for i := range rawP {
				if f, err := pv.GetFlags(common.ValidatorIndex(i)); err != nil || f != rawP[i] {
					bad(fmt.Sprintf("%s[%d]", which, i), f, rawP[i])
					return
				}
			}
			if r, err := pv.Raw(); err != nil || len(r) != len(rawP) || (len(rawP) > 0 && !reflect.DeepEqual(r, rawP)) {
				bad(which+".Raw", len(r), len(rawP))
				return
			}
		}
		rawI, _ := fieldOf(raw, "InactivityScores").(altair.InactivityScores)
		if iv, err := al.InactivityScores(); err == nil {
			for i := range rawI {
				if sc, err := iv.GetScore(common.ValidatorIndex(i)); err != nil || sc != uint64(rawI[i]) {
					bad(fmt.Sprintf("InactivityScores[%d]", i), sc, rawI[i])
					return
				}
			}
		}
	}
	// bellatrix+: the payload header getter returns the header the encoded state holds
	if hv := reflect.ValueOf(st).MethodByName("LatestExecutionPayloadHeader"); hv.IsValid() && forkIndexOfState(st) >= 2 {
		outs := hv.Call(nil)
		if len(outs) == 2 && outs[1].IsNil() {
			if rm := outs[0].MethodByName("Raw"); rm.IsValid() {
				ro := rm.Call(nil)
				if len(ro) == 2 && ro[1].IsNil() {
					want := reflect.ValueOf(raw).Elem().FieldByName("LatestExecutionPayloadHeader")
					type plainSer interface {
						Serialize(w *codec.EncodingWriter) error
					}
					if want.IsValid() && want.CanAddr() {
						a, aok := ro[0].Interface().(plainSer)
						b, bok := want.Addr().Interface().(plainSer)
						if aok && bok {
							var ab, bb bytes.Buffer
							if a.Serialize(codec.NewEncodingWriter(&ab)) != nil || b.Serialize(codec.NewEncodingWriter(&bb)) != nil || !bytes.Equal(ab.Bytes(), bb.Bytes()) {
								bad("LatestExecutionPayloadHeader", ro[0].Elem().Interface(), want.Interface())
								return
							}
							s.res.Stat("setter_checks", 1)
						}
					}
				}
			}
		}
	}
	// setters: on a copy, change exactly one field; the original is untouched
	origBytes := serializeState(st)
	type setter struct {
		field string
		apply func(c common.BeaconState) error
	}
	slot, _ := st.Slot()
	nvals := len(rawVals)
	pick := s.frng.Intn(nvals)
	setters := []setter{
		{"Slot", func(c common.BeaconState) error { return c.SetSlot(slot + 1000) }},
		{"GenesisTime", func(c common.BeaconState) error { return c.SetGenesisTime(12345) }},
		{"GenesisValidatorsRoot", func(c common.BeaconState) error { return c.SetGenesisValidatorsRoot(fnvRoot("gvr", 1)) }},
		{"Fork", func(c common.BeaconState) error {
			return c.SetFork(common.Fork{PreviousVersion: common.Version{9, 9, 9, 9}, CurrentVersion: common.Version{8, 8, 8, 8}, Epoch: 77})
		}},
		{"LatestBlockHeader", func(c common.BeaconState) error {
			return c.SetLatestBlockHeader(&common.BeaconBlockHeader{Slot: 99, ProposerIndex: 3, ParentRoot: fnvRoot("h", 1)})
		}},
		{"Eth1Data", func(c common.BeaconState) error {
			return c.SetEth1Data(common.Eth1Data{DepositRoot: fnvRoot("d", 2), DepositCount: 12345, BlockHash: fnvRoot("d", 3)})
		}},
		{"Eth1DepositIndex", func(c common.BeaconState) error { return c.IncrementDepositIndex() }},
		{"JustificationBits", func(c common.BeaconState) error {
			jb, _ := c.JustificationBits()
			return c.SetJustificationBits(common.JustificationBits{jb[0] ^ 0x05})
		}},
		{"PreviousJustifiedCheckpoint", func(c common.BeaconState) error {
			return c.SetPreviousJustifiedCheckpoint(common.Checkpoint{Epoch: 71, Root: fnvRoot("c", 1)})
		}},
		{"CurrentJustifiedCheckpoint", func(c common.BeaconState) error {
			return c.SetCurrentJustifiedCheckpoint(common.Checkpoint{Epoch: 72, Root: fnvRoot("c", 2)})
		}},
		{"FinalizedCheckpoint", func(c common.BeaconState) error {
			return c.SetFinalizedCheckpoint(common.Checkpoint{Epoch: 73, Root: fnvRoot("c", 3)})
		}},
		{"Balances", func(c common.BeaconState) error {
			b, err := c.Balances()
			if err != nil {
				return err
			}
			old, _ := b.GetBalance(common.ValidatorIndex(pick))
			return b.SetBalance(common.ValidatorIndex(pick), old+7)
		}},
		{"Validators", func(c common.BeaconState) error {
			vs, err := c.Validators()
			if err != nil {
				return err
			}
			v, err := vs.Validator(common.ValidatorIndex(pick))
			if err != nil {
				return err
			}
			eff, _ := v.EffectiveBalance()
			return v.SetEffectiveBalance(eff + 1_000_000_000)
		}},
		{"RandaoMixes", func(c common.BeaconState) error {
			m, err := c.RandaoMixes()
			if err != nil {
				return err
			}
			return m.SetRandomMix(common.Epoch(s.frng.Intn(len(rawMixes))), fnvRoot("mix", 9))
		}},
		{"BlockRoots", func(c common.BeaconState) error {
			b, err := c.BlockRoots()
			if err != nil {
				return err
			}
			return b.SetRoot(common.Slot(s.frng.Intn(len(rawBR))), fnvRoot("br", 9))
		}},
		{"StateRoots", func(c common.BeaconState) error {
			b, err := c.StateRoots()
			if err != nil {
				return err
			}
			return b.SetRoot(common.Slot(s.frng.Intn(len(rawSR))), fnvRoot("sr", 9))
		}},
		{"Slashings", func(c common.BeaconState) error {
			sl, err := c.Slashings()
			if err != nil {
				return err
			}
			return sl.AddSlashing(common.Epoch(s.frng.Intn(len(rawSl))), 1_000_000_000)
		}},
	}
	// fork-specific accessors (altair+ / capella+)
	if sc, ok := st.(common.SyncCommitteeBeaconState); ok {
		rawCur := fieldOf(raw, "CurrentSyncCommittee").(common.SyncCommittee)
		rawNext := fieldOf(raw, "NextSyncCommittee").(common.SyncCommittee)
		flat := func(v *common.SyncCommitteeView, err error) []common.BLSPubkey {
			if err != nil || v == nil {
				return nil
			}
			pv, err := v.Pubkeys()
			if err != nil {
				return nil
			}
			out, _ := pv.Flatten()
			return out
		}
		if got := flat(sc.CurrentSyncCommittee()); !reflect.DeepEqual(got, []common.BLSPubkey(rawCur.Pubkeys)) {
			bad("CurrentSyncCommittee", len(got), len(rawCur.Pubkeys))
			return
		}
		if got := flat(sc.NextSyncCommittee()); !reflect.DeepEqual(got, []common.BLSPubkey(rawNext.Pubkeys)) {
			bad("NextSyncCommittee", len(got), len(rawNext.Pubkeys))
			return
		}
		// rotation on a copy with a fresh committee C: (cur, next) -> (next, C)
		mk := func(tag byte) common.SyncCommittee {
			c := common.SyncCommittee{Pubkeys: make([]common.BLSPubkey, len(rawCur.Pubkeys))}
			for i := range c.Pubkeys {
				c.Pubkeys[i] = rawCur.Pubkeys[(i+1)%len(rawCur.Pubkeys)]
				c.Pubkeys[i][47] ^= tag
			}
			c.AggregatePubkey[0] = tag
			return c
		}
		cp, err := st.CopyState()
		if err == nil {
			csc := cp.(common.SyncCommitteeBeaconState)
			a, b, c := mk(1), mk(2), mk(3)
			av, _ := a.View(s.w.spec)
			bv, _ := b.View(s.w.spec)
			cv, _ := c.View(s.w.spec)
			e1 := csc.SetCurrentSyncCommittee(av)
			e2 := csc.SetNextSyncCommittee(bv)
			var e3 error
			if p := guard(func() { e3 = csc.RotateSyncCommittee(cv) }); p != nil {
				s.viol("C15", "setter-panic/RotateSyncCommittee/"+p.frame, p.val)
				return
			}
			if e1 != nil || e2 != nil || e3 != nil {
				s.viol("C15", "setter-error/SyncCommittee", fmt.Sprintf("%s (%s): %v %v %v", where, forkName(st), e1, e2, e3))
				return
			}
			r2 := s.rawOf(cp)
			gc := fieldOf(r2, "CurrentSyncCommittee").(common.SyncCommittee)
			gn := fieldOf(r2, "NextSyncCommittee").(common.SyncCommittee)
			if !reflect.DeepEqual(gc.Pubkeys, b.Pubkeys) || gc.AggregatePubkey != b.AggregatePubkey || !reflect.DeepEqual(gn.Pubkeys, c.Pubkeys) || gn.AggregatePubkey != c.AggregatePubkey {
				s.viol("C15", "setter/RotateSyncCommittee", fmt.Sprintf("%s (%s): after Set(current=A), Set(next=B), Rotate(C) the state holds current=%x.. next=%x.. (expected B=%x.. and C=%x..)", where, forkName(st), gc.AggregatePubkey[:1], gn.AggregatePubkey[:1], b.AggregatePubkey[:1], c.AggregatePubkey[:1]))
				return
			}
			if ch := changedFields(raw, r2); len(ch) != 2 {
				s.viol("C15", "setter-touches-other-fields/SyncCommittee", fmt.Sprintf("%s (%s): sync committee setters changed %v", where, forkName(st), ch))
				return
			}
			s.res.Stat("setter_checks", 1)
		}
	}
	type wcur interface {
		NextWithdrawalIndex() (common.WithdrawalIndex, error)
		NextWithdrawalValidatorIndex() (common.ValidatorIndex, error)
		SetNextWithdrawalIndex(common.WithdrawalIndex) error
		SetNextWithdrawalValidatorIndex(common.ValidatorIndex) error
		IncrementNextWithdrawalIndex() error
	}
	if wc, ok := st.(wcur); ok {
		if v, _ := wc.NextWithdrawalIndex(); !reflect.DeepEqual(v, fieldOf(raw, "NextWithdrawalIndex")) {
			bad("NextWithdrawalIndex", v, fieldOf(raw, "NextWithdrawalIndex"))
			return
		}
		if v, _ := wc.NextWithdrawalValidatorIndex(); !reflect.DeepEqual(v, fieldOf(raw, "NextWithdrawalValidatorIndex")) {
			bad("NextWithdrawalValidatorIndex", v, fieldOf(raw, "NextWithdrawalValidatorIndex"))
			return
		}
		cp, err := st.CopyState()
		if err == nil {
			cw := cp.(wcur)
			cur, _ := wc.NextWithdrawalIndex()
			cw.IncrementNextWithdrawalIndex()
			r2 := s.rawOf(cp)
			if ch := changedFields(raw, r2); len(ch) != 1 || ch[0] != "NextWithdrawalIndex" || fieldOf(r2, "NextWithdrawalIndex").(common.WithdrawalIndex) != cur+1 {
				s.viol("C15", "setter/IncrementNextWithdrawalIndex", fmt.Sprintf("%s (%s): changed %v", where, forkName(st), ch))
				return
			}
			cw.SetNextWithdrawalIndex(cur + 77)
			if r2b := s.rawOf(cp); fieldOf(r2b, "NextWithdrawalIndex").(common.WithdrawalIndex) != cur+77 || len(changedFields(r2, r2b)) != 1 {
				s.viol("C15", "setter/SetNextWithdrawalIndex", fmt.Sprintf("%s (%s): SetNextWithdrawalIndex(%d): the state holds %v, changed %v", where, forkName(st), cur+77, fieldOf(r2b, "NextWithdrawalIndex"), changedFields(r2, r2b)))
				return
			}
			cw.SetNextWithdrawalIndex(cur + 1)
			cw.SetNextWithdrawalValidatorIndex(common.ValidatorIndex(pick) + 1000)
			r3 := s.rawOf(cp)
			if ch := changedFields(r2, r3); len(ch) != 1 || ch[0] != "NextWithdrawalValidatorIndex" {
				s.viol("C15", "setter/SetNextWithdrawalValidatorIndex", fmt.Sprintf("%s (%s): changed %v", where, forkName(st), ch))
				return
			}
			s.res.Stat("setter_checks", 2)
		}
	}
	// the scalar fields electra adds: getter reads its own field, setter writes it and nothing else
	electraBefore := serializeState(st)
	for i, f := range []string{"DepositRequestsStartIndex", "DepositBalanceToConsume", "ExitBalanceToConsume", "EarliestExitEpoch", "ConsolidationBalanceToConsume", "EarliestConsolidationEpoch"} {
		g := reflect.ValueOf(st).MethodByName(f)
		if !g.IsValid() {
			continue
		}
		outs := g.Call(nil)
		if len(outs) != 2 || !outs[1].IsNil() || !reflect.DeepEqual(outs[0].Interface(), fieldOf(raw, f)) {
			bad(f, outs[0].Interface(), fieldOf(raw, f))
			return
		}
		cp, err := st.CopyState()
		if err != nil {
			continue
		}
		_ = cp.HashTreeRoot(tree.GetHashFn())
		nv := reflect.New(outs[0].Type()).Elem()
		nv.SetUint(outs[0].Uint() + 1 + uint64(i)<<33)
		var so []reflect.Value
		if p := guard(func() { so = reflect.ValueOf(cp).MethodByName("Set" + f).Call([]reflect.Value{nv}) }); p != nil {
			s.viol("C15", "setter-panic/"+f+"/"+p.frame, p.val)
			return
		}
		if len(so) == 1 && !so[0].IsNil() {
			s.viol("C15", "setter-error/"+f, fmt.Sprintf("%s (%s): %v", where, forkName(st), so[0].Interface()))
			return
		}
		s.res.Stat("setter_checks", 1)
		after := s.rawOf(cp)
		if got := fieldOf(after, f); !reflect.DeepEqual(got, nv.Interface()) {
			s.viol("C15", "setter-value/"+f, fmt.Sprintf("%s (%s): Set%s(%v): the state now holds %v (before: %v)", where, forkName(st), f, nv.Interface(), got, fieldOf(raw, f)))
			return
		}
		if ch := changedFields(raw, after); len(ch) != 1 || ch[0] != f {
			s.viol("C15", "setter-touches-other-fields/"+f, fmt.Sprintf("%s (%s): setting %s changed %v", where, forkName(st), f, ch))
			return
		}
		if g2 := reflect.ValueOf(cp).MethodByName(f).Call(nil); !reflect.DeepEqual(g2[0].Interface(), nv.Interface()) {
			s.viol("C15", "getter/"+f, fmt.Sprintf("%s (%s): after Set%s(%v) the getter returns %v", where, forkName(st), f, nv.Interface(), g2[0].Interface()))
			return
		}
		if sr, ok := after.(interface {
			HashTreeRoot(spec *common.Spec, hFn tree.HashFn) common.Root
		}); ok {
			if r1, r2 := cp.HashTreeRoot(tree.GetHashFn()), sr.HashTreeRoot(s.w.spec, tree.GetHashFn()); r1 != r2 {
				s.viol("C05", "state/root-after-setter-vs-rebuilt/"+f, fmt.Sprintf("%s (%s): after Set%s the state reports root %s, the same content built from scratch has root %s", where, forkName(st), f, r1, r2))
				return
			}
		}
		if !bytes.Equal(serializeState(st), electraBefore) {
			s.viol("C15", "copy-independence/setter-on-copy-changed-original/"+f, fmt.Sprintf("%s (%s)", where, forkName(st)))
			return
		}
	}
	// setters take values: what the caller does with its own struct afterwards must not reach the state
	{
		c, err := st.CopyState()
		if err == nil {
			h := &common.BeaconBlockHeader{Slot: 77, ProposerIndex: 5, ParentRoot: fnvRoot("alias", 1), StateRoot: fnvRoot("alias", 2), BodyRoot: fnvRoot("alias", 3)}
			stored := *h
			if err := c.SetLatestBlockHeader(h); err == nil {
				r1 := c.HashTreeRoot(tree.GetHashFn())
				h.StateRoot = fnvRoot("alias", 4) // the caller goes on using its struct
				h.ParentRoot[0] ^= 0xff
				got, _ := c.LatestBlockHeader()
				r2 := c.HashTreeRoot(tree.GetHashFn())
				re, derr := decodeState(s.w.spec, forkIndexOfState(c), serializeState(c))
				s.res.Stat("setter_checks", 1)
				if derr == nil && re.HashTreeRoot(tree.GetHashFn()) != r2 {
					// the content changed under the cached hashes: the root reported is not the root of the content
					s.viol("C05", "state/stale-root-after-setter-argument-reuse/LatestBlockHeader", fmt.Sprintf("%s (%s): after SetLatestBlockHeader(h) and a change of the caller's own *h the state reports root %s, the same content rebuilt from its bytes has root %s", where, forkName(st), r2, re.HashTreeRoot(tree.GetHashFn())))
				}
				if got == nil || *got != stored || r1 != r2 || derr != nil || re.HashTreeRoot(tree.GetHashFn()) != r1 {
					s.viol("C15", "setter-aliases-caller-memory/LatestBlockHeader", fmt.Sprintf("%s (%s): after SetLatestBlockHeader(h) the caller changed its own *h: the getter now returns %+v (stored %+v); root before %s, after %s", where, forkName(st), got, stored, r1, r2))
					return
				}
			}
		}
	}
	if forkIndexOfState(st) >= 2 {
		c, err := st.CopyState()
		if err == nil {
			var mutate func()
			var serr error
			var wantHeader interface{}
			set := false
			switch cs := c.(type) {
			case interface {
				SetLatestExecutionPayloadHeader(h *deneb.ExecutionPayloadHeader) error
			}:
				h := &deneb.ExecutionPayloadHeader{ParentHash: fnvRoot("ealias", 1), StateRoot: fnvRoot("ealias", 2), ReceiptsRoot: fnvRoot("ealias", 5), PrevRandao: fnvRoot("ealias", 6), BlockNumber: 11, GasLimit: 12, GasUsed: 13, Timestamp: 99, BlockHash: fnvRoot("ealias", 3), TransactionsRoot: fnvRoot("ealias", 7), WithdrawalsRoot: fnvRoot("ealias", 8), BlobGasUsed: 14, ExcessBlobGas: 15}
				h.BaseFeePerGas[0], h.FeeRecipient[3] = 16, 17
				serr, set = cs.SetLatestExecutionPayloadHeader(h), true
				stored := *h
				wantHeader = &stored
				mutate = func() { h.BlockHash = fnvRoot("ealias", 4); h.ParentHash[0] ^= 0xff }
			case interface {
				SetLatestExecutionPayloadHeader(h *capella.ExecutionPayloadHeader) error
			}:
				h := &capella.ExecutionPayloadHeader{ParentHash: fnvRoot("ealias", 1), StateRoot: fnvRoot("ealias", 2), ReceiptsRoot: fnvRoot("ealias", 5), PrevRandao: fnvRoot("ealias", 6), BlockNumber: 11, GasLimit: 12, GasUsed: 13, Timestamp: 99, BlockHash: fnvRoot("ealias", 3), TransactionsRoot: fnvRoot("ealias", 7), WithdrawalsRoot: fnvRoot("ealias", 8)}
				h.BaseFeePerGas[0], h.FeeRecipient[3] = 16, 17
				serr, set = cs.SetLatestExecutionPayloadHeader(h), true
				stored := *h
				wantHeader = &stored
				mutate = func() { h.BlockHash = fnvRoot("ealias", 4); h.ParentHash[0] ^= 0xff }
			case interface {
				SetLatestExecutionPayloadHeader(h *bellatrix.ExecutionPayloadHeader) error
			}:
				h := &bellatrix.ExecutionPayloadHeader{ParentHash: fnvRoot("ealias", 1), StateRoot: fnvRoot("ealias", 2), ReceiptsRoot: fnvRoot("ealias", 5), PrevRandao: fnvRoot("ealias", 6), BlockNumber: 11, GasLimit: 12, GasUsed: 13, Timestamp: 99, BlockHash: fnvRoot("ealias", 3), TransactionsRoot: fnvRoot("ealias", 7)}
				h.BaseFeePerGas[0], h.FeeRecipient[3] = 16, 17
				serr, set = cs.SetLatestExecutionPayloadHeader(h), true
				stored := *h
				wantHeader = &stored
				mutate = func() { h.BlockHash = fnvRoot("ealias", 4); h.ParentHash[0] ^= 0xff }
			}
			if set && serr == nil && wantHeader != nil {
				// the state now holds exactly the header given, every field in its own place
				if got := reflect.ValueOf(s.rawOf(c)).Elem().FieldByName("LatestExecutionPayloadHeader"); got.IsValid() && !reflect.DeepEqual(got.Interface(), reflect.ValueOf(wantHeader).Elem().Interface()) {
					s.viol("C15", "setter-value/LatestExecutionPayloadHeader", fmt.Sprintf("%s (%s): SetLatestExecutionPayloadHeader(%+v): the state now holds %+v", where, forkName(st), reflect.ValueOf(wantHeader).Elem().Interface(), got.Interface()))
					return
				}
			}
			if set && serr == nil {
				r1 := c.HashTreeRoot(tree.GetHashFn())
				b1 := serializeState(c)
				mutate()
				r2 := c.HashTreeRoot(tree.GetHashFn())
				b2 := serializeState(c)
				s.res.Stat("setter_checks", 1)
				if re, derr := decodeState(s.w.spec, forkIndexOfState(c), b2); derr == nil && re.HashTreeRoot(tree.GetHashFn()) != r2 {
					s.viol("C05", "state/stale-root-after-setter-argument-reuse/LatestExecutionPayloadHeader", fmt.Sprintf("%s (%s): after SetLatestExecutionPayloadHeader(h) and a change of the caller's own *h the state reports root %s, the same content rebuilt from its bytes has another root", where, forkName(st), r2))
				}
				if r1 != r2 || !bytes.Equal(b1, b2) {
					s.viol("C15", "setter-aliases-caller-memory/LatestExecutionPayloadHeader", fmt.Sprintf("%s (%s): after SetLatestExecutionPayloadHeader(h) the caller changed its own *h and the state changed with it (bytes equal: %v, root equal: %v)", where, forkName(st), bytes.Equal(b1, b2), r1 == r2))
					return
				}
			}
		}
	}
	for _, set := range setters {
		c, err := st.CopyState()
		if err != nil {
			s.viol("C15", "copy-error", err.Error())
			return
		}
		if p := guard(func() { err = set.apply(c) }); p != nil {
			s.viol("C15", "setter-panic/"+set.field+"/"+p.frame, p.val)
			return
		}
		if err != nil {
			s.viol("C15", "setter-error/"+set.field, fmt.Sprintf("%s (%s): %v", where, forkName(st), err))
			return
		}
		s.res.Stat("setter_checks", 1)
		changed := changedFields(raw, s.rawOf(c))
		if len(changed) != 1 || changed[0] != set.field {
			s.viol("C15", "setter-touches-other-fields/"+set.field, fmt.Sprintf("%s (%s): setting %s changed %v", where, forkName(st), set.field, changed))
			return
		}
		if !bytes.Equal(serializeState(st), origBytes) {
			s.viol("C15", "copy-independence/setter-on-copy-changed-original/"+set.field, fmt.Sprintf("%s (%s)", where, forkName(st)))
			return
		}
	}
	// setters whose result is known: the field holds exactly the value given (also when only a part of
	// it differs from the old value), and the root reported afterwards is the root of that content
	// built from scratch
	pj, _ := st.PreviousJustifiedCheckpoint()
	cj, _ := st.CurrentJustifiedCheckpoint()
	fc, _ := st.FinalizedCheckpoint()
	type vsetter struct {
		field string
		apply func(c common.BeaconState) error
		want  interface{}
	}
	cpSet := func(name string, cur common.Checkpoint, set func(c common.BeaconState, cp common.Checkpoint) error) []vsetter {
		a := common.Checkpoint{Epoch: cur.Epoch + 1, Root: cur.Root}           // same root, next epoch
		b := common.Checkpoint{Epoch: cur.Epoch, Root: fnvRoot("cp-"+name, 1)} // same epoch, other root
		return []vsetter{
			{name, func(c common.BeaconState) error { return set(c, a) }, a},
			{name, func(c common.BeaconState) error { return set(c, b) }, b},
		}
	}
	var vs []vsetter
	vs = append(vs, cpSet("PreviousJustifiedCheckpoint", pj, func(c common.BeaconState, cp common.Checkpoint) error { return c.SetPreviousJustifiedCheckpoint(cp) })...)
	vs = append(vs, cpSet("CurrentJustifiedCheckpoint", cj, func(c common.BeaconState, cp common.Checkpoint) error { return c.SetCurrentJustifiedCheckpoint(cp) })...)
	vs = append(vs, cpSet("FinalizedCheckpoint", fc, func(c common.BeaconState, cp common.Checkpoint) error { return c.SetFinalizedCheckpoint(cp) })...)
	fk, _ := st.Fork()
	e1, _ := st.Eth1Data()
	fk2 := common.Fork{PreviousVersion: fk.PreviousVersion, CurrentVersion: fk.CurrentVersion, Epoch: fk.Epoch + 1}
	fk3 := common.Fork{PreviousVersion: fk.CurrentVersion, CurrentVersion: common.Version{7, 7, 7, 7}, Epoch: fk.Epoch}
	e2 := common.Eth1Data{DepositRoot: e1.DepositRoot, DepositCount: e1.DepositCount + 1, BlockHash: e1.BlockHash}
	e3 := common.Eth1Data{DepositRoot: e1.DepositRoot, DepositCount: e1.DepositCount, BlockHash: fnvRoot("e1", 3)}
	vs = append(vs,
		vsetter{"Fork", func(c common.BeaconState) error { return c.SetFork(fk2) }, fk2},
		vsetter{"Fork", func(c common.BeaconState) error { return c.SetFork(fk3) }, fk3},
		vsetter{"Eth1Data", func(c common.BeaconState) error { return c.SetEth1Data(e2) }, e2},
		vsetter{"Eth1Data", func(c common.BeaconState) error { return c.SetEth1Data(e3) }, e3},
		vsetter{"Slot", func(c common.BeaconState) error { return c.SetSlot(slot + 1) }, slot + 1},
	)
	// two additions to one entry of the slashings vector: the entry holds its old value plus both
	if len(rawSl) > 0 {
		e := s.frng.Intn(len(rawSl))
		wantSl := append(phase0.SlashingsHistory(nil), rawSl...)
		wantSl[e] += 8_000_000_000
		vs = append(vs, vsetter{"Slashings", func(c common.BeaconState) error {
			sl, err := c.Slashings()
			if err != nil {
				return err
			}
			if err := sl.AddSlashing(common.Epoch(e), 3_000_000_000); err != nil {
				return err
			}
			return sl.AddSlashing(common.Epoch(e+len(rawSl)), 5_000_000_000) // (the same entry, one turn of the vector later)
		}, wantSl})
	}
	// justification bits with the highest of the four bits set (values other than the current one)
	if cur, err := st.JustificationBits(); err == nil {
		n := 0
		for _, b := range []byte{0x0f, 0x0e, 0x09} {
			if b == cur[0] || n == 2 {
				continue
			}
			n++
			jb := common.JustificationBits{b}
			vs = append(vs, vsetter{"JustificationBits", func(c common.BeaconState) error { return c.SetJustificationBits(jb) }, jb})
		}
	}
	// the vote counter counts the votes that are equal in ALL three fields (and the list length is the list's)
	if ev, ok := fieldOf(raw, "Eth1DataVotes").(phase0.Eth1DataVotes); ok {
		if vv, err := st.Eth1DataVotes(); err == nil {
			if l, err := vv.Length(); err != nil || l != uint64(len(ev)) {
				s.viol("C15", "getter/Eth1DataVotes.Length", fmt.Sprintf("%s (%s): %d (err %v), the state holds %d votes", where, forkName(st), l, err, len(ev)))
				return
			}
			var probes []common.Eth1Data
			if len(ev) > 0 {
				x := ev[s.frng.Intn(len(ev))]
				a, b, c := x, x, x
				a.DepositRoot = fnvRoot("count-probe", 1)
				b.DepositCount++
				c.BlockHash = fnvRoot("count-probe", 2)
				probes = append(probes, x, a, b, c)
			} else {
				probes = append(probes, common.Eth1Data{})
			}
			for _, pr := range probes {
				want := uint64(0)
				for _, e := range ev {
					if e == pr {
						want++
					}
				}
				got, err := vv.Count(pr)
				s.res.Stat("setter_checks", 1)
				if err != nil || got != want {
					s.viol("C15", "getter/Eth1DataVotes.Count", fmt.Sprintf("%s (%s): Count(%+v) = %d (err %v), the state holds %d such votes among %d", where, forkName(st), pr, got, err, want, len(ev)))
					return
				}
			}
		}
	}
	// list accessors: what is appended is what is stored, in that order
	if hr, ok := fieldOf(raw, "HistoricalRoots").(phase0.HistoricalRoots); ok && uint64(len(hr)) < uint64(s.w.spec.HISTORICAL_ROOTS_LIMIT) {
		nr := fnvRoot("hist-append", uint64(len(hr)))
		want := append(append(phase0.HistoricalRoots(nil), hr...), nr)
		vs = append(vs, vsetter{"HistoricalRoots", func(c common.BeaconState) error {
			h, err := c.HistoricalRoots()
			if err != nil {
				return err
			}
			return h.Append(nr)
		}, want})
	}
	if ev, ok := fieldOf(raw, "Eth1DataVotes").(phase0.Eth1DataVotes); ok && uint64(len(ev)) < uint64(s.w.spec.EPOCHS_PER_ETH1_VOTING_PERIOD)*uint64(s.w.spec.SLOTS_PER_EPOCH) {
		nv := common.Eth1Data{DepositRoot: fnvRoot("vote-append", 1), DepositCount: 77, BlockHash: fnvRoot("vote-append", 2)}
		want := append(append(phase0.Eth1DataVotes(nil), ev...), nv)
		vs = append(vs, vsetter{"Eth1DataVotes", func(c common.BeaconState) error {
			v, err := c.Eth1DataVotes()
			if err != nil {
				return err
			}
			return v.Append(nv)
		}, want})
		if len(ev) > 0 {
			vs = append(vs, vsetter{"Eth1DataVotes", func(c common.BeaconState) error {
				v, err := c.Eth1DataVotes()
				if err != nil {
					return err
				}
				return v.Reset()
			}, phase0.Eth1DataVotes(nil)})
		}
	}
	if hs, ok := fieldOf(raw, "HistoricalSummaries").(capella.HistoricalSummaries); ok && uint64(len(hs)) < uint64(s.w.spec.HISTORICAL_ROOTS_LIMIT) {
		ns := capella.HistoricalSummary{BlockSummaryRoot: fnvRoot("sum-append", 1), StateSummaryRoot: fnvRoot("sum-append", 2)}
		want := append(append(capella.HistoricalSummaries(nil), hs...), ns)
		if hst, ok := st.(interface {
			HistoricalSummaries() (capella.HistoricalSummariesList, error)
		}); ok {
			_ = hst
			vs = append(vs, vsetter{"HistoricalSummaries", func(c common.BeaconState) error {
				h, err := c.(interface {
					HistoricalSummaries() (capella.HistoricalSummariesList, error)
				}).HistoricalSummaries()
				if err != nil {
					return err
				}
				return h.Append(ns)
			}, want})
		}
	}
	// per-validator setters: every field takes exactly the value given, the others keep theirs,
	// and the bulk getter reads every field from its own place
	if rv, ok := fieldOf(raw, "Validators").(phase0.ValidatorRegistry); ok && pick < len(rv) {
		mod := *rv[pick]
		mod.EffectiveBalance += s.w.spec.EFFECTIVE_BALANCE_INCREMENT
		mod.ActivationEligibilityEpoch = 1001
		mod.ActivationEpoch = 1002
		mod.ExitEpoch = 1003
		mod.WithdrawableEpoch = 1004
		mod.WithdrawalCredentials = fnvRoot("wc-set", uint64(pick))
		want := make(phase0.ValidatorRegistry, len(rv))
		copy(want, rv)
		want[pick] = &mod
		vs = append(vs, vsetter{"Validators", func(c common.BeaconState) error {
			vals, err := c.Validators()
			if err != nil {
				return err
			}
			v, err := vals.Validator(common.ValidatorIndex(pick))
			if err != nil {
				return err
			}
			for _, e := range []error{
				v.SetEffectiveBalance(mod.EffectiveBalance), v.SetActivationEligibilityEpoch(1001), v.SetActivationEpoch(1002),
				v.SetExitEpoch(1003), v.SetWithdrawableEpoch(1004), v.SetWithdrawalCredentials(mod.WithdrawalCredentials),
			} {
				if e != nil {
					return e
				}
			}
			// read back through a fresh handle
			v2, err := vals.Validator(common.ValidatorIndex(pick))
			if err != nil {
				return err
			}
			var flat common.FlatValidator
			if err := v2.Flatten(&flat); err != nil {
				return err
			}
			wantFlat := common.FlatValidator{EffectiveBalance: mod.EffectiveBalance, Slashed: mod.Slashed, ActivationEligibilityEpoch: 1001, ActivationEpoch: 1002, ExitEpoch: 1003, WithdrawableEpoch: 1004}
			if flat != wantFlat {
				return fmt.Errorf("Flatten after the setters returns %+v, expected %+v", flat, wantFlat)
			}
			ee, _ := v2.ExitEpoch()
			we, _ := v2.WithdrawableEpoch()
			ae, _ := v2.ActivationEpoch()
			el, _ := v2.ActivationEligibilityEpoch()
			eb, _ := v2.EffectiveBalance()
			wc, _ := v2.WithdrawalCredentials()
			if ee != 1003 || we != 1004 || ae != 1002 || el != 1001 || eb != mod.EffectiveBalance || wc != mod.WithdrawalCredentials {
				return fmt.Errorf("getters after the setters return (%d %d %d %d %d %s)", el, ae, ee, we, eb, wc)
			}
			return nil
		}, want})
		if !rv[pick].Slashed {
			mod2 := *rv[pick]
			mod2.Slashed = true
			want2 := make(phase0.ValidatorRegistry, len(rv))
			copy(want2, rv)
			want2[pick] = &mod2
			vs = append(vs, vsetter{"Validators", func(c common.BeaconState) error {
				vals, err := c.Validators()
				if err != nil {
					return err
				}
				v, err := vals.Validator(common.ValidatorIndex(pick))
				if err != nil {
					return err
				}
				return v.MakeSlashed()
			}, want2})
		}
	}
	// SeedRandao: every mix is the seed; SetBalances: the list is exactly the one given
	{
		seed := fnvRoot("seed-randao", uint64(slot))
		wantMixes := make(phase0.RandaoMixes, len(rawMixes))
		for i := range wantMixes {
			wantMixes[i] = seed
		}
		vs = append(vs, vsetter{"RandaoMixes", func(c common.BeaconState) error {
			m := reflect.ValueOf(c).MethodByName("SeedRandao")
			if !m.IsValid() {
				return fmt.Errorf("no SeedRandao")
			}
			if out := m.Call([]reflect.Value{reflect.ValueOf(s.w.spec), reflect.ValueOf(seed)}); !out[0].IsNil() {
				return out[0].Interface().(error)
			}
			return nil
		}, wantMixes})
		if m := reflect.ValueOf(st).MethodByName("SetBalances"); m.IsValid() && len(rawBals) > 0 {
			nb := make([]common.Gwei, len(rawBals))
			for i := range nb {
				nb[i] = rawBals[i] + common.Gwei(i+1)
			}
			vs = append(vs, vsetter{"Balances", func(c common.BeaconState) error {
				if out := reflect.ValueOf(c).MethodByName("SetBalances").Call([]reflect.Value{reflect.ValueOf(nb)}); !out[0].IsNil() {
					return out[0].Interface().(error)
				}
				return nil
			}, phase0.Balances(nb)})
		}
	}
	// AddValidator: one more validator with exactly the given data, one more balance and (altair+) one
	// more zero entry in EACH participation list and in the inactivity scores; nothing else
	if c, err := st.CopyState(); err == nil {
		var pk common.BLSPubkey
		copy(pk[:], s.w.keys.pub[(s.w.cfg.Validators+22)%len(s.w.keys.pub)][:])
		wc := fnvRoot("addval-wc", 1)
		bal := s.w.spec.MAX_EFFECTIVE_BALANCE + 3*s.w.spec.EFFECTIVE_BALANCE_INCREMENT/2
		var aerr error
		if p := guard(func() { aerr = c.AddValidator(s.w.spec, pk, wc, bal) }); p != nil {
			s.viol("C15", "setter-panic/AddValidator/"+p.frame, p.val)
			return
		}
		if aerr == nil {
			s.res.Stat("setter_checks", 1)
			after := s.rawOf(c)
			wantLists := map[string]bool{"Validators": true, "Balances": true}
			if forkIndexOfState(st) >= 1 {
				wantLists["PreviousEpochParticipation"], wantLists["CurrentEpochParticipation"], wantLists["InactivityScores"] = true, true, true
			}
			ch := changedFields(raw, after)
			okSet := len(ch) == len(wantLists)
			for _, f := range ch {
				okSet = okSet && wantLists[f]
			}
			if !okSet {
				s.viol("C15", "setter/AddValidator/fields", fmt.Sprintf("%s (%s): AddValidator changed %v", where, forkName(st), ch))
				return
			}
			for f := range wantLists {
				lb, la := reflect.ValueOf(fieldOf(raw, f)), reflect.ValueOf(fieldOf(after, f))
				if la.Len() != lb.Len()+1 {
					s.viol("C15", "setter/AddValidator/"+f, fmt.Sprintf("%s (%s): AddValidator: %s has %d entries, had %d", where, forkName(st), f, la.Len(), lb.Len()))
					return
				}
				for i := 0; i < lb.Len(); i++ {
					if !reflect.DeepEqual(lb.Index(i).Interface(), la.Index(i).Interface()) {
						s.viol("C15", "setter/AddValidator/"+f, fmt.Sprintf("%s (%s): AddValidator changed entry %d of %s", where, forkName(st), i, f))
						return
					}
				}
				last := la.Index(la.Len() - 1).Interface()
				switch f {
				case "Validators":
					v := last.(*phase0.Validator)
					eff := bal - bal%s.w.spec.EFFECTIVE_BALANCE_INCREMENT
					if eff > s.w.spec.MAX_EFFECTIVE_BALANCE {
						eff = s.w.spec.MAX_EFFECTIVE_BALANCE
					}
					if v.Pubkey != pk || v.WithdrawalCredentials != wc || v.EffectiveBalance != eff || v.Slashed || uint64(v.ActivationEligibilityEpoch) != farFuture || uint64(v.ActivationEpoch) != farFuture || uint64(v.ExitEpoch) != farFuture || uint64(v.WithdrawableEpoch) != farFuture {
						s.viol("C15", "setter/AddValidator/Validators", fmt.Sprintf("%s (%s): the validator added is %+v", where, forkName(st), *v))
						return
					}
				case "Balances":
					if last.(common.Gwei) != bal {
						s.viol("C15", "setter/AddValidator/Balances", fmt.Sprintf("%s (%s): balance added %v, given %d", where, forkName(st), last, bal))
						return
					}
				default:
					if !reflect.ValueOf(last).IsZero() {
						s.viol("C15", "setter/AddValidator/"+f, fmt.Sprintf("%s (%s): the new entry of %s is %v, not zero", where, forkName(st), f, last))
						return
					}
				}
			}
		}
	}
	hFn := tree.GetHashFn()
	for _, set := range vs {
		c, err := st.CopyState()
		if err != nil {
			return
		}
		_ = c.HashTreeRoot(hFn) // hashes cached before the write
		if p := guard(func() { err = set.apply(c) }); p != nil {
			s.viol("C15", "setter-panic/"+set.field+"/"+p.frame, p.val)
			return
		}
		if err != nil {
			s.viol("C15", "setter-error/"+set.field, fmt.Sprintf("%s (%s): %v", where, forkName(st), err))
			return
		}
		s.res.Stat("setter_checks", 1)
		after := s.rawOf(c)
		// C05: the root reported after the write is the root of the INTENDED content built from scratch
		// (the old content with this one field replaced), whatever the write did to the tree
		if intended := s.rawOf(st); intended != nil {
			f := reflect.ValueOf(intended).Elem().FieldByName(set.field)
			if f.IsValid() && f.CanSet() && reflect.TypeOf(set.want).AssignableTo(f.Type()) {
				f.Set(reflect.ValueOf(set.want))
				if ir, ok := intended.(interface {
					HashTreeRoot(spec *common.Spec, hFn tree.HashFn) common.Root
				}); ok {
					if r1, r2 := c.HashTreeRoot(hFn), ir.HashTreeRoot(s.w.spec, hFn); r1 != r2 {
						s.viol("C05", "state/root-after-setter-vs-intended-content/"+set.field, fmt.Sprintf("%s (%s): after Set%s(%+v) the state reports root %s; the previous content with that field replaced, built from scratch, has root %s", where, forkName(st), set.field, set.want, r1, r2))
					}
				}
			}
		}
		if got := fieldOf(after, set.field); !reflect.DeepEqual(got, set.want) {
			s.viol("C15", "setter-value/"+set.field, fmt.Sprintf("%s (%s): Set%s(%+v): the state now holds %+v (before: %+v)", where, forkName(st), set.field, set.want, got, fieldOf(raw, set.field)))
			return
		}
		if ch := changedFields(raw, after); len(ch) != 1 || ch[0] != set.field {
			s.viol("C15", "setter-touches-other-fields/"+set.field, fmt.Sprintf("%s (%s): setting %s changed %v", where, forkName(st), set.field, ch))
			return
		}
		if sr, ok := after.(interface {
			HashTreeRoot(spec *common.Spec, hFn tree.HashFn) common.Root
		}); ok {
			if r1, r2 := c.HashTreeRoot(hFn), sr.HashTreeRoot(s.w.spec, hFn); r1 != r2 {
				s.viol("C05", "state/root-after-setter-vs-rebuilt/"+set.field, fmt.Sprintf("%s (%s): after Set%s the state reports root %s, the same content built from scratch has root %s", where, forkName(st), set.field, r1, r2))
				return
			}
		}
	}
}
