package chainsim

import (
	"fmt"
	"reflect"
	"regexp"
	"strings"

	"github.com/protolambda/zrnt/eth2/beacon/common"
	"github.com/protolambda/zrnt/eth2/beacon/phase0"
	"github.com/protolambda/ztyp/tree"
	"github.com/protolambda/ztyp/view"

	"verif/sim/codecsim"
	"verif/sim/refspec"
	"verif/sim/sszmodel"
)

// Refinement against refspec, step by step: for every transition zrnt makes, the model
// makes the same transition from the SAME pre-state (converted field by field), and the
// two post-states are compared field for field. Errors therefore never accumulate and
// every step of every reached history is an independent obligation.

func (s *sim) modelOf(st common.BeaconState) (*refspec.State, error) {
	raw := s.rawOf(unwrap(st))
	if raw == nil {
		return nil, fmt.Errorf("no raw form for %T", unwrap(st))
	}
	return refspec.FromRaw(raw)
}

var idxRe = regexp.MustCompile(`\[[0-9]+\]`)

// diffSig: the first differing field path, indices removed (violation signature).
func diffSig(d string) string {
	first := ""
	for _, e := range strings.Split(d, ";") {
		e = strings.TrimSpace(e)
		// roots of other states are consequences, not causes: prefer a plain field
		if strings.HasPrefix(e, "StateRoots") || strings.HasPrefix(e, "BlockRoots") || strings.HasPrefix(e, "Historical") || strings.HasPrefix(e, "LatestBlockHeader") {
			continue
		}
		first = e
		break
	}
	if first == "" {
		first = d
	}
	if i := strings.Index(first, ";"); i >= 0 {
		first = first[:i]
	}
	if i := strings.Index(first, ":"); i >= 0 {
		first = first[:i]
	}
	return idxRe.ReplaceAllString(strings.TrimSpace(first), "[]")
}

// checkSlotsStep (C02): zrnt advanced `pre` to `target` giving `post`.
func (s *sim) checkSlotsStep(pre, post *stateBox, target uint64, where string) bool {
	spec := s.w.spec
	m, err := s.modelOf(pre.st)
	if err != nil {
		s.res.Harness = "model conversion: " + err.Error()
		s.stop = true
		return false
	}
	if err := refspec.ProcessSlots(spec, m, target); err != nil {
		if strings.Contains(err.Error(), "model panic") {
			s.res.Harness = "refspec: " + err.Error()
			s.stop = true
			return false
		}
		s.viol("C02", "model-refuses-process-slots", fmt.Sprintf("%s: zrnt advanced to slot %d, the specification model fails: %v", where, target, err))
		return false
	}
	z, err := s.modelOf(post.st)
	if err != nil {
		s.res.Harness = "model conversion: " + err.Error()
		s.stop = true
		return false
	}
	s.res.Stat("model_slot_steps", 1)
	if z.Fork != m.Fork {
		s.viol("C02", "state-type-after-slots", fmt.Sprintf("%s: after process_slots to %d zrnt holds a %s state, the specification a %s state", where, target, z.Fork, m.Fork))
		return false
	}
	if d := refspec.Diff(z, m); d != "" {
		ps, _ := pre.st.Slot()
		s.viol("C02", "process-slots-differs/"+m.Fork.String()+"/"+diffSig(d), fmt.Sprintf("%s: process_slots %d -> %d (%s): zrnt != spec: %s", where, ps, target, m.Fork, d))
		return false
	}
	return true
}

// checkBlockStep (C01): the builder produced blk on parent; zrnt accepted it with post-state blk.post.
func (s *sim) checkBlockStep(parent *blockRec, blk *blockRec) {
	spec := s.w.spec
	// slots part first, so that a slot-processing fault is reported as C02
	pre, err := s.w.advance(parent, blk.slot)
	if err != nil {
		s.viol("C02", "process-slots-error", err.Error())
		return
	}
	if ps, _ := parent.post.st.Slot(); uint64(ps) < blk.slot {
		if !s.checkSlotsStep(parent.post, pre, blk.slot, fmt.Sprintf("before the block at slot %d", blk.slot)) && s.stop {
			return // (a slots finding that belongs to another property than the one under check does not end the step)
		}
	}
	m, err := s.modelOf(pre.st)
	if err != nil {
		s.res.Harness = "model conversion: " + err.Error()
		s.stop = true
		return
	}
	// unsigned message of the fork's block struct
	msg := reflect.ValueOf(blk.signed).Elem().FieldByName("Message").Addr().Interface()
	s.res.Stat("model_block_steps", 1)
	if err := refspec.ProcessBlock(spec, m, msg); err != nil {
		if strings.Contains(err.Error(), "model panic") {
			s.res.Harness = "refspec: " + err.Error()
			s.stop = true
			return
		}
		s.viol("C01", "spec-rejects-block-zrnt-accepts", fmt.Sprintf("honest block at slot %d (%s, kinds %b) is accepted by zrnt, the specification model rejects it: %v", blk.slot, m.Fork, blk.kinds, err))
		return
	}
	z, err := s.modelOf(blk.post.st)
	if err != nil {
		s.res.Harness = "model conversion: " + err.Error()
		s.stop = true
		return
	}
	if d := refspec.Diff(z, m); d != "" {
		s.viol("C01", "post-state-differs/"+m.Fork.String()+"/"+diffSig(d), fmt.Sprintf("block at slot %d (%s, kinds %b): zrnt != spec: %s", blk.slot, m.Fork, blk.kinds, d))
		return
	}
	// the declared state root is the model's root
	if r, err := refspec.Root(spec, m); err == nil && common.Root(r) != blk.env.StateRoot {
		s.viol("C01", "state-root-differs", fmt.Sprintf("block at slot %d: all fields agree but the roots differ (struct-form root of the model state vs zrnt tree root)", blk.slot))
		return
	}
	if r, err := sszmodel.StateRoot(spec, m); err != nil {
		s.res.Harness = "sszmodel: " + err.Error()
		s.stop = true
		return
	} else if common.Root(r) != blk.env.StateRoot {
		s.viol("C01", "state-root-differs-from-spec-schema", fmt.Sprintf("block at slot %d (%s): all fields agree with the model but hash_tree_root(model state) by the specification's schema is %x, the block zrnt produced and accepted declares %s", blk.slot, m.Fork, r, blk.env.StateRoot))
		return
	}
	// and the signed block passes the model's full state_transition (proposer signature included)
	m2, _ := s.modelOf(parent.post.st)
	if err := refspec.StateTransition(spec, m2, blk.signed, true); err != nil {
		s.viol("C01", "spec-rejects-signed-block", fmt.Sprintf("block at slot %d: %v", blk.slot, err))
	}
}

// checkCommittees (C07): what the context reports equals what the specification computes from the state.
func (s *sim) checkCommittees(box *stateBox, where string) {
	spec := s.w.spec
	m, err := s.modelOf(box.st)
	if err != nil {
		return
	}
	s.res.Stat("committee_checks", 1)
	cur := refspec.CurrentEpoch(spec, m)
	epochs := []uint64{cur, cur + 1}
	if cur > 0 {
		epochs = append(epochs, cur-1)
	}
	spe := s.cfg.SPE
	for _, e := range epochs {
		cnt, err := box.epc.GetCommitteeCountPerSlot(common.Epoch(e))
		want := refspec.CommitteeCountPerSlot(spec, m, e)
		if err != nil || cnt != want {
			s.viol("C07", "committee-count", fmt.Sprintf("%s: epoch %d (current %d): context says %d (err %v), spec says %d", where, e, cur, cnt, err, want))
			return
		}
		seen := map[uint64]int{}
		for slot := e * spe; slot < (e+1)*spe; slot++ {
			for ci := uint64(0); ci < want; ci++ {
				got, err := box.epc.GetBeaconCommittee(common.Slot(slot), common.CommitteeIndex(ci))
				exp, err2 := refspec.BeaconCommittee(spec, m, slot, ci)
				if err != nil || err2 != nil {
					s.viol("C07", "committee-error", fmt.Sprintf("%s: slot %d index %d: context err %v, spec err %v", where, slot, ci, err, err2))
					return
				}
				same := len(got) == len(exp)
				for i := 0; same && i < len(got); i++ {
					same = uint64(got[i]) == exp[i]
				}
				if !same {
					s.viol("C07", "beacon-committee", fmt.Sprintf("%s (%s): committee (slot %d, index %d) of epoch %d (current %d): context %v, spec %v", where, m.Fork, slot, ci, e, cur, got, exp))
					return
				}
				for _, v := range got {
					seen[uint64(v)]++
				}
			}
			// out-of-range index is an error, not a panic
			if _, err := box.epc.GetBeaconCommittee(common.Slot(slot), common.CommitteeIndex(want)); err == nil {
				s.viol("C07", "out-of-range-committee-accepted", fmt.Sprintf("%s: slot %d index %d (count %d) returned a committee", where, slot, want, want))
				return
			}
		}
		active := refspec.ActiveValidatorIndices(spec, m, e)
		if len(seen) != len(active) {
			s.viol("C07", "committees-do-not-partition-active-set", fmt.Sprintf("%s: epoch %d: %d validators sit in committees, %d are active", where, e, len(seen), len(active)))
			return
		}
		for _, v := range active {
			if seen[v] != 1 {
				s.viol("C07", "committees-do-not-partition-active-set", fmt.Sprintf("%s: epoch %d: active validator %d sits in %d committees", where, e, v, seen[v]))
				return
			}
		}
	}
	for slot := cur * spe; slot < (cur+1)*spe; slot++ {
		got, err := box.epc.GetBeaconProposer(common.Slot(slot))
		exp, err2 := refspec.ProposerIndexAtSlot(spec, m, slot)
		if err != nil || err2 != nil || uint64(got) != exp {
			s.viol("C07", "beacon-proposer", fmt.Sprintf("%s (%s): proposer of slot %d (epoch %d): context %d (err %v), spec %d (err %v)", where, m.Fork, slot, cur, got, err, exp, err2))
			return
		}
	}
	if m.CurrentSyncCommittee != nil && box.epc.CurrentSyncCommittee != nil {
		chk := func(name string, isc *common.IndexedSyncCommittee, sc *refspec.SyncCommittee) bool {
			if len(isc.Indices) != len(sc.Pubkeys) {
				s.viol("C07", name+"/size", fmt.Sprintf("%s: context has %d members, state has %d", where, len(isc.Indices), len(sc.Pubkeys)))
				return false
			}
			for i, vi := range isc.Indices {
				if int(vi) >= len(m.Validators) || m.Validators[vi].Pubkey != sc.Pubkeys[i] || isc.CachedPubkeys[i].Compressed != common.BLSPubkey(sc.Pubkeys[i]) {
					s.viol("C07", name+"/member", fmt.Sprintf("%s (%s): position %d: context index %d does not own the pubkey the state lists there", where, m.Fork, i, vi))
					return false
				}
			}
			return true
		}
		if !chk("current-sync-committee", box.epc.CurrentSyncCommittee, m.CurrentSyncCommittee) || !chk("next-sync-committee", box.epc.NextSyncCommittee, m.NextSyncCommittee) {
			return
		}
		// at the first slot of a sync-committee period the state's next committee is the one the
		// specification samples in the epoch transition that just ran: recompute it on the same
		// content one slot earlier (sync-committee updates are the last step of process_epoch)
		period := uint64(spec.EPOCHS_PER_SYNC_COMMITTEE_PERIOD) * spe
		if m.Slot > 0 && m.Slot%period == 0 && s.w.forkIndexAt((m.Slot-1)/spe) >= 1 {
			m2 := m.Copy()
			m2.Slot = m.Slot - 1
			if idx, err := refspec.NextSyncCommitteeIndices(spec, m2); err == nil {
				s.res.Stat("sync_committee_sampling_checks", 1)
				for i, vi := range idx {
					if i >= len(m.NextSyncCommittee.Pubkeys) || m.Validators[vi].Pubkey != m.NextSyncCommittee.Pubkeys[i] {
						s.viol("C07", "next-sync-committee/sampling", fmt.Sprintf("%s (%s): first slot of a sync period (slot %d): position %d of the state's next sync committee is not validator %d whom the specification samples there", where, m.Fork, m.Slot, i, vi))
						return
					}
				}
			}
		}
	}
}

// ---------- C13: genesis from an eth1 deposit log ----------

func (s *sim) checkGenesisLogs() {
	w := s.w
	spec := w.spec
	r := s.frng
	for round := 0; round < 6 && !s.stop; round++ {
		n := r.Range(int(s.cfg.SPE)-1, int(s.cfg.SPE)*3)
		tree := &depositTree{}
		var deps []common.Deposit
		var datas []common.DepositData
		for i := 0; i < n; i++ {
			var dd common.DepositData
			kind := r.Intn(12)
			ki := i % len(w.keys.sk)
			switch {
			case kind < 6:
				dd.Pubkey = w.keys.pub[ki]
				dd.Amount = common.Gwei([]uint64{32, 32, 32, 31, 33, 16, 1, 64}[r.Intn(8)] * 1_000_000_000)
				dd.WithdrawalCredentials[0] = byte(r.Intn(2))
				dd.WithdrawalCredentials[31] = byte(i)
				dom := computeDomain(common.DOMAIN_DEPOSIT, spec.GENESIS_FORK_VERSION, common.Root{})
				dd.Signature = w.keys.sign(ki, signingRoot(dd.MessageRoot(), dom))
			case kind < 8 && i > 0: // repeated pubkey: a top-up, signature irrelevant
				dd = datas[r.Intn(len(datas))]
				dd.Amount = common.Gwei(uint64(r.Range(1, 20)) * 500_000_000)
				dd.Signature = common.BLSSignature{}
			case kind < 10: // invalid proof of possession (signed under another domain)
				dd.Pubkey = w.keys.pub[ki]
				dd.Amount = 32_000_000_000
				dom := computeDomain(common.DOMAIN_DEPOSIT, spec.ALTAIR_FORK_VERSION, common.Root{})
				dd.Signature = w.keys.sign(ki, signingRoot(dd.MessageRoot(), dom))
			case kind < 11: // invalid pubkey bytes
				dd.Pubkey[0] = 0xff
				dd.Pubkey[7] = byte(i)
				dd.Amount = 32_000_000_000
			default: // signature bytes that do not decode
				dd.Pubkey = w.keys.pub[ki]
				dd.Amount = 32_000_000_000
				dd.Signature[0] = 0xff
			}
			datas = append(datas, dd)
			tree.leaves = append(tree.leaves, dd.HashTreeRoot(treeHashFn))
		}
		for i := range datas {
			pr := tree.proof(uint64(i), uint64(i+1)) // per spec: the root over the prefix up to and including this deposit
			d := common.Deposit{Data: datas[i]}
			copy(d.Proof[:], pr[:])
			deps = append(deps, d)
		}
		hash := fnvRoot("genesis-eth1", uint64(round)<<32|s.cfg.Seed&0xffffffff)
		ts := uint64(spec.MIN_GENESIS_TIME) - uint64(spec.GENESIS_DELAY) + uint64(r.Intn(3))*uint64(spec.GENESIS_DELAY) - uint64(spec.GENESIS_DELAY)/2
		var zst *phase0.BeaconStateView
		var zepc *common.EpochsContext
		var zerr error
		if p := guard(func() { zst, zepc, zerr = phase0.GenesisFromEth1(spec, hash, common.Timestamp(ts), deps, false) }); p != nil {
			s.viol("C13", "panic/"+p.frame, p.val)
			return
		}
		m, merr := refspec.InitializeFromEth1(spec, hash, ts, deps)
		s.res.Stat("genesis_logs", 1)
		if merr != nil {
			if strings.Contains(merr.Error(), "model panic") {
				s.res.Harness = "refspec genesis: " + merr.Error()
				s.stop = true
				return
			}
			if zerr == nil {
				s.viol("C13", "spec-rejects-log-zrnt-accepts", fmt.Sprintf("deposit log of %d entries: %v", n, merr))
			}
			continue
		}
		if zerr != nil {
			// zrnt refuses to build states with fewer validators than SLOTS_PER_EPOCH (documented restriction)
			if len(m.Validators) < int(s.cfg.SPE) {
				s.res.Stat("genesis_logs_refused_too_few_validators", 1)
				continue
			}
			// nor can it return an epochs context for a state without any active validator
			// (no proposer exists); such a state is never a valid genesis
			if len(refspec.ActiveValidatorIndices(spec, m, 0)) == 0 && !refspec.IsValidGenesisState(spec, m) {
				s.res.Stat("genesis_logs_refused_no_active_validator", 1)
				continue
			}
			s.viol("C13", "zrnt-rejects-log-spec-accepts", fmt.Sprintf("deposit log of %d entries (%d validators result): %v", n, len(m.Validators), zerr))
			return
		}
		z, err := s.modelOf(zst)
		if err != nil {
			s.res.Harness = "model conversion: " + err.Error()
			s.stop = true
			return
		}
		if d := refspec.Diff(z, m); d != "" {
			s.viol("C13", "genesis-state-differs/"+diffSig(d), fmt.Sprintf("deposit log of %d entries: zrnt != spec: %s", n, d))
			return
		}
		// ... and the root of the state the library built is the root of that content by the specification's schema
		if sr, err := sszmodel.StateRoot(spec, m); err != nil {
			s.res.Harness = "sszmodel: " + err.Error()
			s.stop = true
			return
		} else if zr := zst.HashTreeRoot(stdHashFn()); zr != common.Root(sr) {
			s.viol("C13", "genesis-state-root", fmt.Sprintf("deposit log of %d entries: every field of the genesis state equals the specification's, but the state reports root %s and the same content merkleised from scratch has root %x", n, zr, sr))
			return
		}
		// the genesis header's body root is the root of an empty block body, by the specification's schema
		if want, ok := codecsim.DefaultRoot(spec, "phase0.BeaconBlockBody"); ok {
			if h, err := zst.LatestBlockHeader(); err != nil || h.BodyRoot != common.Root(want) {
				s.viol("C13", "genesis-header-body-root", fmt.Sprintf("deposit log of %d entries: latest_block_header.body_root is not hash_tree_root(BeaconBlockBody()) = %x (MAX_DEPOSITS %d, MAX_VOLUNTARY_EXITS %d, MAX_ATTESTATIONS %d)", n, want, spec.MAX_DEPOSITS, spec.MAX_VOLUNTARY_EXITS, spec.MAX_ATTESTATIONS))
				return
			}
		}
		zv, err := phase0.IsValidGenesisState(spec, zst)
		mv := refspec.IsValidGenesisState(spec, m)
		if err != nil || zv != mv {
			s.viol("C13", "is-valid-genesis-state", fmt.Sprintf("deposit log of %d entries, genesis time %d: zrnt says %v (err %v), spec says %v", n, m.GenesisTime, zv, err, mv))
			return
		}
		if mv {
			s.res.Stat("genesis_logs_valid", 1)
		}
		// the validity predicate exactly at, just below and just above its two thresholds
		active := uint64(len(refspec.ActiveValidatorIndices(spec, m, 0)))
		for _, dc := range []int64{-1, 0, 1} {
			for _, dt := range []int64{-1, 0, 1} {
				sp := *spec
				if int64(active)+dc < 0 || int64(m.GenesisTime)+dt < 0 {
					continue
				}
				sp.MIN_GENESIS_ACTIVE_VALIDATOR_COUNT = view.Uint64View(int64(active) + dc)
				sp.MIN_GENESIS_TIME = common.Timestamp(int64(m.GenesisTime) + dt)
				zv, err := phase0.IsValidGenesisState(&sp, zst)
				mv := refspec.IsValidGenesisState(&sp, m)
				s.res.Stat("genesis_validity_threshold_checks", 1)
				if err != nil || zv != mv {
					s.viol("C13", "is-valid-genesis-state/at-threshold", fmt.Sprintf("deposit log of %d entries: %d active validators, genesis time %d, MIN_GENESIS_ACTIVE_VALIDATOR_COUNT %d, MIN_GENESIS_TIME %d: zrnt says %v (err %v), spec says %v", n, active, m.GenesisTime, sp.MIN_GENESIS_ACTIVE_VALIDATOR_COUNT, sp.MIN_GENESIS_TIME, zv, err, mv))
					return
				}
			}
		}
		// the returned context describes the returned state (C07/C08 monitors at slot 0)
		box := &stateBox{wrapState(zst), zepc}
		s.checkContext(nil, box, "genesis from eth1 log")
		if !s.stop {
			s.checkCommittees(box, "genesis from eth1 log")
		}
		// relabel context/committee faults found here as genesis faults
		for i := range s.res.Violations {
			v := &s.res.Violations[i]
			if strings.Contains(v.Detail, "genesis from eth1 log") && v.Property != "C13" {
				v.Signature = "C13/returned-context/" + strings.TrimPrefix(v.Signature, v.Property+"/")
				v.Property = "C13"
			}
		}
	}
}

var treeHashFn = tree.GetHashFn()
