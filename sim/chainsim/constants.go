package chainsim

import (
	"fmt"
	"reflect"

	"github.com/protolambda/zrnt/eth2/beacon/common"
	"github.com/protolambda/zrnt/eth2/configs"
)

// The harness's OWN tables of the published preset/config constants (written from the
// consensus-specs presets and configs, not read from zrnt). A refinement precondition
// of C14: the built-in configurations carry exactly these values. This part is a data
// comparison, not a simulation (said so in evidence). Constants the author could not
// recall with certainty are left out rather than mirrored from the implementation.

const never = ^uint64(0)

var bothPresets = map[string]uint64{
	// phase0, equal in both presets
	"MAX_VALIDATORS_PER_COMMITTEE": 2048, "HYSTERESIS_QUOTIENT": 4, "HYSTERESIS_DOWNWARD_MULTIPLIER": 1, "HYSTERESIS_UPWARD_MULTIPLIER": 5,
	"MIN_DEPOSIT_AMOUNT": 1_000_000_000, "MAX_EFFECTIVE_BALANCE": 32_000_000_000, "EFFECTIVE_BALANCE_INCREMENT": 1_000_000_000,
	"MIN_ATTESTATION_INCLUSION_DELAY": 1, "MIN_SEED_LOOKAHEAD": 1, "MAX_SEED_LOOKAHEAD": 4, "MIN_EPOCHS_TO_INACTIVITY_PENALTY": 4,
	"HISTORICAL_ROOTS_LIMIT": 16777216, "VALIDATOR_REGISTRY_LIMIT": 1 << 40, "BASE_REWARD_FACTOR": 64, "WHISTLEBLOWER_REWARD_QUOTIENT": 512,
	"PROPOSER_REWARD_QUOTIENT": 8, "MAX_PROPOSER_SLASHINGS": 16, "MAX_ATTESTER_SLASHINGS": 2, "MAX_ATTESTATIONS": 128, "MAX_DEPOSITS": 16, "MAX_VOLUNTARY_EXITS": 16,
	// altair
	"INACTIVITY_PENALTY_QUOTIENT_ALTAIR": 50331648, "MIN_SLASHING_PENALTY_QUOTIENT_ALTAIR": 64, "PROPORTIONAL_SLASHING_MULTIPLIER_ALTAIR": 2, "MIN_SYNC_COMMITTEE_PARTICIPANTS": 1,
	// bellatrix
	"INACTIVITY_PENALTY_QUOTIENT_BELLATRIX": 16777216, "MIN_SLASHING_PENALTY_QUOTIENT_BELLATRIX": 32, "PROPORTIONAL_SLASHING_MULTIPLIER_BELLATRIX": 3,
	"MAX_BYTES_PER_TRANSACTION": 1073741824, "MAX_TRANSACTIONS_PER_PAYLOAD": 1048576, "BYTES_PER_LOGS_BLOOM": 256, "MAX_EXTRA_DATA_BYTES": 32,
	// capella
	"MAX_BLS_TO_EXECUTION_CHANGES": 16,
	// config, equal in both
	"SECONDS_PER_ETH1_BLOCK": 14, "MIN_VALIDATOR_WITHDRAWABILITY_DELAY": 256, "INACTIVITY_SCORE_BIAS": 4, "INACTIVITY_SCORE_RECOVERY_RATE": 16, "EJECTION_BALANCE": 16_000_000_000,
}

var mainnetOnly = map[string]uint64{
	"MAX_COMMITTEES_PER_SLOT": 64, "TARGET_COMMITTEE_SIZE": 128, "SHUFFLE_ROUND_COUNT": 90, "SLOTS_PER_EPOCH": 32, "EPOCHS_PER_ETH1_VOTING_PERIOD": 64,
	"SLOTS_PER_HISTORICAL_ROOT": 8192, "EPOCHS_PER_HISTORICAL_VECTOR": 65536, "EPOCHS_PER_SLASHINGS_VECTOR": 8192,
	"INACTIVITY_PENALTY_QUOTIENT": 67108864, "MIN_SLASHING_PENALTY_QUOTIENT": 128, "PROPORTIONAL_SLASHING_MULTIPLIER": 1,
	"SYNC_COMMITTEE_SIZE": 512, "EPOCHS_PER_SYNC_COMMITTEE_PERIOD": 256,
	"MAX_WITHDRAWALS_PER_PAYLOAD": 16, "MAX_VALIDATORS_PER_WITHDRAWALS_SWEEP": 16384,
	"MAX_BLOB_COMMITMENTS_PER_BLOCK": 4096, "MAX_BLOBS_PER_BLOCK": 6, "KZG_COMMITMENT_INCLUSION_PROOF_DEPTH": 17,
	"SECONDS_PER_SLOT": 12, "SHARD_COMMITTEE_PERIOD": 256, "ETH1_FOLLOW_DISTANCE": 2048, "MIN_PER_EPOCH_CHURN_LIMIT": 4, "CHURN_LIMIT_QUOTIENT": 65536,
	"MAX_PER_EPOCH_ACTIVATION_CHURN_LIMIT": 8, "MIN_GENESIS_ACTIVE_VALIDATOR_COUNT": 16384, "MIN_GENESIS_TIME": 1606824000, "GENESIS_DELAY": 604800,
	"ALTAIR_FORK_EPOCH": 74240, "BELLATRIX_FORK_EPOCH": 144896, "CAPELLA_FORK_EPOCH": 194048, "DENEB_FORK_EPOCH": 269568,
}

var minimalOnly = map[string]uint64{
	"MAX_COMMITTEES_PER_SLOT": 4, "TARGET_COMMITTEE_SIZE": 4, "SHUFFLE_ROUND_COUNT": 10, "SLOTS_PER_EPOCH": 8, "EPOCHS_PER_ETH1_VOTING_PERIOD": 4,
	"SLOTS_PER_HISTORICAL_ROOT": 64, "EPOCHS_PER_HISTORICAL_VECTOR": 64, "EPOCHS_PER_SLASHINGS_VECTOR": 64,
	"INACTIVITY_PENALTY_QUOTIENT": 33554432, "MIN_SLASHING_PENALTY_QUOTIENT": 64, "PROPORTIONAL_SLASHING_MULTIPLIER": 2,
	"SYNC_COMMITTEE_SIZE": 32, "EPOCHS_PER_SYNC_COMMITTEE_PERIOD": 8,
	"MAX_WITHDRAWALS_PER_PAYLOAD": 4, "MAX_VALIDATORS_PER_WITHDRAWALS_SWEEP": 16,
	"MAX_BLOBS_PER_BLOCK": 6,
	"SECONDS_PER_SLOT":    6, "SHARD_COMMITTEE_PERIOD": 64, "ETH1_FOLLOW_DISTANCE": 16, "MIN_PER_EPOCH_CHURN_LIMIT": 2, "CHURN_LIMIT_QUOTIENT": 32,
	"MAX_PER_EPOCH_ACTIVATION_CHURN_LIMIT": 4, "MIN_GENESIS_ACTIVE_VALIDATOR_COUNT": 64, "MIN_GENESIS_TIME": 1578009600, "GENESIS_DELAY": 300,
	"ALTAIR_FORK_EPOCH": never, "BELLATRIX_FORK_EPOCH": never, "CAPELLA_FORK_EPOCH": never, "DENEB_FORK_EPOCH": never,
}

var versions = map[string][2][4]byte{ // name -> {mainnet, minimal}
	"GENESIS_FORK_VERSION":   {{0, 0, 0, 0}, {0, 0, 0, 1}},
	"ALTAIR_FORK_VERSION":    {{1, 0, 0, 0}, {1, 0, 0, 1}},
	"BELLATRIX_FORK_VERSION": {{2, 0, 0, 0}, {2, 0, 0, 1}},
	"CAPELLA_FORK_VERSION":   {{3, 0, 0, 0}, {3, 0, 0, 1}},
	"DENEB_FORK_VERSION":     {{4, 0, 0, 0}, {4, 0, 0, 1}},
}

func specField(spec *common.Spec, name string) (reflect.Value, bool) {
	v := reflect.ValueOf(spec).Elem().FieldByName(name)
	return v, v.IsValid()
}

func specUint(spec *common.Spec, name string) (uint64, bool) {
	v, ok := specField(spec, name)
	if !ok {
		return 0, false
	}
	switch v.Kind() {
	case reflect.Uint8, reflect.Uint16, reflect.Uint32, reflect.Uint64, reflect.Uint:
		return v.Uint(), true
	}
	return 0, false
}

// checkBuiltinConstants compares configs.Mainnet / configs.Minimal with the tables above.
func (s *sim) checkBuiltinConstants() {
	n := 0
	for pi, spec := range []*common.Spec{configs.Mainnet, configs.Minimal} {
		name := []string{"mainnet", "minimal"}[pi]
		tables := []map[string]uint64{bothPresets, mainnetOnly}
		if pi == 1 {
			tables = []map[string]uint64{bothPresets, minimalOnly}
		}
		for _, t := range tables {
			for k, want := range t {
				got, ok := specUint(spec, k)
				if !ok {
					continue // the library does not carry this constant under this name
				}
				n++
				if got != want {
					s.viol("C14", "builtin-constant/"+name+"/"+k, fmt.Sprintf("configs.%s.%s = %d, the specification publishes %d", name, k, got, want))
					return
				}
			}
		}
		for k, v := range versions {
			f, ok := specField(spec, k)
			if !ok {
				continue
			}
			var got [4]byte
			reflect.Copy(reflect.ValueOf(&got).Elem(), f)
			n++
			if got != v[pi] {
				s.viol("C14", "builtin-constant/"+name+"/"+k, fmt.Sprintf("configs.%s.%s = %x, the specification publishes %x", name, k, got, v[pi]))
				return
			}
		}
		// relation that holds in every release: proof depth = 4 + 1 + ceil(log2(limit))
		if lim, ok := specUint(spec, "MAX_BLOB_COMMITMENTS_PER_BLOCK"); ok {
			depth, _ := specUint(spec, "KZG_COMMITMENT_INCLUSION_PROOF_DEPTH")
			lg := uint64(0)
			for (uint64(1) << lg) < lim {
				lg++
			}
			n++
			if depth != 5+lg {
				s.viol("C14", "builtin-constant/"+name+"/KZG_COMMITMENT_INCLUSION_PROOF_DEPTH", fmt.Sprintf("configs.%s: proof depth %d for a commitments limit of %d (must be 5+ceil(log2(limit)) = %d)", name, depth, lim, 5+lg))
				return
			}
			if pi == 1 && lim != 16 && lim != 32 {
				s.viol("C14", "builtin-constant/minimal/MAX_BLOB_COMMITMENTS_PER_BLOCK", fmt.Sprintf("configs.minimal.MAX_BLOB_COMMITMENTS_PER_BLOCK = %d; the minimal preset publishes 16 (v1.4) or 32 (v1.5), never the mainnet value", lim))
				return
			}
		}
	}
	s.res.Stat("builtin_constants_compared", int64(n))
}
