package chainsim

import (
	"crypto/sha256"
	"bytes"
	"context"
	"fmt"
	"os"
	"reflect"
	"strings"

	"github.com/protolambda/zrnt/eth2/beacon"
	"github.com/protolambda/zrnt/eth2/beacon/altair"
	"github.com/protolambda/zrnt/eth2/beacon/bellatrix"
	"github.com/protolambda/zrnt/eth2/beacon/capella"
	"github.com/protolambda/zrnt/eth2/beacon/common"
	"github.com/protolambda/zrnt/eth2/beacon/deneb"
	"github.com/protolambda/zrnt/eth2/beacon/phase0"
	"github.com/protolambda/ztyp/codec"
	"github.com/protolambda/ztyp/tree"
	"github.com/protolambda/ztyp/view"

	"verif/sim/refspec"
)

// Byzantine proposer / corrupting link (C03): a valid block is corrupted in one place
// from a catalogue, optionally re-signed (with a state root recomputed by the MODEL when
// the model still accepts the operations - which yields valid variants too), sent as
// bytes, and both the model and zrnt give their verdict.

type blockRefs struct {
	slot       *common.Slot
	proposer   *common.ValidatorIndex
	parentRoot *common.Root
	stateRoot  *common.Root
	sig        *common.BLSSignature
	randao     *common.BLSSignature
	eth1       *common.Eth1Data
	graffiti   *common.Root
	ps         *phase0.ProposerSlashings
	as         *phase0.AttesterSlashings
	atts       *phase0.Attestations
	deps       *phase0.Deposits
	exits      *phase0.VoluntaryExits
	sync       *altair.SyncAggregate
	changes    *common.SignedBLSToExecutionChanges
	commit     *deneb.KZGCommitments
	parentHash *common.Hash32
	prevRandao *common.Bytes32
	timestamp  *common.Timestamp
	withdraw   *common.Withdrawals
	blockHash  *common.Hash32
	body       interface{}
}

func refsOf(signed common.SpecObj) *blockRefs {
	r := &blockRefs{}
	switch b := signed.(type) {
	case *phase0.SignedBeaconBlock:
		m, bd := &b.Message, &b.Message.Body
		r.slot, r.proposer, r.parentRoot, r.stateRoot, r.sig, r.body = &m.Slot, &m.ProposerIndex, &m.ParentRoot, &m.StateRoot, &b.Signature, bd
		r.randao, r.eth1, r.graffiti, r.ps, r.as, r.atts, r.deps, r.exits = &bd.RandaoReveal, &bd.Eth1Data, &bd.Graffiti, &bd.ProposerSlashings, &bd.AttesterSlashings, &bd.Attestations, &bd.Deposits, &bd.VoluntaryExits
	case *altair.SignedBeaconBlock:
		m, bd := &b.Message, &b.Message.Body
		r.slot, r.proposer, r.parentRoot, r.stateRoot, r.sig, r.body = &m.Slot, &m.ProposerIndex, &m.ParentRoot, &m.StateRoot, &b.Signature, bd
		r.randao, r.eth1, r.graffiti, r.ps, r.as, r.atts, r.deps, r.exits, r.sync = &bd.RandaoReveal, &bd.Eth1Data, &bd.Graffiti, &bd.ProposerSlashings, &bd.AttesterSlashings, &bd.Attestations, &bd.Deposits, &bd.VoluntaryExits, &bd.SyncAggregate
	case *bellatrix.SignedBeaconBlock:
		m, bd := &b.Message, &b.Message.Body
		r.slot, r.proposer, r.parentRoot, r.stateRoot, r.sig, r.body = &m.Slot, &m.ProposerIndex, &m.ParentRoot, &m.StateRoot, &b.Signature, bd
		r.randao, r.eth1, r.graffiti, r.ps, r.as, r.atts, r.deps, r.exits, r.sync = &bd.RandaoReveal, &bd.Eth1Data, &bd.Graffiti, &bd.ProposerSlashings, &bd.AttesterSlashings, &bd.Attestations, &bd.Deposits, &bd.VoluntaryExits, &bd.SyncAggregate
		p := &bd.ExecutionPayload
		r.parentHash, r.prevRandao, r.timestamp, r.blockHash = &p.ParentHash, &p.PrevRandao, &p.Timestamp, &p.BlockHash
	case *capella.SignedBeaconBlock:
		m, bd := &b.Message, &b.Message.Body
		r.slot, r.proposer, r.parentRoot, r.stateRoot, r.sig, r.body = &m.Slot, &m.ProposerIndex, &m.ParentRoot, &m.StateRoot, &b.Signature, bd
		r.randao, r.eth1, r.graffiti, r.ps, r.as, r.atts, r.deps, r.exits, r.sync, r.changes = &bd.RandaoReveal, &bd.Eth1Data, &bd.Graffiti, &bd.ProposerSlashings, &bd.AttesterSlashings, &bd.Attestations, &bd.Deposits, &bd.VoluntaryExits, &bd.SyncAggregate, &bd.BLSToExecutionChanges
		p := &bd.ExecutionPayload
		r.parentHash, r.prevRandao, r.timestamp, r.blockHash, r.withdraw = &p.ParentHash, &p.PrevRandao, &p.Timestamp, &p.BlockHash, &p.Withdrawals
	case *deneb.SignedBeaconBlock:
		m, bd := &b.Message, &b.Message.Body
		r.slot, r.proposer, r.parentRoot, r.stateRoot, r.sig, r.body = &m.Slot, &m.ProposerIndex, &m.ParentRoot, &m.StateRoot, &b.Signature, bd
		r.randao, r.eth1, r.graffiti, r.ps, r.as, r.atts, r.deps, r.exits, r.sync, r.changes, r.commit = &bd.RandaoReveal, &bd.Eth1Data, &bd.Graffiti, &bd.ProposerSlashings, &bd.AttesterSlashings, &bd.Attestations, &bd.Deposits, &bd.VoluntaryExits, &bd.SyncAggregate, &bd.BLSToExecutionChanges, &bd.BlobKZGCommitments
		p := &bd.ExecutionPayload
		r.parentHash, r.prevRandao, r.timestamp, r.blockHash, r.withdraw = &p.ParentHash, &p.PrevRandao, &p.Timestamp, &p.BlockHash, &p.Withdrawals
	default:
		return nil
	}
	return r
}

type corruption struct {
	name   string
	resign bool // re-sign (and let the model recompute the state root if it still accepts)
	apply  func(s *sim, r *blockRefs, pre *stateBox) bool
}

func flipSig(sg *common.BLSSignature) { sg[20] ^= 0x40 }

func catalogue() []corruption {
	return []corruption{
		{"header/slot+1", true, func(s *sim, r *blockRefs, _ *stateBox) bool { *r.slot++; return true }},
		{"header/parent-root", true, func(s *sim, r *blockRefs, _ *stateBox) bool { r.parentRoot[3] ^= 1; return true }},
		{"header/proposer-index", true, func(s *sim, r *blockRefs, _ *stateBox) bool {
			*r.proposer = (*r.proposer + 1) % common.ValidatorIndex(s.cfg.Validators)
			return true
		}},
		{"header/state-root", true, func(s *sim, r *blockRefs, _ *stateBox) bool { r.stateRoot[9] ^= 1; return true }},
		{"header/state-root-unsigned", false, func(s *sim, r *blockRefs, _ *stateBox) bool { r.stateRoot[9] ^= 1; return true }},
		{"signature/flipped", false, func(s *sim, r *blockRefs, _ *stateBox) bool { flipSig(r.sig); return true }},
		{"signature/zeroed", false, func(s *sim, r *blockRefs, _ *stateBox) bool { *r.sig = common.BLSSignature{}; return true }},
		{"signature/infinity", false, func(s *sim, r *blockRefs, _ *stateBox) bool { *r.sig = infinitySig(); return true }},
		{"signature/other-key", false, func(s *sim, r *blockRefs, pre *stateBox) bool { return s.resignWith(r, pre, "otherkey") }},
		{"signature/wrong-domain-type", false, func(s *sim, r *blockRefs, pre *stateBox) bool { return s.resignWith(r, pre, "domain") }},
		{"signature/other-fork-version", false, func(s *sim, r *blockRefs, pre *stateBox) bool { return s.resignWith(r, pre, "version") }},
		{"signature/other-chain", false, func(s *sim, r *blockRefs, pre *stateBox) bool { return s.resignWith(r, pre, "gvr") }},
		{"randao/flipped", true, func(s *sim, r *blockRefs, _ *stateBox) bool { flipSig(r.randao); return true }},
		{"randao/next-epoch", true, func(s *sim, r *blockRefs, pre *stateBox) bool {
			f, _ := pre.st.Fork()
			e := common.Epoch(s.w.epochOf(uint64(*r.slot)) + 1)
			ki := s.w.keyOf(pre.st, *r.proposer)
			if ki < 0 {
				return false
			}
			*r.randao = s.w.keys.sign(ki, signingRoot(e.HashTreeRoot(tree.GetHashFn()), domainFor(f, s.w.gvr, common.DOMAIN_RANDAO, e)))
			return true
		}},
		{"eth1-data/other-vote", true, func(s *sim, r *blockRefs, _ *stateBox) bool { r.eth1.BlockHash[0] ^= 1; return true }}, // stays valid
		{"graffiti", true, func(s *sim, r *blockRefs, _ *stateBox) bool { r.graffiti[0] ^= 0x55; return true }},                // stays valid
		{"attestation/signature", true, func(s *sim, r *blockRefs, _ *stateBox) bool {
			if len(*r.atts) == 0 {
				return false
			}
			flipSig(&(*r.atts)[0].Signature)
			return true
		}},
		{"attestation/slot+1", true, func(s *sim, r *blockRefs, _ *stateBox) bool {
			if len(*r.atts) == 0 {
				return false
			}
			(*r.atts)[0].Data.Slot++
			return true
		}},
		{"attestation/committee-index-out-of-range", true, func(s *sim, r *blockRefs, _ *stateBox) bool {
			if len(*r.atts) == 0 {
				return false
			}
			(*r.atts)[0].Data.Index += common.CommitteeIndex(s.w.spec.MAX_COMMITTEES_PER_SLOT)
			return true
		}},
		{"attestation/target-epoch+1", true, func(s *sim, r *blockRefs, _ *stateBox) bool {
			if len(*r.atts) == 0 {
				return false
			}
			(*r.atts)[0].Data.Target.Epoch++
			return true
		}},
		{"attestation/source-root", true, func(s *sim, r *blockRefs, _ *stateBox) bool {
			if len(*r.atts) == 0 {
				return false
			}
			(*r.atts)[0].Data.Source.Root[0] ^= 1
			return true
		}},
		{"attestation/bit-length+1", true, func(s *sim, r *blockRefs, _ *stateBox) bool {
			if len(*r.atts) == 0 {
				return false
			}
			a := &(*r.atts)[0]
			n := a.AggregationBits.BitLen()
			nb := make(phase0.AttestationBits, (n+1)/8+1)
			for i := uint64(0); i < n; i++ {
				if a.AggregationBits.GetBit(i) {
					nb[i/8] |= 1 << (i % 8)
				}
			}
			nb[(n+1)/8] |= 1 << ((n + 1) % 8)
			a.AggregationBits = nb
			return true
		}},
		{"attestation/no-participants", true, func(s *sim, r *blockRefs, _ *stateBox) bool {
			if len(*r.atts) == 0 {
				return false
			}
			a := &(*r.atts)[0]
			n := a.AggregationBits.BitLen()
			nb := make(phase0.AttestationBits, n/8+1)
			nb[n/8] |= 1 << (n % 8)
			a.AggregationBits = nb
			return true
		}},
		{"attestation/extra-participant-bit", true, func(s *sim, r *blockRefs, _ *stateBox) bool {
			if len(*r.atts) == 0 {
				return false
			}
			a := &(*r.atts)[0]
			n := a.AggregationBits.BitLen()
			for i := uint64(0); i < n; i++ {
				if !a.AggregationBits.GetBit(i) {
					a.AggregationBits = a.AggregationBits.Copy()
					a.AggregationBits.SetBit(i, true)
					return true
				}
			}
			return false
		}},
		{"attestation/included-in-own-slot", true, func(s *sim, r *blockRefs, _ *stateBox) bool {
			if len(*r.atts) == 0 {
				return false
			}
			(*r.atts)[0].Data.Slot = *r.slot
			return true
		}},
		{"attestation/duplicated", true, func(s *sim, r *blockRefs, _ *stateBox) bool { // valid in every fork
			if len(*r.atts) == 0 || uint64(len(*r.atts)) >= uint64(s.w.spec.MAX_ATTESTATIONS) {
				return false
			}
			*r.atts = append(*r.atts, (*r.atts)[0])
			return true
		}},
		{"proposer-slashing/same-header", true, func(s *sim, r *blockRefs, _ *stateBox) bool {
			if len(*r.ps) == 0 {
				return false
			}
			(*r.ps)[0].SignedHeader2 = (*r.ps)[0].SignedHeader1
			return true
		}},
		{"proposer-slashing/signature", true, func(s *sim, r *blockRefs, _ *stateBox) bool {
			if len(*r.ps) == 0 {
				return false
			}
			flipSig(&(*r.ps)[0].SignedHeader2.Signature)
			return true
		}},
		{"proposer-slashing/twice", true, func(s *sim, r *blockRefs, _ *stateBox) bool {
			if len(*r.ps) == 0 {
				return false
			}
			*r.ps = append(*r.ps, (*r.ps)[0])
			return true
		}},
		{"proposer-slashing/different-slots", true, func(s *sim, r *blockRefs, _ *stateBox) bool {
			if len(*r.ps) == 0 {
				return false
			}
			(*r.ps)[0].SignedHeader2.Message.Slot++
			return true
		}},
		{"proposer-slashing/of-withdrawable-validator", true, func(s *sim, r *blockRefs, pre *stateBox) bool {
			// validly signed conflicting headers from an epoch in which the validator was still
			// slashable; by now it is withdrawable, so it is no longer slashable
			if uint64(len(*r.ps)) >= uint64(s.w.spec.MAX_PROPOSER_SLASHINGS) {
				return false
			}
			epoch := s.w.epochOf(uint64(*r.slot))
			vals, _ := pre.st.Validators()
			n, _ := vals.ValidatorCount()
			for v := uint64(0); v < n; v++ {
				val, _ := vals.Validator(common.ValidatorIndex(v))
				wd, _ := val.WithdrawableEpoch()
				ex, _ := val.ExitEpoch()
				sl, _ := val.Slashed()
				ki := s.w.keyOf(pre.st, common.ValidatorIndex(v))
				if sl || uint64(wd) > epoch || ex == 0 || ki < 0 || common.ValidatorIndex(v) == *r.proposer {
					continue
				}
				f, _ := pre.st.Fork()
				he := uint64(ex) - 1
				mk := func(tag uint64) common.SignedBeaconBlockHeader {
					h := common.BeaconBlockHeader{Slot: common.Slot(he * s.cfg.SPE), ProposerIndex: common.ValidatorIndex(v), ParentRoot: fnvRoot("wps", tag)}
					dom := domainFor(f, s.w.gvr, common.DOMAIN_BEACON_PROPOSER, common.Epoch(he))
					return common.SignedBeaconBlockHeader{Message: h, Signature: s.w.keys.sign(ki, signingRoot(h.HashTreeRoot(tree.GetHashFn()), dom))}
				}
				*r.ps = append(append(phase0.ProposerSlashings(nil), *r.ps...), phase0.ProposerSlashing{SignedHeader1: mk(1), SignedHeader2: mk(2)})
				s.res.Stat("probe_slashing_of_withdrawable_validator", 1)
				return true
			}
			return false
		}},
		{"proposer-slashing/pre-fork-headers-under-current-version", true, func(s *sim, r *blockRefs, pre *stateBox) bool {
			// conflicting headers of a slot BEFORE the state's last fork, signed under the version in
			// force now: the domain of a header is that of its own epoch, so the signatures are invalid
			// (and the mirror image, for attester slashings, below)
			if uint64(len(*r.ps)) >= uint64(s.w.spec.MAX_PROPOSER_SLASHINGS) {
				return false
			}
			f, _ := pre.st.Fork()
			epoch := s.w.epochOf(uint64(*r.slot))
			if f.Epoch == 0 || uint64(f.Epoch) > epoch || f.PreviousVersion == f.CurrentVersion || uint64(f.Epoch) <= s.cfg.StartEpoch {
				return false
			}
			he := uint64(f.Epoch) - 1
			vals, _ := pre.st.Validators()
			n, _ := vals.ValidatorCount()
			for v := uint64(0); v < n; v++ {
				val, _ := vals.Validator(common.ValidatorIndex(v))
				wd, _ := val.WithdrawableEpoch()
				ac, _ := val.ActivationEpoch()
				sl, _ := val.Slashed()
				ki := s.w.keyOf(pre.st, common.ValidatorIndex(v))
				if sl || uint64(ac) > epoch || uint64(wd) <= epoch || ki < 0 || common.ValidatorIndex(v) == *r.proposer {
					continue
				}
				busy := false
				for _, x := range *r.ps {
					busy = busy || x.SignedHeader1.Message.ProposerIndex == common.ValidatorIndex(v)
				}
				for _, x := range *r.as {
					for _, i := range x.Attestation1.AttestingIndices {
						busy = busy || i == common.ValidatorIndex(v)
					}
				}
				if busy {
					continue
				}
				mk := func(tag uint64) common.SignedBeaconBlockHeader {
					h := common.BeaconBlockHeader{Slot: common.Slot(he * s.cfg.SPE), ProposerIndex: common.ValidatorIndex(v), ParentRoot: fnvRoot("pfh", tag)}
					dom := computeDomain(common.DOMAIN_BEACON_PROPOSER, f.CurrentVersion, s.w.gvr)
					return common.SignedBeaconBlockHeader{Message: h, Signature: s.w.keys.sign(ki, signingRoot(h.HashTreeRoot(tree.GetHashFn()), dom))}
				}
				*r.ps = append(append(phase0.ProposerSlashings(nil), *r.ps...), phase0.ProposerSlashing{SignedHeader1: mk(1), SignedHeader2: mk(2)})
				return true
			}
			return false
		}},
		{"attester-slashing/pre-fork-votes-under-current-version", true, func(s *sim, r *blockRefs, pre *stateBox) bool {
			if uint64(len(*r.as)) >= uint64(s.w.spec.MAX_ATTESTER_SLASHINGS) {
				return false
			}
			f, _ := pre.st.Fork()
			epoch := s.w.epochOf(uint64(*r.slot))
			if f.Epoch == 0 || uint64(f.Epoch) > epoch || f.PreviousVersion == f.CurrentVersion || uint64(f.Epoch) <= s.cfg.StartEpoch {
				return false
			}
			he := uint64(f.Epoch) - 1
			vals, _ := pre.st.Validators()
			n, _ := vals.ValidatorCount()
			for v := uint64(0); v < n; v++ {
				val, _ := vals.Validator(common.ValidatorIndex(v))
				wd, _ := val.WithdrawableEpoch()
				ac, _ := val.ActivationEpoch()
				sl, _ := val.Slashed()
				ki := s.w.keyOf(pre.st, common.ValidatorIndex(v))
				if sl || uint64(ac) > epoch || uint64(wd) <= epoch || ki < 0 || common.ValidatorIndex(v) == *r.proposer {
					continue
				}
				busy := false
				for _, x := range *r.ps {
					busy = busy || x.SignedHeader1.Message.ProposerIndex == common.ValidatorIndex(v)
				}
				if busy {
					continue
				}
				mk := func(tag uint64) phase0.IndexedAttestation {
					d := phase0.AttestationData{Slot: common.Slot(he * s.cfg.SPE), BeaconBlockRoot: fnvRoot("pfa", tag), Target: common.Checkpoint{Epoch: common.Epoch(he), Root: fnvRoot("pfa-t", tag)}}
					dom := computeDomain(common.DOMAIN_BEACON_ATTESTER, f.CurrentVersion, s.w.gvr)
					return phase0.IndexedAttestation{AttestingIndices: common.CommitteeIndices{common.ValidatorIndex(v)}, Data: d, Signature: s.w.keys.signAgg([]int{ki}, signingRoot(d.HashTreeRoot(tree.GetHashFn()), dom))}
				}
				*r.as = append(append(phase0.AttesterSlashings(nil), *r.as...), phase0.AttesterSlashing{Attestation1: mk(1), Attestation2: mk(2)})
				return true
			}
			return false
		}},
		{"attester-slashing/of-withdrawable-validator", true, func(s *sim, r *blockRefs, pre *stateBox) bool {
			if uint64(len(*r.as)) >= uint64(s.w.spec.MAX_ATTESTER_SLASHINGS) {
				return false
			}
			epoch := s.w.epochOf(uint64(*r.slot))
			vals, _ := pre.st.Validators()
			n, _ := vals.ValidatorCount()
			for v := uint64(0); v < n; v++ {
				val, _ := vals.Validator(common.ValidatorIndex(v))
				wd, _ := val.WithdrawableEpoch()
				ex, _ := val.ExitEpoch()
				sl, _ := val.Slashed()
				ki := s.w.keyOf(pre.st, common.ValidatorIndex(v))
				if sl || uint64(wd) > epoch || ex == 0 || ki < 0 {
					continue
				}
				f, _ := pre.st.Fork()
				he := uint64(ex) - 1
				mk := func(tag uint64) phase0.IndexedAttestation {
					d := phase0.AttestationData{Slot: common.Slot(he * s.cfg.SPE), BeaconBlockRoot: fnvRoot("was", tag), Target: common.Checkpoint{Epoch: common.Epoch(he), Root: fnvRoot("was-t", tag)}}
					dom := domainFor(f, s.w.gvr, common.DOMAIN_BEACON_ATTESTER, common.Epoch(he))
					return phase0.IndexedAttestation{AttestingIndices: common.CommitteeIndices{common.ValidatorIndex(v)}, Data: d, Signature: s.w.keys.signAgg([]int{ki}, signingRoot(d.HashTreeRoot(tree.GetHashFn()), dom))}
				}
				*r.as = append(append(phase0.AttesterSlashings(nil), *r.as...), phase0.AttesterSlashing{Attestation1: mk(1), Attestation2: mk(2)})
				s.res.Stat("probe_slashing_of_withdrawable_validator", 1)
				return true
			}
			return false
		}},
		{"attester-slashing/not-slashable", true, func(s *sim, r *blockRefs, _ *stateBox) bool {
			if len(*r.as) == 0 {
				return false
			}
			(*r.as)[0].Attestation2 = (*r.as)[0].Attestation1
			return true
		}},
		{"attester-slashing/surround-in-the-wrong-order", true, func(s *sim, r *blockRefs, _ *stateBox) bool {
			// only "the first vote surrounds the second" is slashable evidence
			if len(*r.as) == 0 || (*r.as)[0].Attestation1.Data.Target.Epoch == (*r.as)[0].Attestation2.Data.Target.Epoch {
				return false
			}
			a := append(phase0.AttesterSlashings(nil), *r.as...)
			a[0].Attestation1, a[0].Attestation2 = a[0].Attestation2, a[0].Attestation1
			*r.as = a
			return true
		}},
		{"attester-slashing/unsorted-indices", true, func(s *sim, r *blockRefs, _ *stateBox) bool {
			if len(*r.as) == 0 || len((*r.as)[0].Attestation1.AttestingIndices) < 2 {
				return false
			}
			ix := append(common.CommitteeIndices(nil), (*r.as)[0].Attestation1.AttestingIndices...)
			ix[0], ix[1] = ix[1], ix[0]
			(*r.as)[0].Attestation1.AttestingIndices = ix
			return true
		}},
		{"attester-slashing/duplicate-index", true, func(s *sim, r *blockRefs, _ *stateBox) bool {
			if len(*r.as) == 0 {
				return false
			}
			ix := (*r.as)[0].Attestation1.AttestingIndices
			(*r.as)[0].Attestation1.AttestingIndices = append(append(common.CommitteeIndices(nil), ix...), ix[len(ix)-1])
			return true
		}},
		{"attester-slashing/duplicate-index-signed-twice", true, func(s *sim, r *blockRefs, pre *stateBox) bool {
			// a non-decreasing index list with a repeated validator whose signature is aggregated twice:
			// the BLS check passes, only the strictly-sorted rule rejects it
			if uint64(len(*r.as)) >= uint64(s.w.spec.MAX_ATTESTER_SLASHINGS) {
				return false
			}
			epoch := s.w.epochOf(uint64(*r.slot))
			for v := 0; v < s.cfg.Validators; v++ {
				if s.w.slashedV[v] || common.ValidatorIndex(v) == *r.proposer || !s.w.slashable(pre.st, v, epoch) {
					continue
				}
				f, _ := pre.st.Fork()
				which := s.frng.Intn(2)
				mk := func(tag uint64, dup bool) phase0.IndexedAttestation {
					src, _ := pre.st.CurrentJustifiedCheckpoint()
					d := phase0.AttestationData{Slot: *r.slot, BeaconBlockRoot: fnvRoot("dup-as", tag), Source: src, Target: common.Checkpoint{Epoch: common.Epoch(epoch), Root: fnvRoot("dup-as-t", tag)}}
					dom := domainFor(f, s.w.gvr, common.DOMAIN_BEACON_ATTESTER, common.Epoch(epoch))
					ix := common.CommitteeIndices{common.ValidatorIndex(v)}
					keys := []int{v}
					if dup {
						ix = append(ix, common.ValidatorIndex(v))
						keys = append(keys, v)
					}
					return phase0.IndexedAttestation{AttestingIndices: ix, Data: d, Signature: s.w.keys.signAgg(keys, signingRoot(d.HashTreeRoot(tree.GetHashFn()), dom))}
				}
				*r.as = append(append(phase0.AttesterSlashings(nil), *r.as...), phase0.AttesterSlashing{Attestation1: mk(uint64(*r.slot)*4+1, which == 0), Attestation2: mk(uint64(*r.slot)*4+2, which == 1)})
				return true
			}
			return false
		}},
		{"exit/too-young", true, func(s *sim, r *blockRefs, pre *stateBox) bool {
			// a correctly signed exit of a validator that has not been active for SHARD_COMMITTEE_PERIOD epochs
			if uint64(len(*r.exits)) >= uint64(s.w.spec.MAX_VOLUNTARY_EXITS) || s.w.spec.SHARD_COMMITTEE_PERIOD == 0 {
				return false
			}
			epoch := s.w.epochOf(uint64(*r.slot))
			vals, _ := pre.st.Validators()
			n, _ := vals.ValidatorCount()
			for v := uint64(0); v < n; v++ {
				val, _ := vals.Validator(common.ValidatorIndex(v))
				ac, _ := val.ActivationEpoch()
				ex, _ := val.ExitEpoch()
				sl, _ := val.Slashed()
				ki := s.w.keyOf(pre.st, common.ValidatorIndex(v))
				if sl || ki < 0 || uint64(ex) != farFuture || uint64(ac) > epoch || epoch >= uint64(ac)+uint64(s.w.spec.SHARD_COMMITTEE_PERIOD) || common.ValidatorIndex(v) == *r.proposer {
					continue
				}
				f, _ := pre.st.Fork()
				exm := phase0.VoluntaryExit{Epoch: common.Epoch(epoch), ValidatorIndex: common.ValidatorIndex(v)}
				dom := domainFor(f, s.w.gvr, common.DOMAIN_VOLUNTARY_EXIT, common.Epoch(epoch))
				if s.w.forkIndexAt(epoch) >= 4 {
					dom = computeDomain(common.DOMAIN_VOLUNTARY_EXIT, s.w.spec.CAPELLA_FORK_VERSION, s.w.gvr)
				}
				*r.exits = append(append(phase0.VoluntaryExits(nil), *r.exits...), phase0.SignedVoluntaryExit{Message: exm, Signature: s.w.keys.sign(ki, signingRoot(exm.HashTreeRoot(tree.GetHashFn()), dom))})
				el, _ := val.ActivationEligibilityEpoch()
				if el < ac {
					s.res.Stat("probe_young_exit_of_validator_activated_after_genesis", 1)
				}
				return true
			}
			return false
		}},
		{"exit/of-exiting-or-inactive-validator", true, func(s *sim, r *blockRefs, pre *stateBox) bool {
			// a correctly signed exit of a validator whose exit is already initiated, or that is not active yet
			if uint64(len(*r.exits)) >= uint64(s.w.spec.MAX_VOLUNTARY_EXITS) {
				return false
			}
			epoch := s.w.epochOf(uint64(*r.slot))
			vals, _ := pre.st.Validators()
			n, _ := vals.ValidatorCount()
			for v := uint64(0); v < n; v++ {
				val, _ := vals.Validator(common.ValidatorIndex(v))
				ac, _ := val.ActivationEpoch()
				ex, _ := val.ExitEpoch()
				ki := s.w.keyOf(pre.st, common.ValidatorIndex(v))
				exiting := uint64(ex) != farFuture && uint64(ex) > epoch && uint64(ac) <= epoch
				notYet := uint64(ac) > epoch
				if ki < 0 || !(exiting || notYet) {
					continue
				}
				f, _ := pre.st.Fork()
				exm := phase0.VoluntaryExit{Epoch: common.Epoch(epoch), ValidatorIndex: common.ValidatorIndex(v)}
				dom := domainFor(f, s.w.gvr, common.DOMAIN_VOLUNTARY_EXIT, common.Epoch(epoch))
				if s.w.forkIndexAt(epoch) >= 4 {
					dom = computeDomain(common.DOMAIN_VOLUNTARY_EXIT, s.w.spec.CAPELLA_FORK_VERSION, s.w.gvr)
				}
				*r.exits = append(append(phase0.VoluntaryExits(nil), *r.exits...), phase0.SignedVoluntaryExit{Message: exm, Signature: s.w.keys.sign(ki, signingRoot(exm.HashTreeRoot(tree.GetHashFn()), dom))})
				return true
			}
			return false
		}},
		{"proposer-slashing/of-slashed-validator", true, func(s *sim, r *blockRefs, pre *stateBox) bool {
			// valid conflicting headers of a validator that is already slashed (and not yet withdrawable)
			if uint64(len(*r.ps)) >= uint64(s.w.spec.MAX_PROPOSER_SLASHINGS) {
				return false
			}
			epoch := s.w.epochOf(uint64(*r.slot))
			vals, _ := pre.st.Validators()
			n, _ := vals.ValidatorCount()
			for v := uint64(0); v < n; v++ {
				val, _ := vals.Validator(common.ValidatorIndex(v))
				sl, _ := val.Slashed()
				ki := s.w.keyOf(pre.st, common.ValidatorIndex(v))
				if !sl || ki < 0 {
					continue
				}
				f, _ := pre.st.Fork()
				mk := func(tag uint64) common.SignedBeaconBlockHeader {
					h := common.BeaconBlockHeader{Slot: *r.slot, ProposerIndex: common.ValidatorIndex(v), ParentRoot: fnvRoot("sps", tag)}
					dom := domainFor(f, s.w.gvr, common.DOMAIN_BEACON_PROPOSER, common.Epoch(epoch))
					return common.SignedBeaconBlockHeader{Message: h, Signature: s.w.keys.sign(ki, signingRoot(h.HashTreeRoot(tree.GetHashFn()), dom))}
				}
				*r.ps = append(append(phase0.ProposerSlashings(nil), *r.ps...), phase0.ProposerSlashing{SignedHeader1: mk(1), SignedHeader2: mk(2)})
				return true
			}
			return false
		}},
		{"proposer-slashing/two-different-proposers", true, func(s *sim, r *blockRefs, pre *stateBox) bool {
			// two validly signed headers of the same slot by two DIFFERENT proposers are no evidence against either
			if uint64(len(*r.ps)) >= uint64(s.w.spec.MAX_PROPOSER_SLASHINGS) {
				return false
			}
			epoch := s.w.epochOf(uint64(*r.slot))
			vals, _ := pre.st.Validators()
			n, _ := vals.ValidatorCount()
			var pair []uint64
			for v := uint64(0); v < n && len(pair) < 2; v++ {
				val, _ := vals.Validator(common.ValidatorIndex(v))
				sl, _ := val.Slashed()
				wd, _ := val.WithdrawableEpoch()
				ac, _ := val.ActivationEpoch()
				if sl || uint64(ac) > epoch || uint64(wd) <= epoch || s.w.keyOf(pre.st, common.ValidatorIndex(v)) < 0 || common.ValidatorIndex(v) == *r.proposer {
					continue
				}
				pair = append(pair, v)
			}
			if len(pair) < 2 {
				return false
			}
			f, _ := pre.st.Fork()
			mk := func(v uint64, tag uint64) common.SignedBeaconBlockHeader {
				h := common.BeaconBlockHeader{Slot: *r.slot, ProposerIndex: common.ValidatorIndex(v), ParentRoot: fnvRoot("tdp", tag)}
				dom := domainFor(f, s.w.gvr, common.DOMAIN_BEACON_PROPOSER, common.Epoch(epoch))
				return common.SignedBeaconBlockHeader{Message: h, Signature: s.w.keys.sign(s.w.keyOf(pre.st, common.ValidatorIndex(v)), signingRoot(h.HashTreeRoot(tree.GetHashFn()), dom))}
			}
			*r.ps = append(append(phase0.ProposerSlashings(nil), *r.ps...), phase0.ProposerSlashing{SignedHeader1: mk(pair[0], 1), SignedHeader2: mk(pair[1], 2)})
			return true
		}},
		{"attester-slashing/of-slashed-validators-only", true, func(s *sim, r *blockRefs, pre *stateBox) bool {
			// a validly signed double vote whose only common attester is already slashed: nobody is slashed by it
			if uint64(len(*r.as)) >= uint64(s.w.spec.MAX_ATTESTER_SLASHINGS) {
				return false
			}
			epoch := s.w.epochOf(uint64(*r.slot))
			vals, _ := pre.st.Validators()
			n, _ := vals.ValidatorCount()
			for v := uint64(0); v < n; v++ {
				val, _ := vals.Validator(common.ValidatorIndex(v))
				sl, _ := val.Slashed()
				ki := s.w.keyOf(pre.st, common.ValidatorIndex(v))
				if !sl || ki < 0 {
					continue
				}
				f, _ := pre.st.Fork()
				mk := func(tag uint64) phase0.IndexedAttestation {
					d := phase0.AttestationData{Slot: *r.slot, BeaconBlockRoot: fnvRoot("sas", tag), Target: common.Checkpoint{Epoch: common.Epoch(epoch), Root: fnvRoot("sas-t", tag)}}
					dom := domainFor(f, s.w.gvr, common.DOMAIN_BEACON_ATTESTER, common.Epoch(epoch))
					return phase0.IndexedAttestation{AttestingIndices: common.CommitteeIndices{common.ValidatorIndex(v)}, Data: d, Signature: s.w.keys.signAgg([]int{ki}, signingRoot(d.HashTreeRoot(tree.GetHashFn()), dom))}
				}
				*r.as = append(append(phase0.AttesterSlashings(nil), *r.as...), phase0.AttesterSlashing{Attestation1: mk(1), Attestation2: mk(2)})
				return true
			}
			return false
		}},
		{"attestation/target-epoch-1", true, func(s *sim, r *blockRefs, _ *stateBox) bool {
			if len(*r.atts) == 0 || (*r.atts)[0].Data.Target.Epoch == 0 {
				return false
			}
			a := append(phase0.Attestations(nil), *r.atts...)
			a[0].Data.Target.Epoch--
			*r.atts = a
			return true
		}},
		{"randao/signed-by-another-validator", true, func(s *sim, r *blockRefs, pre *stateBox) bool {
			other := (*r.proposer + 1) % common.ValidatorIndex(s.cfg.Validators)
			ki := s.w.keyOf(pre.st, other)
			if ki < 0 {
				return false
			}
			f, _ := pre.st.Fork()
			epoch := common.Epoch(s.w.epochOf(uint64(*r.slot)))
			*r.randao = s.w.keys.sign(ki, signingRoot(epoch.HashTreeRoot(tree.GetHashFn()), domainFor(f, s.w.gvr, common.DOMAIN_RANDAO, epoch)))
			return true
		}},
		{"bls-change/of-a-validator-with-execution-credentials", true, func(s *sim, r *blockRefs, pre *stateBox) bool {
			if r.changes == nil || uint64(len(*r.changes)) >= uint64(s.w.spec.MAX_BLS_TO_EXECUTION_CHANGES) {
				return false
			}
			vals, _ := pre.st.Validators()
			n, _ := vals.ValidatorCount()
			for v := uint64(0); v < n; v++ {
				val, _ := vals.Validator(common.ValidatorIndex(v))
				wc, _ := val.WithdrawalCredentials()
				ki := s.w.keyOf(pre.st, common.ValidatorIndex(v))
				if ki < 0 || wc[0] != common.ETH1_ADDRESS_WITHDRAWAL_PREFIX {
					continue
				}
				ch := common.BLSToExecutionChange{ValidatorIndex: common.ValidatorIndex(v), FromBLSPubKey: s.w.keys.pub[ki]}
				ch.ToExecutionAddress[3] = 0x77
				dom := computeDomain(common.DOMAIN_BLS_TO_EXECUTION_CHANGE, s.w.spec.GENESIS_FORK_VERSION, s.w.gvr)
				sc := common.SignedBLSToExecutionChange{BLSToExecutionChange: ch, Signature: s.w.keys.sign(ki, signingRoot(ch.HashTreeRoot(tree.GetHashFn()), dom))}
				*r.changes = append(append(common.SignedBLSToExecutionChanges(nil), *r.changes...), sc)
				return true
			}
			return false
		}},
		{"bls-change/of-a-validator-with-an-unknown-credentials-prefix", true, func(s *sim, r *blockRefs, pre *stateBox) bool {
			if r.changes == nil || uint64(len(*r.changes)) >= uint64(s.w.spec.MAX_BLS_TO_EXECUTION_CHANGES) {
				return false
			}
			vals, _ := pre.st.Validators()
			n, _ := vals.ValidatorCount()
			for v := uint64(0); v < n; v++ {
				val, _ := vals.Validator(common.ValidatorIndex(v))
				wc, _ := val.WithdrawalCredentials()
				ki := s.w.keyOf(pre.st, common.ValidatorIndex(v))
				if ki < 0 || wc[0] == common.ETH1_ADDRESS_WITHDRAWAL_PREFIX || wc[0] == common.BLS_WITHDRAWAL_PREFIX {
					continue
				}
				// the rest of the credentials IS the hash of the validator's key: only the prefix is in the way
				hh := sha256.Sum256(s.w.keys.pub[ki][:])
				if !bytes.Equal(wc[1:], hh[1:]) {
					continue
				}
				ch := common.BLSToExecutionChange{ValidatorIndex: common.ValidatorIndex(v), FromBLSPubKey: s.w.keys.pub[ki]}
				ch.ToExecutionAddress[3] = 0x78
				dom := computeDomain(common.DOMAIN_BLS_TO_EXECUTION_CHANGE, s.w.spec.GENESIS_FORK_VERSION, s.w.gvr)
				sc := common.SignedBLSToExecutionChange{BLSToExecutionChange: ch, Signature: s.w.keys.sign(ki, signingRoot(ch.HashTreeRoot(tree.GetHashFn()), dom))}
				*r.changes = append(append(common.SignedBLSToExecutionChanges(nil), *r.changes...), sc)
				return true
			}
			return false
		}},
		{"attester-slashing/signature", true, func(s *sim, r *blockRefs, _ *stateBox) bool {
			if len(*r.as) == 0 {
				return false
			}
			flipSig(&(*r.as)[0].Attestation2.Signature)
			return true
		}},
		{"attester-slashing/index-out-of-range", true, func(s *sim, r *blockRefs, _ *stateBox) bool {
			if len(*r.as) == 0 {
				return false
			}
			ix := append(common.CommitteeIndices(nil), (*r.as)[0].Attestation1.AttestingIndices...)
			ix[len(ix)-1] = 1_000_000
			(*r.as)[0].Attestation1.AttestingIndices = ix
			return true
		}},
		{"deposit/missing", true, func(s *sim, r *blockRefs, _ *stateBox) bool {
			if len(*r.deps) == 0 {
				return false
			}
			*r.deps = (*r.deps)[:len(*r.deps)-1]
			return true
		}},
		{"deposit/extra", true, func(s *sim, r *blockRefs, _ *stateBox) bool {
			if len(*r.deps) == 0 || uint64(len(*r.deps)) >= uint64(s.w.spec.MAX_DEPOSITS) {
				return false
			}
			*r.deps = append(*r.deps, (*r.deps)[0])
			return true
		}},
		{"deposit/proof", true, func(s *sim, r *blockRefs, _ *stateBox) bool {
			if len(*r.deps) == 0 {
				return false
			}
			d := (*r.deps)[0]
			d.Proof[2][0] ^= 1
			(*r.deps)[0] = d
			return true
		}},
		{"deposit/amount", true, func(s *sim, r *blockRefs, _ *stateBox) bool {
			if len(*r.deps) == 0 {
				return false
			}
			(*r.deps)[0].Data.Amount++
			return true
		}},
		{"deposit/swapped-order", true, func(s *sim, r *blockRefs, _ *stateBox) bool {
			if len(*r.deps) < 2 {
				return false
			}
			(*r.deps)[0], (*r.deps)[1] = (*r.deps)[1], (*r.deps)[0]
			return true
		}},
		{"deposit/first-one-twice", true, func(s *sim, r *blockRefs, _ *stateBox) bool {
			// the right number of deposits, but the second is the first again (its proof is for the wrong leaf index)
			if len(*r.deps) < 2 {
				return false
			}
			d := append(phase0.Deposits(nil), *r.deps...)
			d[1] = d[0]
			*r.deps = d
			return true
		}},
		{"deposit/first-one-repeated", true, func(s *sim, r *blockRefs, _ *stateBox) bool {
			// the right number of deposits, every one of them the first
			if len(*r.deps) < 2 {
				return false
			}
			d := append(phase0.Deposits(nil), *r.deps...)
			for i := range d {
				d[i] = d[0]
			}
			*r.deps = d
			return true
		}},
		{"deposit/last-one-twice", true, func(s *sim, r *blockRefs, _ *stateBox) bool {
			if len(*r.deps) < 2 {
				return false
			}
			d := append(phase0.Deposits(nil), *r.deps...)
			d[0] = d[len(d)-1]
			*r.deps = d
			return true
		}},
		{"exit/signature", true, func(s *sim, r *blockRefs, _ *stateBox) bool {
			if len(*r.exits) == 0 {
				return false
			}
			flipSig(&(*r.exits)[0].Signature)
			return true
		}},
		{"exit/future-epoch", true, func(s *sim, r *blockRefs, _ *stateBox) bool {
			if len(*r.exits) == 0 {
				return false
			}
			(*r.exits)[0].Message.Epoch += 3
			return true
		}},
		{"exit/twice", true, func(s *sim, r *blockRefs, _ *stateBox) bool {
			if len(*r.exits) == 0 || uint64(len(*r.exits)) >= uint64(s.w.spec.MAX_VOLUNTARY_EXITS) {
				return false
			}
			*r.exits = append(*r.exits, (*r.exits)[0])
			return true
		}},
		{"exit/validator-out-of-range", true, func(s *sim, r *blockRefs, _ *stateBox) bool {
			if len(*r.exits) == 0 {
				return false
			}
			(*r.exits)[0].Message.ValidatorIndex = 1_000_000
			return true
		}},
		{"exit/other-validator-same-signature", true, func(s *sim, r *blockRefs, _ *stateBox) bool {
			if len(*r.exits) == 0 {
				return false
			}
			(*r.exits)[0].Message.ValidatorIndex = ((*r.exits)[0].Message.ValidatorIndex + 1) % common.ValidatorIndex(s.cfg.Validators)
			return true
		}},
		{"exit/fresh-signed-under-current-version", true, func(s *sim, r *blockRefs, pre *stateBox) bool {
			// a correctly formed exit of another validator, signed under the state's current fork
			// version: valid before deneb, invalid from deneb on (EIP-7044) unless current == capella
			if uint64(len(*r.exits)) >= uint64(s.w.spec.MAX_VOLUNTARY_EXITS) {
				return false
			}
			epoch := s.w.epochOf(uint64(*r.slot))
			for v := 0; v < s.cfg.Validators; v++ {
				if !s.w.exited[v] && !s.w.slashedV[v] && s.w.activeAt(pre.st, v, epoch) && s.w.notExiting(pre.st, v, epoch) && common.ValidatorIndex(v) != *r.proposer {
					f, _ := pre.st.Fork()
					ex := phase0.VoluntaryExit{Epoch: common.Epoch(epoch), ValidatorIndex: common.ValidatorIndex(v)}
					dom := domainFor(f, s.w.gvr, common.DOMAIN_VOLUNTARY_EXIT, common.Epoch(epoch))
					*r.exits = append(append(phase0.VoluntaryExits(nil), *r.exits...), phase0.SignedVoluntaryExit{Message: ex, Signature: s.w.keys.sign(v, signingRoot(ex.HashTreeRoot(tree.GetHashFn()), dom))})
					return true
				}
			}
			return false
		}},
		{"bls-change/signature", true, func(s *sim, r *blockRefs, _ *stateBox) bool {
			if r.changes == nil || len(*r.changes) == 0 {
				return false
			}
			flipSig(&(*r.changes)[0].Signature)
			return true
		}},
		{"bls-change/wrong-from-key", true, func(s *sim, r *blockRefs, _ *stateBox) bool {
			if r.changes == nil || len(*r.changes) == 0 {
				return false
			}
			(*r.changes)[0].BLSToExecutionChange.FromBLSPubKey[5] ^= 1
			return true
		}},
		{"bls-change/twice", true, func(s *sim, r *blockRefs, _ *stateBox) bool {
			if r.changes == nil || len(*r.changes) == 0 {
				return false
			}
			*r.changes = append(*r.changes, (*r.changes)[0])
			return true
		}},
		{"sync/extra-bit", true, func(s *sim, r *blockRefs, _ *stateBox) bool {
			if r.sync == nil {
				return false
			}
			nb := append(altair.SyncCommitteeBits(nil), r.sync.SyncCommitteeBits...)
			for i := range nb {
				if nb[i] != 0xff {
					nb[i] |= nb[i] + 1
					r.sync.SyncCommitteeBits = nb
					return true
				}
			}
			return false
		}},
		{"sync/signature", true, func(s *sim, r *blockRefs, _ *stateBox) bool {
			if r.sync == nil {
				return false
			}
			flipSig(&r.sync.SyncCommitteeSignature)
			return true
		}},
		{"sync/no-bits-real-signature", true, func(s *sim, r *blockRefs, _ *stateBox) bool {
			if r.sync == nil || r.sync.SyncCommitteeSignature == infinitySig() {
				return false
			}
			r.sync.SyncCommitteeBits = make(altair.SyncCommitteeBits, len(r.sync.SyncCommitteeBits))
			return true
		}},
		{"payload/parent-hash", true, func(s *sim, r *blockRefs, pre *stateBox) bool {
			if r.parentHash == nil {
				return false
			}
			r.parentHash[0] ^= 1
			return true
		}},
		{"payload/prev-randao", true, func(s *sim, r *blockRefs, _ *stateBox) bool {
			if r.prevRandao == nil {
				return false
			}
			r.prevRandao[0] ^= 1
			return true
		}},
		{"payload/timestamp", true, func(s *sim, r *blockRefs, _ *stateBox) bool {
			if r.timestamp == nil {
				return false
			}
			*r.timestamp++
			return true
		}},
		{"payload/zero-block-hash-and-wrong-timestamp", true, func(s *sim, r *blockRefs, _ *stateBox) bool {
			// a payload that is not the empty payload is executed, whatever its block hash says
			if r.timestamp == nil || r.blockHash == nil {
				return false
			}
			*r.blockHash = common.Hash32{}
			*r.timestamp += 7
			return true
		}},
		{"payload/zero-block-hash-and-wrong-randao", true, func(s *sim, r *blockRefs, _ *stateBox) bool {
			if r.prevRandao == nil || r.blockHash == nil {
				return false
			}
			*r.blockHash = common.Hash32{}
			r.prevRandao[3] ^= 0x10
			return true
		}},
		{"payload/block-hash", true, func(s *sim, r *blockRefs, _ *stateBox) bool { // any hash is fine for the consensus layer: stays valid
			if r.blockHash == nil {
				return false
			}
			r.blockHash[0] ^= 1
			return true
		}},
		{"withdrawals/sweep-one-validator-too-far", true, func(s *sim, r *blockRefs, pre *stateBox) bool {
			// the payload a proposer would build who looks at one validator more than the sweep allows
			if r.withdraw == nil {
				return false
			}
			w2, err := s.w.withdrawalsOfSweep(unwrap(pre.st), 1)
			if err != nil || reflect.DeepEqual(w2, *r.withdraw) || (len(w2) == 0 && len(*r.withdraw) == 0) {
				return false
			}
			*r.withdraw = w2
			return true
		}},
		{"withdrawals/sweep-one-validator-short", true, func(s *sim, r *blockRefs, pre *stateBox) bool {
			if r.withdraw == nil {
				return false
			}
			w2, err := s.w.withdrawalsOfSweep(unwrap(pre.st), -1)
			if err != nil || reflect.DeepEqual(w2, *r.withdraw) || (len(w2) == 0 && len(*r.withdraw) == 0) {
				return false
			}
			*r.withdraw = w2
			return true
		}},
		{"withdrawals/missing", true, func(s *sim, r *blockRefs, _ *stateBox) bool {
			if r.withdraw == nil || len(*r.withdraw) == 0 {
				return false
			}
			*r.withdraw = (*r.withdraw)[:len(*r.withdraw)-1]
			return true
		}},
		{"withdrawals/amount", true, func(s *sim, r *blockRefs, _ *stateBox) bool {
			if r.withdraw == nil || len(*r.withdraw) == 0 {
				return false
			}
			w := append(common.Withdrawals(nil), *r.withdraw...)
			w[0].Amount++
			*r.withdraw = w
			return true
		}},
		{"withdrawals/address", true, func(s *sim, r *blockRefs, _ *stateBox) bool {
			if r.withdraw == nil || len(*r.withdraw) == 0 {
				return false
			}
			w := append(common.Withdrawals(nil), *r.withdraw...)
			w[0].Address[3] ^= 1
			*r.withdraw = w
			return true
		}},
		{"withdrawals/index", true, func(s *sim, r *blockRefs, _ *stateBox) bool {
			if r.withdraw == nil || len(*r.withdraw) == 0 {
				return false
			}
			w := append(common.Withdrawals(nil), *r.withdraw...)
			w[len(w)-1].Index++
			*r.withdraw = w
			return true
		}},
		{"withdrawals/unexpected", true, func(s *sim, r *blockRefs, _ *stateBox) bool {
			if r.withdraw == nil || len(*r.withdraw) != 0 {
				return false
			}
			*r.withdraw = common.Withdrawals{{Index: 0, ValidatorIndex: 1, Amount: 1}}
			return true
		}},
		{"blobs/over-limit", true, func(s *sim, r *blockRefs, _ *stateBox) bool {
			if r.commit == nil {
				return false
			}
			for uint64(len(*r.commit)) <= uint64(s.w.spec.MAX_BLOBS_PER_BLOCK) {
				var c common.KZGCommitment
				c[0] = 0xc0
				c[5] = byte(len(*r.commit))
				*r.commit = append(*r.commit, c)
			}
			return true
		}},
	}
}

// resignWith signs the (unchanged) block root with a wrong key / domain type / fork version / chain.
func (s *sim) resignWith(r *blockRefs, pre *stateBox, how string) bool {
	w := s.w
	f, _ := pre.st.Fork()
	epoch := common.Epoch(w.epochOf(uint64(*r.slot)))
	ki := w.keyOf(pre.st, *r.proposer)
	if ki < 0 {
		return false
	}
	root := s.blockRootOf(r)
	dom := domainFor(f, w.gvr, common.DOMAIN_BEACON_PROPOSER, epoch)
	switch how {
	case "otherkey":
		ki = (ki + 1) % s.cfg.Validators
	case "domain":
		dom = domainFor(f, w.gvr, common.DOMAIN_BEACON_ATTESTER, epoch)
	case "version":
		other := w.versionOfFork((w.forkIndexAt(uint64(epoch)) + 1) % 5)
		dom = computeDomain(common.DOMAIN_BEACON_PROPOSER, other, w.gvr)
	case "gvr":
		g := w.gvr
		g[0] ^= 1
		dom = computeDomain(common.DOMAIN_BEACON_PROPOSER, f.CurrentVersion, g)
	}
	*r.sig = w.keys.sign(ki, signingRoot(root, dom))
	return true
}

func (s *sim) blockRootOf(r *blockRefs) common.Root {
	type htr interface {
		HashTreeRoot(spec *common.Spec, hFn tree.HashFn) common.Root
	}
	h := common.BeaconBlockHeader{Slot: *r.slot, ProposerIndex: *r.proposer, ParentRoot: *r.parentRoot, StateRoot: *r.stateRoot, BodyRoot: r.body.(htr).HashTreeRoot(s.w.spec, tree.GetHashFn())}
	return h.HashTreeRoot(tree.GetHashFn())
}

// byzantine: corrupt the honest block blk (child of parent) and compare verdicts.
func (s *sim) byzantine(parent *blockRec, blk *blockRec) {
	w := s.w
	spec := w.spec
	cat := catalogue()
	tries := 3
	if s.opt.Property == "C03" {
		tries = 6
	}
	// rare-state corruptions are tried first whenever the state allows them
	var rare []corruption
	for _, c := range cat {
		if strings.HasSuffix(c.name, "of-withdrawable-validator") || c.name == "exit/too-young" || strings.HasSuffix(c.name, "under-current-version") || strings.HasSuffix(c.name, "-one-twice") || c.name == "deposit/first-one-repeated" || c.name == "attester-slashing/surround-in-the-wrong-order" || strings.HasPrefix(c.name, "withdrawals/sweep-") || strings.HasSuffix(c.name, "unknown-credentials-prefix") {
			rare = append(rare, c)
		}
	}
	for t := 0; t < tries+len(rare) && !s.stop; t++ {
		var c corruption
		if t < len(rare) {
			c = rare[t]
		} else {
			c = cat[s.frng.Intn(len(cat))]
		}
		// a private copy of the signed block (through bytes)
		alloc, err := w.dec.BlockAllocator(blk.digest)
		if err != nil {
			return
		}
		variant := alloc().(common.SpecObj)
		if err := variant.Deserialize(spec, codec.NewDecodingReader(bytes.NewReader(blk.bytes), uint64(len(blk.bytes)))); err != nil {
			return
		}
		r := refsOf(variant)
		pre, err := w.advance(parent, blk.slot)
		if err != nil || r == nil {
			return
		}
		if !c.apply(s, r, pre) {
			continue
		}
		s.res.Stat("byz_variants", 1)
		s.res.Stat("fault_byz_block/"+c.name, 1)
		pm, err := s.modelOf(parent.post.st)
		if err != nil {
			return
		}
		if c.resign {
			// the model recomputes the state root if it still accepts the operations
			trial := pm.Copy()
			ok := uint64(*r.slot) > trial.Slot && refspec.ProcessSlots(spec, trial, uint64(*r.slot)) == nil
			if ok {
				msg := reflect.ValueOf(variant).Elem().FieldByName("Message").Addr().Interface()
				if c.name != "header/state-root" && refspec.ProcessBlock(spec, trial, msg) == nil {
					if root, err := refspec.Root(spec, trial); err == nil {
						*r.stateRoot = root
					}
				}
			}
			// sign with the key of the (possibly changed) proposer index under the right domain
			if ki := w.keyOf(pre.st, *r.proposer); ki >= 0 {
				f, _ := pre.st.Fork()
				ep := common.Epoch(w.epochOf(uint64(*r.slot)))
				*r.sig = w.keys.sign(ki, signingRoot(s.blockRootOf(r), domainFor(f, w.gvr, common.DOMAIN_BEACON_PROPOSER, ep)))
			}
		}
		s.verdicts(parent, pm, variant, blk.digest, "corruption "+c.name, c.name)
	}
	// corrupting link: random byte edits of the frame
	if s.frng.Chance(1, 2) && !s.stop {
		frame := append([]byte(nil), blk.bytes...)
		n := 1 + s.frng.Intn(3)
		for i := 0; i < n; i++ {
			frame[s.frng.Intn(len(frame))] ^= byte(1 << uint(s.frng.Intn(8)))
		}
		s.res.Stat("fault_byz_frame", 1)
		alloc, _ := w.dec.BlockAllocator(blk.digest)
		variant := alloc().(common.SpecObj)
		var derr error
		if p := guard(func() {
			derr = variant.Deserialize(spec, codec.NewDecodingReader(bytes.NewReader(frame), uint64(len(frame))))
		}); p != nil {
			s.viol("C03", "panic/decode/"+p.frame, p.val)
			return
		}
		if derr != nil {
			s.res.Stat("byz_frames_refused_by_decoder", 1)
			return
		}
		pm, err := s.modelOf(parent.post.st)
		if err != nil {
			return
		}
		s.verdicts(parent, pm, variant, blk.digest, "bit flips in the frame", "frame-bitflip")
	}
}

// verdicts: the model's and zrnt's verdict on a (decodable) signed block on top of parent.
func (s *sim) verdicts(parent *blockRec, pm *refspec.State, variant common.SpecObj, digest common.ForkDigest, what, sigName string) {
	w := s.w
	spec := w.spec
	// a far-future slot makes process_slots (of the specification as well) walk every slot
	if vs := uint64(*refsOf(variant).slot); vs > pm.Slot+8*s.cfg.SPE {
		s.res.Stat("byz_variants_skipped_far_future_slot", 1)
		return
	}
	merr := refspec.StateTransition(spec, pm, variant, true)
	if merr != nil && strings.Contains(merr.Error(), "model panic") {
		s.res.Harness = "refspec: " + merr.Error()
		s.stop = true
		return
	}
	// zrnt receives bytes
	var buf bytes.Buffer
	if err := variant.Serialize(spec, codec.NewEncodingWriter(&buf)); err != nil {
		s.res.Stat("byz_variants_not_serializable", 1)
		return
	}
	alloc, _ := w.dec.BlockAllocator(digest)
	rx := alloc()
	var zerr error
	box, _ := parent.post.copy()
	if p := guard(func() {
		zerr = rx.Deserialize(spec, codec.NewDecodingReader(bytes.NewReader(buf.Bytes()), uint64(buf.Len())))
		if zerr == nil {
			env := rx.Envelope(spec, digest)
			zerr = common.StateTransition(context.Background(), spec, box.epc, box.st, env, true)
		}
	}); p != nil {
		s.viol("C03", "panic/"+sigName+"/"+p.frame, fmt.Sprintf("%s: %s", what, p.val))
		return
	}
	if os.Getenv("ZV_DEBUG") != "" {
		fmt.Fprintf(os.Stderr, "verdict %s: model=%v zrnt=%v\n", what, merr, zerr)
	}
	slot := *refsOf(variant).slot
	// A corrupted operation usually leaves the declared state root stale, so the final root
	// check alone would refuse the block. Whoever forges such a block would declare the
	// root their own node computes: ask zrnt to process the block WITHOUT result validation;
	// if that succeeds, a block declaring zrnt's own post-root would be accepted in full.
	if merr != nil && zerr != nil && strings.Contains(zerr.Error(), "state root") {
		box2, _ := parent.post.copy()
		rx2 := alloc()
		var e2 error
		if p := guard(func() {
			e2 = rx2.Deserialize(spec, codec.NewDecodingReader(bytes.NewReader(buf.Bytes()), uint64(buf.Len())))
			if e2 == nil {
				e2 = common.StateTransition(context.Background(), spec, box2.epc, box2.st, rx2.Envelope(spec, digest), false)
			}
		}); p != nil {
			s.viol("C03", "panic/"+sigName+"/"+p.frame, fmt.Sprintf("%s: %s", what, p.val))
			return
		}
		if e2 == nil {
			// make sure the model's objection is not the state root itself
			pm2, _ := s.modelOf(parent.post.st)
			if me := refspec.StateTransition(spec, pm2, variant, false); me != nil {
				s.viol("C03", "accepted-invalid/"+sigName, fmt.Sprintf("block at slot %d (%s) with %s: the specification rejects its content (%v); zrnt processes it without error and only the declared state root stands in the way", *refsOf(variant).slot, forkName(box2.st), what, me))
				return
			}
		}
	}
	switch {
	case merr != nil && zerr == nil:
		s.viol("C03", "accepted-invalid/"+sigName, fmt.Sprintf("block at slot %d (%s) with %s: the specification rejects it (%v), zrnt accepts it", slot, forkName(box.st), what, merr))
	case merr == nil && zerr != nil:
		s.res.Stat("byz_valid_variants", 1)
		s.viol("C01", "rejected-valid-variant/"+sigName, fmt.Sprintf("block at slot %d with %s is still valid per the specification, zrnt rejects it: %v", slot, what, zerr))
	case merr == nil && zerr == nil:
		s.res.Stat("byz_valid_variants", 1)
		z, err := s.modelOf(box.st)
		if err == nil {
			if d := refspec.Diff(z, pm); d != "" {
				s.viol("C01", "post-state-differs/"+pm.Fork.String()+"/"+diffSig(d), fmt.Sprintf("valid variant (%s) of the block at slot %d: zrnt != spec: %s", what, slot, d))
			}
		}
	default:
		s.res.Stat("byz_rejected_by_both", 1)
	}
}

var _ = beacon.NewForkDecoder
var _ view.View

// secondBlockOfSlot: a second block for the slot of `first`, applied to the post-state of `first` without
// any slot processing in between (the entry point that runs process_block plus the result checks).
func (s *sim) secondBlockOfSlot(first, forged *blockRec) {
	w := s.w
	spec := w.spec
	pm, err := s.modelOf(first.post.st)
	if err != nil {
		return
	}
	msg := reflect.ValueOf(forged.signed).Elem().FieldByName("Message").Addr().Interface()
	merr := refspec.ProcessBlock(spec, pm, msg)
	if merr != nil && strings.Contains(merr.Error(), "model panic") {
		s.res.Harness = "refspec: " + merr.Error()
		s.stop = true
		return
	}
	s.res.Stat("fault_byz_block/header/second-block-of-slot-on-post-state", 1)
	box, _ := first.post.copy()
	var zerr error
	if p := guard(func() {
		zerr = common.PostSlotTransition(context.Background(), spec, box.epc, box.st, forged.env, false)
	}); p != nil {
		s.viol("C03", "panic/second-block-of-slot/"+p.frame, p.val)
		return
	}
	if merr != nil && zerr == nil {
		s.viol("C03", "accepted-invalid/header/second-block-of-slot", fmt.Sprintf("a second block of proposer %d for slot %d (%s), applied to the post-state of the first without processing a slot: the specification's process_block rejects it (%v), zrnt's PostSlotTransition accepts it", forged.env.ProposerIndex, forged.slot, forkName(box.st), merr))
	}
	if merr == nil {
		s.res.Harness = "the model accepts a second block for the slot of the latest header"
		s.stop = true
	}
}
