package chainsim

import (
	"bytes"
	"context"
	"crypto/sha256"
	"encoding/binary"
	"errors"
	"fmt"
	"github.com/protolambda/zrnt/eth2/beacon/bellatrix"
	"github.com/protolambda/ztyp/codec"
	"time"

	"github.com/protolambda/zrnt/eth2/beacon"
	"github.com/protolambda/zrnt/eth2/beacon/altair"
	"github.com/protolambda/zrnt/eth2/beacon/common"
	"github.com/protolambda/zrnt/eth2/beacon/phase0"
	"github.com/protolambda/zrnt/eth2/gossipval"
	"github.com/protolambda/ztyp/tree"
	"github.com/protolambda/ztyp/view"
)

// Gossip layer (C12): every message the simulated validators produce is offered to a
// node's topic validator under the node's (possibly skewed) clock and (possibly
// incomplete) chain view. The oracle is constructive: the harness knows which single
// condition of the networking specification, if any, it made fail.

// ---- chain view adapter (harness; runs on the world's block tree) ----

type gEntry struct {
	g     *gossipNode
	rec   *blockRec
	box   *stateBox
	slot  uint64
	block bool
}

func (e *gEntry) Step() common.Step                { return common.AsStep(common.Slot(e.slot), e.block) }
func (e *gEntry) BlockRoot() (common.Root, error)  { return e.rec.root, nil }
func (e *gEntry) ParentRoot() (common.Root, error) { return e.rec.parent, nil }
func (e *gEntry) StateRoot() (common.Root, error) {
	return e.box.st.HashTreeRoot(tree.GetHashFn()), nil
}
func (e *gEntry) EpochsContext(ctx context.Context) (*common.EpochsContext, error) {
	return e.box.epc, nil
}
func (e *gEntry) State(ctx context.Context) (common.BeaconState, error) { return unwrap(e.box.st), nil }

type gossipNode struct {
	s       *sim
	known   map[common.Root]bool
	nowMs   int64 // ms since genesis
	finCP   common.Checkpoint
	head    *blockRec
	timeout bool // towards_timeout fault armed

	marks    []string // Mark* calls of the current validation
	seen     map[string]bool
	advanced map[string]*stateBox
}

func (g *gossipNode) Spec() *common.Spec                 { return g.s.w.spec }
func (g *gossipNode) Chain() beacon.Chain                { return g }
func (g *gossipNode) GenesisValidatorsRoot() common.Root { return g.s.w.gvr }
func (g *gossipNode) IsBadBlock(root common.Root) bool   { return false }
func (g *gossipNode) SlotAfter(delta time.Duration) common.Slot {
	t := g.nowMs + delta.Milliseconds()
	if t < 0 {
		return 0
	}
	return common.Slot(uint64(t) / (uint64(g.s.w.spec.SECONDS_PER_SLOT) * 1000))
}
func (g *gossipNode) GetDomain(typ common.BLSDomainType, epoch common.Epoch) (common.BLSDomain, error) {
	f, _ := g.head.post.st.Fork()
	// the fork record of the head may lag behind a message epoch: use the schedule
	fi := g.s.w.forkIndexAt(uint64(epoch))
	_ = f
	return common.BLSDomain(computeDomain(typ, g.s.w.versionOfFork(fi), g.s.w.gvr)), nil
}
func (g *gossipNode) HeadInfo(ctx context.Context) (beacon.ChainEntry, *common.EpochsContext, common.BeaconState, error) {
	e := g.entryAt(g.head, g.s.curSlot)
	if e == nil {
		return nil, nil, nil, errors.New("no head")
	}
	return e, e.box.epc, unwrap(e.box.st), nil
}

func (g *gossipNode) mark(k string) { g.marks = append(g.marks, k); g.seen[k] = true }

func (g *gossipNode) SeenBlock(slot common.Slot, p common.ValidatorIndex) bool {
	return g.seen[fmt.Sprintf("blk/%d/%d", slot, p)]
}
func (g *gossipNode) MarkBlock(slot common.Slot, p common.ValidatorIndex) {
	g.mark(fmt.Sprintf("blk/%d/%d", slot, p))
}
func (g *gossipNode) SeenAttestation(e common.Epoch, v common.ValidatorIndex) bool {
	return g.seen[fmt.Sprintf("att/%d/%d", e, v)]
}
func (g *gossipNode) MarkAttestation(e common.Epoch, v common.ValidatorIndex) {
	g.mark(fmt.Sprintf("att/%d/%d", e, v))
}
func (g *gossipNode) SeenAggregate(r common.Root) bool { return g.seen[fmt.Sprintf("agg/%x", r[:8])] }
func (g *gossipNode) MarkAggregate(r common.Root)      { g.mark(fmt.Sprintf("agg/%x", r[:8])) }
func (g *gossipNode) SeenAggregator(e common.Epoch, v common.ValidatorIndex) bool {
	return g.seen[fmt.Sprintf("aggr/%d/%d", e, v)]
}
func (g *gossipNode) MarkAggregator(e common.Epoch, v common.ValidatorIndex) {
	g.mark(fmt.Sprintf("aggr/%d/%d", e, v))
}
func (g *gossipNode) SeenExit(v common.ValidatorIndex) bool { return g.seen[fmt.Sprintf("exit/%d", v)] }
func (g *gossipNode) MarkExit(v common.ValidatorIndex)      { g.mark(fmt.Sprintf("exit/%d", v)) }
func (g *gossipNode) SeenProposerSlashing(v common.ValidatorIndex) bool {
	return g.seen[fmt.Sprintf("ps/%d", v)]
}
func (g *gossipNode) MarkProposerSlashing(v common.ValidatorIndex) { g.mark(fmt.Sprintf("ps/%d", v)) }
func (g *gossipNode) AttesterSlashableAllSeen(ix []common.ValidatorIndex) bool {
	for _, i := range ix {
		if !g.seen[fmt.Sprintf("as/%d", i)] {
			return false
		}
	}
	return true
}
func (g *gossipNode) MarkAttesterSlashings(ix []common.ValidatorIndex) {
	for _, i := range ix {
		g.mark(fmt.Sprintf("as/%d", i))
	}
}
func (g *gossipNode) SeenSyncCommMsg(v common.ValidatorIndex, slot common.Slot, subnet uint64) bool {
	return g.seen[fmt.Sprintf("sync/%d/%d/%d", v, slot, subnet)]
}
func (g *gossipNode) MarkSyncCommMsg(v common.ValidatorIndex, slot common.Slot, subnet uint64) {
	g.mark(fmt.Sprintf("sync/%d/%d/%d", v, slot, subnet))
}
func (g *gossipNode) SeenContribution(v common.ValidatorIndex, slot common.Slot, subnet uint64) bool {
	return g.seen[fmt.Sprintf("contrib/%d/%d/%d", v, slot, subnet)]
}
func (g *gossipNode) MarkContribution(v common.ValidatorIndex, slot common.Slot, subnet uint64) {
	g.mark(fmt.Sprintf("contrib/%d/%d/%d", v, slot, subnet))
}

// entryAt: block b's chain advanced through empty slots to `slot` (memoised per node).
func (g *gossipNode) entryAt(b *blockRec, slot uint64) *gEntry {
	if slot <= b.slot {
		return &gEntry{g, b, b.post, b.slot, b != g.s.w.genesis || true}
	}
	key := fmt.Sprintf("%x/%d", b.root[:8], slot)
	if bx, ok := g.advanced[key]; ok {
		return &gEntry{g, b, bx, slot, false}
	}
	bx, err := g.s.w.advance(b, slot)
	if err != nil {
		return nil
	}
	g.advanced[key] = bx
	return &gEntry{g, b, bx, slot, false}
}

func (g *gossipNode) rec(root common.Root) *blockRec {
	if !g.known[root] {
		return nil
	}
	return g.s.w.blocks[root]
}

func (g *gossipNode) ByStateRoot(root common.Root) (beacon.ChainEntry, bool) { return nil, false }
func (g *gossipNode) ByBlock(root common.Root) (beacon.ChainEntry, bool) {
	b := g.rec(root)
	if b == nil {
		return nil, false
	}
	return &gEntry{g, b, b.post, b.slot, true}, true
}
func (g *gossipNode) ByBlockSlot(root common.Root, slot common.Slot) (beacon.ChainEntry, bool) {
	b := g.rec(root)
	if b == nil || uint64(slot) < b.slot {
		return nil, false
	}
	e := g.entryAt(b, uint64(slot))
	if e == nil {
		return nil, false
	}
	return e, true
}
func (g *gossipNode) Search(parentRoot *common.Root, slot *common.Slot) ([]beacon.SearchEntry, error) {
	return nil, errors.New("not used by the validators")
}
func (g *gossipNode) Closest(from common.Root, to common.Slot) (beacon.ChainEntry, bool) {
	return g.ByBlock(from)
}
func (g *gossipNode) InSubtree(anchor common.Root, root common.Root) (unknown bool, in bool) {
	a, r := g.rec(anchor), g.rec(root)
	if a == nil || r == nil {
		return true, false
	}
	for b := r; b != nil; b = g.s.w.blocks[b.parent] {
		if b == a {
			return false, true
		}
		if b == g.s.w.genesis {
			break
		}
	}
	return false, false
}
func (g *gossipNode) ByCanonStep(step common.Step) (beacon.ChainEntry, bool) { return nil, false }
func (g *gossipNode) Iter() (beacon.ChainIter, error)                        { return nil, errors.New("unused") }
func (g *gossipNode) JustifiedCheckpoint() common.Checkpoint                 { return g.finCP }
func (g *gossipNode) FinalizedCheckpoint() common.Checkpoint                 { return g.finCP }
func (g *gossipNode) Justified() (beacon.ChainEntry, error)                  { return nil, errors.New("unused") }
func (g *gossipNode) Finalized() (beacon.ChainEntry, error)                  { return nil, errors.New("unused") }
func (g *gossipNode) Head() (beacon.ChainEntry, error) {
	return &gEntry{g, g.head, g.head.post, g.head.slot, true}, nil
}
func (g *gossipNode) Towards(ctx context.Context, from common.Root, to common.Slot) (beacon.ChainEntry, error) {
	if g.timeout {
		g.s.res.Stat("fault_towards_timeout", 1)
		return nil, context.DeadlineExceeded
	}
	b := g.rec(from)
	if b == nil {
		return nil, fmt.Errorf("unknown block %s", from)
	}
	if b.slot > uint64(to) {
		return nil, fmt.Errorf("block %s is past slot %d", from, to)
	}
	e := g.entryAt(b, uint64(to))
	if e == nil {
		return nil, errors.New("cannot advance")
	}
	return e, nil
}
func (g *gossipNode) Genesis() beacon.GenesisInfo {
	return beacon.GenesisInfo{Time: g.s.w.genesisTime, ValidatorsRoot: g.s.w.gvr}
}

// ---- oracle ----

const (
	expInvalidOrTiming = "invalid" // (alias: a validity condition fails; never ACCEPT)
	expAccept          = "accept"  // every condition holds
	expTiming          = "timing"  // only a condition that an honest sender can fail through timing fails
	expInvalid         = "invalid" // a validity condition fails
)

func (s *sim) judge(g *gossipNode, topic, what, expect string, res gossipval.GossipValidatorResult, p *panicInfo) {
	s.res.Stat("gossip_validations", 1)
	s.res.Stat("gossip_"+topic+"_"+expect, 1)
	if p != nil {
		s.viol("C12", "panic/"+topic+"/"+p.frame, fmt.Sprintf("%s: %s", what, p.val))
		return
	}
	code := res.Result
	s.log.Add(fmt.Sprintf("gossip %s %s %s -> %s", topic, what, expect, code))
	if len(g.marks) > 0 && code != gossipval.ACCEPT {
		s.viol("C12", "marked-without-accept/"+topic, fmt.Sprintf("%s (%s): verdict %s (%v) but the seen-cache was marked: %v", what, expect, code, res.Err, g.marks))
		return
	}
	switch expect {
	case expAccept:
		if code != gossipval.ACCEPT {
			s.viol("C12", "valid-message-not-accepted/"+topic, fmt.Sprintf("%s satisfies every condition of the networking specification, verdict %s: %v", what, code, res.Err))
		}
	case expTiming:
		if code != gossipval.IGNORE {
			s.viol("C12", "timing-failure-not-ignored/"+topic, fmt.Sprintf("%s fails only a timing-class condition, verdict %s (%v), expected IGNORE", what, code, res.Err))
		}
	case expInvalid:
		if code == gossipval.ACCEPT {
			s.viol("C12", "invalid-message-accepted/"+topic, fmt.Sprintf("%s violates a condition of the networking specification and was ACCEPTed", what))
		}
	}
}

func hashMod(sig common.BLSSignature, modulo uint64) bool {
	if modulo < 1 {
		modulo = 1
	}
	h := sha256.Sum256(sig[:])
	return binary.LittleEndian.Uint64(h[:8])%modulo == 0
}

// gossipSlot: offer this slot's messages to a gossip node.
func (s *sim) gossipSlot(slot uint64, blk *blockRec, parent *blockRec, hb *stateBox) {
	w := s.w
	spec := w.spec
	ctx := context.Background()
	r := s.frng
	g := s.gnode
	msPerSlot := int64(spec.SECONDS_PER_SLOT) * 1000
	// edgeClock: now and then an honest message is validated with the node's clock at an edge of the
	// window the p2p specification allows for it (message slot .. message slot + span, each side
	// widened by MAXIMUM_GOSSIP_CLOCK_DISPARITY = 500 ms): still inside, so the verdict stays ACCEPT.
	// Returns a note for the report and the function that puts the clock back.
	// voteMayPropagate: may a vote (or aggregate) of msgSlot be propagated when the node's clock shows
	// nowMs? The rule is the one of the fork in force at the clock's epoch (the topic's fork digest follows
	// the clock): up to capella msgSlot <= current_slot <= msgSlot + ATTESTATION_PROPAGATION_SLOT_RANGE (32);
	// from deneb on (EIP-7045) msgSlot <= current_slot and the vote's epoch is the current or the previous
	// one; each comparison with the MAXIMUM_GOSSIP_CLOCK_DISPARITY allowance of 500 ms in its favour.
	slotAt := func(ms int64) uint64 {
		if ms < 0 {
			return 0
		}
		return uint64(ms / msPerSlot)
	}
	voteMayPropagate := func(msgSlot uint64, nowMs int64) bool {
		if msgSlot > slotAt(nowMs+500) {
			return false
		}
		early := slotAt(nowMs - 500)
		if w.forkIndexAt(w.epochOf(slotAt(nowMs))) >= 4 {
			prev := w.epochOf(early)
			if prev > 0 {
				prev--
			}
			return w.epochOf(msgSlot) >= prev
		}
		return msgSlot+32 >= early
	}
	// lastVoteSlot: the end of one of the two windows (32 slots; the epoch after the vote's), drawn at
	// random: which of them is in force at that time is for voteMayPropagate to say
	lastVoteSlot := func(msgSlot uint64) (last uint64, ok bool) {
		if r.Bool() {
			return msgSlot + 32, true
		}
		return (w.epochOf(msgSlot)+2)*s.cfg.SPE - 1, true
	}
	edgeClock := func(msgSlot uint64, last uint64) (string, func()) {
		save := g.nowMs
		restore := func() { g.nowMs = save }
		span := last - msgSlot
		pick := r.Intn(9)
		if span > 0 && pick >= 1 && pick <= 2 {
			// a vote: the late edge only counts where the rule in force at that time still lets the vote pass
			t := int64(msgSlot+span+1)*msPerSlot - 100
			if pick == 1 {
				t = int64(msgSlot+span+1)*msPerSlot + 499
			}
			if !voteMayPropagate(msgSlot, t) {
				return "", restore
			}
		}
		switch pick {
		case 0:
			g.nowMs = int64(msgSlot)*msPerSlot - 400 - int64(r.Intn(101)) // (down to exactly 500 ms early)
			if g.nowMs < 0 {
				g.nowMs = save
				return "", restore
			}
			s.res.Stat("fault_clock_edge", 1)
			return fmt.Sprintf(" (node clock %d ms before the message's slot: inside the disparity allowance)", int64(msgSlot)*msPerSlot-g.nowMs), restore
		case 1:
			g.nowMs = int64(msgSlot+span+1)*msPerSlot + 400 + int64(r.Intn(100)) // (up to 499 ms late)
			s.res.Stat("fault_clock_edge", 1)
			return fmt.Sprintf(" (node clock %d ms after the last slot of the %d-slot window: inside the disparity allowance)", g.nowMs-int64(msgSlot+span+1)*msPerSlot, span), restore
		case 2:
			g.nowMs = int64(msgSlot+span+1)*msPerSlot - 100
			s.res.Stat("fault_clock_edge", 1)
			return fmt.Sprintf(" (node clock 100 ms before the end of the last slot of the %d-slot window)", span), restore
		}
		return "", restore
	}
	g.head = w.head
	g.nowMs = int64(slot)*msPerSlot + int64(r.Intn(int(msPerSlot)))
	fin, _ := w.head.post.st.FinalizedCheckpoint()
	if fin.Root == (common.Root{}) {
		fin.Root = w.genesis.root
	}
	g.finCP = fin
	validate := func(f func() gossipval.GossipValidatorResult) (gossipval.GossipValidatorResult, *panicInfo) {
		g.marks = nil
		var out gossipval.GossipValidatorResult
		p := guard(func() { out = f() })
		return out, p
	}
	fork, _ := hb.st.Fork()
	epoch := w.epochOf(slot)

	// ---------- fault: the node restarts and loses its seen-caches; old blocks are offered again ----------
	if len(w.order) > 3 && r.Chance(1, 6) && !s.stop {
		g.seen = map[string]bool{}
		s.res.Stat("fault_gossip_restart", 1)
		finSlot := uint64(fin.Epoch) * s.cfg.SPE
		offered := 0
		for i := len(w.order) - 1; i >= 0 && offered < 4 && !s.stop; i-- {
			b := w.order[i]
			if b == blk || !g.known[b.root] || !g.known[b.parent] {
				continue
			}
			// prefer blocks around the finalized slot
			if b.slot > finSlot+1 && !r.Chance(1, 4) {
				continue
			}
			offered++
			exp := expAccept
			what := fmt.Sprintf("old block at slot %d offered again after a restart (finalized slot %d)", b.slot, finSlot)
			if b.slot <= finSlot {
				exp = expTiming
				s.res.Stat("probe_block_at_or_before_finalized_slot", 1)
				if b.slot == finSlot {
					s.res.Stat("probe_block_exactly_at_finalized_slot", 1)
				}
			} else if un, in := g.InSubtree(fin.Root, b.parent); un || !in {
				exp = expInvalid // builds on a branch that was finalized away
			}
			env := b.env
			res, p := validate(func() gossipval.GossipValidatorResult { return gossipval.ValidateBeaconBlock(ctx, env, g) })
			s.judge(g, "beacon_block", what, exp, res, p)
			// right after the restart nothing is marked as seen for this slot and proposer: the same
			// proposer signs a second header for the SAME slot on top of its own first block. A block is
			// from a higher slot than its parent: this one is not.
			if exp == expAccept && offered == 1 && !s.stop {
				pre, err := w.advance(w.blocks[b.parent], b.slot)
				if err == nil {
					if ki := w.keyOf(pre.st, b.env.ProposerIndex); ki >= 0 {
						f, _ := pre.st.Fork()
						env2 := *b.env
						env2.BeaconBlockHeader.ParentRoot = b.root
						env2.BeaconBlockHeader.StateRoot = fnvRoot("same-slot-child", b.slot)
						env2.BlockRoot = env2.BeaconBlockHeader.HashTreeRoot(tree.GetHashFn())
						env2.Signature = w.keys.sign(ki, signingRoot(env2.BlockRoot, domainFor(f, w.gvr, common.DOMAIN_BEACON_PROPOSER, common.Epoch(w.epochOf(b.slot)))))
						delete(g.seen, fmt.Sprintf("block/%d/%d", b.slot, b.env.ProposerIndex))
						saveSeen := g.seen
						g.seen = map[string]bool{}
						res, p := validate(func() gossipval.GossipValidatorResult { return gossipval.ValidateBeaconBlock(ctx, &env2, g) })
						g.seen = saveSeen
						s.res.Stat("fault_block_in_the_slot_of_its_parent", 1)
						s.judge(g, "beacon_block", fmt.Sprintf("second block of proposer %d for slot %d, built on its own first block of that slot", b.env.ProposerIndex, b.slot), expInvalidOrTiming, res, p)
					}
				}
			}
		}
	}
	if s.stop {
		return
	}

	// ---------- beacon_block ----------
	if blk != nil && !s.stop {
		env := blk.env
		what := fmt.Sprintf("block at slot %d", blk.slot)
		mode := r.Intn(10)
		switch {
		case mode == 0: // arrives before its parent is known
			if parent != w.genesis {
				delete(g.known, parent.root)
				res, p := validate(func() gossipval.GossipValidatorResult { return gossipval.ValidateBeaconBlock(ctx, env, g) })
				s.judge(g, "beacon_block", what+" with unknown parent", expTiming, res, p)
				g.known[parent.root] = true
			}
		case mode == 1: // the node's clock is a slot behind
			save := g.nowMs
			g.nowMs = int64(slot)*msPerSlot - 501 - int64(r.Intn(int(msPerSlot)+100)) // (just outside the allowance, up to a slot early)
			if g.nowMs >= 0 {
				res, p := validate(func() gossipval.GossipValidatorResult { return gossipval.ValidateBeaconBlock(ctx, env, g) })
				s.judge(g, "beacon_block", what+" from the future (clock skew)", expTiming, res, p)
			}
			g.nowMs = save
		case mode == 2: // wrong signature
			bad := *env
			flipSig(&bad.Signature)
			res, p := validate(func() gossipval.GossipValidatorResult { return gossipval.ValidateBeaconBlock(ctx, &bad, g) })
			s.judge(g, "beacon_block", what+" with a corrupted signature", expInvalid, res, p)
		case mode == 3: // signed correctly by a validator that is not the slot's proposer
			other := (int(env.ProposerIndex) + 1) % s.cfg.Validators
			bad := *env
			bad.ProposerIndex = common.ValidatorIndex(other)
			hdr := bad.BeaconBlockHeader
			bad.BlockRoot = hdr.HashTreeRoot(tree.GetHashFn())
			dom := domainFor(fork, w.gvr, common.DOMAIN_BEACON_PROPOSER, common.Epoch(epoch))
			bad.Signature = w.keys.sign(other, signingRoot(bad.BlockRoot, dom))
			res, p := validate(func() gossipval.GossipValidatorResult { return gossipval.ValidateBeaconBlock(ctx, &bad, g) })
			s.judge(g, "beacon_block", what+" validly signed by a non-proposer", expInvalid, res, p)
		case mode == 5 || mode == 6: // a body the topic's own conditions refuse, signed by the slot's proposer
			// bellatrix+: payload timestamp that is not the slot's; deneb: more blob commitments than a block may carry
			alloc, aerr := w.dec.BlockAllocator(blk.digest)
			if aerr != nil {
				break
			}
			variant := alloc().(common.SpecObj)
			if variant.Deserialize(spec, codec.NewDecodingReader(bytes.NewReader(blk.bytes), uint64(len(blk.bytes)))) != nil {
				break
			}
			rf := refsOf(variant)
			if rf == nil || rf.timestamp == nil {
				break
			}
			how := ""
			if mode == 6 && rf.commit != nil {
				for len(*rf.commit) <= int(spec.MAX_BLOBS_PER_BLOCK) {
					var c common.KZGCommitment
					c[0], c[47] = 0xc0, byte(len(*rf.commit))
					*rf.commit = append(*rf.commit, c)
				}
				how = fmt.Sprintf(" carrying %d blob commitments (at most %d allowed)", len(*rf.commit), uint64(spec.MAX_BLOBS_PER_BLOCK))
			} else {
				// (a bellatrix block before the merge carries the default payload: execution is not enabled,
				// the condition does not apply)
				if pm, ok := variant.(*bellatrix.SignedBeaconBlock); ok {
					var def bellatrix.ExecutionPayload
					if pm.Message.Body.ExecutionPayload.HashTreeRoot(spec, tree.GetHashFn()) == def.HashTreeRoot(spec, tree.GetHashFn()) {
						break
					}
				}
				*rf.timestamp += common.Timestamp(1 + r.Intn(int(spec.SECONDS_PER_SLOT)))
				how = " whose payload timestamp is not the time of its slot"
			}
			ki := w.keyOf(hb.st, *rf.proposer)
			if ki < 0 {
				break
			}
			*rf.sig = w.keys.sign(ki, signingRoot(s.blockRootOf(rf), domainFor(fork, w.gvr, common.DOMAIN_BEACON_PROPOSER, common.Epoch(epoch))))
			type enveloper interface {
				Envelope(spec *common.Spec, digest common.ForkDigest) *common.BeaconBlockEnvelope
			}
			ev, ok := variant.(enveloper)
			if !ok {
				break
			}
			bad := ev.Envelope(spec, blk.digest)
			res, p := validate(func() gossipval.GossipValidatorResult { return gossipval.ValidateBeaconBlock(ctx, bad, g) })
			s.res.Stat("probe_gossip_block_with_refused_body", 1)
			s.judge(g, "beacon_block", what+how+", signed by the slot's proposer", expInvalid, res, p)
		case mode == 4: // signed under another fork version
			bad := *env
			dom := computeDomain(common.DOMAIN_BEACON_PROPOSER, w.versionOfFork((w.forkIndexAt(epoch)+1)%5), w.gvr)
			if ki := w.keyOf(hb.st, env.ProposerIndex); ki >= 0 {
				bad.Signature = w.keys.sign(ki, signingRoot(bad.BlockRoot, dom))
				res, p := validate(func() gossipval.GossipValidatorResult { return gossipval.ValidateBeaconBlock(ctx, &bad, g) })
				s.judge(g, "beacon_block", what+" signed under another fork version", expInvalid, res, p)
			}
		}
		if !s.stop {
			// the honest block, in time, parent known, first for (slot, proposer)
			res, p := validate(func() gossipval.GossipValidatorResult { return gossipval.ValidateBeaconBlock(ctx, env, g) })
			exp := expAccept
			finSlot := uint64(fin.Epoch) * s.cfg.SPE
			if blk.slot <= finSlot {
				exp = expTiming
			}
			s.judge(g, "beacon_block", what, exp, res, p)
			if !s.stop && exp == expAccept {
				res, p = validate(func() gossipval.GossipValidatorResult { return gossipval.ValidateBeaconBlock(ctx, env, g) })
				s.judge(g, "beacon_block", what+" delivered twice", expTiming, res, p)
				s.res.Stat("fault_dup", 1)
			}
		}
		g.known[blk.root] = true
	}
	if s.stop {
		return
	}

	// ---------- attestations (single votes) and aggregates ----------
	head := w.head
	cnt, err := hb.epc.GetCommitteeCountPerSlot(common.Epoch(epoch))
	if err != nil {
		return
	}
	src, _ := hb.st.CurrentJustifiedCheckpoint()
	startSlot := epoch * s.cfg.SPE
	var target common.Root
	if head.slot <= startSlot {
		target = head.root
	} else {
		br, _ := hb.st.BlockRoots()
		target, _ = br.GetRoot(common.Slot(startSlot))
	}
	// messages late in the slot: clock at 1/3 .. end of slot
	attDom := domainFor(fork, w.gvr, common.DOMAIN_BEACON_ATTESTER, common.Epoch(epoch))
	for ci := uint64(0); ci < cnt && !s.stop; ci++ {
		comm, err := hb.epc.GetBeaconCommittee(common.Slot(slot), common.CommitteeIndex(ci))
		if err != nil || len(comm) == 0 {
			continue
		}
		data := phase0.AttestationData{Slot: common.Slot(slot), Index: common.CommitteeIndex(ci), BeaconBlockRoot: head.root, Source: src, Target: common.Checkpoint{Epoch: common.Epoch(epoch), Root: target}}
		sr := signingRoot(data.HashTreeRoot(tree.GetHashFn()), attDom)
		subnet := (cnt*(slot%s.cfg.SPE) + ci) % 64
		var aggSigners []int
		aggBits := make(phase0.AttestationBits, len(comm)/8+1)
		aggBits[len(comm)/8] |= 1 << (uint(len(comm)) % 8)
		for pos, vi := range comm {
			ki := w.keyOf(hb.st, vi)
			if ki < 0 || r.Chance(1, 3) {
				continue
			}
			bits := make(phase0.AttestationBits, len(comm)/8+1)
			bits[len(comm)/8] |= 1 << (uint(len(comm)) % 8)
			bits[pos/8] |= 1 << (uint(pos) % 8)
			att := &phase0.Attestation{AggregationBits: bits, Data: data, Signature: w.keys.sign(ki, sr)}
			what := fmt.Sprintf("attestation of validator %d (slot %d committee %d)", vi, slot, ci)
			seenKey := fmt.Sprintf("att/%d/%d", epoch, vi)
			mode := r.Intn(14)
			switch {
			case mode == 0:
				bad := *att
				flipSig(&bad.Signature)
				_, p := func() ([]common.ValidatorIndex, *panicInfo) { return nil, nil }()
				_ = p
				var res gossipval.GossipValidatorResult
				res, p = validate(func() gossipval.GossipValidatorResult {
					_, x := gossipval.ValidateAttestation(ctx, subnet, &bad, g)
					return x
				})
				s.judge(g, "attestation", what+" with a corrupted signature", expInvalid, res, p)
			case mode == 1:
				res, p := validate(func() gossipval.GossipValidatorResult {
					_, x := gossipval.ValidateAttestation(ctx, (subnet+1)%64, att, g)
					return x
				})
				s.judge(g, "attestation", what+" on the wrong subnet", expInvalid, res, p)
			case mode == 2 && len(comm) > 1:
				bad := *att
				bad.AggregationBits = bits.Copy()
				bad.AggregationBits.SetBit(uint64((pos+1)%len(comm)), true)
				res, p := validate(func() gossipval.GossipValidatorResult {
					_, x := gossipval.ValidateAttestation(ctx, subnet, &bad, g)
					return x
				})
				s.judge(g, "attestation", what+" with two bits set", expInvalid, res, p)
			case mode == 3:
				bad := *att
				bad.Data.Target.Epoch++
				res, p := validate(func() gossipval.GossipValidatorResult {
					_, x := gossipval.ValidateAttestation(ctx, subnet, &bad, g)
					return x
				})
				s.judge(g, "attestation", what+" whose target epoch is not the slot's epoch", expInvalid, res, p)
			case mode == 4:
				bad := *att
				bad.Data.Index = common.CommitteeIndex(cnt)
				res, p := validate(func() gossipval.GossipValidatorResult {
					_, x := gossipval.ValidateAttestation(ctx, subnet, &bad, g)
					return x
				})
				s.judge(g, "attestation", what+" with a committee index out of range", expInvalid, res, p)
			case mode == 5: // clock far behind: the vote is from the future
				save := g.nowMs
				g.nowMs = int64(slot)*msPerSlot - 501 - int64(r.Intn(int(msPerSlot)+100))
				if g.nowMs >= 0 {
					res, p := validate(func() gossipval.GossipValidatorResult {
						_, x := gossipval.ValidateAttestation(ctx, subnet, att, g)
						return x
					})
					s.judge(g, "attestation", what+" from the future (clock skew)", expTiming, res, p)
				}
				g.nowMs = save
			case mode == 6: // clock far ahead: beyond the propagation range
				lastSlot, _ := lastVoteSlot(slot)
				if late := int64(lastSlot+1)*msPerSlot + 501 + int64(r.Intn(int(2*msPerSlot))); !voteMayPropagate(slot, late) { // (from just outside the allowance on)
					save := g.nowMs
					g.nowMs = late
					res, p := validate(func() gossipval.GossipValidatorResult {
						_, x := gossipval.ValidateAttestation(ctx, subnet, att, g)
						return x
					})
					s.judge(g, "attestation", what+fmt.Sprintf(" received %d ms into slot %d, when the rule in force at that time no longer lets it be propagated", g.nowMs%msPerSlot, g.nowMs/msPerSlot), expTiming, res, p)
					g.nowMs = save
				}
			case mode == 7 && head != w.genesis: // voted block not yet seen
				delete(g.known, head.root)
				res, p := validate(func() gossipval.GossipValidatorResult {
					_, x := gossipval.ValidateAttestation(ctx, subnet, att, g)
					return x
				})
				s.judge(g, "attestation", what+" for a block not seen yet", expTiming, res, p)
				g.known[head.root] = true
			case mode == 9 && head.slot > startSlot && head.parent != (common.Root{}): // target that is not the head vote's ancestor at the epoch start
				bad := *att
				bad.Data.Target.Root = head.root // the head itself is later than the epoch start: not the checkpoint root
				if bad.Data.Target.Root != att.Data.Target.Root {
					bad.Signature = w.keys.sign(ki, signingRoot(bad.Data.HashTreeRoot(tree.GetHashFn()), attDom))
					res, p := validate(func() gossipval.GossipValidatorResult {
						_, x := gossipval.ValidateAttestation(ctx, subnet, &bad, g)
						return x
					})
					s.judge(g, "attestation", what+" whose target is not the checkpoint of its epoch on the voted chain", expInvalidOrTiming, res, p)
				}
			case mode == 12 || mode == 13: // target root that is an ANCESTOR of the epoch's checkpoint block on the voted chain
				if cp := w.blocks[target]; cp != nil && cp != w.genesis && cp.parent != (common.Root{}) && g.known[cp.parent] && w.blocks[cp.parent] != nil {
					bad := *att
					bad.Data.Target.Root = cp.parent
					bad.Signature = w.keys.sign(ki, signingRoot(bad.Data.HashTreeRoot(tree.GetHashFn()), attDom))
					res, p := validate(func() gossipval.GossipValidatorResult {
						_, x := gossipval.ValidateAttestation(ctx, subnet, &bad, g)
						return x
					})
					s.res.Stat("probe_vote_with_an_ancestor_of_the_checkpoint_block_as_target", 1)
					s.judge(g, "attestation", what+fmt.Sprintf(" whose target root is the parent (slot %d) of the checkpoint block (slot %d) of its epoch on the voted chain", w.blocks[cp.parent].slot, cp.slot), expInvalid, res, p)
				}
			case mode == 10: // vote for a block from a later slot than the vote
				if blk != nil && blk.slot == slot && slot > w.cfg.baseSlot() {
					bad := *att
					bad.Data.Slot = common.Slot(slot - 1)
					bad.Data.BeaconBlockRoot = blk.root
					if w.epochOf(slot-1) == epoch {
						res, p := validate(func() gossipval.GossipValidatorResult {
							_, x := gossipval.ValidateAttestation(ctx, subnet, &bad, g)
							return x
						})
						s.judge(g, "attestation", what+" re-dated before the block it votes for", expInvalid, res, p)
					}
				}
			case mode == 11: // a bitlist that is one byte longer than the committee
				bad := *att
				lb := make(phase0.AttestationBits, (len(comm)+8)/8+1)
				lb[(len(comm)+8)/8] |= 1 << (uint(len(comm)+8) % 8)
				lb[pos/8] |= 1 << (uint(pos) % 8)
				bad.AggregationBits = lb
				res, p := validate(func() gossipval.GossipValidatorResult {
					_, x := gossipval.ValidateAttestation(ctx, subnet, &bad, g)
					return x
				})
				s.judge(g, "attestation", what+" whose bitlist is longer than its committee", expInvalid, res, p)
			case mode == 8: // the shuffling state cannot be reached in time
				g.timeout = true
				res, p := validate(func() gossipval.GossipValidatorResult {
					_, x := gossipval.ValidateAttestation(ctx, subnet, att, g)
					return x
				})
				s.judge(g, "attestation", what+" while the target state is unavailable (timeout)", expTiming, res, p)
				g.timeout = false
			}
			if s.stop {
				return
			}
			exp := expAccept
			if g.seen[seenKey] {
				exp = expTiming
			}
			lastSlot, sameRule := lastVoteSlot(slot)
			if !sameRule {
				lastSlot = slot // (the clock stays within the vote's own slot)
			}
			edge, restore := edgeClock(slot, lastSlot)
			res, p := validate(func() gossipval.GossipValidatorResult {
				_, x := gossipval.ValidateAttestation(ctx, subnet, att, g)
				return x
			})
			restore()
			what += edge
			if pos == 0 || r.Chance(1, 4) {
				s.wireCheck("attestation", spec.Wrap(att), func() sszPlain { return spec.Wrap(new(phase0.Attestation)) }, false, phase0.AttestationType(spec))
			}
			s.judge(g, "attestation", what, exp, res, p)
			if s.stop {
				return
			}
			if r.Chance(1, 4) {
				res, p = validate(func() gossipval.GossipValidatorResult {
					_, x := gossipval.ValidateAttestation(ctx, subnet, att, g)
					return x
				})
				s.judge(g, "attestation", what+" delivered twice", expTiming, res, p)
				s.res.Stat("fault_dup", 1)
			}
			aggSigners = append(aggSigners, ki)
			aggBits[pos/8] |= 1 << (uint(pos) % 8)
		}
		if len(aggSigners) == 0 || s.stop {
			continue
		}
		// aggregate_and_proof by one selected member of the committee
		selDom := domainFor(fork, w.gvr, common.DOMAIN_SELECTION_PROOF, common.Epoch(epoch))
		aapDom := domainFor(fork, w.gvr, common.DOMAIN_AGGREGATE_AND_PROOF, common.Epoch(epoch))
		modulo := uint64(len(comm)) / 16
		for _, vi := range comm {
			ki := w.keyOf(hb.st, vi)
			if ki < 0 {
				continue
			}
			sel := w.keys.sign(ki, signingRoot(common.Slot(slot).HashTreeRoot(tree.GetHashFn()), selDom))
			if !hashMod(sel, modulo) {
				continue
			}
			agg := phase0.Attestation{AggregationBits: aggBits, Data: data, Signature: w.keys.signAgg(aggSigners, sr)}
			msg := phase0.AggregateAndProof{AggregatorIndex: vi, Aggregate: agg, SelectionProof: sel}
			signed := &phase0.SignedAggregateAndProof{Message: msg, Signature: w.keys.sign(ki, signingRoot(msg.HashTreeRoot(spec, tree.GetHashFn()), aapDom))}
			what := fmt.Sprintf("aggregate by validator %d (slot %d committee %d, %d votes)", vi, slot, ci, len(aggSigners))
			run := func(m *phase0.SignedAggregateAndProof) (gossipval.GossipValidatorResult, *panicInfo) {
				return validate(func() gossipval.GossipValidatorResult {
					_, x := gossipval.ValidateAggregateAndProof(ctx, m, g)
					return x
				})
			}
			switch r.Intn(10) {
			case 8, 9:
				// every signer votes for a target root that is an ANCESTOR of the epoch's checkpoint block on the voted chain
				if cp := w.blocks[target]; cp != nil && cp != w.genesis && cp.parent != (common.Root{}) && g.known[cp.parent] && w.blocks[cp.parent] != nil {
					d2 := data
					d2.Target.Root = cp.parent
					agg2 := phase0.Attestation{AggregationBits: aggBits, Data: d2, Signature: w.keys.signAgg(aggSigners, signingRoot(d2.HashTreeRoot(tree.GetHashFn()), attDom))}
					m2 := phase0.AggregateAndProof{AggregatorIndex: vi, Aggregate: agg2, SelectionProof: sel}
					bad := &phase0.SignedAggregateAndProof{Message: m2, Signature: w.keys.sign(ki, signingRoot(m2.HashTreeRoot(spec, tree.GetHashFn()), aapDom))}
					res, p := run(bad)
					s.res.Stat("probe_aggregate_with_an_ancestor_of_the_checkpoint_block_as_target", 1)
					s.judge(g, "aggregate_and_proof", what+fmt.Sprintf(" whose target root is the parent (slot %d) of the checkpoint block (slot %d) of its epoch on the voted chain", w.blocks[cp.parent].slot, cp.slot), expInvalid, res, p)
				}
			case 0:
				bad := *signed
				flipSig(&bad.Signature)
				res, p := run(&bad)
				s.judge(g, "aggregate_and_proof", what+" with a corrupted outer signature", expInvalid, res, p)
			case 1:
				bad := *signed
				flipSig(&bad.Message.SelectionProof)
				bad.Signature = w.keys.sign(ki, signingRoot(bad.Message.HashTreeRoot(spec, tree.GetHashFn()), aapDom))
				res, p := run(&bad)
				s.judge(g, "aggregate_and_proof", what+" with a corrupted selection proof", expInvalid, res, p)
			case 4:
				// an aggregate nobody took part in
				bad := *signed
				empty := make(phase0.AttestationBits, len(comm)/8+1)
				empty[len(comm)/8] |= 1 << (uint(len(comm)) % 8)
				bad.Message.Aggregate.AggregationBits = empty
				bad.Signature = w.keys.sign(ki, signingRoot(bad.Message.HashTreeRoot(spec, tree.GetHashFn()), aapDom))
				res, p := run(&bad)
				s.judge(g, "aggregate_and_proof", what+" without a single participant", expInvalid, res, p)
			case 2:
				bad := *signed
				flipSig(&bad.Message.Aggregate.Signature)
				bad.Signature = w.keys.sign(ki, signingRoot(bad.Message.HashTreeRoot(spec, tree.GetHashFn()), aapDom))
				res, p := run(&bad)
				s.judge(g, "aggregate_and_proof", what+" with a corrupted aggregate signature", expInvalid, res, p)
			case 5:
				// an aggregate nobody took part in, carrying the signature that verifies for nobody
				bad := *signed
				empty := make(phase0.AttestationBits, len(comm)/8+1)
				empty[len(comm)/8] |= 1 << (uint(len(comm)) % 8)
				bad.Message.Aggregate.AggregationBits = empty
				bad.Message.Aggregate.Signature = infinitySig()
				bad.Signature = w.keys.sign(ki, signingRoot(bad.Message.HashTreeRoot(spec, tree.GetHashFn()), aapDom))
				res, p := run(&bad)
				s.judge(g, "aggregate_and_proof", what+" without a single participant and with the point at infinity as signature", expInvalid, res, p)
			case 6, 7:
				// a member of the committee whose selection proof does NOT select it (committees of 32 and more)
				for _, vi2 := range comm {
					ki2 := w.keyOf(hb.st, vi2)
					if ki2 < 0 {
						continue
					}
					sel2 := w.keys.sign(ki2, signingRoot(common.Slot(slot).HashTreeRoot(tree.GetHashFn()), selDom))
					if hashMod(sel2, modulo) {
						continue
					}
					m2 := phase0.AggregateAndProof{AggregatorIndex: vi2, Aggregate: agg, SelectionProof: sel2}
					bad := &phase0.SignedAggregateAndProof{Message: m2, Signature: w.keys.sign(ki2, signingRoot(m2.HashTreeRoot(spec, tree.GetHashFn()), aapDom))}
					res, p := run(bad)
					s.res.Stat("probe_aggregate_by_unselected_member", 1)
					s.judge(g, "aggregate_and_proof", fmt.Sprintf("aggregate by validator %d (slot %d committee %d of %d members), whose selection proof does not select it", vi2, slot, ci, len(comm)), expInvalid, res, p)
					break
				}
			case 3:
				// aggregator outside the committee
				out := -1
				for v := 0; v < s.cfg.Validators; v++ {
					in := false
					for _, c := range comm {
						if int(c) == v {
							in = true
						}
					}
					if !in {
						out = v
						break
					}
				}
				if out >= 0 {
					m2 := msg
					m2.AggregatorIndex = common.ValidatorIndex(out)
					m2.SelectionProof = w.keys.sign(out, signingRoot(common.Slot(slot).HashTreeRoot(tree.GetHashFn()), selDom))
					bad := &phase0.SignedAggregateAndProof{Message: m2, Signature: w.keys.sign(out, signingRoot(m2.HashTreeRoot(spec, tree.GetHashFn()), aapDom))}
					res, p := run(bad)
					s.judge(g, "aggregate_and_proof", what+" by an aggregator outside the committee", expInvalid, res, p)
				}
			}
			if s.stop {
				return
			}
			exp := expAccept
			if g.seen[fmt.Sprintf("aggr/%d/%d", epoch, vi)] {
				exp = expTiming
			}
			lastSlot, sameRule := lastVoteSlot(slot)
			if !sameRule {
				lastSlot = slot
			}
			edge, restore := edgeClock(slot, lastSlot)
			res, p := run(signed)
			restore()
			what += edge
			s.wireCheck("aggregate_and_proof", spec.Wrap(signed), func() sszPlain { return spec.Wrap(new(phase0.SignedAggregateAndProof)) }, false, nil)
			s.judge(g, "aggregate_and_proof", what, exp, res, p)
			if !s.stop && exp == expAccept {
				res, p = run(signed)
				s.judge(g, "aggregate_and_proof", what+" delivered twice", expTiming, res, p)
			}
			// the identical aggregate wrapped by ANOTHER selected aggregator of the committee: the
			// aggregate (by its hash-tree-root) has been seen, whoever relays it
			if !s.stop && exp == expAccept {
				for _, vi2 := range comm {
					ki2 := w.keyOf(hb.st, vi2)
					if vi2 == vi || ki2 < 0 || g.seen[fmt.Sprintf("aggr/%d/%d", epoch, vi2)] {
						continue
					}
					sel2 := w.keys.sign(ki2, signingRoot(common.Slot(slot).HashTreeRoot(tree.GetHashFn()), selDom))
					if !hashMod(sel2, modulo) {
						continue
					}
					msg2 := phase0.AggregateAndProof{AggregatorIndex: vi2, Aggregate: agg, SelectionProof: sel2}
					signed2 := &phase0.SignedAggregateAndProof{Message: msg2, Signature: w.keys.sign(ki2, signingRoot(msg2.HashTreeRoot(spec, tree.GetHashFn()), aapDom))}
					res, p = run(signed2)
					s.res.Stat("fault_dup_aggregate_other_aggregator", 1)
					s.judge(g, "aggregate_and_proof", fmt.Sprintf("the aggregate just accepted, relayed again by aggregator %d (slot %d committee %d)", vi2, slot, ci), expTiming, res, p)
					break
				}
			}
			break
		}
	}
	if s.stop {
		return
	}

	// ---------- operations carried by this slot's block ----------
	if blk != nil && parent != nil {
		// validated against the head BEFORE the block that carries them
		save := g.head
		g.head = parent
		if rr := refsOf(blk.signed); rr != nil {
			for i := range *rr.exits {
				ex := (*rr.exits)[i]
				what := fmt.Sprintf("exit of validator %d", ex.Message.ValidatorIndex)
				if r.Bool() {
					bad := ex
					flipSig(&bad.Signature)
					res, p := validate(func() gossipval.GossipValidatorResult { return gossipval.ValidateVoluntaryExit(ctx, &bad, g) })
					s.judge(g, "voluntary_exit", what+" with a corrupted signature", expInvalid, res, p)
				}
				if s.stop {
					break
				}
				res, p := validate(func() gossipval.GossipValidatorResult { return gossipval.ValidateVoluntaryExit(ctx, &ex, g) })
				s.wireCheck("voluntary_exit", &ex, func() sszPlain { return new(phase0.SignedVoluntaryExit) }, true, phase0.SignedVoluntaryExitType)
				s.judge(g, "voluntary_exit", what, expAccept, res, p)
				if !s.stop {
					res, p = validate(func() gossipval.GossipValidatorResult { return gossipval.ValidateVoluntaryExit(ctx, &ex, g) })
					s.judge(g, "voluntary_exit", what+" delivered twice", expTiming, res, p)
				}
			}
			for i := range *rr.ps {
				if s.stop {
					break
				}
				sl := (*rr.ps)[i]
				what := fmt.Sprintf("proposer slashing of %d", sl.SignedHeader1.Message.ProposerIndex)
				if r.Bool() {
					bad := sl
					bad.SignedHeader2 = bad.SignedHeader1
					res, p := validate(func() gossipval.GossipValidatorResult { return gossipval.ValidateProposerSlashing(ctx, &bad, g) })
					s.judge(g, "proposer_slashing", what+" with identical headers", expInvalid, res, p)
				}
				if s.stop {
					break
				}
				res, p := validate(func() gossipval.GossipValidatorResult { return gossipval.ValidateProposerSlashing(ctx, &sl, g) })
				s.wireCheck("proposer_slashing", &sl, func() sszPlain { return new(phase0.ProposerSlashing) }, true, phase0.ProposerSlashingType)
				s.judge(g, "proposer_slashing", what, expAccept, res, p)
				if !s.stop {
					res, p = validate(func() gossipval.GossipValidatorResult { return gossipval.ValidateProposerSlashing(ctx, &sl, g) })
					s.judge(g, "proposer_slashing", what+" delivered twice", expTiming, res, p)
				}
			}
			for i := range *rr.as {
				if s.stop {
					break
				}
				sl := (*rr.as)[i]
				what := fmt.Sprintf("attester slashing of %v", sl.Attestation1.AttestingIndices)
				if r.Bool() {
					bad := sl
					flipSig(&bad.Attestation2.Signature)
					res, p := validate(func() gossipval.GossipValidatorResult { return gossipval.ValidateAttesterSlashing(ctx, &bad, g) })
					s.judge(g, "attester_slashing", what+" with a corrupted signature", expInvalid, res, p)
				}
				if s.stop {
					break
				}
				res, p := validate(func() gossipval.GossipValidatorResult { return gossipval.ValidateAttesterSlashing(ctx, &sl, g) })
				s.wireCheck("attester_slashing", spec.Wrap(&sl), func() sszPlain { return spec.Wrap(new(phase0.AttesterSlashing)) }, false, phase0.AttesterSlashingType(spec))
				s.judge(g, "attester_slashing", what, expAccept, res, p)
				if !s.stop {
					res, p = validate(func() gossipval.GossipValidatorResult { return gossipval.ValidateAttesterSlashing(ctx, &sl, g) })
					s.judge(g, "attester_slashing", what+" delivered twice", expTiming, res, p)
				}
			}
		}
		g.head = save
		// ... and once more now that the block carrying them is the head: the node has seen each of them, so
		// a late copy is a duplicate (IGNORE) even though the head state no longer finds the validator slashable
		// or able to exit
		if rr := refsOf(blk.signed); rr != nil && g.head == blk && !s.stop {
			for i := range *rr.exits {
				ex := (*rr.exits)[i]
				if !g.seen[fmt.Sprintf("exit/%d", ex.Message.ValidatorIndex)] || s.stop {
					continue
				}
				res, p := validate(func() gossipval.GossipValidatorResult { return gossipval.ValidateVoluntaryExit(ctx, &ex, g) })
				s.res.Stat("fault_dup_after_inclusion", 1)
				s.judge(g, "voluntary_exit", fmt.Sprintf("exit of validator %d delivered again after the block that carries it became the head", ex.Message.ValidatorIndex), expTiming, res, p)
			}
			for i := range *rr.ps {
				sl := (*rr.ps)[i]
				if !g.seen[fmt.Sprintf("ps/%d", sl.SignedHeader1.Message.ProposerIndex)] || s.stop {
					continue
				}
				res, p := validate(func() gossipval.GossipValidatorResult { return gossipval.ValidateProposerSlashing(ctx, &sl, g) })
				s.res.Stat("fault_dup_after_inclusion", 1)
				s.judge(g, "proposer_slashing", fmt.Sprintf("proposer slashing of %d delivered again after the block that carries it became the head", sl.SignedHeader1.Message.ProposerIndex), expTiming, res, p)
			}
			for i := range *rr.as {
				sl := (*rr.as)[i]
				if s.stop {
					break
				}
				res, p := validate(func() gossipval.GossipValidatorResult { return gossipval.ValidateAttesterSlashing(ctx, &sl, g) })
				s.res.Stat("fault_dup_after_inclusion", 1)
				s.judge(g, "attester_slashing", fmt.Sprintf("attester slashing of %v delivered again after the block that carries it became the head", sl.Attestation1.AttestingIndices), expTiming, res, p)
			}
		}
	}
	if s.stop {
		return
	}

	// ---------- sync committee messages and contributions ----------
	if sc, ok := hb.st.BeaconState.(common.SyncCommitteeBeaconState); ok && hb.epc.CurrentSyncCommittee != nil {
		// get_sync_subcommittee_pubkeys / compute_subnets_for_sync_committee: committees assigned to a slot
		// sign for the slot before, so in the last slot of a period the NEXT committee is the one in charge
		cur, err := sc.CurrentSyncCommittee()
		if w.syncPeriodOf(slot+1) != w.syncPeriodOf(slot) {
			cur, err = sc.NextSyncCommittee()
			s.res.Stat("probe_gossip_sync_messages_in_the_last_slot_of_a_period", 1)
		}
		if err != nil {
			return
		}
		pv, _ := cur.Pubkeys()
		pubs, _ := pv.Flatten()
		size := uint64(len(pubs))
		sub := size / 4
		if sub == 0 {
			return
		}
		dom := domainFor(fork, w.gvr, common.DOMAIN_SYNC_COMMITTEE, common.Epoch(epoch))
		msgRoot := signingRoot(head.root, dom)
		for subnet := uint64(0); subnet < 4 && !s.stop; subnet++ {
			var bitsSet []int
			var sigs []common.BLSSignature
			var aggregator = -1
			var aggVI common.ValidatorIndex
			type member struct {
				ki int
				vi common.ValidatorIndex
			}
			var members []member
			done := map[common.ValidatorIndex]bool{}
			for pos := subnet * sub; pos < (subnet+1)*sub && !s.stop; pos++ {
				ki := w.indexOfPub(pubs[pos])
				if ki < 0 {
					continue
				}
				vi, ok := hb.epc.ValidatorPubkeyCache.ValidatorIndex(pubs[pos])
				if !ok {
					continue
				}
				sg := w.keys.sign(ki, msgRoot)
				bitsSet = append(bitsSet, int(pos-subnet*sub))
				sigs = append(sigs, sg)
				aggregator, aggVI = ki, vi
				members = append(members, member{ki, vi})
				if done[vi] || r.Chance(1, 2) {
					continue
				}
				done[vi] = true
				m := &altair.SyncCommitteeMessage{Slot: common.Slot(slot), BeaconBlockRoot: head.root, ValidatorIndex: vi, Signature: sg}
				what := fmt.Sprintf("sync message of validator %d (slot %d subnet %d)", vi, slot, subnet)
				run := func(sn uint64, mm *altair.SyncCommitteeMessage) (gossipval.GossipValidatorResult, *panicInfo) {
					return validate(func() gossipval.GossipValidatorResult {
						_, x := gossipval.ValidateSyncCommitteeSubnet(ctx, sn, mm, g)
						return x
					})
				}
				switch r.Intn(8) {
				case 0:
					bad := *m
					flipSig(&bad.Signature)
					res, p := run(subnet, &bad)
					s.judge(g, "sync_committee", what+" with a corrupted signature", expInvalid, res, p)
				case 1:
					// a subnet the validator is not in
					wrong := (subnet + 1) % 4
					in := false
					for q := wrong * sub; q < (wrong+1)*sub; q++ {
						if pubs[q] == pubs[pos] {
							in = true
						}
					}
					if !in {
						res, p := run(wrong, m)
						s.judge(g, "sync_committee", what+" on a subnet the validator is not assigned to", expInvalid, res, p)
					}
				case 2:
					save := g.nowMs
					g.nowMs = int64(slot+3) * msPerSlot
					res, p := run(subnet, m)
					s.judge(g, "sync_committee", what+" for a past slot", expTiming, res, p)
					g.nowMs = save
				case 4, 5:
					// one slot late: the message's slot is no longer the current slot, not even with the
					// clock disparity allowance (600 ms or more into the next slot)
					save := g.nowMs
					g.nowMs = int64(slot+1)*msPerSlot + 501 + int64(r.Intn(int(msPerSlot)-501))
					res, p := run(subnet, m)
					s.res.Stat("probe_sync_message_one_slot_late", 1)
					s.judge(g, "sync_committee", what+fmt.Sprintf(" received %d ms into the next slot", g.nowMs-int64(slot+1)*msPerSlot), expTiming, res, p)
					g.nowMs = save
				case 3:
					bad := *m
					bad.BeaconBlockRoot = fnvRoot("unknown-sync-root", slot)
					bad.Signature = w.keys.sign(ki, signingRoot(bad.BeaconBlockRoot, dom))
					res, p := run(subnet, &bad)
					s.judge(g, "sync_committee", what+" for a block root the node has never seen", expTiming, res, p)
				}
				if s.stop {
					return
				}
				exp := expAccept
				if g.seen[fmt.Sprintf("sync/%d/%d/%d", vi, slot, subnet)] {
					exp = expTiming
				}
				edge, restore := edgeClock(slot, slot)
				res, p := run(subnet, m)
				restore()
				what += edge
				s.wireCheck("sync_committee_message", m, func() sszPlain { return new(altair.SyncCommitteeMessage) }, true, altair.SyncCommitteeMessageType)
				s.judge(g, "sync_committee", what, exp, res, p)
				if !s.stop && exp == expAccept && r.Chance(1, 3) {
					res, p = run(subnet, m)
					s.res.Stat("fault_dup", 1)
					s.judge(g, "sync_committee", what+" delivered twice", expTiming, res, p)
				}
			}
			if aggregator < 0 || s.stop {
				continue
			}
			// contribution and proof
			selData := altair.SyncAggregatorSelectionData{Slot: common.Slot(slot), SubcommitteeIndex: view.Uint64View(subnet)}
			selDom := domainFor(fork, w.gvr, common.DOMAIN_SYNC_COMMITTEE_SELECTION_PROOF, common.Epoch(epoch))
			// the first member of the subcommittee whose proof selects it (and the first whose proof does not)
			var sel common.BLSSignature
			aggregator = -1
			unselected := -1
			for i, m := range members {
				sg := w.keys.sign(m.ki, signingRoot(selData.HashTreeRoot(tree.GetHashFn()), selDom))
				if hashMod(sg, size/4/16) {
					if aggregator < 0 {
						aggregator, aggVI, sel = m.ki, m.vi, sg
					}
				} else if unselected < 0 {
					unselected = i
				}
			}
			if aggregator < 0 {
				continue
			}
			cb := make(altair.SyncCommitteeSubnetBits, (sub+7)/8)
			for _, b := range bitsSet {
				cb[b/8] |= 1 << (uint(b) % 8)
			}
			contrib := altair.SyncCommitteeContribution{Slot: common.Slot(slot), BeaconBlockRoot: head.root, SubcommitteeIndex: view.Uint64View(subnet), AggregationBits: cb, Signature: aggregateSigs(sigs)}
			cap := altair.ContributionAndProof{AggregatorIndex: aggVI, Contribution: contrib, SelectionProof: sel}
			capDom := domainFor(fork, w.gvr, common.DOMAIN_CONTRIBUTION_AND_PROOF, common.Epoch(epoch))
			signed := &altair.SignedContributionAndProof{Message: cap, Signature: w.keys.sign(aggregator, signingRoot(cap.HashTreeRoot(spec, tree.GetHashFn()), capDom))}
			what := fmt.Sprintf("sync contribution by validator %d (slot %d subcommittee %d)", aggVI, slot, subnet)
			run := func(m *altair.SignedContributionAndProof) (gossipval.GossipValidatorResult, *panicInfo) {
				return validate(func() gossipval.GossipValidatorResult {
					_, x := gossipval.ValidateSyncContribAndProof(ctx, m, g)
					return x
				})
			}
			switch r.Intn(10) {
			case 8, 9:
				// one slot late (600 ms or more into the next slot)
				save := g.nowMs
				g.nowMs = int64(slot+1)*msPerSlot + 501 + int64(r.Intn(int(msPerSlot)-501))
				res, p := run(signed)
				s.res.Stat("probe_sync_contribution_one_slot_late", 1)
				s.judge(g, "sync_contribution", what+fmt.Sprintf(" received %d ms into the next slot", g.nowMs-int64(slot+1)*msPerSlot), expTiming, res, p)
				g.nowMs = save
			case 6:
				// aggregator that sits in the committee but not in THIS subcommittee
				inThis := map[common.BLSPubkey]bool{}
				for pos := subnet * sub; pos < (subnet+1)*sub; pos++ {
					inThis[pubs[pos]] = true
				}
				for pos := uint64(0); pos < size; pos++ {
					if inThis[pubs[pos]] {
						continue
					}
					ki2 := w.indexOfPub(pubs[pos])
					vi2, ok := hb.epc.ValidatorPubkeyCache.ValidatorIndex(pubs[pos])
					if ki2 < 0 || !ok {
						continue
					}
					sel2 := w.keys.sign(ki2, signingRoot(selData.HashTreeRoot(tree.GetHashFn()), selDom))
					cap2 := altair.ContributionAndProof{AggregatorIndex: vi2, Contribution: contrib, SelectionProof: sel2}
					bad := &altair.SignedContributionAndProof{Message: cap2, Signature: w.keys.sign(ki2, signingRoot(cap2.HashTreeRoot(spec, tree.GetHashFn()), capDom))}
					res, p := run(bad)
					s.judge(g, "sync_contribution", fmt.Sprintf("sync contribution for subcommittee %d (slot %d) by validator %d, who is in the sync committee but not in that subcommittee", subnet, slot, vi2), expInvalid, res, p)
					break
				}
			case 7:
				bad := *signed
				flipSig(&bad.Message.SelectionProof)
				bad.Signature = w.keys.sign(aggregator, signingRoot(bad.Message.HashTreeRoot(spec, tree.GetHashFn()), capDom))
				res, p := run(&bad)
				s.judge(g, "sync_contribution", what+" with a corrupted selection proof", expInvalid, res, p)
			case 0:
				bad := *signed
				flipSig(&bad.Signature)
				res, p := run(&bad)
				s.judge(g, "sync_contribution", what+" with a corrupted outer signature", expInvalid, res, p)
			case 1:
				bad := *signed
				bad.Message.Contribution.SubcommitteeIndex = 4
				bad.Signature = w.keys.sign(aggregator, signingRoot(bad.Message.HashTreeRoot(spec, tree.GetHashFn()), capDom))
				res, p := run(&bad)
				s.judge(g, "sync_contribution", what+" with subcommittee index 4", expInvalid, res, p)
			case 2:
				bad := *signed
				bad.Message.Contribution.AggregationBits = make(altair.SyncCommitteeSubnetBits, len(cb))
				bad.Signature = w.keys.sign(aggregator, signingRoot(bad.Message.HashTreeRoot(spec, tree.GetHashFn()), capDom))
				res, p := run(&bad)
				s.judge(g, "sync_contribution", what+" without participants", expInvalid, res, p)
			case 5:
				// a member of the subcommittee whose selection proof does not select it (subcommittees of 32 and more)
				if unselected >= 0 {
					m := members[unselected]
					sel2 := w.keys.sign(m.ki, signingRoot(selData.HashTreeRoot(tree.GetHashFn()), selDom))
					cap2 := altair.ContributionAndProof{AggregatorIndex: m.vi, Contribution: contrib, SelectionProof: sel2}
					bad := &altair.SignedContributionAndProof{Message: cap2, Signature: w.keys.sign(m.ki, signingRoot(cap2.HashTreeRoot(spec, tree.GetHashFn()), capDom))}
					res, p := run(bad)
					s.res.Stat("probe_contribution_by_unselected_member", 1)
					s.judge(g, "sync_contribution", fmt.Sprintf("sync contribution for subcommittee %d (slot %d) by validator %d, whose selection proof does not select it", subnet, slot, m.vi), expInvalid, res, p)
				}
			case 4:
				// no participant, and the signature that verifies for nobody
				bad := *signed
				bad.Message.Contribution.AggregationBits = make(altair.SyncCommitteeSubnetBits, len(cb))
				bad.Message.Contribution.Signature = infinitySig()
				bad.Signature = w.keys.sign(aggregator, signingRoot(bad.Message.HashTreeRoot(spec, tree.GetHashFn()), capDom))
				res, p := run(&bad)
				s.judge(g, "sync_contribution", what+" without participants and with the point at infinity as signature", expInvalid, res, p)
			case 3:
				bad := *signed
				flipSig(&bad.Message.Contribution.Signature)
				bad.Signature = w.keys.sign(aggregator, signingRoot(bad.Message.HashTreeRoot(spec, tree.GetHashFn()), capDom))
				res, p := run(&bad)
				s.judge(g, "sync_contribution", what+" with a corrupted aggregate signature", expInvalid, res, p)
			}
			if s.stop {
				return
			}
			exp := expAccept
			if g.seen[fmt.Sprintf("contrib/%d/%d/%d", aggVI, slot, subnet)] {
				exp = expTiming
			}
			edge, restore := edgeClock(slot, slot)
			res, p := run(signed)
			restore()
			what += edge
			s.wireCheck("sync_contribution_and_proof", spec.Wrap(signed), func() sszPlain { return spec.Wrap(new(altair.SignedContributionAndProof)) }, true, altair.SignedContributionAndProofType(spec))
			s.judge(g, "sync_contribution", what, exp, res, p)
			if !s.stop && exp == expAccept {
				res, p = run(signed)
				s.judge(g, "sync_contribution", what+" delivered twice", expTiming, res, p)
			}
		}
	}
}
