package chainsim

import (
	"context"
	"errors"
	"fmt"
	"time"

	"github.com/protolambda/zrnt/eth2/beacon/bellatrix"
	"github.com/protolambda/zrnt/eth2/beacon/capella"
	"github.com/protolambda/zrnt/eth2/beacon/common"
	"github.com/protolambda/zrnt/eth2/beacon/deneb"
)

// engineCall is one query the transition made to the execution engine.
type engineCall struct {
	Method      string
	BlockHash   common.Root
	ParentHash  common.Root
	Timestamp   uint64
	NWithdraw   int
	Hashes      []common.Hash32
	ParentRoot  common.Root
	PayloadRoot common.Root
}

// scriptedEngine: the execution engine behind the Spec. Verdict "valid" unless a
// fault is armed: failAt = index of the call (0-based) that answers with `verdict`.
type scriptedEngine struct {
	calls   []engineCall
	failAt  int // -1 = never
	verdict string
	armed   bool
}

var errEngine = errors.New("injected engine error")

func (e *scriptedEngine) reset() { e.calls = nil; e.armed = false; e.failAt = -1 }

func (e *scriptedEngine) answer(c engineCall) (bool, error) {
	i := len(e.calls)
	e.calls = append(e.calls, c)
	if e.armed && i == e.failAt {
		switch e.verdict {
		case "error":
			return false, errEngine
		case "timeout":
			// the engine's own deadline expired (its error wraps a context error) while the CALLER's
			// context is alive: still an error of the engine
			return false, fmt.Errorf("engine request failed: %w", context.DeadlineExceeded)
		case "valid+error":
			return true, errEngine // an answer that carries an error is an error
		}
		return false, nil
	}
	return true, nil
}

func (e *scriptedEngine) BellatrixNotifyNewPayload(ctx context.Context, p *bellatrix.ExecutionPayload) (bool, error) {
	return e.answer(engineCall{Method: "notify", BlockHash: p.BlockHash, ParentHash: p.ParentHash, Timestamp: uint64(p.Timestamp)})
}
func (e *scriptedEngine) BellatrixIsValidBlockHash(ctx context.Context, p *bellatrix.ExecutionPayload) (bool, error) {
	return e.answer(engineCall{Method: "blockhash", BlockHash: p.BlockHash, ParentHash: p.ParentHash, Timestamp: uint64(p.Timestamp)})
}
func (e *scriptedEngine) CapellaNotifyNewPayload(ctx context.Context, p *capella.ExecutionPayload) (bool, error) {
	return e.answer(engineCall{Method: "notify", BlockHash: p.BlockHash, ParentHash: p.ParentHash, Timestamp: uint64(p.Timestamp), NWithdraw: len(p.Withdrawals)})
}
func (e *scriptedEngine) CapellaIsValidBlockHash(ctx context.Context, p *capella.ExecutionPayload) (bool, error) {
	return e.answer(engineCall{Method: "blockhash", BlockHash: p.BlockHash, ParentHash: p.ParentHash, Timestamp: uint64(p.Timestamp), NWithdraw: len(p.Withdrawals)})
}
func (e *scriptedEngine) DenebNotifyNewPayload(ctx context.Context, p *deneb.ExecutionPayload, parent common.Root) (bool, error) {
	return e.answer(engineCall{Method: "notify", BlockHash: p.BlockHash, ParentHash: p.ParentHash, Timestamp: uint64(p.Timestamp), NWithdraw: len(p.Withdrawals), ParentRoot: parent})
}
func (e *scriptedEngine) DenebIsValidVersionedHashes(ctx context.Context, p *deneb.ExecutionPayload, hashes []common.Hash32) (bool, error) {
	return e.answer(engineCall{Method: "versioned", BlockHash: p.BlockHash, Hashes: append([]common.Hash32(nil), hashes...)})
}
func (e *scriptedEngine) DenebIsValidBlockHash(ctx context.Context, p *deneb.ExecutionPayload, parent common.Root) (bool, error) {
	return e.answer(engineCall{Method: "blockhash", BlockHash: p.BlockHash, ParentHash: p.ParentHash, Timestamp: uint64(p.Timestamp), NWithdraw: len(p.Withdrawals), ParentRoot: parent})
}

// countingCtx: a context.Context that counts polls and reports Canceled from the
// k-th poll (0-based) on; cancelAt < 0: never.
type countingCtx struct {
	polls    int
	cancelAt int
	closed   chan struct{}
}

func newCountingCtx(cancelAt int) *countingCtx {
	c := &countingCtx{cancelAt: cancelAt, closed: make(chan struct{})}
	close(c.closed)
	return c
}

func (c *countingCtx) Deadline() (time.Time, bool) { return time.Time{}, false }

func (c *countingCtx) poll() bool {
	i := c.polls
	c.polls++
	return c.cancelAt >= 0 && i >= c.cancelAt
}

func (c *countingCtx) Done() <-chan struct{} {
	if c.poll() {
		return c.closed
	}
	return nil
}

func (c *countingCtx) Err() error {
	if c.poll() {
		return context.Canceled
	}
	return nil
}

func (c *countingCtx) Value(key interface{}) interface{} { return nil }
