package chainsim

import (
	"bytes"
	"context"
	"encoding/json"
	"fmt"
	"os"
	"reflect"
	"runtime"
	"strings"

	"github.com/protolambda/zrnt/eth2/beacon"
	"github.com/protolambda/zrnt/eth2/beacon/altair"
	"github.com/protolambda/zrnt/eth2/beacon/bellatrix"
	"github.com/protolambda/zrnt/eth2/beacon/capella"
	"github.com/protolambda/zrnt/eth2/beacon/common"
	"github.com/protolambda/zrnt/eth2/beacon/deneb"
	"github.com/protolambda/zrnt/eth2/beacon/electra"
	"github.com/protolambda/zrnt/eth2/beacon/phase0"
	"github.com/protolambda/ztyp/codec"
	"github.com/protolambda/ztyp/tree"

	"verif/sim/core"
	"verif/sim/refspec"
	"verif/sim/sszmodel"
)

// simNode: one beacon node. It keeps its OWN post-states (never the builder's), reached
// along its own path: slot-by-slot ticks, multi-slot jumps, or a restart from bytes.
type simNode struct {
	id       int
	states   map[common.Root]*stateBox
	ticked   *stateBox // head state advanced tick by tick (ticker nodes)
	tickedOn common.Root
	ticker   bool
	restarts bool
	pending  []*blockRec // delivered late (partition)
}

type sim struct {
	w       *World
	cfg     *Config
	opt     core.Options
	res     *core.Result
	nodes   []*simNode
	log     core.LogHasher
	frng    *core.Rng // fault stream
	model   bool      // refinement against refspec armed
	steps   bool      // ... including the step-wise transition checks (C01/C02)
	gnode   *gossipNode
	curSlot uint64
	step    int
	stop    bool
	ended   bool            // the chain ran out of active validators: the run ends without a finding
	relabel bool            // the next finding of an observing monitor will be re-labelled by its caller
	passive int             // > 0 inside monitors that only observe
	foreign map[string]bool // findings of other properties already recorded
}

func (s *sim) viol(prop, sig, detail string) {
	// Inside the passive monitors (they only look at a state) a finding that belongs to ANOTHER
	// property than the one under check is recorded once and the run goes on: otherwise the monitor
	// that happens to run first would hide the same defect from the check of the property it also
	// breaks (the driver reports only the property under check).
	if s.passive > 0 && s.opt.Property != "" && prop != s.opt.Property {
		if s.foreign == nil {
			s.foreign = map[string]bool{}
		}
		if !s.foreign[prop+"/"+sig] || s.relabel {
			s.foreign[prop+"/"+sig] = true
			s.res.Violate(prop, prop+"/"+sig, detail, s.step)
		}
		return
	}
	s.res.Violate(prop, prop+"/"+sig, detail, s.step)
	s.stop = true
}

type panicInfo struct{ val, frame string }

func guard(f func()) (p *panicInfo) {
	defer func() {
		if r := recover(); r != nil {
			fr := "?"
			pcs := make([]uintptr, 50)
			n := runtime.Callers(3, pcs)
			frames := runtime.CallersFrames(pcs[:n])
			for {
				f, more := frames.Next()
				if strings.Contains(f.Function, "protolambda/zrnt/") {
					fr = f.Function[strings.LastIndex(f.Function, "/")+1:]
					break
				}
				if !more {
					break
				}
			}
			p = &panicInfo{fmt.Sprint(r), fr}
		}
	}()
	f()
	return nil
}

func wrapState(st common.BeaconState) *beacon.StandardUpgradeableBeaconState {
	return &beacon.StandardUpgradeableBeaconState{BeaconState: st}
}

func unwrap(st common.BeaconState) common.BeaconState {
	if u, ok := st.(*beacon.StandardUpgradeableBeaconState); ok {
		return u.BeaconState
	}
	return st
}

func forkName(st common.BeaconState) string {
	switch unwrap(st).(type) {
	case *phase0.BeaconStateView:
		return "phase0"
	case *altair.BeaconStateView:
		return "altair"
	case *bellatrix.BeaconStateView:
		return "bellatrix"
	case *capella.BeaconStateView:
		return "capella"
	case *deneb.BeaconStateView:
		return "deneb"
	case *electra.BeaconStateView:
		return "electra"
	}
	return fmt.Sprintf("%T", unwrap(st))
}

func forkIndexOfState(st common.BeaconState) int {
	switch unwrap(st).(type) {
	case *phase0.BeaconStateView:
		return 0
	case *altair.BeaconStateView:
		return 1
	case *bellatrix.BeaconStateView:
		return 2
	case *capella.BeaconStateView:
		return 3
	case *deneb.BeaconStateView:
		return 4
	case *electra.BeaconStateView:
		return 5 // (never on the chain: electra has no transition; built by electraOf for the accessor sweep)
	}
	return -1
}

// decodeState: bytes -> fresh tree view of the given fork (the reload path of a restart).
func decodeState(spec *common.Spec, fidx int, b []byte) (common.BeaconState, error) {
	dr := codec.NewDecodingReader(bytes.NewReader(b), uint64(len(b)))
	switch fidx {
	case 0:
		return phase0.AsBeaconStateView(phase0.BeaconStateType(spec).Deserialize(dr))
	case 1:
		return altair.AsBeaconStateView(altair.BeaconStateType(spec).Deserialize(dr))
	case 2:
		return bellatrix.AsBeaconStateView(bellatrix.BeaconStateType(spec).Deserialize(dr))
	case 3:
		return capella.AsBeaconStateView(capella.BeaconStateType(spec).Deserialize(dr))
	case 4:
		return deneb.AsBeaconStateView(deneb.BeaconStateType(spec).Deserialize(dr))
	case 5:
		return electra.AsBeaconStateView(electra.BeaconStateType(spec).Deserialize(dr))
	}
	return nil, fmt.Errorf("unknown fork %d", fidx)
}

// decodeBlock: wire bytes -> envelope through the fork decoder (the receive path).
func (s *sim) decodeBlock(b *blockRec) (*common.BeaconBlockEnvelope, error) {
	alloc, err := s.w.dec.BlockAllocator(b.digest)
	if err != nil {
		return nil, err
	}
	blk := alloc()
	if err := blk.Deserialize(s.w.spec, codec.NewDecodingReader(bytes.NewReader(b.bytes), uint64(len(b.bytes)))); err != nil {
		return nil, err
	}
	return blk.Envelope(s.w.spec, b.digest), nil
}

// ---------- monitors ----------

// C08: the live context equals a context computed from scratch from the state.
func (s *sim) checkContext(n *simNode, box *stateBox, where string) {
	spec := s.w.spec
	var fresh *common.EpochsContext
	var err error
	if p := guard(func() { fresh, err = common.NewEpochsContext(spec, unwrap(box.st)) }); p != nil {
		s.viol("C08", "panic/NewEpochsContext/"+p.frame, p.val)
		return
	}
	if err != nil {
		s.viol("C08", "fresh-context-error", err.Error())
		return
	}
	s.res.Stat("context_checks", 1)
	live := box.epc
	slot, _ := box.st.Slot()
	cmpSh := func(name string, a, b *common.ShufflingEpoch) bool {
		if a == nil || b == nil {
			if a != b {
				s.viol("C08", "context/"+name+"/nil", fmt.Sprintf("%s at slot %d (%s): live nil=%v fresh nil=%v", where, slot, forkName(box.st), a == nil, b == nil))
				return false
			}
			return true
		}
		if a.Epoch != b.Epoch {
			s.viol("C08", "context/"+name+"/epoch", fmt.Sprintf("%s at slot %d: live epoch %d fresh %d", where, slot, a.Epoch, b.Epoch))
			return false
		}
		if !reflect.DeepEqual(a.ActiveIndices, b.ActiveIndices) {
			s.viol("C08", "context/"+name+"/active-indices", fmt.Sprintf("%s at slot %d (%s): live %v fresh %v", where, slot, forkName(box.st), a.ActiveIndices, b.ActiveIndices))
			return false
		}
		if !reflect.DeepEqual(a.Shuffling, b.Shuffling) || !reflect.DeepEqual(a.Committees, b.Committees) {
			s.viol("C08", "context/"+name+"/shuffling", fmt.Sprintf("%s at slot %d (%s): committees differ", where, slot, forkName(box.st)))
			return false
		}
		return true
	}
	if !cmpSh("previous-epoch", live.PreviousEpoch, fresh.PreviousEpoch) || !cmpSh("current-epoch", live.CurrentEpoch, fresh.CurrentEpoch) || !cmpSh("next-epoch", live.NextEpoch, fresh.NextEpoch) {
		return
	}
	if live.Proposers == nil || fresh.Proposers == nil || live.Proposers.Epoch != fresh.Proposers.Epoch || !reflect.DeepEqual(live.Proposers.Proposers, fresh.Proposers.Proposers) {
		s.viol("C08", "context/proposers", fmt.Sprintf("%s at slot %d (%s): live %+v fresh %+v", where, slot, forkName(box.st), live.Proposers, fresh.Proposers))
		return
	}
	if !reflect.DeepEqual(live.EffectiveBalances, fresh.EffectiveBalances) {
		s.viol("C08", "context/effective-balances", fmt.Sprintf("%s at slot %d (%s): live %v fresh %v", where, slot, forkName(box.st), live.EffectiveBalances, fresh.EffectiveBalances))
		return
	}
	if live.TotalActiveStake != fresh.TotalActiveStake || live.TotalActiveStakeSqRoot != fresh.TotalActiveStakeSqRoot {
		s.viol("C08", "context/total-active-stake", fmt.Sprintf("%s at slot %d (%s): live %d (sqrt %d) fresh %d (sqrt %d)", where, slot, forkName(box.st), live.TotalActiveStake, live.TotalActiveStakeSqRoot, fresh.TotalActiveStake, fresh.TotalActiveStakeSqRoot))
		return
	}
	cmpSync := func(name string, a, b *common.IndexedSyncCommittee) bool {
		if a == nil || b == nil {
			if a != b {
				s.viol("C08", "context/"+name+"/nil", fmt.Sprintf("%s at slot %d (%s): live nil=%v fresh nil=%v", where, slot, forkName(box.st), a == nil, b == nil))
				return false
			}
			return true
		}
		same := reflect.DeepEqual(a.Indices, b.Indices) && len(a.CachedPubkeys) == len(b.CachedPubkeys)
		for i := 0; same && i < len(a.CachedPubkeys); i++ {
			same = a.CachedPubkeys[i].Compressed == b.CachedPubkeys[i].Compressed
		}
		if !same {
			s.viol("C08", "context/"+name, fmt.Sprintf("%s at slot %d epoch %d (%s): live indices %v, from the state %v", where, slot, s.w.epochOf(uint64(slot)), forkName(box.st), a.Indices, b.Indices))
			return false
		}
		return true
	}
	if !cmpSync("current-sync-committee", live.CurrentSyncCommittee, fresh.CurrentSyncCommittee) || !cmpSync("next-sync-committee", live.NextSyncCommittee, fresh.NextSyncCommittee) {
		return
	}
	if s.res.Stats["context_checks"]%6 == 1 {
		s.checkSiblingContexts(box, where)
		if s.stop {
			return
		}
	}
	vals, _ := box.st.Validators()
	cnt, _ := vals.ValidatorCount()
	for i := uint64(0); i < cnt; i++ {
		v, _ := vals.Validator(common.ValidatorIndex(i))
		pk, _ := v.Pubkey()
		cp, ok := live.ValidatorPubkeyCache.Pubkey(common.ValidatorIndex(i))
		if !ok || cp.Compressed != pk {
			s.viol("C08", "context/pubkey-cache/index-to-pubkey", fmt.Sprintf("%s at slot %d: validator %d", where, slot, i))
			return
		}
		// the first occurrence of a pubkey owns it
		if idx, ok := live.ValidatorPubkeyCache.ValidatorIndex(pk); !ok || (uint64(idx) != i && uint64(idx) > i) {
			s.viol("C08", "context/pubkey-cache/pubkey-to-index", fmt.Sprintf("%s at slot %d: validator %d -> (%d,%v)", where, slot, i, idx, ok))
			return
		}
	}
}

// C05: the tree root equals the struct-form root and the root of a view rebuilt from bytes.
func (s *sim) checkRoots(box *stateBox, where string) {
	spec := s.w.spec
	hFn := tree.GetHashFn()
	st := unwrap(box.st)
	viewRoot := st.HashTreeRoot(hFn)
	b := serializeState(st)
	fidx := forkIndexOfState(st)
	re, err := decodeState(spec, fidx, b)
	if err != nil {
		s.viol("C04", "state/decode-own-bytes", fmt.Sprintf("%s: %v", where, err))
		return
	}
	if r := re.HashTreeRoot(hFn); r != viewRoot {
		s.viol("C05", "state/mutated-view-vs-rebuilt-view", fmt.Sprintf("%s (%s): root after mutations %s, same content rebuilt from bytes %s", where, forkName(st), viewRoot, r))
		return
	}
	var structRoot common.Root
	var sb []byte
	switch fidx {
	case 0:
		var raw phase0.BeaconState
		err = raw.Deserialize(spec, codec.NewDecodingReader(bytes.NewReader(b), uint64(len(b))))
		structRoot = raw.HashTreeRoot(spec, hFn)
		sb = serObj(spec, &raw)
	case 1:
		var raw altair.BeaconState
		err = raw.Deserialize(spec, codec.NewDecodingReader(bytes.NewReader(b), uint64(len(b))))
		structRoot = raw.HashTreeRoot(spec, hFn)
		sb = serObj(spec, &raw)
	case 2:
		var raw bellatrix.BeaconState
		err = raw.Deserialize(spec, codec.NewDecodingReader(bytes.NewReader(b), uint64(len(b))))
		structRoot = raw.HashTreeRoot(spec, hFn)
		sb = serObj(spec, &raw)
	case 3:
		var raw capella.BeaconState
		err = raw.Deserialize(spec, codec.NewDecodingReader(bytes.NewReader(b), uint64(len(b))))
		structRoot = raw.HashTreeRoot(spec, hFn)
		sb = serObj(spec, &raw)
	case 4:
		var raw deneb.BeaconState
		err = raw.Deserialize(spec, codec.NewDecodingReader(bytes.NewReader(b), uint64(len(b))))
		structRoot = raw.HashTreeRoot(spec, hFn)
		sb = serObj(spec, &raw)
	}
	s.res.Stat("root_checks", 1)
	if err != nil {
		s.viol("C04", "state/struct-decode-own-bytes", fmt.Sprintf("%s (%s): %v", where, forkName(st), err))
		return
	}
	if structRoot != viewRoot {
		s.viol("C05", "state/struct-root-vs-view-root", fmt.Sprintf("%s (%s): struct form %s, tree view %s", where, forkName(st), structRoot, viewRoot))
		return
	}
	if !bytes.Equal(sb, b) {
		s.viol("C04", "state/struct-bytes-vs-view-bytes", fmt.Sprintf("%s (%s): struct form serializes to %d bytes, view to %d; they differ", where, forkName(st), len(sb), len(b)))
		return
	}
	// third leg: the specification's schema, merkleised by the harness's own code (sszmodel)
	m, err := s.modelOf(box.st)
	if err != nil {
		return
	}
	specRoot, err := sszmodel.StateRoot(spec, m)
	if err != nil {
		s.res.Harness = "sszmodel: " + err.Error()
		s.stop = true
		return
	}
	s.res.Stat("root_checks_against_own_merkleizer", 1)
	if common.Root(specRoot) != viewRoot {
		s.viol("C05", "state/spec-schema-root-vs-view-root", fmt.Sprintf("%s (%s): hash_tree_root by the specification's schema %x, tree view %s", where, forkName(st), specRoot, viewRoot))
	}
}

// C08: two sibling continuations of one state share its context (EpochsContext.Clone, as a block
// store does for every block) and register DIFFERENT new validators at the same index (the deposit
// log forked). Each branch's context must still equal a context computed from its own state, and
// continuing with it must give what continuing with a fresh context gives.
func (s *sim) checkSiblingContexts(box *stateBox, where string) {
	spec := s.w.spec
	kx, ky := s.w.cfg.Validators+20, s.w.cfg.Validators+21
	if ky >= len(s.w.keys.pub) {
		return
	}
	mk := func(ki int) *common.Deposit {
		var d common.Deposit
		d.Data.Pubkey = s.w.keys.pub[ki]
		d.Data.Amount = spec.MAX_EFFECTIVE_BALANCE
		d.Data.WithdrawalCredentials[0] = common.ETH1_ADDRESS_WITHDRAWAL_PREFIX
		d.Data.WithdrawalCredentials[31] = byte(ki)
		dom := computeDomain(common.DOMAIN_DEPOSIT, spec.GENESIS_FORK_VERSION, common.Root{})
		d.Data.Signature = s.w.keys.sign(ki, signingRoot(d.Data.MessageRoot(), dom))
		return &d
	}
	vals, _ := box.st.Validators()
	n, _ := vals.ValidatorCount()
	// (the cache is shared along the chain and may know later validators: an entry counts for a state
	// only below that state's validator count, which is how the transition reads it)
	for _, ki := range []int{kx, ky} {
		if idx, known := box.epc.ValidatorPubkeyCache.ValidatorIndex(s.w.keys.pub[ki]); known && uint64(idx) < n {
			return
		}
	}
	a, err1 := box.st.CopyState()
	b, err2 := box.st.CopyState()
	if err1 != nil || err2 != nil {
		return
	}
	ea, eb := box.epc.Clone(), box.epc.Clone()
	var err error
	if p := guard(func() {
		if err = phase0.ProcessDeposit(spec, ea, a, mk(kx), true); err == nil {
			err = phase0.ProcessDeposit(spec, eb, b, mk(ky), true)
		}
	}); p != nil {
		s.viol("C08", "panic/sibling-deposits/"+p.frame, p.val)
		return
	}
	if err != nil {
		return
	}
	if va, _ := a.Validators(); va != nil {
		if ca, _ := va.ValidatorCount(); ca != n+1 {
			s.res.Harness = "sibling-context monitor: the deposit did not register a validator"
			s.stop = true
			return
		}
	}
	s.res.Stat("sibling_context_checks", 1)
	look := func(name string, st common.BeaconState, epc *common.EpochsContext, keys ...int) bool {
		fresh, err := common.NewEpochsContext(spec, unwrap(st))
		if err != nil {
			return true
		}
		sv, _ := st.Validators()
		cnt, _ := sv.ValidatorCount()
		for _, ki := range keys {
			li, lok := epc.ValidatorPubkeyCache.ValidatorIndex(s.w.keys.pub[ki])
			fi, fok := fresh.ValidatorPubkeyCache.ValidatorIndex(s.w.keys.pub[ki])
			if os.Getenv("ZV_DEBUG") != "" {
				fmt.Fprintf(os.Stderr, "look %s key %d: live (%d,%v) fresh (%d,%v) cnt %d n %d\n", name, ki, li, lok, fi, fok, cnt, n)
			}
			lok = lok && uint64(li) < cnt
			fok = fok && uint64(fi) < cnt
			if lok != fok || (lok && li != fi) {
				s.viol("C08", "context/pubkey-cache/sibling-branch-lookup", fmt.Sprintf("%s (%s): two sibling branches registered different new validators at index %d; on branch %s the shared context answers (%d,%v) for a pubkey, a context built from that branch's state answers (%d,%v)", where, forkName(st), n, name, li, lok, fi, fok))
				return false
			}
		}
		for _, i := range []uint64{n, n + 1} {
			if i >= cnt {
				continue
			}
			lp, lok := epc.ValidatorPubkeyCache.Pubkey(common.ValidatorIndex(i))
			fp, fok := fresh.ValidatorPubkeyCache.Pubkey(common.ValidatorIndex(i))
			if lok != fok || (lok && lp.Compressed != fp.Compressed) {
				s.viol("C08", "context/pubkey-cache/sibling-branch-index", fmt.Sprintf("%s (%s): branch %s, validator index %d: shared context known=%v, context from the state known=%v, or different pubkeys", where, forkName(st), name, i, lok, fok))
				return false
			}
		}
		return true
	}
	if !look("A", a, ea, kx, ky) || !look("B", b, eb, kx, ky) {
		return
	}
	// a third sibling receives the very deposit branch A had: what A did to the context it was cloned from
	// must not show: the same operation on a copy of the same state gives the same state
	if c, err := box.st.CopyState(); err == nil {
		ec := box.epc.Clone()
		var cerr error
		if p := guard(func() { cerr = phase0.ProcessDeposit(spec, ec, c, mk(kx), true) }); p != nil {
			s.viol("C15", "panic/sibling-same-deposit/"+p.frame, p.val)
			return
		}
		s.res.Stat("sibling_same_deposit_checks", 1)
		if cerr != nil {
			s.viol("C15", "copy-independence/sibling-same-deposit", fmt.Sprintf("%s (%s): two copies of one state, each with a clone of its context, receive the same deposit of a new validator: the first accepts it, the second fails: %v", where, forkName(box.st), cerr))
			return
		}
		if ra, rc := a.HashTreeRoot(tree.GetHashFn()), c.HashTreeRoot(tree.GetHashFn()); ra != rc {
			s.viol("C15", "copy-independence/sibling-same-deposit", fmt.Sprintf("%s (%s): two copies of one state, each with a clone of its context, receive the same deposit of a new validator and end in different states (%s, %s)", where, forkName(box.st), ra, rc))
			return
		}
	}
	// branch B now also receives the deposit branch A had at that index: a NEW validator there
	b2, err := b.CopyState()
	if err != nil {
		return
	}
	fresh, err := common.NewEpochsContext(spec, unwrap(b2))
	if err != nil {
		return
	}
	var e1, e2 error
	if p := guard(func() {
		e1 = phase0.ProcessDeposit(spec, eb, b, mk(kx), true)
		e2 = phase0.ProcessDeposit(spec, fresh, b2, mk(kx), true)
	}); p != nil {
		s.viol("C08", "panic/sibling-deposits/"+p.frame, p.val)
		return
	}
	hFn := tree.GetHashFn()
	if (e1 == nil) != (e2 == nil) || (e1 == nil && b.HashTreeRoot(hFn) != b2.HashTreeRoot(hFn)) {
		s.viol("C08", "continuation-differs/sibling-branch-deposit", fmt.Sprintf("%s (%s): on a branch whose sibling registered another validator at index %d, a deposit processed with the shared context gives err=%v, with a context built from the state err=%v; the post-states differ", where, forkName(b), n, e1, e2))
		return
	}
	look("B", b, eb, kx, ky)
}

func stdHashFn() tree.HashFn { return tree.GetHashFn() }

func serObj(spec *common.Spec, o common.SpecObj) []byte {
	var buf bytes.Buffer
	if err := o.Serialize(spec, codec.NewEncodingWriter(&buf)); err != nil {
		return nil
	}
	return buf.Bytes()
}

// C14: every lookup names the fork the harness's own schedule function names.
func (s *sim) checkForkLookups(box *stateBox, where string) {
	w := s.w
	slot, _ := box.st.Slot()
	epoch := w.epochOf(uint64(slot))
	want := w.forkIndexAt(epoch)
	s.res.Stat("fork_lookup_checks", 1)
	if got := forkIndexOfState(box.st); got != want {
		s.viol("C14", "state-type-vs-schedule", fmt.Sprintf("%s: state at slot %d (epoch %d) is %s, the schedule %v says fork #%d", where, slot, epoch, forkName(box.st), w.cfg.ForkEpochs, want))
		return
	}
	f, _ := box.st.Fork()
	if f.CurrentVersion != w.versionOfFork(want) {
		s.viol("C14", "state-fork-record/current-version", fmt.Sprintf("%s: slot %d epoch %d: state.fork.current_version %s, schedule says %s", where, slot, epoch, f.CurrentVersion, w.versionOfFork(want)))
		return
	}
	if want > 0 {
		// previous version: the fork active just before the epoch at which the current one started
		fe := w.cfg.ForkEpochs[want-1]
		prev := 0
		if fe > 0 {
			prev = w.forkIndexAt(fe - 1)
		}
		// with several forks at one epoch the upgrades chain: previous = the fork before, in order
		if want >= 2 && w.cfg.ForkEpochs[want-2] == fe {
			prev = want - 1
		}
		if uint64(f.Epoch) != fe || f.PreviousVersion != w.versionOfFork(prev) {
			s.viol("C14", "state-fork-record/previous-version-or-epoch", fmt.Sprintf("%s: slot %d: state.fork = (%s, %s, %d); schedule: previous %s, epoch %d", where, slot, f.PreviousVersion, f.CurrentVersion, f.Epoch, w.versionOfFork(prev), fe))
			return
		}
	}
	// the signing domain the state derives for a message epoch: the previous version strictly before
	// the fork epoch of its record, the current version from that epoch on
	for _, e := range []uint64{uint64(f.Epoch) - 1, uint64(f.Epoch), uint64(f.Epoch) + 1, epoch} {
		if e == ^uint64(0) {
			continue // (fork epoch 0 has no epoch before it)
		}
		for _, dt := range []common.BLSDomainType{common.DOMAIN_BEACON_PROPOSER, common.DOMAIN_RANDAO} {
			got, err := common.GetDomain(box.st, dt, common.Epoch(e))
			if err != nil || got != common.BLSDomain(domainFor(f, w.gvr, dt, common.Epoch(e))) {
				s.viol("C14", "state-domain-for-epoch", fmt.Sprintf("%s: state at slot %d with fork record (%s, %s, %d): the signing domain for a message of epoch %d (type %x) is not that of the version in force in that epoch (err %v)", where, slot, f.PreviousVersion, f.CurrentVersion, f.Epoch, e, dt, err))
				return
			}
		}
	}
	if v := w.spec.ForkVersion(slot); v != w.versionOfFork(want) {
		s.viol("C14", "spec-fork-version", fmt.Sprintf("Spec.ForkVersion(slot %d, epoch %d) = %s, schedule %v says %s", slot, epoch, v, w.cfg.ForkEpochs, w.versionOfFork(want)))
		return
	}
	if d := w.dec.ForkDigest(common.Epoch(epoch)); d != w.digestOfFork(want) {
		s.viol("C14", "fork-decoder-digest", fmt.Sprintf("ForkDecoder.ForkDigest(epoch %d) = %s, schedule says %s", epoch, d, w.digestOfFork(want)))
		return
	}
}

// C14: schedule lookups that need no state, over a schedule that also activates the forks the
// library only knows as types (electra) or as a version (fulu): Spec.ForkVersion, the decoder's digest
// for an epoch, and the block type the decoder allocates for a digest.
func (s *sim) checkScheduleLookups() {
	w := s.w
	sp := *w.spec
	r := core.NewRng(s.cfg.Seed ^ 0xf07c)
	// seven forks: non-decreasing epochs from the run's own schedule, then electra and fulu
	epochs := []uint64{0}
	last := uint64(0)
	for _, e := range s.cfg.ForkEpochs {
		epochs = append(epochs, e)
		if e != farFuture {
			last = e
		}
	}
	for i := 0; i < 2; i++ {
		prev := epochs[len(epochs)-1]
		switch {
		case prev == farFuture || r.Chance(1, 5):
			epochs = append(epochs, farFuture)
		case r.Chance(1, 4):
			epochs = append(epochs, prev) // same epoch as the fork before
		default:
			last = prev + uint64(r.Range(1, 3))
			epochs = append(epochs, last)
		}
	}
	sp.ELECTRA_FORK_EPOCH, sp.FULU_FORK_EPOCH = common.Epoch(epochs[5]), common.Epoch(epochs[6])
	versions := []common.Version{sp.GENESIS_FORK_VERSION, sp.ALTAIR_FORK_VERSION, sp.BELLATRIX_FORK_VERSION, sp.CAPELLA_FORK_VERSION, sp.DENEB_FORK_VERSION, sp.ELECTRA_FORK_VERSION, sp.FULU_FORK_VERSION}
	pkgs := []string{"phase0", "altair", "bellatrix", "capella", "deneb", "electra"}
	forkAt := func(epoch uint64) int {
		f := 0
		for i := 1; i < len(epochs); i++ {
			if epochs[i] != farFuture && epoch >= epochs[i] {
				f = i
			}
		}
		return f
	}
	dec := beacon.NewForkDecoder(&sp, w.gvr)
	digestOf := func(f int) common.ForkDigest {
		rt := forkDataRoot(versions[f], w.gvr)
		var d common.ForkDigest
		copy(d[:], rt[:4])
		return d
	}
	probe := map[uint64]bool{0: true, last + 2: true}
	for _, e := range epochs {
		if e != farFuture {
			probe[e] = true
			probe[e+1] = true
			if e > 0 {
				probe[e-1] = true
			}
		}
	}
	for e := range probe {
		want := forkAt(e)
		s.res.Stat("schedule_lookup_checks", 1)
		if v := sp.ForkVersion(common.Slot(e * s.cfg.SPE)); v != versions[want] {
			s.viol("C14", "spec-fork-version/seven-forks", fmt.Sprintf("Spec.ForkVersion at epoch %d = %s, the schedule %v says fork #%d (%s)", e, v, epochs, want, versions[want]))
			return
		}
		if v := sp.ForkVersion(common.Slot(e*s.cfg.SPE + s.cfg.SPE - 1)); v != versions[want] {
			s.viol("C14", "spec-fork-version/seven-forks", fmt.Sprintf("Spec.ForkVersion at the last slot of epoch %d = %s, the schedule %v says fork #%d", e, v, epochs, want))
			return
		}
		if d := dec.ForkDigest(common.Epoch(e)); d != digestOf(want) {
			s.viol("C14", "fork-decoder-digest/seven-forks", fmt.Sprintf("ForkDecoder.ForkDigest(epoch %d) = %s, the schedule %v says fork #%d (%s)", e, d, epochs, want, digestOf(want)))
			return
		}
	}
	// digest -> block type
	for f, pkg := range pkgs {
		alloc, err := dec.BlockAllocator(digestOf(f))
		if err != nil {
			s.viol("C14", "fork-decoder-allocator/"+pkg, fmt.Sprintf("no block allocator for the %s digest: %v", pkg, err))
			return
		}
		blk := alloc()
		if got := reflect.TypeOf(blk).Elem().PkgPath(); !strings.HasSuffix(got, "/"+pkg) {
			s.viol("C14", "fork-decoder-allocator/"+pkg, fmt.Sprintf("the %s digest allocates a %s", pkg, reflect.TypeOf(blk)))
			return
		}
		if env := blk.Envelope(&sp, digestOf(f)); env == nil || env.ForkDigest != digestOf(f) {
			s.viol("C14", "fork-decoder-envelope/"+pkg, fmt.Sprintf("the envelope of an allocated %s block does not carry the digest it was allocated for", pkg))
			return
		}
	}
	// a second chain on the SAME configuration (another genesis validators root): its decoder answers with
	// that chain's digests, and the first chain's decoder still with its own
	{
		other := fnvRoot("another-chain", s.cfg.Seed)
		dec2 := beacon.NewForkDecoder(&sp, other)
		for e := range probe {
			want := forkAt(e)
			rt := forkDataRoot(versions[want], other)
			var d2 common.ForkDigest
			copy(d2[:], rt[:4])
			if got := dec2.ForkDigest(common.Epoch(e)); got != d2 {
				s.viol("C14", "fork-decoder-digest/second-chain-on-the-same-spec", fmt.Sprintf("a decoder made for genesis validators root %s after one for %s on the same Spec: ForkDigest(epoch %d) = %s, that chain's digest is %s", other, w.gvr, e, got, d2))
				return
			}
			if _, err := dec2.BlockAllocator(d2); err != nil && want < len(pkgs) { // (the library has no fulu block type)
				s.viol("C14", "fork-decoder-allocator/second-chain-on-the-same-spec", fmt.Sprintf("the second chain's decoder has no allocator for its own digest at epoch %d: %v", e, err))
				return
			}
			if got := dec.ForkDigest(common.Epoch(e)); got != digestOf(want) {
				s.viol("C14", "fork-decoder-digest/second-chain-on-the-same-spec", fmt.Sprintf("the first chain's decoder changed its answer after a second decoder was made on the same Spec (epoch %d)", e))
				return
			}
		}
	}
	var unknown common.ForkDigest
	nsf := fnvRoot("no-such-fork", s.cfg.Seed)
	copy(unknown[:], nsf[:4])
	if _, err := dec.BlockAllocator(unknown); err == nil {
		s.viol("C14", "fork-decoder-allocator/unknown-digest-accepted", "an unknown fork digest gets a block allocator")
	}
}

// C15: stored states never change once stored (copies are independent).
func (s *sim) checkImmutability() {
	w := s.w
	if len(w.order) == 0 {
		return
	}
	for k := 0; k < 2; k++ {
		b := w.order[s.frng.Intn(len(w.order))]
		if k == 1 {
			b = w.genesis
		}
		now := serializeState(b.post.st)
		s.res.Stat("immutability_checks", 1)
		// the cloned context stored with it must still describe that state
		saved := len(s.res.Violations)
		s.relabel = true // (what the monitor reports here is about to be re-labelled: no de-duplication)
		s.checkContext(nil, b.post, fmt.Sprintf("stored post-state of the block at slot %d, re-checked later", b.slot))
		s.relabel = false
		if len(s.res.Violations) > saved {
			v := &s.res.Violations[len(s.res.Violations)-1]
			v.Property = "C15"
			v.Signature = "C15/clone-independence/stored-" + strings.TrimPrefix(v.Signature, "C08/")
			if s.opt.Property == "C15" || s.opt.Property == "" {
				s.stop = true
			}
			return
		}
		if !bytes.Equal(now, b.postSSZ) {
			s.viol("C15", "copy-independence/stored-state-changed", fmt.Sprintf("the stored post-state of block at slot %d changed after descendants/siblings derived from copies of it were advanced (%d -> %d bytes, or content)", b.slot, len(b.postSSZ), len(now)))
			return
		}
	}
	for _, n := range s.nodes {
		for root, box := range n.states {
			if b := w.blocks[root]; b != nil && s.frng.Chance(1, 8) {
				if !bytes.Equal(serializeState(box.st), b.postSSZ) {
					s.viol("C15", "copy-independence/node-state-changed", fmt.Sprintf("node %d: stored post-state of block at slot %d no longer equals its content at store time", n.id, b.slot))
					return
				}
			}
		}
	}
}

// ---------- node behaviour ----------

func (s *sim) importBlock(n *simNode, b *blockRec) {
	w := s.w
	ctx := context.Background()
	parent := n.states[b.parent]
	if parent == nil {
		n.pending = append(n.pending, b)
		return
	}
	env, err := s.decodeBlock(b)
	if err != nil {
		s.viol("C04", "block/decode-own-bytes", fmt.Sprintf("block at slot %d (%d bytes): %v", b.slot, len(b.bytes), err))
		return
	}
	if env.BlockRoot != b.root || env.Signature != b.env.Signature || env.StateRoot != b.env.StateRoot {
		s.viol("C14", "envelope-roundtrip", fmt.Sprintf("block at slot %d: root/signature/state-root changed through bytes -> block -> envelope", b.slot))
		return
	}
	if n.id == 0 {
		s.passive++
		s.checkBlockCodec(b)
		s.passive--
		if s.stop {
			return
		}
		if s.opt.Property == "C18" {
			s.faultEnumerate(parent, b, env)
			if s.stop {
				return
			}
		}
	}
	var box *stateBox
	useTick := n.ticker && n.ticked != nil && n.tickedOn == b.parent
	if useTick {
		cur, _ := n.ticked.st.Slot()
		if uint64(cur) == b.slot {
			box, err = n.ticked.copy()
			if err == nil {
				s.res.Stat("imports_on_ticked_state", 1)
				if p := guard(func() { err = common.PostSlotTransition(ctx, w.spec, box.epc, box.st, env, true) }); p != nil {
					s.viol("C03", "panic/PostSlotTransition/"+p.frame, p.val)
					return
				}
			}
		} else {
			useTick = false
		}
	}
	if !useTick {
		box, err = parent.copy()
		if err == nil {
			if b.slot > parentSlot(parent)+1 {
				s.res.Stat("imports_multi_slot_jump", 1)
			}
			if p := guard(func() { err = common.StateTransition(ctx, w.spec, box.epc, box.st, env, true) }); p != nil {
				s.viol("C03", "panic/StateTransition/"+p.frame, p.val)
				return
			}
		}
	}
	s.res.Stat("block_imports", 1)
	s.log.Add(fmt.Sprintf("n%d import slot %d err=%v", n.id, b.slot, err != nil))
	if err != nil {
		// the builder (same code, other path) accepted this block
		s.viol("C08", "same-block-different-verdict", fmt.Sprintf("node %d (%s) refuses the block at slot %d that was accepted on a freshly advanced copy: %v", n.id, nodeKind(n, useTick), b.slot, err))
		return
	}
	if r := box.st.HashTreeRoot(tree.GetHashFn()); r != b.env.StateRoot {
		s.viol("C08", "same-block-different-state", fmt.Sprintf("node %d (%s): post-state root of block at slot %d differs from the builder's", n.id, nodeKind(n, useTick), b.slot))
		return
	}
	n.states[b.root] = box
	s.afterState(n, box, fmt.Sprintf("node %d after block at slot %d", n.id, b.slot))
	if s.stop {
		return
	}
	// crash / restart: only bytes survive
	if n.restarts && s.cfg.has("crash_restart") && s.frng.Chance(1, 5) {
		s.res.Stat("fault_crash_restart", 1)
		bts := serializeState(box.st)
		re, err := decodeState(w.spec, forkIndexOfState(box.st), bts)
		if err != nil {
			s.viol("C04", "state/decode-own-bytes", err.Error())
			return
		}
		epc, err := common.NewEpochsContext(w.spec, re)
		if err != nil {
			s.viol("C08", "restart/fresh-context-error", err.Error())
			return
		}
		// everything the node had in memory is gone
		n.states = map[common.Root]*stateBox{b.root: {&beacon.StandardUpgradeableBeaconState{BeaconState: re}, epc}}
		n.ticked = nil
	}
	if n.ticker {
		n.ticked, _ = box.copy()
		n.tickedOn = b.root
	}
	// late blocks waiting for this parent
	var rest []*blockRec
	var ready []*blockRec
	for _, p := range n.pending {
		if p.parent == b.root {
			ready = append(ready, p)
		} else {
			rest = append(rest, p)
		}
	}
	n.pending = rest
	for _, p := range ready {
		if !s.stop {
			s.importBlock(n, p)
		}
	}
}

func parentSlot(b *stateBox) uint64 { s, _ := b.st.Slot(); return uint64(s) }

func nodeKind(n *simNode, tick bool) string {
	k := "multi-slot jump from the parent state"
	if tick {
		k = "state ticked slot by slot"
	}
	if n.restarts {
		k += ", restarts from bytes"
	}
	return k
}

func (s *sim) afterState(n *simNode, box *stateBox, where string) {
	s.passive++
	defer func() { s.passive-- }()
	s.checkContext(n, box, where)
	if s.stop {
		return
	}
	s.checkForkLookups(box, where)
	if s.stop {
		return
	}
	if s.frng.Chance(1, 3) || s.opt.Property == "C05" || s.opt.Property == "C04" {
		s.checkRoots(box, where)
	}
	if s.stop {
		return
	}
	if s.model && (s.opt.Property == "C07" || s.frng.Chance(1, 6)) {
		s.checkCommittees(box, where)
		if s.stop {
			return
		}
	}
	if s.opt.Property == "C15" && s.frng.Chance(1, 2) || s.frng.Chance(1, 12) {
		s.checkAccessors(box, where)
		if !s.stop && forkIndexOfState(box.st) == 4 && s.frng.Chance(1, 2) {
			// the electra state type has accessors but no transition: the same sweep over an electra state
			// holding this deneb state's content (and generated values in the fields electra adds)
			if eb := s.electraOf(box); eb != nil {
				s.res.Stat("accessor_sweeps_electra", 1)
				s.checkAccessors(eb, where+", carried over into an electra state")
			}
		}
	}
	slot, _ := box.st.Slot()
	rt := box.st.HashTreeRoot(tree.GetHashFn())
	s.res.States = append(s.res.States, core.HashBytes(rt[:8])^uint64(slot))
}

func (s *sim) tick(n *simNode, slot uint64) {
	if !n.ticker || n.ticked == nil {
		return
	}
	cur, _ := n.ticked.st.Slot()
	if uint64(cur) >= slot {
		return
	}
	var err error
	var preTick *stateBox
	if s.steps {
		preTick, _ = n.ticked.copy()
	}
	if p := guard(func() {
		err = common.ProcessSlots(context.Background(), s.w.spec, n.ticked.epc, n.ticked.st, common.Slot(slot))
	}); p != nil {
		s.viol("C02", "panic/ProcessSlots/"+p.frame, p.val)
		return
	}
	if err != nil && (strings.Contains(err.Error(), "no active validators") || s.w.activeSetRunsOutOf(n.ticked.st, slot)) {
		// every validator exited or was ejected: the chain (of the specification as well) ends here
		s.res.Stat("runs_ended_without_active_validators", 1)
		s.stop = true
		s.ended = true
		return
	}
	if err != nil {
		s.viol("C02", "process-slots-error", fmt.Sprintf("node %d ticking to slot %d: %v", n.id, slot, err))
		return
	}
	s.res.Stat("slot_ticks", 1)
	if s.steps && preTick != nil {
		s.passive++
		ok := s.checkSlotsStep(preTick, n.ticked, slot, fmt.Sprintf("node %d tick", n.id))
		s.passive--
		if !ok && s.stop {
			return
		}
	}
	s.afterState(n, n.ticked, fmt.Sprintf("node %d ticked to slot %d", n.id, slot))
}

func Execute(cfg *Config, opt core.Options) *core.Result {
	res := &core.Result{Engine: "chainsim"}
	cj, _ := json.Marshal(cfg)
	res.Config = cj
	res.Script, _ = json.Marshal(map[string]interface{}{"slots": cfg.Slots, "features": cfg.Features})
	var s *sim
	if p := guard(func() { s = run(cfg, opt, res) }); p != nil {
		res.Violate("C03", "C03/panic/unattributed/"+p.frame, p.val, 0)
	}
	if s != nil {
		res.LogHash = s.log.Sum()
	}
	res.Sample, _ = json.Marshal(map[string]interface{}{"config": cfg, "counters": res.Stats})
	return res
}

func run(cfg *Config, opt core.Options, res *core.Result) *sim {
	w, err := NewWorld(cfg, res)
	if err != nil {
		res.Harness = err.Error()
		return nil
	}
	s := &sim{w: w, cfg: cfg, opt: opt, res: res, frng: core.NewRng(cfg.Seed ^ 0xfa17)}
	switch opt.Property {
	case "C01", "C02", "C03":
		s.model, s.steps = true, true
	case "C07", "C13":
		s.model = true // reference model for committees / genesis only
	}
	if s.steps {
		w.modelRoot = func(pre *stateBox, env *common.BeaconBlockEnvelope) (common.Root, error) {
			m, err := s.modelOf(pre.st)
			if err != nil {
				return common.Root{}, err
			}
			signed, err := beacon.EnvelopeToSignedBeaconBlock(env)
			if err != nil {
				return common.Root{}, err
			}
			msg := reflect.ValueOf(signed).Elem().FieldByName("Message").Addr().Interface()
			if err := refspec.ProcessBlock(w.spec, m, msg); err != nil {
				return common.Root{}, err
			}
			r, err := sszmodel.StateRoot(w.spec, m)
			return common.Root(r), err
		}
	}
	for i := 0; i < cfg.Nodes; i++ {
		n := &simNode{id: i, states: map[common.Root]*stateBox{}, ticker: i%2 == 1, restarts: i == 2 || (cfg.Nodes < 3 && i == 0)}
		g, _ := w.genesis.post.copy()
		n.states[w.genesis.root] = g
		if n.ticker {
			n.ticked, _ = g.copy()
			n.tickedOn = w.genesis.root
		}
		s.nodes = append(s.nodes, n)
	}
	if opt.Property == "C14" {
		s.checkBuiltinConstants()
	}
	if opt.Property == "C12" || opt.Property == "C04" || opt.Property == "C05" {
		s.gnode = &gossipNode{s: s, known: map[common.Root]bool{w.genesis.root: true}, seen: map[string]bool{}, advanced: map[string]*stateBox{}, head: w.genesis}
	}
	if opt.Property == "C13" {
		s.checkGenesisLogs()
		if s.stop {
			return s
		}
	}
	if opt.Property == "C14" || s.frng.Chance(1, 4) {
		s.checkScheduleLookups()
		if s.stop {
			return s
		}
	}
	s.afterState(s.nodes[0], s.nodes[0].states[w.genesis.root], "genesis")
	partitioned := -1
	partitionUntil := uint64(0)
	// epoch_gap: one stretch of one or two whole epochs (plus a slot) in which nobody proposes: the next
	// block's parent is two or more epochs old, checkpoints of consecutive epochs share a root
	gapFrom, gapTo := uint64(0), uint64(0)
	if cfg.has("epoch_gap") && uint64(cfg.Slots) > 4*cfg.SPE {
		gr := core.NewRng(cfg.Seed ^ 0x9a9)
		e := cfg.StartEpoch + 1 + uint64(gr.Intn(int(uint64(cfg.Slots)/cfg.SPE-2)))
		gapFrom = e*cfg.SPE - uint64(gr.Intn(2))
		gapTo = gapFrom + uint64(gr.Range(1, 2))*cfg.SPE + uint64(gr.Intn(int(cfg.SPE)))
		res.Stat("fault_epoch_gap", 1)
	}
	for slot := cfg.baseSlot() + 1; slot <= cfg.baseSlot()+uint64(cfg.Slots) && !s.stop; slot++ {
		s.step = int(slot)
		s.curSlot = slot
		// the end of the chain is in sight (no active validator within the next three epochs): the run
		// ends here, before any monitor that looks an epoch ahead stands on the edge
		if ended := func() bool {
			vals, err := w.head.post.st.Validators()
			if err != nil {
				return false
			}
			n, _ := vals.ValidatorCount()
			for e := w.epochOf(slot); e <= w.epochOf(slot)+3; e++ {
				active := false
				for i := uint64(0); i < n && !active; i++ {
					v, _ := vals.Validator(common.ValidatorIndex(i))
					a, _ := v.ActivationEpoch()
					x, _ := v.ExitEpoch()
					active = uint64(a) <= e && e < uint64(x)
				}
				if !active {
					return true
				}
			}
			return false
		}(); ended {
			res.Stat("runs_ended_without_active_validators", 1)
			break
		}
		res.Stat("events", 1)
		res.SimTimeMs += int64(w.spec.SECONDS_PER_SLOT) * 1000
		if cfg.has("deposits") && w.rng.Chance(1, 4) {
			w.newDeposit()
			if cfg.Knobs["EXIT_RATE"] > 1 { // churn director: deposit flood
				w.newDeposit()
				w.newDeposit()
			}
		}
		// proposal
		parent := w.head
		if cfg.has("forks") && len(w.order) > 2 && w.rng.Chance(1, 7) {
			parent = w.order[len(w.order)-1-w.rng.Intn(2)-1]
			res.Stat("fork_blocks", 1)
		}
		var blk *blockRec
		if w.rng.Intn(100) >= cfg.SkipPct && !(slot >= gapFrom && slot < gapTo) {
			var err error
			if p := guard(func() { blk, err = w.produce(parent, slot) }); p != nil {
				s.viol("C01", "panic/honest-block/"+p.frame, p.val)
				break
			}
			if err == errSlashedProposer {
				res.Stat("slots_skipped_slashed_proposer", 1)
				blk = nil
				err = nil
				if s.steps && (s.opt.Property == "C03" || s.frng.Chance(1, 4)) {
					// the slashed proposer signs a block for its slot all the same
					var forged *blockRec
					var ferr error
					if p := guard(func() { forged, ferr = w.forgeBySlashedProposer(parent, slot) }); p != nil {
						s.viol("C03", "panic/slashed-proposer-block/"+p.frame, p.val)
						break
					}
					if ferr == nil && forged != nil {
						if pm, merr := s.modelOf(parent.post.st); merr == nil {
							res.Stat("fault_byz_block/header/slashed-proposer", 1)
							s.passive++
							s.verdicts(parent, pm, forged.signed, forged.digest, fmt.Sprintf("a block signed by the slot's proposer %d, who is slashed", forged.env.ProposerIndex), "header/slashed-proposer")
							s.passive--
							if s.stop {
								break
							}
						}
					}
				}
			}
			if err != nil && (strings.Contains(err.Error(), "no active validators") || w.activeSetRunsOut(parent, slot)) {
				// every validator exited or was ejected: the chain (of the specification as well) ends here
				res.Stat("runs_ended_without_active_validators", 1)
				break
			}
			if err != nil {
				s.viol("C01", "honest-block-refused", err.Error())
				if rh, ok := err.(*refusedHonest); ok && s.opt.Property == "C03" && s.steps {
					// the refusal is C01's matter; C03 still wants to know what zrnt does with corrupted
					// variants of this block
					s.stop = false
					s.byzantine(parent, rh.orphan)
					s.stop = true
				}
				break
			}
			if blk == nil {
				goto noblock
			}
			if blk.slot >= w.head.slot {
				w.head = blk
			}
			res.Stat("blocks_produced", 1)
			if s.opt.Property == "C14" {
				if pre, err := w.advance(parent, blk.slot); err == nil {
					s.checkEnvelopeSignature(blk, pre)
				}
				if s.stop {
					break
				}
			}
			if s.steps {
				s.passive++
				s.checkBlockStep(parent, blk)
				s.passive--
				if s.stop {
					break
				}
				if s.opt.Property == "C03" || s.frng.Chance(1, 4) {
					s.passive++
					s.byzantine(parent, blk)
					s.passive--
					if s.stop {
						break
					}
				}
			}
			if s.steps && (s.opt.Property == "C03" && s.frng.Chance(1, 3) || s.frng.Chance(1, 16)) {
				// the proposer signs a SECOND block for its slot, built on the post-state of the first (no
				// slot processed in between): process_block refuses it (the slot is not later than the latest header's)
				var forged *blockRec
				var ferr error
				if p := guard(func() { forged, ferr = w.forgeSecondBlockOfSlot(blk) }); p != nil {
					s.viol("C03", "panic/second-block-of-slot/"+p.frame, p.val)
					break
				}
				if ferr == nil && forged != nil {
					s.passive++
					s.secondBlockOfSlot(blk, forged)
					s.passive--
					if s.stop {
						break
					}
				}
			}
			res.Stat("blocks_fork_"+forkName(blk.post.st), 1)
			for bit, name := range []string{"attestations", "proposer_slashing", "attester_slashing", "deposit", "exit", "sync_aggregate", "payload", "withdrawals", "bls_change", "blobs"} {
				if blk.kinds&(1<<uint(bit)) != 0 {
					res.Stat("blocks_with_"+name, 1)
				}
			}
		} else {
			res.Stat("slots_skipped", 1)
		}
	noblock:
		// partition fault: one node receives nothing for a while, then everything at once
		if cfg.has("partition") && partitioned < 0 && cfg.Nodes > 1 && s.frng.Chance(1, 10) {
			partitioned = s.frng.Intn(cfg.Nodes)
			partitionUntil = slot + uint64(s.frng.Range(2, int(cfg.SPE)*2))
			res.Stat("fault_partition", 1)
		}
		for _, n := range s.nodes {
			if s.stop {
				break
			}
			s.tick(n, slot)
			if blk != nil {
				if n.id == partitioned && slot < partitionUntil {
					n.pending = append(n.pending, blk)
					continue
				}
				s.importBlock(n, blk)
			}
		}
		if partitioned >= 0 && slot >= partitionUntil {
			n := s.nodes[partitioned]
			partitioned = -1
			res.Stat("fault_heal", 1)
			pend := n.pending
			n.pending = nil
			for _, b := range pend {
				if !s.stop {
					s.importBlock(n, b)
				}
			}
		}
		if s.stop {
			break
		}
		// attestations for this slot on the head
		hb, err := w.advance(w.head, slot)
		if err != nil && (strings.Contains(err.Error(), "no active validators") || w.activeSetRunsOut(w.head, slot)) {
			res.Stat("runs_ended_without_active_validators", 1)
			break
		}
		if err != nil {
			s.viol("C02", "process-slots-error", fmt.Sprintf("advancing the head to slot %d: %v", slot, err))
			break
		}
		w.attest(hb, w.head, slot)
		if s.gnode != nil {
			s.curSlot = slot
			s.passive++
			s.gossipSlot(slot, blk, parent, hb)
			s.passive--
			if s.stop {
				break
			}
			// the per-node memo of advanced states is only needed within the slot
			if len(s.gnode.advanced) > 64 {
				s.gnode.advanced = map[string]*stateBox{}
			}
		}
		if slot%cfg.SPE == 0 {
			s.probes(hb, slot)
		}
		s.passive++
		s.checkImmutability()
		s.passive--
	}
	if res.Stats["blocks_produced"] > 4 {
		res.Nontrivial = true
	}
	return s
}

// activeSetRunsOut: by the harness's own count, no validator is active in the epoch of `slot` or the
// one after it on b's chain: committees, proposers and sync committees cannot be computed (by the
// specification either) and the chain ends.
func (w *World) activeSetRunsOut(b *blockRec, slot uint64) bool {
	return w.activeSetRunsOutOf(b.post.st, slot)
}

func (w *World) activeSetRunsOutOf(st common.BeaconState, slot uint64) bool {
	vals, err := st.Validators()
	if err != nil {
		return false
	}
	n, _ := vals.ValidatorCount()
	for _, e := range []uint64{w.epochOf(slot), w.epochOf(slot) + 1} {
		active := 0
		for i := uint64(0); i < n; i++ {
			v, _ := vals.Validator(common.ValidatorIndex(i))
			a, _ := v.ActivationEpoch()
			x, _ := v.ExitEpoch()
			if uint64(a) <= e && e < uint64(x) {
				active++
			}
		}
		if active == 0 {
			return true
		}
	}
	return false
}

// probes: "this rare condition was reached" counters, taken on the head state at epoch starts
// (reach measurement only; a probe stuck at zero is a coverage warning, never a violation)
func (s *sim) probes(hb *stateBox, slot uint64) {
	w := s.w
	res := s.res
	st := hb.st
	epoch := w.epochOf(slot)
	fin, _ := st.FinalizedCheckpoint()
	if fin.Epoch > 0 {
		res.Stat("probe_finalized_epochs_seen", 1)
	}
	if epoch > 1 && epoch-1-uint64(fin.Epoch) > uint64(w.spec.MIN_EPOCHS_TO_INACTIVITY_PENALTY) {
		res.Stat("probe_epochs_in_inactivity_leak", 1)
	}
	vals, _ := st.Validators()
	n, _ := vals.ValidatorCount()
	if int(n) > s.cfg.Validators {
		res.Stat("probe_epochs_with_deposited_validators", 1)
	}
	ejected, activated, slashed, withdrawable := 0, 0, 0, 0
	for i := uint64(0); i < n; i++ {
		v, _ := vals.Validator(common.ValidatorIndex(i))
		ex, _ := v.ExitEpoch()
		sl, _ := v.Slashed()
		ac, _ := v.ActivationEpoch()
		wd, _ := v.WithdrawableEpoch()
		if sl {
			slashed++
		}
		if uint64(ex) != farFuture && !sl && !w.exited[int(i)] {
			ejected++
		}
		if ac != 0 && uint64(ac) != farFuture {
			activated++
		}
		if uint64(wd) <= epoch {
			withdrawable++
		}
	}
	if ejected > 0 {
		res.Stat("probe_epochs_with_ejected_validators", 1)
	}
	if activated > 0 {
		res.Stat("probe_epochs_with_validators_activated_after_genesis", 1)
	}
	if slashed >= 3 {
		res.Stat("probe_epochs_with_3_or_more_slashed", 1)
	}
	if withdrawable > 0 {
		res.Stat("probe_epochs_with_withdrawable_validators", 1)
	}
	e1, _ := st.Eth1Data()
	if int(e1.DepositCount) > s.cfg.Validators {
		res.Stat("probe_epochs_after_eth1_data_adopted", 1)
	}
	if epoch*s.cfg.SPE >= uint64(w.spec.SLOTS_PER_HISTORICAL_ROOT) {
		res.Stat("probe_epochs_after_historical_wraparound", 1)
	}
	if epoch >= uint64(w.spec.EPOCHS_PER_SLASHINGS_VECTOR) {
		res.Stat("probe_epochs_after_slashings_vector_wraparound", 1)
	}
	if fi := w.forkIndexAt(epoch); fi >= 1 {
		first := w.cfg.ForkEpochs[0]
		if (epoch-first)/uint64(w.spec.EPOCHS_PER_SYNC_COMMITTEE_PERIOD) >= 2 || epoch/uint64(w.spec.EPOCHS_PER_SYNC_COMMITTEE_PERIOD) > first/uint64(w.spec.EPOCHS_PER_SYNC_COMMITTEE_PERIOD)+1 {
			res.Stat("probe_epochs_after_second_sync_period_boundary", 1)
		}
	}
}

// ---------- engine glue ----------

type Engine struct{}

func init() { core.Register(Engine{}) }

func (Engine) Name() string { return "chainsim" }

func (Engine) Run(seed uint64, opt core.Options) *core.Result {
	cfg := GenConfig(seed, opt)
	r := Execute(cfg, opt)
	r.Seed = seed
	return r
}

func (e Engine) Replay(rf *core.ReplayFile, opt core.Options) *core.Result {
	if rf.Config == nil {
		return e.Run(rf.Seed, opt)
	}
	var cfg Config
	if json.Unmarshal(rf.Config, &cfg) != nil {
		return &core.Result{Engine: "chainsim", Harness: "bad replay file"}
	}
	var sc struct {
		Slots    int      `json:"slots"`
		Features []string `json:"features"`
	}
	if rf.Script != nil && json.Unmarshal(rf.Script, &sc) == nil && sc.Slots > 0 {
		cfg.Slots = sc.Slots
		cfg.Features = sc.Features
	}
	r := Execute(&cfg, opt)
	r.Seed = rf.Seed
	return r
}

func (Engine) Generate(seed uint64, opt core.Options) *core.ReplayFile {
	cfg := GenConfig(seed, opt)
	cj, _ := json.Marshal(cfg)
	sj, _ := json.Marshal(map[string]interface{}{"slots": cfg.Slots, "features": cfg.Features})
	return &core.ReplayFile{Engine: "chainsim", Seed: seed, Config: cj, Script: sj}
}

// Minimisation units: each enabled feature, then 4-slot chunks cut from the tail.
func (Engine) Units(rf *core.ReplayFile) int {
	var sc struct {
		Slots    int      `json:"slots"`
		Features []string `json:"features"`
	}
	json.Unmarshal(rf.Script, &sc)
	return len(sc.Features) + sc.Slots/4
}

func (Engine) Subset(rf *core.ReplayFile, keep []bool) *core.ReplayFile {
	var sc struct {
		Slots    int      `json:"slots"`
		Features []string `json:"features"`
	}
	json.Unmarshal(rf.Script, &sc)
	var feats []string
	for i, f := range sc.Features {
		if i < len(keep) && keep[i] {
			feats = append(feats, f)
		}
	}
	dropped := 0
	for i := len(sc.Features); i < len(keep); i++ {
		if !keep[i] {
			dropped++
		}
	}
	slots := sc.Slots - 4*dropped
	if slots < 2 {
		slots = 2
	}
	if feats == nil {
		feats = []string{}
	}
	sj, _ := json.Marshal(map[string]interface{}{"slots": slots, "features": feats})
	c := *rf
	c.Script = sj
	return &c
}

func (Engine) CrashViolation(stderr string, opt core.Options) (core.Violation, bool) {
	if strings.Contains(stderr, "stack overflow") {
		return core.Violation{Property: "C16", Signature: "C16/does-not-terminate/in-chain", Detail: "fatal stack overflow during a simulated chain"}, true
	}
	return core.Violation{}, false
}

func (Engine) Describe() core.EngineInfo {
	return core.EngineInfo{
		Real:  []string{"common.StateTransition / ProcessSlots / PostSlotTransition and every per-fork epoch and block processing function (phase0..deneb)", "StandardUpgradeableBeaconState.UpgradeMaybe", "EpochsContext (incremental and from scratch)", "PubkeyCache", "tree-view and struct-form SSZ of states and blocks, ForkDecoder", "genesis (KickStartStateWithSignatures/GenesisFromEth1)", "BLS (kilic via bls12-381-util)"},
		Stubs: []string{"validators (honest-validator duties; PRNG participation)", "block builder", "eth1 deposit contract (own Merkle tree)", "depositors", "execution engine (scripted)", "node store / delivery / partitions / restarts", "clock (slots)"},
		Rule:  "distinct = (post-state root prefix, slot) of every state checked; non-trivial run = more than 4 blocks produced",
	}
}
