package chainsim

import (
	"bytes"
	"context"
	"crypto/sha256"
	"encoding/binary"
	"fmt"
	"sort"

	blsu "github.com/protolambda/bls12-381-util"
	"github.com/protolambda/zrnt/eth2/beacon"
	"github.com/protolambda/zrnt/eth2/beacon/altair"
	"github.com/protolambda/zrnt/eth2/beacon/bellatrix"
	"github.com/protolambda/zrnt/eth2/beacon/capella"
	"github.com/protolambda/zrnt/eth2/beacon/common"
	"github.com/protolambda/zrnt/eth2/beacon/deneb"
	"github.com/protolambda/zrnt/eth2/beacon/phase0"
	"github.com/protolambda/zrnt/eth2/configs"
	"github.com/protolambda/ztyp/codec"
	"github.com/protolambda/ztyp/tree"
	"github.com/protolambda/ztyp/view"

	"verif/sim/core"
)

const farFuture = ^uint64(0)

var errSlashedProposer = fmt.Errorf("proposer is slashed")

// Config: everything a run is a function of (besides the code).
type Config struct {
	Seed          uint64            `json:"seed"`
	Validators    int               `json:"validators"`
	Slots         int               `json:"slots"`
	Nodes         int               `json:"nodes"`
	ForkEpochs    [4]uint64         `json:"fork_epochs"` // altair bellatrix capella deneb (2^64-1 = never)
	SPE           uint64            `json:"slots_per_epoch"`
	Knobs         map[string]uint64 `json:"knobs"`         // preset/config overrides by name
	Features      []string          `json:"features"`      // enabled workload / fault kinds
	Participation int               `json:"participation"` // percent of committee members that attest
	SkipPct       int               `json:"skip_pct"`      // percent of slots without a block
	// StartEpoch: the run starts from a state whose slot is already StartEpoch*SPE (an old chain:
	// epoch numbers beyond one and two bytes, all history vectors wrapped many times, a finality gap
	// of hundreds of epochs). Fork epochs are absolute.
	StartEpoch uint64 `json:"start_epoch,omitempty"`
	// RecoverAfter: from this many slots into the run on, everybody attests again (a leak that ends)
	RecoverAfter uint64 `json:"recover_after,omitempty"`
}

func (c *Config) baseSlot() uint64 { return c.StartEpoch * c.SPE }

func (c *Config) has(f string) bool {
	for _, x := range c.Features {
		if x == f {
			return true
		}
	}
	return false
}

var allFeatures = []string{
	"exits", "proposer_slashings", "attester_slashings", "deposits", "bls_changes", "sync_partial",
	"forks", "late_atts", "low_balances", "blobs", "epoch_gap", "late_merge", "eth1_split", "odd_votes",
	// faults
	"crash_restart", "multi_slot_jumps", "partition",
}

// GenConfig draws a swarm configuration from the seed.
func GenConfig(seed uint64, opt core.Options) *Config {
	rng := core.NewRng(seed)
	c := &Config{Seed: seed, Knobs: map[string]uint64{}}
	c.SPE = []uint64{4, 8, 8, 6}[rng.Intn(4)]
	c.Validators = []int{16, 24, 32, 48, 64}[rng.Intn(5)]
	if c.Validators < int(c.SPE)*2 {
		c.Validators = int(c.SPE) * 2
	}
	c.Slots = rng.Range(int(c.SPE)*3, int(c.SPE)*8)
	if opt.Tier == "thorough" {
		c.Slots = rng.Range(int(c.SPE)*4, int(c.SPE)*20)
	}
	// a large registry now and then: list shuffling and committee slicing beyond 256 positions
	largeRegistry := rng.Chance(1, 9)
	if largeRegistry {
		c.Validators = []int{257, 300, 333, 400, 520}[rng.Intn(5)]
		c.Slots = rng.Range(int(c.SPE)*2, int(c.SPE)*4)
	}
	manyCommittees := largeRegistry && rng.Bool()
	c.Nodes = rng.Range(1, 3)
	c.Participation = []int{100, 100, 90, 70, 50, 30}[rng.Intn(6)]
	c.SkipPct = []int{0, 5, 15, 30}[rng.Intn(4)]
	// fork schedule: non-decreasing, with equal / adjacent / never cases
	maxE := uint64(c.Slots)/c.SPE + 1
	e := uint64(0)
	never := false
	for i := 0; i < 4; i++ {
		if never || rng.Chance(1, 8) {
			never = true
			c.ForkEpochs[i] = farFuture
			continue
		}
		switch rng.Intn(4) {
		case 0: // same epoch as the previous fork
		case 1:
			e++
		default:
			e += uint64(rng.Range(1, int(maxE/3)+1))
		}
		if i == 0 && e == 0 && rng.Bool() {
			e = 1
		}
		c.ForkEpochs[i] = e
	}
	if p := opt.Params["forks"]; p == "late" {
		// start deep in phase0 (phase0 rewards need history)
		for i := range c.ForkEpochs {
			if c.ForkEpochs[i] != farFuture {
				c.ForkEpochs[i] += maxE / 2
			}
		}
	}
	for _, f := range allFeatures {
		if rng.Chance(1, 2) {
			c.Features = append(c.Features, f)
		}
	}
	// knobs (small so that wrap-arounds, rotations and queues happen inside a run)
	pick := func(name string, vals ...uint64) { c.Knobs[name] = vals[rng.Intn(len(vals))] }
	pick("SLOTS_PER_HISTORICAL_ROOT", 8, 16, 64)
	pick("EPOCHS_PER_HISTORICAL_VECTOR", 8, 16, 64, 12, 65) // (not only powers of two)
	pick("EPOCHS_PER_SLASHINGS_VECTOR", 4, 8, 64, 5, 12)
	pick("EPOCHS_PER_ETH1_VOTING_PERIOD", 1, 2, 4)
	pick("EPOCHS_PER_SYNC_COMMITTEE_PERIOD", 1, 2, 3, 8)
	pick("SYNC_COMMITTEE_SIZE", 4, 8, 12, 16, 32)
	pick("MIN_PER_EPOCH_CHURN_LIMIT", 1, 2, 4)
	pick("CHURN_LIMIT_QUOTIENT", 8, 32, 65536)
	pick("MAX_PER_EPOCH_ACTIVATION_CHURN_LIMIT", 1, 2, 8)
	pick("SHARD_COMMITTEE_PERIOD", 0, 1, 2)
	pick("MIN_VALIDATOR_WITHDRAWABILITY_DELAY", 1, 2, 4, 12) // (12: longer than the small slashings vectors)
	pick("SHUFFLE_ROUND_COUNT", 0, 1, 10, 90)
	pick("TARGET_COMMITTEE_SIZE", 1, 2, 4)
	pick("MAX_COMMITTEES_PER_SLOT", 1, 2, 4)
	pick("MAX_ATTESTATIONS", 8, 16, 128)
	pick("MAX_DEPOSITS", 1, 2, 16)
	pick("MAX_VOLUNTARY_EXITS", 1, 2, 16)
	pick("MAX_WITHDRAWALS_PER_PAYLOAD", 1, 2, 4)
	pick("MAX_VALIDATORS_PER_WITHDRAWALS_SWEEP", 4, 16, 16384)
	pick("MIN_EPOCHS_TO_INACTIVITY_PENALTY", 1, 2, 4)
	pick("INACTIVITY_PENALTY_QUOTIENT", 16, 1024, 67108864)
	pick("MIN_SEED_LOOKAHEAD", 1, 1, 2)
	pick("MAX_SEED_LOOKAHEAD", 2, 4)
	if manyCommittees {
		// more than 64 committees per epoch, a count per slot that is not a power of two: attestation
		// subnets wrap around
		c.Knobs["TARGET_COMMITTEE_SIZE"] = uint64(rng.Range(1, 2))
		c.Knobs["MAX_COMMITTEES_PER_SLOT"] = []uint64{9, 11, 12, 13}[rng.Intn(4)]
	}
	if c.Knobs["MAX_SEED_LOOKAHEAD"] <= c.Knobs["MIN_SEED_LOOKAHEAD"] {
		c.Knobs["MAX_SEED_LOOKAHEAD"] = c.Knobs["MIN_SEED_LOOKAHEAD"] + 1
	}
	if c.Knobs["EPOCHS_PER_HISTORICAL_VECTOR"] <= c.Knobs["MAX_SEED_LOOKAHEAD"]+1 {
		c.Knobs["EPOCHS_PER_HISTORICAL_VECTOR"] = 16
	}
	if c.Knobs["SLOTS_PER_HISTORICAL_ROOT"] < c.SPE*2 {
		c.Knobs["SLOTS_PER_HISTORICAL_ROOT"] = c.SPE * 2
	}
	if rng.Chance(1, 4) {
		c.Knobs["SLOTS_PER_HISTORICAL_ROOT"] = c.SPE * 3 // a whole number of epochs that is not a power of two
	}
	if rng.Chance(1, 4) {
		c.Knobs["EJECTION_BALANCE"] = 31_000_000_000
	}
	// inactivity scores beyond one byte (and beyond two) within a few epochs of a leak
	pick("INACTIVITY_SCORE_BIAS", 4, 4, 300, 70000)
	pick("INACTIVITY_SCORE_RECOVERY_RATE", 16, 1, 300)
	// reward and penalty arithmetic: every per-fork variant gets its own value, so that a constant of
	// the wrong fork cannot pass unnoticed
	pick("BASE_REWARD_FACTOR", 64, 64, 8, 1000)
	pick("PROPOSER_REWARD_QUOTIENT", 8, 3)
	pick("WHISTLEBLOWER_REWARD_QUOTIENT", 512, 7, 4096)
	pick("MIN_SLASHING_PENALTY_QUOTIENT", 128, 7)
	pick("MIN_SLASHING_PENALTY_QUOTIENT_ALTAIR", 64, 11)
	pick("MIN_SLASHING_PENALTY_QUOTIENT_BELLATRIX", 32, 5)
	pick("PROPORTIONAL_SLASHING_MULTIPLIER", 1, 4)
	pick("PROPORTIONAL_SLASHING_MULTIPLIER_ALTAIR", 2, 5)
	pick("PROPORTIONAL_SLASHING_MULTIPLIER_BELLATRIX", 3, 7)
	pick("HYSTERESIS_QUOTIENT", 4, 8)
	pick("HYSTERESIS_DOWNWARD_MULTIPLIER", 1, 2)
	pick("HYSTERESIS_UPWARD_MULTIPLIER", 5, 7)
	pick("SECONDS_PER_SLOT", 12, 12, 6, 3)
	switch rng.Intn(5) { // balance granularity and ceiling
	case 0:
		c.Knobs["MAX_EFFECTIVE_BALANCE"], c.Knobs["EFFECTIVE_BALANCE_INCREMENT"] = 48_000_000_000, 2_000_000_000
	case 1:
		c.Knobs["MAX_EFFECTIVE_BALANCE"], c.Knobs["EFFECTIVE_BALANCE_INCREMENT"] = 32_000_000_000, 500_000_000
	}
	switch opt.Params["director"] {
	case "leak":
		// > 1/3 of the stake is offline for the whole run: inactivity leak, drained balances, ejections
		c.Participation = []int{20, 35, 50, 60}[rng.Intn(4)]
		c.Slots = rng.Range(int(c.SPE)*7, int(c.SPE)*12)
		if opt.Tier == "thorough" {
			c.Slots = rng.Range(int(c.SPE)*10, int(c.SPE)*24)
		}
		c.SkipPct = 0
		c.Knobs["INACTIVITY_PENALTY_QUOTIENT"] = []uint64{4, 16, 64}[rng.Intn(3)]
		c.Knobs["MIN_EPOCHS_TO_INACTIVITY_PENALTY"] = 1
		c.Knobs["EJECTION_BALANCE"] = []uint64{31_000_000_000, 30_000_000_000, 16_000_000_000}[rng.Intn(3)]
		c.Knobs["EXIT_RATE"] = 0
		if rng.Bool() {
			// the offline validators come back half way: the leak ends inside the run (scores recover,
			// finality resumes while scores are still high)
			c.RecoverAfter = uint64(c.Slots) / 2
		}
	case "wide":
		// committees of 17 to 70 members and sync subcommittees of 32: only SOME members are selected
		// as aggregators, and which ones depends on the committee's size
		c.Validators = int(c.SPE) * rng.Range(17, 70)
		c.Slots = rng.Range(int(c.SPE)*2, int(c.SPE)*4)
		c.Knobs["MAX_COMMITTEES_PER_SLOT"] = uint64(rng.Range(1, 2))
		c.Knobs["TARGET_COMMITTEE_SIZE"] = 4
		if rng.Bool() {
			c.Knobs["SYNC_COMMITTEE_SIZE"] = 128
		}
		if c.Participation < 70 {
			c.Participation = 70
		}
	case "churn":
		// exit storm and deposit flood against a churn limit of 1-2: queues spanning epochs
		c.Participation = 100
		c.Slots = rng.Range(int(c.SPE)*7, int(c.SPE)*12)
		if opt.Tier == "thorough" {
			c.Slots = rng.Range(int(c.SPE)*10, int(c.SPE)*24)
		}
		c.Knobs["MIN_PER_EPOCH_CHURN_LIMIT"] = uint64(rng.Range(1, 2))
		c.Knobs["CHURN_LIMIT_QUOTIENT"] = 65536
		c.Knobs["MAX_PER_EPOCH_ACTIVATION_CHURN_LIMIT"] = uint64(rng.Range(1, 2))
		// validators that join through deposits are too young to exit for a few epochs after activation
		c.Knobs["SHARD_COMMITTEE_PERIOD"] = []uint64{0, 1, 2, 3}[rng.Intn(4)]
		c.Knobs["EPOCHS_PER_ETH1_VOTING_PERIOD"] = 1
		c.Knobs["MAX_DEPOSITS"] = 16
		c.Knobs["MAX_VOLUNTARY_EXITS"] = 16
		c.Knobs["EXIT_RATE"] = 3
		has := map[string]bool{}
		for _, f := range c.Features {
			has[f] = true
		}
		for _, f := range []string{"exits", "deposits", "low_balances"} {
			if !has[f] {
				c.Features = append(c.Features, f)
			}
		}
	}
	if opt.Params["preset"] != "mainnet" && rng.Chance(1, 8) {
		c.StartEpoch = []uint64{257, 300, 65537}[rng.Intn(3)]
		for i := range c.ForkEpochs {
			if c.ForkEpochs[i] != farFuture {
				c.ForkEpochs[i] += c.StartEpoch
			}
		}
	}
	if opt.Params["preset"] == "mainnet" {
		// the built-in mainnet preset as is (only the fork schedule and genesis time are the run's)
		c.Knobs = map[string]uint64{"PRESET_MAINNET": 1}
		c.SPE = 32
		c.Validators = []int{64, 96, 128}[rng.Intn(3)]
		c.Slots = rng.Range(40, 100)
		c.Nodes = rng.Range(1, 2)
		e := uint64(0)
		for i := range c.ForkEpochs {
			if rng.Chance(1, 3) {
				e++
			}
			c.ForkEpochs[i] = e
			if e > 2 {
				c.ForkEpochs[i] = farFuture
			}
		}
	}
	return c
}

// BuildSpec: a copy of the minimal preset with the run's overrides.
func (c *Config) BuildSpec() *common.Spec {
	s := *configs.Minimal
	if c.Knobs["PRESET_MAINNET"] == 1 {
		s = *configs.Mainnet
		s.MIN_GENESIS_TIME = configs.Minimal.MIN_GENESIS_TIME
		s.GENESIS_DELAY = configs.Minimal.GENESIS_DELAY
	}
	s.SLOTS_PER_EPOCH = common.Slot(c.SPE)
	s.ALTAIR_FORK_EPOCH = common.Epoch(c.ForkEpochs[0])
	s.BELLATRIX_FORK_EPOCH = common.Epoch(c.ForkEpochs[1])
	s.CAPELLA_FORK_EPOCH = common.Epoch(c.ForkEpochs[2])
	s.DENEB_FORK_EPOCH = common.Epoch(c.ForkEpochs[3])
	s.ELECTRA_FORK_EPOCH = common.Epoch(farFuture)
	s.FULU_FORK_EPOCH = common.Epoch(farFuture)
	s.MIN_GENESIS_ACTIVE_VALIDATOR_COUNT = view.Uint64View(c.SPE)
	for k, v := range c.Knobs {
		switch k {
		case "SLOTS_PER_HISTORICAL_ROOT":
			s.SLOTS_PER_HISTORICAL_ROOT = common.Slot(v)
		case "EPOCHS_PER_HISTORICAL_VECTOR":
			s.EPOCHS_PER_HISTORICAL_VECTOR = common.Epoch(v)
		case "EPOCHS_PER_SLASHINGS_VECTOR":
			s.EPOCHS_PER_SLASHINGS_VECTOR = common.Epoch(v)
		case "EPOCHS_PER_ETH1_VOTING_PERIOD":
			s.EPOCHS_PER_ETH1_VOTING_PERIOD = common.Epoch(v)
		case "EPOCHS_PER_SYNC_COMMITTEE_PERIOD":
			s.EPOCHS_PER_SYNC_COMMITTEE_PERIOD = common.Epoch(v)
		case "SYNC_COMMITTEE_SIZE":
			s.SYNC_COMMITTEE_SIZE = view.Uint64View(v)
		case "MIN_PER_EPOCH_CHURN_LIMIT":
			s.MIN_PER_EPOCH_CHURN_LIMIT = view.Uint64View(v)
		case "CHURN_LIMIT_QUOTIENT":
			s.CHURN_LIMIT_QUOTIENT = view.Uint64View(v)
		case "MAX_PER_EPOCH_ACTIVATION_CHURN_LIMIT":
			s.MAX_PER_EPOCH_ACTIVATION_CHURN_LIMIT = view.Uint64View(v)
		case "SHARD_COMMITTEE_PERIOD":
			s.SHARD_COMMITTEE_PERIOD = common.Epoch(v)
		case "MIN_VALIDATOR_WITHDRAWABILITY_DELAY":
			s.MIN_VALIDATOR_WITHDRAWABILITY_DELAY = common.Epoch(v)
		case "SHUFFLE_ROUND_COUNT":
			s.SHUFFLE_ROUND_COUNT = view.Uint8View(v)
		case "TARGET_COMMITTEE_SIZE":
			s.TARGET_COMMITTEE_SIZE = view.Uint64View(v)
		case "MAX_COMMITTEES_PER_SLOT":
			s.MAX_COMMITTEES_PER_SLOT = view.Uint64View(v)
		case "MAX_ATTESTATIONS":
			s.MAX_ATTESTATIONS = view.Uint64View(v)
		case "MAX_DEPOSITS":
			s.MAX_DEPOSITS = view.Uint64View(v)
		case "MAX_VOLUNTARY_EXITS":
			s.MAX_VOLUNTARY_EXITS = view.Uint64View(v)
		case "MAX_WITHDRAWALS_PER_PAYLOAD":
			s.MAX_WITHDRAWALS_PER_PAYLOAD = view.Uint64View(v)
		case "MAX_VALIDATORS_PER_WITHDRAWALS_SWEEP":
			s.MAX_VALIDATORS_PER_WITHDRAWALS_SWEEP = view.Uint64View(v)
		case "SECONDS_PER_SLOT":
			s.SECONDS_PER_SLOT = common.Timestamp(v)
		case "MAX_EFFECTIVE_BALANCE":
			s.MAX_EFFECTIVE_BALANCE = common.Gwei(v)
		case "EFFECTIVE_BALANCE_INCREMENT":
			s.EFFECTIVE_BALANCE_INCREMENT = common.Gwei(v)
		case "BASE_REWARD_FACTOR":
			s.BASE_REWARD_FACTOR = view.Uint64View(v)
		case "PROPOSER_REWARD_QUOTIENT":
			s.PROPOSER_REWARD_QUOTIENT = view.Uint64View(v)
		case "WHISTLEBLOWER_REWARD_QUOTIENT":
			s.WHISTLEBLOWER_REWARD_QUOTIENT = view.Uint64View(v)
		case "MIN_SLASHING_PENALTY_QUOTIENT":
			s.MIN_SLASHING_PENALTY_QUOTIENT = view.Uint64View(v)
		case "MIN_SLASHING_PENALTY_QUOTIENT_ALTAIR":
			s.MIN_SLASHING_PENALTY_QUOTIENT_ALTAIR = view.Uint64View(v)
		case "MIN_SLASHING_PENALTY_QUOTIENT_BELLATRIX":
			s.MIN_SLASHING_PENALTY_QUOTIENT_BELLATRIX = view.Uint64View(v)
		case "PROPORTIONAL_SLASHING_MULTIPLIER":
			s.PROPORTIONAL_SLASHING_MULTIPLIER = view.Uint64View(v)
		case "PROPORTIONAL_SLASHING_MULTIPLIER_ALTAIR":
			s.PROPORTIONAL_SLASHING_MULTIPLIER_ALTAIR = view.Uint64View(v)
		case "PROPORTIONAL_SLASHING_MULTIPLIER_BELLATRIX":
			s.PROPORTIONAL_SLASHING_MULTIPLIER_BELLATRIX = view.Uint64View(v)
		case "HYSTERESIS_QUOTIENT":
			s.HYSTERESIS_QUOTIENT = view.Uint64View(v)
		case "HYSTERESIS_DOWNWARD_MULTIPLIER":
			s.HYSTERESIS_DOWNWARD_MULTIPLIER = view.Uint64View(v)
		case "HYSTERESIS_UPWARD_MULTIPLIER":
			s.HYSTERESIS_UPWARD_MULTIPLIER = view.Uint64View(v)
		case "INACTIVITY_SCORE_BIAS":
			s.INACTIVITY_SCORE_BIAS = view.Uint64View(v)
		case "INACTIVITY_SCORE_RECOVERY_RATE":
			s.INACTIVITY_SCORE_RECOVERY_RATE = view.Uint64View(v)
		case "MIN_EPOCHS_TO_INACTIVITY_PENALTY":
			s.MIN_EPOCHS_TO_INACTIVITY_PENALTY = common.Epoch(v)
		case "INACTIVITY_PENALTY_QUOTIENT":
			// one value per fork, like the published presets
			s.INACTIVITY_PENALTY_QUOTIENT = view.Uint64View(v)
			s.INACTIVITY_PENALTY_QUOTIENT_ALTAIR = view.Uint64View(v + v/2)
			s.INACTIVITY_PENALTY_QUOTIENT_BELLATRIX = view.Uint64View(v/2 + 1)
		case "MIN_SEED_LOOKAHEAD":
			s.MIN_SEED_LOOKAHEAD = common.Epoch(v)
		case "MAX_SEED_LOOKAHEAD":
			s.MAX_SEED_LOOKAHEAD = common.Epoch(v)
		case "EJECTION_BALANCE":
			s.EJECTION_BALANCE = common.Gwei(v)
		}
	}
	return &s
}

// ---------- the simulated chain ----------

type stateBox struct {
	st  *beacon.StandardUpgradeableBeaconState
	epc *common.EpochsContext
}

func (b *stateBox) copy() (*stateBox, error) {
	s, err := b.st.BeaconState.CopyState()
	if err != nil {
		return nil, err
	}
	return &stateBox{&beacon.StandardUpgradeableBeaconState{BeaconState: s}, b.epc.Clone()}, nil
}

type blockRec struct {
	root    common.Root
	parent  common.Root
	slot    uint64
	env     *common.BeaconBlockEnvelope
	signed  common.SpecObj
	bytes   []byte // SSZ of the signed block as it went over the wire
	digest  common.ForkDigest
	post    *stateBox // builder's post state (never mutated after creation)
	postSSZ []byte    // snapshot of the post state at creation (C15 immutability monitor)
	kinds   uint64    // bitmap of operation kinds carried
}

type World struct {
	cfg         *Config
	spec        *common.Spec
	keys        *keyring
	rng         *core.Rng
	dec         *beacon.ForkDecoder
	gvr         common.Root
	heldUntil   map[*phase0.Attestation]uint64 // votes held back for a late inclusion (0 = not held)
	oddVote     map[*phase0.Attestation]common.Root // votes for a head or target that is not on the chain -> the head their voters really had
	genesisTime common.Timestamp
	// modelRoot: the state root the specification model gives a block on a pre-state (set by the
	// simulation when the model is in use)
	modelRoot func(pre *stateBox, env *common.BeaconBlockEnvelope) (common.Root, error)

	blocks  map[common.Root]*blockRec
	order   []*blockRec
	head    *blockRec
	genesis *blockRec

	// pending operations (the harness's own pools; the repo's pools are checked by poolsim)
	atts           []*phase0.Attestation
	attDom         map[*phase0.Attestation][32]byte
	attIn          map[*phase0.Attestation][]common.Root // blocks that already carry it
	syncDom        map[common.Root][32]byte
	syncMsgs       map[common.Root][]int // block root -> sync committee POSITIONS that signed
	syncSigs       map[common.Root]map[int]common.BLSSignature
	syncFor        map[common.Root]uint64 // block root -> the sync committee period whose committee signed
	exits          []phase0.SignedVoluntaryExit
	pslash         []phase0.ProposerSlashing
	aslash         []phase0.AttesterSlashing
	blsChanges     []common.SignedBLSToExecutionChange
	deposits       *depositTree
	depDatas       []common.DepositData
	exited         map[int]bool
	slashedV       map[int]bool
	changedV       map[int]bool
	payloadN       uint64
	eth1Vote       *common.Eth1Data
	eth1VotePeriod uint64
	forgeSlashed   bool // produce builds the block of a slashed proposer (never registered)
	forgeSameSlot  bool // produce builds a second block for the parent's own slot, on the parent's post-state (never registered)

	res *core.Result
}

func fnvRoot(tag string, n uint64) (r common.Root) {
	h := sha256.Sum256([]byte(fmt.Sprintf("%s-%d", tag, n)))
	return common.Root(h)
}

func NewWorld(cfg *Config, res *core.Result) (*World, error) {
	w := &World{cfg: cfg, spec: cfg.BuildSpec(), res: res, blocks: map[common.Root]*blockRec{},
		syncMsgs: map[common.Root][]int{}, syncSigs: map[common.Root]map[int]common.BLSSignature{},
		heldUntil: map[*phase0.Attestation]uint64{}, oddVote: map[*phase0.Attestation]common.Root{}, attDom: map[*phase0.Attestation][32]byte{}, attIn: map[*phase0.Attestation][]common.Root{}, syncDom: map[common.Root][32]byte{}, syncFor: map[common.Root]uint64{}, exited: map[int]bool{}, slashedV: map[int]bool{}, changedV: map[int]bool{}, deposits: &depositTree{}}
	w.rng = core.NewRng(cfg.Seed ^ 0x5eed)
	w.keys = newKeyring(cfg.Validators + 24) // (genesis validators first, then the depositors' keys)
	w.spec.ExecutionEngine = &scriptedEngine{}
	vals := make([]phase0.KickstartValidatorData, cfg.Validators)
	keys := make([][32]byte, cfg.Validators)
	balRng := core.NewRng(cfg.Seed ^ 0xba1)
	for i := range vals {
		bal := uint64(w.spec.MAX_EFFECTIVE_BALANCE)
		if cfg.has("low_balances") && balRng.Chance(1, 6) {
			bal -= uint64(balRng.Range(1, 3)) * 1_000_000_000
		}
		var wc common.Root
		wc[0] = common.BLS_WITHDRAWAL_PREFIX
		hh := sha256.Sum256(w.keys.pub[i][:])
		copy(wc[1:], hh[1:])
		if i%11 == 7 {
			// a prefix that is neither the BLS nor the execution one (legal bytes; no withdrawals, no change possible)
			wc[0] = 0x02
			w.changedV[i] = true
		} else if balRng.Chance(1, 4) {
			wc = common.Root{}
			wc[0] = common.ETH1_ADDRESS_WITHDRAWAL_PREFIX
			wc[31] = byte(i)
			wc[12] = 0xee
			w.changedV[i] = true
		}
		vals[i] = phase0.KickstartValidatorData{Pubkey: w.keys.pub[i], WithdrawalCredentials: wc, Balance: common.Gwei(bal)}
		keys[i] = w.keys.raw[i]
	}
	w.genesisTime = 1_600_000_000
	st, epc, err := phase0.KickStartStateWithSignatures(w.spec, fnvRoot("eth1", cfg.Seed), w.genesisTime, vals, keys)
	if err != nil {
		return nil, fmt.Errorf("genesis: %v", err)
	}
	if cfg.StartEpoch > 0 {
		// an old chain: the same registry, many epochs later (no history: all roots of the past are zero)
		if err := st.SetSlot(common.Slot(cfg.baseSlot())); err != nil {
			return nil, err
		}
		if epc, err = common.NewEpochsContext(w.spec, st); err != nil {
			return nil, fmt.Errorf("context of the late start: %v", err)
		}
	}
	// the deposit tree behind the genesis state
	for i := range vals {
		dd := common.DepositData{Pubkey: vals[i].Pubkey, WithdrawalCredentials: vals[i].WithdrawalCredentials, Amount: vals[i].Balance}
		w.depDatas = append(w.depDatas, dd)
		w.deposits.leaves = append(w.deposits.leaves, dd.HashTreeRoot(tree.GetHashFn()))
	}
	w.gvr, _ = st.GenesisValidatorsRoot()
	w.dec = beacon.NewForkDecoder(w.spec, w.gvr)
	box := &stateBox{&beacon.StandardUpgradeableBeaconState{BeaconState: st}, epc}
	// forks at epoch 0 apply at genesis
	if err := box.st.UpgradeMaybe(context.Background(), w.spec, box.epc); err != nil {
		return nil, fmt.Errorf("genesis upgrade: %v", err)
	}
	hdr, _ := box.st.LatestBlockHeader()
	hdr.StateRoot = box.st.HashTreeRoot(tree.GetHashFn())
	groot := hdr.HashTreeRoot(tree.GetHashFn())
	g := &blockRec{root: groot, slot: cfg.baseSlot(), post: box}
	g.postSSZ = serializeState(box.st)
	w.blocks[groot] = g
	w.genesis, w.head = g, g
	return w, nil
}

func serializeState(st common.BeaconState) []byte {
	var buf bytes.Buffer
	type ser interface {
		Serialize(w *codec.EncodingWriter) error
	}
	inner := st
	if u, ok := st.(*beacon.StandardUpgradeableBeaconState); ok {
		inner = u.BeaconState
	}
	if s, ok := inner.(ser); ok {
		if err := s.Serialize(codec.NewEncodingWriter(&buf)); err != nil {
			return nil
		}
	}
	return buf.Bytes()
}

func (w *World) epochOf(slot uint64) uint64 { return slot / w.cfg.SPE }

// forkIndexAt: 0 phase0 .. 4 deneb, by the harness's own schedule function
func (w *World) forkIndexAt(epoch uint64) int {
	f := 0
	for i, e := range w.cfg.ForkEpochs {
		if e != farFuture && epoch >= e {
			f = i + 1
		}
	}
	return f
}

func (w *World) versionOfFork(f int) common.Version {
	switch f {
	case 0:
		return w.spec.GENESIS_FORK_VERSION
	case 1:
		return w.spec.ALTAIR_FORK_VERSION
	case 2:
		return w.spec.BELLATRIX_FORK_VERSION
	case 3:
		return w.spec.CAPELLA_FORK_VERSION
	default:
		return w.spec.DENEB_FORK_VERSION
	}
}

func (w *World) digestOfFork(f int) common.ForkDigest {
	r := forkDataRoot(w.versionOfFork(f), w.gvr)
	var d common.ForkDigest
	copy(d[:], r[:4])
	return d
}

// advance returns a fresh copy of the parent's post state processed to slot.
func (w *World) advance(parent *blockRec, slot uint64) (*stateBox, error) {
	box, err := parent.post.copy()
	if err != nil {
		return nil, err
	}
	cur, _ := box.st.Slot()
	if uint64(cur) < slot {
		if err := common.ProcessSlots(context.Background(), w.spec, box.epc, box.st, common.Slot(slot)); err != nil {
			return nil, err
		}
	}
	return box, nil
}

func (w *World) activeAt(st common.BeaconState, i int, epoch uint64) bool {
	vals, _ := st.Validators()
	v, err := vals.Validator(common.ValidatorIndex(i))
	if err != nil {
		return false
	}
	a, _ := v.ActivationEpoch()
	e, _ := v.ExitEpoch()
	return uint64(a) <= epoch && epoch < uint64(e)
}

// attest: committee members of `slot` vote for head block `head` (state `box` is the
// head state advanced to slot). Aggregated per committee.
func (w *World) attest(box *stateBox, head *blockRec, slot uint64) {
	st := box.st
	epoch := w.epochOf(slot)
	fork, _ := st.Fork()
	cnt, err := box.epc.GetCommitteeCountPerSlot(common.Epoch(epoch))
	if err != nil {
		return
	}
	src, _ := st.CurrentJustifiedCheckpoint()
	// target root: block root at the epoch start slot (the head itself if it is at/before that slot)
	var target common.Root
	startSlot := epoch * w.cfg.SPE
	if head.slot <= startSlot {
		target = head.root
	} else {
		br, _ := st.BlockRoots()
		target, _ = br.GetRoot(common.Slot(startSlot))
	}
	for ci := uint64(0); ci < cnt; ci++ {
		comm, err := box.epc.GetBeaconCommittee(common.Slot(slot), common.CommitteeIndex(ci))
		if err != nil || len(comm) == 0 {
			continue
		}
		data := phase0.AttestationData{Slot: common.Slot(slot), Index: common.CommitteeIndex(ci), BeaconBlockRoot: head.root,
			Source: src, Target: common.Checkpoint{Epoch: common.Epoch(epoch), Root: target}}
		bits := make(phase0.AttestationBits, len(comm)/8+1)
		bits[len(comm)/8] |= 1 << (uint(len(comm)) % 8)
		var signers []int
		for pos, vi := range comm {
			part := w.cfg.Participation
			if w.cfg.RecoverAfter > 0 && slot >= w.cfg.baseSlot()+w.cfg.RecoverAfter {
				part = 100
			}
			if w.rng.Intn(100) < part {
				if ki := w.keyOf(st, vi); ki >= 0 {
					bits[pos/8] |= 1 << (uint(pos) % 8)
					signers = append(signers, ki)
				}
			}
		}
		if len(signers) == 0 {
			continue
		}
		dom := domainFor(fork, w.gvr, common.DOMAIN_BEACON_ATTESTER, common.Epoch(epoch))
		// odd_votes: a minority of the committee sees another chain: right source, but a wrong target
		// root, a wrong head root, both, or the parent as head. Such votes are valid block content;
		// which participation flags (and rewards) they earn is the point.
		if w.cfg.has("odd_votes") && len(signers) >= 2 && w.rng.Chance(1, 3) {
			k := 1 + w.rng.Intn(len(signers)/2)
			odd := phase0.AttestationData{Slot: data.Slot, Index: data.Index, BeaconBlockRoot: data.BeaconBlockRoot, Source: data.Source, Target: data.Target}
			switch w.rng.Intn(4) {
			case 0:
				odd.Target.Root = fnvRoot("odd-target", slot<<8|ci)
			case 1:
				odd.BeaconBlockRoot = fnvRoot("odd-head", slot<<8|ci)
			case 2:
				odd.Target.Root = fnvRoot("odd-target", slot<<8|ci)
				odd.BeaconBlockRoot = fnvRoot("odd-head", slot<<8|ci)
			default:
				if head.parent != (common.Root{}) {
					odd.BeaconBlockRoot = head.parent
				} else {
					odd.BeaconBlockRoot = fnvRoot("odd-head", slot<<8|ci)
				}
			}
			obits := make(phase0.AttestationBits, len(comm)/8+1)
			obits[len(comm)/8] |= 1 << (uint(len(comm)) % 8)
			var osigners []int
			moved := 0
			for pos, vi := range comm {
				if moved >= k {
					break
				}
				if bits[pos/8]&(1<<(uint(pos)%8)) == 0 {
					continue
				}
				ki := w.keyOf(st, vi)
				bits[pos/8] &^= 1 << (uint(pos) % 8)
				obits[pos/8] |= 1 << (uint(pos) % 8)
				osigners = append(osigners, ki)
				for i, x := range signers {
					if x == ki {
						signers = append(signers[:i:i], signers[i+1:]...)
						break
					}
				}
				moved++
			}
			if len(osigners) > 0 {
				oatt := &phase0.Attestation{AggregationBits: obits, Data: odd, Signature: w.keys.signAgg(osigners, signingRoot(odd.HashTreeRoot(tree.GetHashFn()), dom))}
				w.atts = append(w.atts, oatt)
				w.attDom[oatt] = dom
				w.oddVote[oatt] = head.root // (the chain whose committees the vote belongs to)
				w.res.Stat("attestations_with_odd_votes", 1)
			}
			if len(signers) == 0 {
				continue
			}
		}
		sr := signingRoot(data.HashTreeRoot(tree.GetHashFn()), dom)
		att := &phase0.Attestation{AggregationBits: bits, Data: data, Signature: w.keys.signAgg(signers, sr)}
		w.atts = append(w.atts, att)
		w.attDom[att] = dom
		w.res.Stat("attestations_produced", 1)
	}
	// sync committee messages for this head (included by the next block)
	if sc, ok := st.BeaconState.(common.SyncCommitteeBeaconState); ok {
		// committees assigned to a slot sign for the slot before: in the last slot of a sync committee
		// period it is the NEXT committee that signs (its messages go into the first block of its period)
		cur, err := sc.CurrentSyncCommittee()
		if w.syncPeriodOf(slot+1) != w.syncPeriodOf(slot) {
			cur, err = sc.NextSyncCommittee()
			w.res.Stat("probe_sync_messages_by_the_next_committee", 1)
		}
		if err == nil {
			pubsV, _ := cur.Pubkeys()
			pubs, _ := pubsV.Flatten()
			dom := domainFor(fork, w.gvr, common.DOMAIN_SYNC_COMMITTEE, common.Epoch(epoch))
			sr := signingRoot(head.root, dom)
			sigs := map[int]common.BLSSignature{}
			var pos []int
			part := 100
			if w.cfg.has("sync_partial") {
				part = []int{100, 80, 40, 0}[w.rng.Intn(4)]
			}
			cache := map[common.BLSPubkey]common.BLSSignature{}
			for p, pk := range pubs {
				if w.rng.Intn(100) >= part {
					continue
				}
				s, ok := cache[pk]
				if !ok {
					vi := w.indexOfPub(pk)
					if vi < 0 {
						continue
					}
					s = w.keys.sign(vi, sr)
					cache[pk] = s
				}
				sigs[p] = s
				pos = append(pos, p)
			}
			w.syncMsgs[head.root] = pos
			w.syncSigs[head.root] = sigs
			w.syncDom[head.root] = dom
			w.syncFor[head.root] = w.syncPeriodOf(slot + 1)
		}
	}
}

// keyOf: the keyring index holding the key of validator vi of this state (-1: none).
func (w *World) keyOf(st common.BeaconState, vi common.ValidatorIndex) int {
	if int(vi) < w.cfg.Validators {
		return int(vi) // genesis validators: registry index == keyring index
	}
	vals, _ := st.Validators()
	v, err := vals.Validator(vi)
	if err != nil {
		return -1
	}
	pk, _ := v.Pubkey()
	return w.indexOfPub(pk)
}

func (w *World) indexOfPub(pk common.BLSPubkey) int {
	for i, p := range w.keys.pub {
		if p == pk {
			return i
		}
	}
	return -1
}

func aggregateSigs(sigs []common.BLSSignature) common.BLSSignature {
	if len(sigs) == 0 {
		return infinitySig()
	}
	var xs []*blsu.Signature
	for i := range sigs {
		s, err := sigs[i].Signature()
		if err != nil {
			panic(err)
		}
		xs = append(xs, s)
	}
	a, err := blsu.Aggregate(xs)
	if err != nil {
		panic(err)
	}
	return common.BLSSignature(a.Serialize())
}

const (
	kAtt = 1 << iota
	kPSlash
	kASlash
	kDeposit
	kExit
	kSync
	kPayload
	kWithdrawals
	kBLSChange
	kBlobs
)

// produce builds, signs and registers a block at `slot` on `parent`. The state root is
// computed by running the block on a copy (validateResult=false), then signed.
func (w *World) produce(parent *blockRec, slot uint64) (*blockRec, error) {
	ctx := context.Background()
	pre, err := w.advance(parent, slot)
	if err != nil {
		return nil, fmt.Errorf("advance: %v", err)
	}
	st := pre.st
	epoch := w.epochOf(slot)
	fork, _ := st.Fork()
	proposer, err := pre.epc.GetBeaconProposer(common.Slot(slot))
	if err != nil {
		return nil, err
	}
	pkey := w.keyOf(st, proposer)
	if pkey < 0 {
		return nil, fmt.Errorf("no key for proposer %d", proposer)
	}
	slashedProposer := false
	{
		vals, _ := st.Validators()
		pv, _ := vals.Validator(proposer)
		if sl, _ := pv.Slashed(); sl {
			if !w.forgeSlashed {
				return nil, errSlashedProposer // a slashed proposer cannot propose: the slot stays empty
			}
			slashedProposer = true
		}
	}
	fidx := w.forkIndexAt(epoch)
	kinds := uint64(0)

	randaoDom := domainFor(fork, w.gvr, common.DOMAIN_RANDAO, common.Epoch(epoch))
	randao := w.keys.sign(pkey, signingRoot(common.Epoch(epoch).HashTreeRoot(tree.GetHashFn()), randaoDom))

	// eth1 data vote: the deposit contract as of now
	// (honest proposers follow one eth1 block per voting period)
	period := uint64(w.spec.EPOCHS_PER_ETH1_VOTING_PERIOD) * w.cfg.SPE
	if w.eth1Vote == nil || slot/period != w.eth1VotePeriod {
		n := uint64(len(w.deposits.leaves))
		w.eth1Vote = &common.Eth1Data{DepositRoot: w.deposits.root(n), DepositCount: common.DepositIndex(n), BlockHash: fnvRoot("eth1blk", n<<16|slot/period)}
		w.eth1VotePeriod = slot / period
	}
	eth1 := *w.eth1Vote
	if w.cfg.has("deposits") && w.cfg.has("eth1_split") && w.rng.Chance(1, 8) {
		// a proposer that follows another eth1 block with the same deposits: votes split, a value can
		// sit at exactly half of the period's votes
		if w.rng.Chance(1, 3) {
			// same eth1 block and deposit count, another deposit root (a proposer with a broken deposit tree)
			eth1.DepositRoot = fnvRoot("eth1root-alt", uint64(eth1.DepositCount)<<16|slot/period)
			w.res.Stat("eth1_votes_with_another_deposit_root", 1)
		} else {
			eth1.BlockHash = fnvRoot("eth1blk-alt", uint64(eth1.DepositCount)<<16|slot/period)
			w.res.Stat("eth1_votes_for_the_other_eth1_block", 1)
		}
	}
	if !w.cfg.has("deposits") {
		eth1, _ = st.Eth1Data()
	}

	// deposits owed by the state
	var deps phase0.Deposits
	stEth1, _ := st.Eth1Data()
	depIdx, _ := st.Eth1DepositIndex()
	if votes, err := st.Eth1DataVotes(); err == nil {
		// process_eth1_data runs before the operations: this very vote may adopt new eth1 data
		c, _ := votes.Count(eth1)
		if (c+1)*2 > period {
			stEth1 = eth1
		}
		if (c+1)*2 == period {
			w.res.Stat("probe_eth1_vote_at_exactly_half_the_period", 1)
		}
	}
	if uint64(stEth1.DepositCount) > uint64(depIdx) {
		n := uint64(stEth1.DepositCount) - uint64(depIdx)
		if n > uint64(w.spec.MAX_DEPOSITS) {
			n = uint64(w.spec.MAX_DEPOSITS)
		}
		for i := uint64(0); i < n; i++ {
			li := uint64(depIdx) + i
			if li >= uint64(len(w.depDatas)) || li >= uint64(len(w.deposits.leaves)) {
				break
			}
			pr := w.deposits.proof(li, uint64(stEth1.DepositCount))
			d := common.Deposit{Data: w.depDatas[li]}
			copy(d.Proof[:], pr[:])
			deps = append(deps, d)
		}
		if len(deps) > 0 {
			kinds |= kDeposit
		}
	}

	// attestations that this state can include
	var atts phase0.Attestations
	var keep, picked []*phase0.Attestation
	seen := map[common.Root]bool{}
	// phase0 records every included attestation in one of two bounded lists (MAX_ATTESTATIONS *
	// SLOTS_PER_EPOCH entries each): a block that overflows one of them is invalid, so an honest
	// proposer leaves the vote out
	roomPrev, roomCur := uint64(1)<<40, uint64(1)<<40
	if p0, ok := st.BeaconState.(*phase0.BeaconStateView); ok {
		lim := uint64(w.spec.MAX_ATTESTATIONS) * uint64(w.spec.SLOTS_PER_EPOCH)
		if l, err := p0.PreviousEpochAttestations(); err == nil {
			n, _ := l.Length()
			roomPrev = lim - n
		}
		if l, err := p0.CurrentEpochAttestations(); err == nil {
			n, _ := l.Length()
			roomCur = lim - n
		}
	}
	for _, a := range w.atts {
		as := uint64(a.Data.Slot)
		ae := w.epochOf(as)
		tooOld := ae+1 < epoch
		if !tooOld && fidx < 4 && as+w.cfg.SPE < slot {
			tooOld = true // pre-deneb inclusion window
		}
		if tooOld {
			continue
		}
		keep = append(keep, a)
		if as+uint64(w.spec.MIN_ATTESTATION_INCLUSION_DELAY) > slot || uint64(len(atts)) >= uint64(w.spec.MAX_ATTESTATIONS) {
			continue
		}
		// deneb (EIP-7045): a vote may be included more than one epoch of slots after it was cast, as long
		// as it is from the previous epoch: now and then a vote is held back that long
		if _, decided := w.heldUntil[a]; !decided {
			w.heldUntil[a] = 0
			if fidx >= 4 && w.cfg.has("late_atts") && w.rng.Chance(1, 4) {
				w.heldUntil[a] = as + w.cfg.SPE + 1
			}
		}
		if slot < w.heldUntil[a] {
			continue
		}
		viewOf := a.Data.BeaconBlockRoot
		if real, odd := w.oddVote[a]; odd {
			viewOf = real
		}
		if !w.onChain(parent, viewOf) {
			continue
		}
		// the including state must derive the domain the attester signed under (it does not
		// when two upgrades share an epoch: votes from before that epoch become unverifiable)
		if domainFor(fork, w.gvr, common.DOMAIN_BEACON_ATTESTER, a.Data.Target.Epoch) != w.attDom[a] {
			w.res.Stat("attestations_unverifiable_after_double_upgrade", 1)
			continue
		}
		already := false
		for _, r := range w.attIn[a] {
			if w.onChain(parent, r) {
				already = true
			}
		}
		if already && !w.rng.Chance(1, 12) {
			continue
		}
		// source must match the state's justified checkpoint for the target epoch
		var want common.Checkpoint
		if ae == epoch {
			want, _ = st.CurrentJustifiedCheckpoint()
		} else {
			want, _ = st.PreviousJustifiedCheckpoint()
		}
		if a.Data.Source != want {
			continue
		}
		key := a.HashTreeRoot(w.spec, tree.GetHashFn())
		if seen[key] {
			continue
		}
		if w.cfg.has("late_atts") && w.rng.Chance(1, 3) {
			continue // included by a later block instead
		}
		if ae == epoch {
			if roomCur == 0 {
				w.res.Stat("attestations_left_out_pending_list_full", 1)
				continue
			}
			roomCur--
		} else {
			if roomPrev == 0 {
				w.res.Stat("attestations_left_out_pending_list_full", 1)
				continue
			}
			roomPrev--
		}
		seen[key] = true
		if as+w.cfg.SPE < slot {
			w.res.Stat("probe_attestations_included_more_than_an_epoch_of_slots_late", 1)
		}
		atts = append(atts, *a)
		picked = append(picked, a)
	}
	w.atts = keep
	if len(atts) > 0 {
		kinds |= kAtt
	}

	// other operations
	var exits phase0.VoluntaryExits
	var ps phase0.ProposerSlashings
	var as phase0.AttesterSlashings
	busy := map[int]bool{} // one operation per validator per block
	nExits := 1
	if r := w.cfg.Knobs["EXIT_RATE"]; r > 0 {
		nExits = int(r)
	}
	for xi := 0; xi < nExits; xi++ {
		if w.cfg.has("exits") && (w.rng.Chance(1, 3) || nExits > 1) && epoch >= uint64(w.spec.SHARD_COMMITTEE_PERIOD) {
			v := w.rng.Intn(w.cfg.Validators)
			if !w.exited[v] && !w.slashedV[v] && !busy[v] && w.activeAt(st, v, epoch) && w.notExiting(st, v, epoch) && uint64(len(exits)) < uint64(w.spec.MAX_VOLUNTARY_EXITS) {
				// the exit may have been signed some epochs ago (its epoch only has to be reached): it is
				// signed under the version in force in ITS epoch (before deneb), which may be the previous one
				exEpoch := epoch
				if back := uint64(w.rng.Intn(4)); w.rng.Bool() && epoch >= w.cfg.StartEpoch+back {
					exEpoch = epoch - back
				}
				if common.Epoch(exEpoch) < fork.Epoch && fork.Epoch <= common.Epoch(epoch) && fork.PreviousVersion != fork.CurrentVersion {
					w.res.Stat("probe_exit_dated_before_the_last_fork", 1)
				}
				ex := phase0.VoluntaryExit{Epoch: common.Epoch(exEpoch), ValidatorIndex: common.ValidatorIndex(v)}
				exFork := fork
				var dom [32]byte
				if fidx >= 4 {
					dom = computeDomain(common.DOMAIN_VOLUNTARY_EXIT, w.spec.CAPELLA_FORK_VERSION, w.gvr) // EIP-7044
				} else {
					dom = domainFor(exFork, w.gvr, common.DOMAIN_VOLUNTARY_EXIT, common.Epoch(exEpoch))
				}
				sig := w.keys.sign(v, signingRoot(ex.HashTreeRoot(tree.GetHashFn()), dom))
				exits = append(exits, phase0.SignedVoluntaryExit{Message: ex, Signature: sig})
				w.exited[v] = true
				busy[v] = true
				kinds |= kExit
			}
		}
	}
	if w.cfg.has("proposer_slashings") && w.rng.Chance(1, 6) {
		v := w.rng.Intn(w.cfg.Validators)
		if !w.slashedV[v] && !busy[v] && v != int(proposer) && w.slashable(st, v, epoch) {
			// the evidence may be old: headers of an earlier slot, signed under the version of THAT epoch
			hslot := slot
			if back := uint64(w.rng.Intn(int(3*w.cfg.SPE))); w.rng.Bool() && slot >= w.cfg.baseSlot()+back {
				hslot = slot - back
			}
			if w.epochOf(hslot) < w.epochOf(slot) {
				w.res.Stat("proposer_slashings_with_old_headers", 1)
				if common.Epoch(w.epochOf(hslot)) < fork.Epoch && fork.Epoch <= common.Epoch(epoch) {
					w.res.Stat("probe_proposer_slashing_headers_from_before_the_last_fork", 1)
				}
			}
			mk := func(tag uint64) common.SignedBeaconBlockHeader {
				h := common.BeaconBlockHeader{Slot: common.Slot(hslot), ProposerIndex: common.ValidatorIndex(v), ParentRoot: fnvRoot("ps", tag), StateRoot: fnvRoot("ps-s", tag), BodyRoot: fnvRoot("ps-b", tag)}
				dom := domainFor(fork, w.gvr, common.DOMAIN_BEACON_PROPOSER, common.Epoch(w.epochOf(hslot)))
				return common.SignedBeaconBlockHeader{Message: h, Signature: w.keys.sign(v, signingRoot(h.HashTreeRoot(tree.GetHashFn()), dom))}
			}
			ps = append(ps, phase0.ProposerSlashing{SignedHeader1: mk(slot*2 + 1), SignedHeader2: mk(slot*2 + 2)})
			w.slashedV[v] = true
			busy[v] = true
			kinds |= kPSlash
		}
	}
	if w.cfg.has("attester_slashings") && w.rng.Chance(1, 6) {
		// a double vote by 1-3 validators in the current epoch
		var idx []int
		for tries := 0; tries < 6 && len(idx) < w.rng.Range(1, 3); tries++ {
			v := w.rng.Intn(w.cfg.Validators)
			if !w.slashedV[v] && !busy[v] && v != int(proposer) && w.slashable(st, v, epoch) {
				dup := false
				for _, x := range idx {
					if x == v {
						dup = true
					}
				}
				if !dup {
					idx = append(idx, v)
				}
			}
		}
		if len(idx) > 0 {
			sort.Ints(idx)
			// sometimes each vote also carries a signer that is not in the other one: only the
			// intersection is slashable
			extras := [2][]int{}
			if w.rng.Bool() {
				for k := 0; k < 2; k++ {
					for tries := 0; tries < 6; tries++ {
						v := w.rng.Intn(w.cfg.Validators)
						ok := !w.slashedV[v] && !busy[v] && v != int(proposer)
						for _, x := range idx {
							if x == v {
								ok = false
							}
						}
						if k == 1 && len(extras[0]) > 0 && extras[0][0] == v {
							ok = false
						}
						if ok {
							extras[k] = []int{v}
							break
						}
					}
				}
			}
			which := 0
			// a double vote (same target epoch), or a surround vote: the first vote (source e-3, target e)
			// surrounds the second (source e-2, target e-1); each is signed under the domain of its own target epoch
			surround := w.rng.Bool() && epoch >= w.cfg.StartEpoch+3
			if surround {
				w.res.Stat("attester_slashings_by_surround_vote", 1)
			}
			mk := func(tag uint64) phase0.IndexedAttestation {
				idx := append(append([]int(nil), idx...), extras[which]...)
				second := which == 1
				which++
				sort.Ints(idx)
				src, _ := st.CurrentJustifiedCheckpoint()
				tgtEpoch, aslot := epoch, slot
				if surround {
					src = common.Checkpoint{Epoch: common.Epoch(epoch - 3), Root: fnvRoot("as-s", tag)}
					if second {
						src.Epoch = common.Epoch(epoch - 2)
						tgtEpoch = epoch - 1
						aslot = tgtEpoch * w.cfg.SPE
					}
				}
				d := phase0.AttestationData{Slot: common.Slot(aslot), Index: 0, BeaconBlockRoot: fnvRoot("as", tag), Source: src, Target: common.Checkpoint{Epoch: common.Epoch(tgtEpoch), Root: fnvRoot("as-t", tag)}}
				dom := domainFor(fork, w.gvr, common.DOMAIN_BEACON_ATTESTER, common.Epoch(tgtEpoch))
				ci := make(common.CommitteeIndices, len(idx))
				for i, v := range idx {
					ci[i] = common.ValidatorIndex(v)
				}
				return phase0.IndexedAttestation{AttestingIndices: ci, Data: d, Signature: w.keys.signAgg(idx, signingRoot(d.HashTreeRoot(tree.GetHashFn()), dom))}
			}
			as = append(as, phase0.AttesterSlashing{Attestation1: mk(slot*2 + 1), Attestation2: mk(slot*2 + 2)})
			for _, v := range idx {
				w.slashedV[v] = true
				busy[v] = true
			}
			kinds |= kASlash
		}
	}

	// sync aggregate over the parent root (only if the parent is the block the messages were for)
	var syncAgg *altair.SyncAggregate
	if fidx >= 1 {
		bits := make(altair.SyncCommitteeBits, (uint64(w.spec.SYNC_COMMITTEE_SIZE)+7)/8)
		var sigs []common.BLSSignature
		prevSlot := slot - 1
		wantDom := domainFor(fork, w.gvr, common.DOMAIN_SYNC_COMMITTEE, common.Epoch(w.epochOf(prevSlot)))
		// messages were signed at the parent's slot for the parent root; they are valid for this
		// block if the previous slot lies in the same epoch/domain and the committee is the same
		if pos, ok := w.syncMsgs[parent.root]; ok && w.syncDom[parent.root] == wantDom && w.epochOf(prevSlot) == w.epochOf(parent.slot) && w.syncFor[parent.root] == w.syncPeriodOf(slot) && w.forkIndexAt(w.epochOf(parent.slot)) >= 1 {
			if w.syncPeriodOf(parent.slot) != w.syncPeriodOf(slot) {
				w.res.Stat("probe_sync_aggregate_in_the_first_block_of_a_period", 1)
			}
			for _, p := range pos {
				bits[p/8] |= 1 << (uint(p) % 8)
				sigs = append(sigs, w.syncSigs[parent.root][p])
			}
		}
		if len(sigs) > 0 {
			kinds |= kSync
		}
		syncAgg = &altair.SyncAggregate{SyncCommitteeBits: bits, SyncCommitteeSignature: aggregateSigs(sigs)}
	}

	// bls-to-execution changes
	var changes common.SignedBLSToExecutionChanges
	if fidx >= 3 && w.cfg.has("bls_changes") && w.rng.Chance(1, 3) {
		v := w.rng.Intn(w.cfg.Validators)
		if !w.changedV[v] {
			ch := common.BLSToExecutionChange{ValidatorIndex: common.ValidatorIndex(v), FromBLSPubKey: w.keys.pub[v]}
			ch.ToExecutionAddress[0] = 0xaa
			ch.ToExecutionAddress[19] = byte(v)
			dom := computeDomain(common.DOMAIN_BLS_TO_EXECUTION_CHANGE, w.spec.GENESIS_FORK_VERSION, w.gvr)
			changes = append(changes, common.SignedBLSToExecutionChange{BLSToExecutionChange: ch, Signature: w.keys.sign(v, signingRoot(ch.HashTreeRoot(tree.GetHashFn()), dom))})
			w.changedV[v] = true
			kinds |= kBLSChange
		}
	}

	// execution payload
	mix, _ := st.RandaoMixes()
	prevRandao, _ := mix.GetRandomMix(common.Epoch(epoch))
	gt, _ := st.GenesisTime()
	ts := uint64(gt) + slot*uint64(w.spec.SECONDS_PER_SLOT)
	w.payloadN++
	blockHash := fnvRoot("payload", w.payloadN<<20|slot)

	hdr := common.BeaconBlockHeader{Slot: common.Slot(slot), ProposerIndex: proposer, ParentRoot: parent.root}
	if w.forgeSameSlot {
		// no slot was processed since the parent: the state's latest header still has its zero state root,
		// and that is the header a block on this very state has to name as its parent
		lh, err := st.LatestBlockHeader()
		if err != nil {
			return nil, err
		}
		hdr.ParentRoot = lh.HashTreeRoot(tree.GetHashFn())
	}
	var body common.SpecObj
	switch fidx {
	case 0:
		body = &phase0.BeaconBlockBody{RandaoReveal: randao, Eth1Data: eth1, ProposerSlashings: ps, AttesterSlashings: as, Attestations: atts, Deposits: deps, VoluntaryExits: exits}
	case 1:
		body = &altair.BeaconBlockBody{RandaoReveal: randao, Eth1Data: eth1, ProposerSlashings: ps, AttesterSlashings: as, Attestations: atts, Deposits: deps, VoluntaryExits: exits, SyncAggregate: *syncAgg}
	case 2:
		b := &bellatrix.BeaconBlockBody{RandaoReveal: randao, Eth1Data: eth1, ProposerSlashings: ps, AttesterSlashings: as, Attestations: atts, Deposits: deps, VoluntaryExits: exits, SyncAggregate: *syncAgg}
		bs := st.BeaconState.(*bellatrix.BeaconStateView)
		lh, _ := bs.LatestExecutionPayloadHeader()
		lhr, _ := lh.Raw()
		b.ExecutionPayload = bellatrix.ExecutionPayload{ParentHash: lhr.BlockHash, PrevRandao: prevRandao, Timestamp: common.Timestamp(ts), BlockHash: blockHash, BlockNumber: view.Uint64View(w.payloadN), GasLimit: 30_000_000}
		// (merge complete = the state's payload header is not the default header; its block hash alone says nothing)
		premerge := lhr.HashTreeRoot(tree.GetHashFn()) == (&bellatrix.ExecutionPayloadHeader{}).HashTreeRoot(tree.GetHashFn())
		if premerge {
			b.ExecutionPayload.ParentHash = fnvRoot("terminal-pow", 1)
		}
		if premerge && w.cfg.has("late_merge") && w.rng.Chance(2, 3) {
			// the merge has not happened yet and does not happen in this block: an empty payload
			b.ExecutionPayload = bellatrix.ExecutionPayload{}
			w.res.Stat("blocks_bellatrix_before_the_merge", 1)
		} else {
			if premerge {
				w.res.Stat("blocks_merge_transition", 1)
				if w.cfg.has("late_merge") && w.rng.Chance(1, 3) {
					// the consensus layer does not interpret the block hash: the engine does. A payload with an
					// all-zero hash is still a payload (it is not the empty payload) and is shown to the engine
					b.ExecutionPayload.BlockHash = common.Hash32{}
					w.res.Stat("blocks_merge_transition_with_zero_block_hash", 1)
				}
			}
			kinds |= kPayload
		}
		body = b
	case 3:
		b := &capella.BeaconBlockBody{RandaoReveal: randao, Eth1Data: eth1, ProposerSlashings: ps, AttesterSlashings: as, Attestations: atts, Deposits: deps, VoluntaryExits: exits, SyncAggregate: *syncAgg, BLSToExecutionChanges: changes}
		cs := st.BeaconState.(*capella.BeaconStateView)
		lh, _ := cs.LatestExecutionPayloadHeader()
		lhr, _ := lh.Raw()
		wds, err := w.expectedWithdrawals(st.BeaconState)
		if err != nil {
			return nil, fmt.Errorf("expected withdrawals: %v", err)
		}
		if len(wds) > 0 {
			kinds |= kWithdrawals
		}
		b.ExecutionPayload = capella.ExecutionPayload{ParentHash: lhr.BlockHash, PrevRandao: prevRandao, Timestamp: common.Timestamp(ts), BlockHash: blockHash, BlockNumber: view.Uint64View(w.payloadN), GasLimit: 30_000_000, Withdrawals: wds}
		kinds |= kPayload
		body = b
	default:
		b := &deneb.BeaconBlockBody{RandaoReveal: randao, Eth1Data: eth1, ProposerSlashings: ps, AttesterSlashings: as, Attestations: atts, Deposits: deps, VoluntaryExits: exits, SyncAggregate: *syncAgg, BLSToExecutionChanges: changes}
		ds := st.BeaconState.(*deneb.BeaconStateView)
		lh, _ := ds.LatestExecutionPayloadHeader()
		lhr, _ := lh.Raw()
		wds, err := w.expectedWithdrawals(st.BeaconState)
		if err != nil {
			return nil, fmt.Errorf("expected withdrawals: %v", err)
		}
		if len(wds) > 0 {
			kinds |= kWithdrawals
		}
		b.ExecutionPayload = deneb.ExecutionPayload{ParentHash: lhr.BlockHash, PrevRandao: prevRandao, Timestamp: common.Timestamp(ts), BlockHash: blockHash, BlockNumber: view.Uint64View(w.payloadN), GasLimit: 30_000_000, Withdrawals: wds}
		if w.cfg.has("blobs") {
			for i := 0; i < w.rng.Intn(3); i++ {
				var c common.KZGCommitment
				binary.BigEndian.PutUint64(c[:8], slot<<8|uint64(i))
				c[0] = 0xc0
				b.BlobKZGCommitments = append(b.BlobKZGCommitments, c)
				kinds |= kBlobs
			}
		}
		kinds |= kPayload
		body = b
	}
	type htr interface {
		HashTreeRoot(spec *common.Spec, hFn tree.HashFn) common.Root
	}
	hdr.BodyRoot = body.(htr).HashTreeRoot(w.spec, tree.GetHashFn())
	env := &common.BeaconBlockEnvelope{ForkDigest: w.digestOfFork(fidx), BeaconBlockHeader: hdr, Body: body}
	// state root: run the block on a copy without result validation
	post, err := pre.copy()
	if err != nil {
		return nil, err
	}
	if slashedProposer || w.forgeSameSlot {
		// a block the slashed proposer signs all the same (see forgeBySlashedProposer): well formed in
		// every other respect; it declares the root of whatever zrnt makes of it, if anything
		if err := common.PostSlotTransition(ctx, w.spec, post.epc, post.st, env, false); err == nil {
			env.StateRoot = post.st.HashTreeRoot(tree.GetHashFn())
		}
		env.BlockRoot = env.BeaconBlockHeader.HashTreeRoot(tree.GetHashFn())
		propDom := domainFor(fork, w.gvr, common.DOMAIN_BEACON_PROPOSER, common.Epoch(epoch))
		env.Signature = w.keys.sign(pkey, signingRoot(env.BlockRoot, propDom))
		signed, err := beacon.EnvelopeToSignedBeaconBlock(env)
		if err != nil {
			return nil, err
		}
		var buf bytes.Buffer
		if err := signed.Serialize(w.spec, codec.NewEncodingWriter(&buf)); err != nil {
			return nil, err
		}
		return &blockRec{root: env.BlockRoot, parent: parent.root, slot: slot, env: env, signed: signed, bytes: buf.Bytes(), digest: env.ForkDigest, kinds: kinds}, nil
	}
	if err := common.PostSlotTransition(ctx, w.spec, post.epc, post.st, env, false); err != nil {
		refusal := fmt.Errorf("honest block refused at slot %d (fork %d, kinds %b): %v", slot, fidx, kinds, err)
		// zrnt cannot give this block its state root; if the MODEL accepts it, the block still exists
		// (with the model's root) as a base for byzantine variants
		if w.modelRoot != nil {
			if root, merr := w.modelRoot(pre, env); merr == nil {
				env.StateRoot = root
				env.BlockRoot = env.BeaconBlockHeader.HashTreeRoot(tree.GetHashFn())
				propDom := domainFor(fork, w.gvr, common.DOMAIN_BEACON_PROPOSER, common.Epoch(epoch))
				env.Signature = w.keys.sign(pkey, signingRoot(env.BlockRoot, propDom))
				if signed, serr := beacon.EnvelopeToSignedBeaconBlock(env); serr == nil {
					var buf bytes.Buffer
					if signed.Serialize(w.spec, codec.NewEncodingWriter(&buf)) == nil {
						orphan := &blockRec{root: env.BlockRoot, parent: parent.root, slot: slot, env: env, signed: signed, bytes: buf.Bytes(), digest: env.ForkDigest, kinds: kinds}
						return nil, &refusedHonest{refusal, orphan}
					}
				}
			}
		}
		return nil, refusal
	}
	env.StateRoot = post.st.HashTreeRoot(tree.GetHashFn())
	env.BlockRoot = env.BeaconBlockHeader.HashTreeRoot(tree.GetHashFn())
	propDom := domainFor(fork, w.gvr, common.DOMAIN_BEACON_PROPOSER, common.Epoch(epoch))
	env.Signature = w.keys.sign(pkey, signingRoot(env.BlockRoot, propDom))
	signed, err := beacon.EnvelopeToSignedBeaconBlock(env)
	if err != nil {
		return nil, err
	}
	var buf bytes.Buffer
	if err := signed.Serialize(w.spec, codec.NewEncodingWriter(&buf)); err != nil {
		return nil, fmt.Errorf("serialize block: %v", err)
	}
	rec := &blockRec{root: env.BlockRoot, parent: parent.root, slot: slot, env: env, signed: signed, bytes: buf.Bytes(), digest: env.ForkDigest, post: post, kinds: kinds}
	rec.postSSZ = serializeState(post.st)
	w.blocks[rec.root] = rec
	w.order = append(w.order, rec)
	for _, a := range picked {
		w.attIn[a] = append(w.attIn[a], rec.root)
	}
	return rec, nil
}

// forgeBySlashedProposer: the block the slot's proposer would have built, had it not been slashed -
// signed by it all the same. The block is in no store, and what the builder noted while building it
// (operations it believes included) is taken back.
func (w *World) forgeBySlashedProposer(parent *blockRec, slot uint64) (*blockRec, error) {
	cp := func(m map[int]bool) map[int]bool {
		o := make(map[int]bool, len(m))
		for k, v := range m {
			o[k] = v
		}
		return o
	}
	exited, slashedV, changedV := cp(w.exited), cp(w.slashedV), cp(w.changedV)
	held := make(map[*phase0.Attestation]uint64, len(w.heldUntil))
	for k, v := range w.heldUntil {
		held[k] = v
	}
	atts := append([]*phase0.Attestation(nil), w.atts...)
	payloadN, vote, votePeriod := w.payloadN, w.eth1Vote, w.eth1VotePeriod
	w.forgeSlashed = true
	blk, err := w.produce(parent, slot)
	w.forgeSlashed = false
	w.exited, w.slashedV, w.changedV, w.heldUntil, w.atts = exited, slashedV, changedV, held, atts
	w.payloadN, w.eth1Vote, w.eth1VotePeriod = payloadN, vote, votePeriod
	return blk, err
}

// forgeSecondBlockOfSlot: a second, otherwise well-formed block for the slot of `first`, built on the
// post-state of `first` itself (no slot processed in between) by the slot's proposer.
func (w *World) forgeSecondBlockOfSlot(first *blockRec) (*blockRec, error) {
	cp := func(m map[int]bool) map[int]bool {
		o := make(map[int]bool, len(m))
		for k, v := range m {
			o[k] = v
		}
		return o
	}
	exited, slashedV, changedV := cp(w.exited), cp(w.slashedV), cp(w.changedV)
	held := make(map[*phase0.Attestation]uint64, len(w.heldUntil))
	for k, v := range w.heldUntil {
		held[k] = v
	}
	atts := append([]*phase0.Attestation(nil), w.atts...)
	payloadN, vote, votePeriod := w.payloadN, w.eth1Vote, w.eth1VotePeriod
	w.forgeSameSlot = true
	blk, err := w.produce(first, first.slot)
	w.forgeSameSlot = false
	w.exited, w.slashedV, w.changedV, w.heldUntil, w.atts = exited, slashedV, changedV, held, atts
	w.payloadN, w.eth1Vote, w.eth1VotePeriod = payloadN, vote, votePeriod
	return blk, err
}

// refusedHonest: zrnt refused a block the harness built to be valid; orphan is that block with the
// state root computed by the model (it is in no store and has no zrnt post-state).
type refusedHonest struct {
	err    error
	orphan *blockRec
}

func (r *refusedHonest) Error() string { return r.err.Error() }

// syncPeriodOf: the sync committee period the slot lies in
func (w *World) syncPeriodOf(slot uint64) uint64 {
	return w.epochOf(slot) / uint64(w.spec.EPOCHS_PER_SYNC_COMMITTEE_PERIOD)
}

// notExiting: exit not initiated, and active for at least SHARD_COMMITTEE_PERIOD
func (w *World) notExiting(st common.BeaconState, v int, epoch uint64) bool {
	vals, _ := st.Validators()
	val, err := vals.Validator(common.ValidatorIndex(v))
	if err != nil {
		return false
	}
	e, _ := val.ExitEpoch()
	a, _ := val.ActivationEpoch()
	return uint64(e) == farFuture && epoch >= uint64(a)+uint64(w.spec.SHARD_COMMITTEE_PERIOD)
}

func (w *World) slashable(st common.BeaconState, v int, epoch uint64) bool {
	vals, _ := st.Validators()
	val, err := vals.Validator(common.ValidatorIndex(v))
	if err != nil {
		return false
	}
	sl, _ := val.Slashed()
	a, _ := val.ActivationEpoch()
	wd, _ := val.WithdrawableEpoch()
	return !sl && uint64(a) <= epoch && epoch < uint64(wd)
}

// onChain: is root an ancestor-or-equal of blk?
func (w *World) onChain(blk *blockRec, root common.Root) bool {
	for b := blk; b != nil; b = w.blocks[b.parent] {
		if b.root == root {
			return true
		}
		if b == w.genesis {
			break
		}
	}
	return false
}

// expectedWithdrawals: the harness's own get_expected_withdrawals (spec formula).
func (w *World) expectedWithdrawals(st common.BeaconState) (common.Withdrawals, error) {
	return w.withdrawalsOfSweep(st, 0)
}

// withdrawalsOfSweep: the withdrawals of a sweep over MAX_VALIDATORS_PER_WITHDRAWALS_SWEEP + extra
// validators (extra = 0: what the specification expects; other values build wrong payloads)
func (w *World) withdrawalsOfSweep(st common.BeaconState, extra int64) (common.Withdrawals, error) {
	type wst interface {
		NextWithdrawalIndex() (common.WithdrawalIndex, error)
		NextWithdrawalValidatorIndex() (common.ValidatorIndex, error)
	}
	ws, ok := st.(wst)
	if !ok {
		return nil, fmt.Errorf("state has no withdrawal cursors")
	}
	wi, _ := ws.NextWithdrawalIndex()
	vi, _ := ws.NextWithdrawalValidatorIndex()
	slot, _ := st.Slot()
	epoch := w.epochOf(uint64(slot))
	vals, _ := st.Validators()
	n, _ := vals.ValidatorCount()
	bals, _ := st.Balances()
	bound := n
	if sweep := int64(w.spec.MAX_VALIDATORS_PER_WITHDRAWALS_SWEEP) + extra; sweep >= 0 && uint64(sweep) < bound {
		bound = uint64(sweep)
	}
	var out common.Withdrawals
	for i := uint64(0); i < bound; i++ {
		v, _ := vals.Validator(vi)
		wc, _ := v.WithdrawalCredentials()
		bal, _ := bals.GetBalance(vi)
		eff, _ := v.EffectiveBalance()
		wde, _ := v.WithdrawableEpoch()
		has := wc[0] == common.ETH1_ADDRESS_WITHDRAWAL_PREFIX
		var addr common.Eth1Address
		copy(addr[:], wc[12:])
		if has && uint64(wde) <= epoch && bal > 0 {
			out = append(out, common.Withdrawal{Index: wi, ValidatorIndex: vi, Address: addr, Amount: bal})
			wi++
		} else if has && eff == w.spec.MAX_EFFECTIVE_BALANCE && bal > w.spec.MAX_EFFECTIVE_BALANCE {
			out = append(out, common.Withdrawal{Index: wi, ValidatorIndex: vi, Address: addr, Amount: bal - w.spec.MAX_EFFECTIVE_BALANCE})
			wi++
		}
		if uint64(len(out)) == uint64(w.spec.MAX_WITHDRAWALS_PER_PAYLOAD) {
			break
		}
		vi = common.ValidatorIndex((uint64(vi) + 1) % n)
	}
	return out, nil
}

// newDeposit: a simulated depositor submits to the eth1 contract.
func (w *World) newDeposit() {
	r := w.rng
	n := len(w.depDatas)
	var dd common.DepositData
	kind := r.Intn(10)
	switch {
	case kind < 5: // new validator, valid proof of possession
		ki := w.cfg.Validators + (n % 24)
		dd.Pubkey = w.keys.pub[ki]
		max := uint64(w.spec.MAX_EFFECTIVE_BALANCE)
		dd.Amount = common.Gwei([]uint64{max, max, max - 1_000_000_000, max / 2, max + 1_000_000_000, 1_000_000_000}[r.Intn(6)])
		dd.WithdrawalCredentials[0] = common.ETH1_ADDRESS_WITHDRAWAL_PREFIX
		dd.WithdrawalCredentials[31] = byte(ki)
		dom := computeDomain(common.DOMAIN_DEPOSIT, w.spec.GENESIS_FORK_VERSION, common.Root{})
		dd.Signature = w.keys.sign(ki, signingRoot(dd.MessageRoot(), dom))
	case kind < 7: // top-up of an existing validator (signature irrelevant)
		vi := r.Intn(w.cfg.Validators)
		dd.Pubkey = w.keys.pub[vi]
		dd.Amount = common.Gwei(uint64(r.Range(1, 3)) * 1_000_000_000)
	case kind < 9: // new pubkey with an invalid proof of possession: skipped by the spec
		ki := w.cfg.Validators + 20 + (n % 4)
		dd.Pubkey = w.keys.pub[ki]
		dd.Amount = w.spec.MAX_EFFECTIVE_BALANCE
		dd.Signature = w.keys.sign(ki, fnvRoot("bad-pop", uint64(n)))
	default: // undecodable pubkey bytes
		dd.Pubkey[0] = 0xff
		dd.Pubkey[5] = byte(n)
		dd.Amount = 32_000_000_000
	}
	w.depDatas = append(w.depDatas, dd)
	for len(w.deposits.leaves) < len(w.depDatas) {
		i := len(w.deposits.leaves)
		w.deposits.leaves = append(w.deposits.leaves, w.depDatas[i].HashTreeRoot(tree.GetHashFn()))
	}
	w.res.Stat("deposits_submitted", 1)
}
