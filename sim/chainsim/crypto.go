// Package chainsim: a simulated beacon network (validators, proposers, gossip-like
// delivery, partitions, crashes) running the real zrnt state transition on every
// node. Serves C01-C05, C07, C08, C13-C15, C18.
package chainsim

import (
	"crypto/sha256"
	"encoding/binary"

	blsu "github.com/protolambda/bls12-381-util"
	"github.com/protolambda/zrnt/eth2/beacon/common"
)

// --- the harness's OWN signing-domain arithmetic (not zrnt's) ---

func h2(a, b [32]byte) [32]byte {
	var buf [64]byte
	copy(buf[:32], a[:])
	copy(buf[32:], b[:])
	return sha256.Sum256(buf[:])
}

func forkDataRoot(version [4]byte, gvr [32]byte) [32]byte {
	var v [32]byte
	copy(v[:4], version[:])
	return h2(v, gvr)
}

func computeDomain(domainType [4]byte, version [4]byte, gvr [32]byte) (d [32]byte) {
	copy(d[:4], domainType[:])
	r := forkDataRoot(version, gvr)
	copy(d[4:], r[:28])
	return
}

func signingRoot(obj [32]byte, domain [32]byte) [32]byte { return h2(obj, domain) }

// domainFor: get_domain with the state's fork record.
func domainFor(fork common.Fork, gvr common.Root, domainType common.BLSDomainType, epoch common.Epoch) [32]byte {
	v := fork.CurrentVersion
	if epoch < fork.Epoch {
		v = fork.PreviousVersion
	}
	return computeDomain(domainType, v, gvr)
}

type keyring struct {
	sk  []*blsu.SecretKey
	pub []common.BLSPubkey
	raw [][32]byte
}

// deterministic keys: sha256("zv-key" || i) with the top bits masked into the field
func newKeyring(n int) *keyring {
	k := &keyring{}
	for i := 0; i < n; i++ {
		k.add(i)
	}
	return k
}

func (k *keyring) add(i int) {
	var seed [14]byte
	copy(seed[:6], "zv-key")
	binary.BigEndian.PutUint64(seed[6:], uint64(i))
	h := sha256.Sum256(seed[:])
	h[0] &= 0x3f
	var sk blsu.SecretKey
	if err := sk.Deserialize(&h); err != nil {
		panic(err)
	}
	pk, err := blsu.SkToPk(&sk)
	if err != nil {
		panic(err)
	}
	k.sk = append(k.sk, &sk)
	k.pub = append(k.pub, common.BLSPubkey(pk.Serialize()))
	k.raw = append(k.raw, h)
}

func (k *keyring) sign(i int, root [32]byte) common.BLSSignature {
	return common.BLSSignature(blsu.Sign(k.sk[i], root[:]).Serialize())
}

func (k *keyring) signAgg(idx []int, root [32]byte) common.BLSSignature {
	sigs := make([]*blsu.Signature, len(idx))
	for j, i := range idx {
		sigs[j] = blsu.Sign(k.sk[i], root[:])
	}
	agg, err := blsu.Aggregate(sigs)
	if err != nil {
		panic(err)
	}
	return common.BLSSignature(agg.Serialize())
}

// infinity signature (G2 point at infinity, compressed)
func infinitySig() (s common.BLSSignature) {
	s[0] = 0xc0
	return
}

// --- deposit tree (own code): incremental Merkle tree of depth 32 with length mix-in ---

const depositDepth = 32

var zeroHashes = func() [depositDepth + 1][32]byte {
	var z [depositDepth + 1][32]byte
	for i := 1; i <= depositDepth; i++ {
		z[i] = h2(z[i-1], z[i-1])
	}
	return z
}()

type depositTree struct {
	leaves [][32]byte
}

func (t *depositTree) layerNode(level int, index uint64, n uint64) [32]byte {
	// node at `level` (0 = leaves) covering leaves [index<<level, (index+1)<<level) of the first n leaves
	if index<<uint(level) >= n {
		return zeroHashes[level]
	}
	if level == 0 {
		return t.leaves[index]
	}
	return h2(t.layerNode(level-1, index*2, n), t.layerNode(level-1, index*2+1, n))
}

// root over the first n leaves, with the length mixed in
func (t *depositTree) root(n uint64) [32]byte {
	var l [32]byte
	binary.LittleEndian.PutUint64(l[:8], n)
	return h2(t.layerNode(depositDepth, 0, n), l)
}

// proof of leaf i in the tree of the first n leaves: depth+1 nodes (the last is the length)
func (t *depositTree) proof(i uint64, n uint64) [depositDepth + 1]common.Root {
	var p [depositDepth + 1]common.Root
	idx := i
	for level := 0; level < depositDepth; level++ {
		p[level] = t.layerNode(level, idx^1, n)
		idx >>= 1
	}
	var l [32]byte
	binary.LittleEndian.PutUint64(l[:8], n)
	p[depositDepth] = l
	return p
}
