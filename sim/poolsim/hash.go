package poolsim

import "github.com/protolambda/ztyp/tree"

func treeHashFn() tree.HashFn { return tree.GetHashFn() }
