// Package poolsim: the operation pools fed by arrival histories (duplicates,
// reordering, late and equivocating messages) against set/relation models. Serves C20.
package poolsim

import (
	"context"
	"encoding/binary"
	"encoding/json"
	"fmt"
	"reflect"
	"runtime"
	"sort"
	"strings"

	"github.com/protolambda/zrnt/eth2/beacon/altair"
	"github.com/protolambda/zrnt/eth2/beacon/common"
	"github.com/protolambda/zrnt/eth2/beacon/phase0"
	"github.com/protolambda/zrnt/eth2/configs"
	"github.com/protolambda/zrnt/eth2/pool"
	"github.com/protolambda/ztyp/view"

	"verif/sim/core"
)

type Op struct {
	K    string `json:"k"` // att search prune aslash pslash exit sync contrib reset
	Slot uint64 `json:"slot,omitempty"`
	Idx  uint64 `json:"idx,omitempty"`
	Root int    `json:"root,omitempty"`
	Bits []int  `json:"bits,omitempty"`
	Sig  int    `json:"sig,omitempty"`
	// search filters
	FSlot *uint64 `json:"fslot,omitempty"`
	FComm *uint64 `json:"fcomm,omitempty"`
	Epoch uint64  `json:"epoch,omitempty"`
	V     uint64  `json:"v,omitempty"`
	A     int     `json:"a,omitempty"`
	B     int     `json:"b,omitempty"`
	Sub   uint64  `json:"sub,omitempty"`
	Why   string  `json:"why,omitempty"`
}

type Config struct {
	Sizes     []int `json:"sizes"`      // committee sizes table
	MaxIdx    int   `json:"max_idx"`    // committees per slot
	FreshSync bool  `json:"fresh_sync"` // sync pool used without a warm-up Reset
}

var spec = configs.Minimal

func root(l int) (r common.Root) {
	binary.BigEndian.PutUint64(r[0:8], uint64(l)*0x9e3779b97f4a7c15+7)
	binary.BigEndian.PutUint64(r[24:32], uint64(l))
	return
}

func sig(n int) (s common.BLSSignature) {
	binary.BigEndian.PutUint64(s[0:8], uint64(n)*0xbf58476d1ce4e5b9+3)
	binary.BigEndian.PutUint64(s[88:96], uint64(n))
	return
}

func (c *Config) committee(slot, idx uint64) common.CommitteeIndices {
	spe := uint64(spec.SLOTS_PER_EPOCH)
	size := c.Sizes[int(slot*7+idx*3)%len(c.Sizes)]
	base := ((slot%spe)*uint64(c.MaxIdx) + idx) * 16
	out := make(common.CommitteeIndices, size)
	for i := range out {
		out[i] = common.ValidatorIndex(base + uint64(i))
	}
	return out
}

func attData(slot, idx uint64, rootLabel int) phase0.AttestationData {
	e := slot / uint64(spec.SLOTS_PER_EPOCH)
	src := uint64(0)
	if e > 0 {
		src = e - 1
	}
	return phase0.AttestationData{
		Slot: common.Slot(slot), Index: common.CommitteeIndex(idx), BeaconBlockRoot: root(rootLabel),
		Source: common.Checkpoint{Epoch: common.Epoch(src), Root: root(5000 + int(src))},
		Target: common.Checkpoint{Epoch: common.Epoch(e), Root: root(5000 + int(e))},
	}
}

func bitlist(size int, set []int) phase0.AttestationBits {
	b := make(phase0.AttestationBits, size/8+1)
	b[size/8] |= 1 << (uint(size) % 8) // delimiter
	for _, i := range set {
		if i < size {
			b[i/8] |= 1 << (uint(i) % 8)
		}
	}
	return b
}

// Generate: arrival history produced by voters behind a faulty transport
// (duplicates, reordering, late delivery), interleaved with queries and pruning.
func Generate(seed uint64, opt core.Options) (*Config, []Op) {
	rng := core.NewRng(seed)
	cfg := &Config{MaxIdx: rng.Range(1, 3), FreshSync: rng.Chance(1, 3)}
	for i := 0; i < 5; i++ {
		cfg.Sizes = append(cfg.Sizes, rng.Range(1, 16))
	}
	if rng.Chance(1, 6) { // committees whose bitlists span many bytes
		for i := range cfg.Sizes {
			cfg.Sizes[i] = rng.Range(60, 140)
		}
	}
	// validator indices and slots beyond one and two bytes in some runs
	vbase := []uint64{0, 0, 300, 70000}[rng.Intn(4)]
	slotBase := []uint64{0, 0, 70000}[rng.Intn(3)]
	faults := opt.Params["faults"] != "0"
	n := rng.Range(4, 50)
	if opt.Tier == "thorough" {
		n = rng.Range(4, 150)
	}
	spe := uint64(spec.SLOTS_PER_EPOCH)
	curSlot := uint64(rng.Range(0, 20)) + slotBase
	var ops []Op
	var sent []Op // message ops already sent (for duplicates / late re-delivery)
	sigN := 0
	syncSlot := curSlot
	w := []int{30, 25, 8, 4, 4, 4, 4, 8, 6, 5, 6}
	for i := range w {
		if rng.Chance(1, 5) {
			w[i] /= 4
		}
	}
	w[0]++
	for len(ops) < n {
		if rng.Chance(1, 6) {
			curSlot++
		}
		switch rng.Pick(w) {
		case 0: // single vote
			slot := curSlot
			if rng.Chance(1, 4) && slot > 0 {
				slot -= uint64(rng.Intn(int(min64(slot, 2*spe)) + 1))
			}
			idx := uint64(rng.Intn(cfg.MaxIdx))
			size := len(cfg.committee(slot, idx))
			sigN++
			op := Op{K: "att", Slot: slot, Idx: idx, Root: 1 + rng.Intn(3), Bits: []int{rng.Intn(size)}, Sig: sigN}
			ops = append(ops, op)
			sent = append(sent, op)
		case 1: // aggregate
			slot := curSlot
			if rng.Chance(1, 4) && slot > 0 {
				slot -= uint64(rng.Intn(int(min64(slot, 2*spe)) + 1))
			}
			idx := uint64(rng.Intn(cfg.MaxIdx))
			size := len(cfg.committee(slot, idx))
			var bits []int
			for b := 0; b < size; b++ {
				if rng.Chance(1, 2) {
					bits = append(bits, b)
				}
			}
			if len(bits) < 2 {
				bits = []int{0, size - 1}
				if size == 1 {
					bits = []int{0}
				}
			}
			sigN++
			op := Op{K: "att", Slot: slot, Idx: idx, Root: 1 + rng.Intn(3), Bits: bits, Sig: sigN}
			ops = append(ops, op)
			sent = append(sent, op)
		case 2: // duplicate / late re-delivery of an earlier message (transport fault)
			if faults && len(sent) > 0 {
				op := sent[rng.Intn(len(sent))]
				op.Why = "dup"
				ops = append(ops, op)
			}
		case 3: // empty bits
			if faults {
				sigN++
				ops = append(ops, Op{K: "att", Slot: curSlot, Idx: 0, Root: 1, Bits: []int{}, Sig: sigN, Why: "empty"})
			}
		case 4:
			o := Op{K: "search"}
			if rng.Bool() {
				s := curSlot - min64(curSlot, uint64(rng.Intn(3)))
				o.FSlot = &s
			}
			if rng.Bool() {
				c := uint64(rng.Intn(cfg.MaxIdx + 1))
				o.FComm = &c
			}
			ops = append(ops, o)
		case 5:
			e := curSlot / spe
			switch rng.Intn(4) {
			case 0:
				e++
			case 1:
				if e > 0 {
					e--
				}
			}
			ops = append(ops, Op{K: "prune", Epoch: e})
		case 6:
			a, b := 1+rng.Intn(4), 1+rng.Intn(4)
			ops = append(ops, Op{K: "aslash", A: a, B: b, V: uint64(rng.Intn(6)) + vbase})
		case 7:
			if rng.Bool() {
				ops = append(ops, Op{K: "pslash", V: uint64(rng.Intn(5)) + vbase, A: 1 + rng.Intn(3)})
			} else {
				ops = append(ops, Op{K: "exit", V: uint64(rng.Intn(5)) + vbase, Epoch: uint64(rng.Intn(3))})
			}
		case 8:
			slot := syncSlot + uint64(rng.Intn(5)) - min64(syncSlot, 2)
			sigN++
			op := Op{K: "sync", Slot: slot, Root: 1 + rng.Intn(2), V: uint64(rng.Intn(8)) + vbase, Sig: sigN}
			ops = append(ops, op)
		case 9:
			slot := syncSlot + uint64(rng.Intn(5)) - min64(syncSlot, 2)
			sigN++
			var bits []int
			for b := 0; b < int(spec.SYNC_COMMITTEE_SIZE)/4; b++ {
				if rng.Chance(1, 3) {
					bits = append(bits, b)
				}
			}
			ops = append(ops, Op{K: "contrib", Slot: slot, Root: 1 + rng.Intn(2), Sub: uint64(rng.Intn(4)), Bits: bits, Sig: sigN})
		case 10:
			switch rng.Intn(6) {
			case 0, 1, 2:
				syncSlot++
			case 3:
				if syncSlot > 0 {
					syncSlot--
				}
			case 4:
				syncSlot += uint64(rng.Range(2, 5))
			}
			ops = append(ops, Op{K: "reset", Slot: syncSlot})
		}
	}
	ops = append(ops, Op{K: "search"})
	return cfg, ops
}

func min64(a, b uint64) uint64 {
	if a < b {
		return a
	}
	return b
}

type aggRec struct {
	data   phase0.AttestationData
	bits   phase0.AttestationBits
	sig    common.BLSSignature
	pruned bool
}

type exec struct {
	cfg  *Config
	res  *core.Result
	step int
	log  core.LogHasher

	ap  *pool.AttestationPool
	asp *pool.AttesterSlashingPool
	psp *pool.ProposerSlashingPool
	vep *pool.VoluntaryExitPool
	sp  *pool.SyncCommitteePool

	aggs    []*aggRec
	singles map[[2]uint64]common.Root // (validator, epoch) -> data root
	aggVoters map[[2]uint64]bool      // (validator, epoch) took part in an accepted aggregate
	aggData   map[common.Root]bool    // data roots with an accepted aggregate
	minEp   uint64

	aslash []*phase0.AttesterSlashing
	pslash map[uint64]*phase0.ProposerSlashing
	exits  map[uint64]*phase0.SignedVoluntaryExit

	syncInit bool
	syncCur  uint64
	syncReq  map[uint64]map[uint64][]*altair.SyncCommitteeMessage // slot -> validator -> added (latest last)
	syncMay  map[uint64]map[uint64][]*altair.SyncCommitteeMessage
	conReq   map[uint64][]*altair.SyncCommitteeContribution
	conMay   map[uint64][]*altair.SyncCommitteeContribution
}

func (x *exec) viol(sig, detail string) { x.res.Violate("C20", "C20/"+sig, detail, x.step) }

type panicInfo struct{ val, frame string }

func guard(f func()) (p *panicInfo) {
	defer func() {
		if r := recover(); r != nil {
			fr := "?"
			pcs := make([]uintptr, 40)
			n := runtime.Callers(3, pcs)
			frames := runtime.CallersFrames(pcs[:n])
			for {
				f, more := frames.Next()
				if strings.Contains(f.Function, "zrnt/eth2/pool") {
					fr = f.Function[strings.LastIndex(f.Function, "/")+1:]
					break
				}
				if !more {
					break
				}
			}
			p = &panicInfo{fmt.Sprint(r), fr}
		}
	}()
	f()
	return nil
}

func (x *exec) panicked(p *panicInfo) {
	x.viol("panic/"+p.frame, p.val)
}

func (x *exec) searchAll(opts ...pool.AttSearchOption) ([]*phase0.Attestation, bool) {
	var out []*phase0.Attestation
	if p := guard(func() { out = x.ap.Search(opts...) }); p != nil {
		x.panicked(p)
		return nil, false
	}
	return out, true
}

func attKey(a *phase0.Attestation) string {
	return fmt.Sprintf("%x|%x|%x", a.Data.HashTreeRoot(treeHash), []byte(a.AggregationBits), a.Signature[:12])
}

func (x *exec) checkSearch(fslot, fcomm *uint64) bool {
	var opts []pool.AttSearchOption
	if fslot != nil {
		opts = append(opts, pool.WithSlot(common.Slot(*fslot)))
	}
	if fcomm != nil {
		opts = append(opts, pool.WithCommittee(common.CommitteeIndex(*fcomm)))
	}
	out, ok := x.searchAll(opts...)
	if !ok {
		return false
	}
	x.res.Stat("searches", 1)
	union := map[common.Root]phase0.AttestationBits{}
	for _, a := range out {
		if a == nil {
			x.viol("search/nil-item", "Search returned a nil attestation")
			return false
		}
		if fslot != nil && uint64(a.Data.Slot) != *fslot || fcomm != nil && uint64(a.Data.Index) != *fcomm {
			x.viol("search/filter-mismatch", fmt.Sprintf("returned slot %d index %d for filter slot=%v comm=%v", a.Data.Slot, a.Data.Index, deref(fslot), deref(fcomm)))
			return false
		}
		found, live := false, false
		for _, r := range x.aggs {
			if r.data == a.Data && string(r.bits) == string(a.AggregationBits) && r.sig == a.Signature {
				found = true
				if !r.pruned {
					live = true // (re-)added after the last prune that covered it
				}
			}
		}
		if found && !live {
			x.viol("prune/returned-after-prune", fmt.Sprintf("attestation slot %d target epoch %d returned although pruned at epoch %d", a.Data.Slot, a.Data.Target.Epoch, x.minEp+1))
			return false
		}
		if !found {
			x.viol("search/item-never-added", fmt.Sprintf("returned attestation slot %d index %d bits %x sig %x.. was never added (or was altered)", a.Data.Slot, a.Data.Index, []byte(a.AggregationBits), a.Signature[:6]))
			return false
		}
		dr := a.Data.HashTreeRoot(treeHash)
		if u, ok := union[dr]; ok {
			u.Or(a.AggregationBits)
		} else {
			union[dr] = a.AggregationBits.Copy()
		}
	}
	for _, r := range x.aggs {
		if r.pruned {
			continue
		}
		if fslot != nil && uint64(r.data.Slot) != *fslot || fcomm != nil && uint64(r.data.Index) != *fcomm {
			continue
		}
		u, ok := union[r.data.HashTreeRoot(treeHash)]
		covered := false
		if ok {
			covered, _ = u.Covers(r.bits)
		}
		if !covered {
			x.viol("search/stored-aggregate-not-returned", fmt.Sprintf("accepted aggregate slot %d index %d bits %x is not covered by the search result (filter slot=%v comm=%v)", r.data.Slot, r.data.Index, []byte(r.bits), deref(fslot), deref(fcomm)))
			return false
		}
	}
	return true
}

func deref(p *uint64) interface{} {
	if p == nil {
		return "-"
	}
	return *p
}

func (x *exec) doAtt(op *Op) bool {
	comm := x.cfg.committee(op.Slot, op.Idx)
	data := attData(op.Slot, op.Idx, op.Root)
	att := &phase0.Attestation{AggregationBits: bitlist(len(comm), op.Bits), Data: data, Signature: sig(op.Sig)}
	dr := data.HashTreeRoot(treeHash)
	ep := uint64(data.Target.Epoch)
	// is it an exact duplicate of an accepted aggregate?
	var dupOf *aggRec
	for _, r := range x.aggs {
		if !r.pruned && r.data == data && string(r.bits) == string(att.AggregationBits) && r.sig == att.Signature {
			dupOf = r
		}
	}
	var before []string
	if dupOf != nil {
		out, ok := x.searchAll()
		if !ok {
			return false
		}
		for _, a := range out {
			before = append(before, attKey(a))
		}
		sort.Strings(before)
	}
	var err error
	if p := guard(func() { err = x.ap.AddAttestation(context.Background(), att, comm) }); p != nil {
		x.panicked(p)
		return false
	}
	x.log.Add(fmt.Sprintf("att %d %d %d %v err=%v", op.Slot, op.Idx, op.Root, op.Bits, err != nil))
	x.res.Stat("att_adds", 1)
	switch {
	case len(op.Bits) == 0:
		return true // not well-formed: only the absence of a panic is required
	case len(op.Bits) == 1:
		v := uint64(comm[op.Bits[0]])
		key := [2]uint64{v, ep}
		if prev, ok := x.singles[key]; ok {
			if prev == dr {
				if err != nil {
					x.viol("add/duplicate-single-not-absorbed", fmt.Sprintf("validator %d epoch %d same data: %v", v, ep, err))
					return false
				}
			} else if err == nil {
				x.viol("add/double-vote-not-reported", fmt.Sprintf("validator %d voted twice in epoch %d for different data, second vote accepted silently", v, ep))
				return false
			}
		} else if err == nil {
			x.singles[key] = dr
		}
	default:
		if dupOf != nil {
			x.res.Stat("fault_duplicate_delivery", 1)
			if err != nil {
				x.viol("add/duplicate-aggregate-not-absorbed", fmt.Sprintf("exact duplicate of an accepted aggregate returned %v", err))
				return false
			}
			out, ok := x.searchAll()
			if !ok {
				return false
			}
			var after []string
			for _, a := range out {
				after = append(after, attKey(a))
			}
			sort.Strings(after)
			if !reflect.DeepEqual(before, after) {
				x.viol("add/duplicate-aggregate-changed-pool", fmt.Sprintf("search result changed from %d to %d items after an exact duplicate", len(before), len(after)))
				return false
			}
		} else {
			// an aggregate for data the pool has no aggregate for yet, ALL of whose participants
			// already took part in accepted aggregates of the same target epoch (necessarily for
			// other data): every one of its votes is a conflicting second vote and must be reported
			allVoted := !x.aggData[dr]
			for _, pos := range op.Bits {
				if !x.aggVoters[[2]uint64{uint64(comm[pos]), ep}] {
					allVoted = false
				}
			}
			if allVoted && err == nil {
				x.viol("add/double-vote-aggregate-not-reported", fmt.Sprintf("aggregate for new data (slot %d index %d root %d): all %d participants already voted for other data in epoch %d, yet it was accepted silently", op.Slot, op.Idx, op.Root, len(op.Bits), ep))
				return false
			}
			if err == nil {
				x.aggs = append(x.aggs, &aggRec{data: data, bits: att.AggregationBits.Copy(), sig: att.Signature})
				x.aggData[dr] = true
				for _, pos := range op.Bits {
					x.aggVoters[[2]uint64{uint64(comm[pos]), ep}] = true
				}
				x.res.Stat("aggregates_accepted", 1)
			} else {
				x.res.Stat("aggregates_refused", 1)
			}
		}
	}
	return true
}

func indexed(indices []uint64, slot uint64, rootLabel int, sigN int) phase0.IndexedAttestation {
	ci := make(common.CommitteeIndices, len(indices))
	for i, v := range indices {
		ci[i] = common.ValidatorIndex(v)
	}
	return phase0.IndexedAttestation{AttestingIndices: ci, Data: attData(slot, 0, rootLabel), Signature: sig(sigN)}
}

func (x *exec) doSlashingsAndExits(op *Op) bool {
	ctx := context.Background()
	switch op.K {
	case "aslash":
		sl := &phase0.AttesterSlashing{
			Attestation1: indexed([]uint64{op.V, op.V + 1, op.V + 3}, 3, op.A, 9000+op.A),
			Attestation2: indexed([]uint64{op.V, op.V + 2}, 3, 10+op.B, 9100+op.B),
		}
		var err error
		if p := guard(func() { err = x.asp.AddAttesterSlashing(ctx, sl) }); p != nil {
			x.panicked(p)
			return false
		}
		dup := false
		for _, o := range x.aslash {
			if reflect.DeepEqual(o, sl) {
				dup = true
			}
		}
		if err == nil && !dup {
			x.aslash = append(x.aslash, sl)
		}
		var all []*phase0.AttesterSlashing
		if p := guard(func() { all = x.asp.All() }); p != nil {
			x.panicked(p)
			return false
		}
		if len(all) != len(x.aslash) {
			x.viol("slashings/all-count", fmt.Sprintf("attester slashing pool returns %d items, %d distinct accepted", len(all), len(x.aslash)))
			return false
		}
		for _, want := range x.aslash {
			ok := false
			for _, got := range all {
				if reflect.DeepEqual(got, want) {
					ok = true
				}
			}
			if !ok {
				x.viol("slashings/accepted-not-returned", "an accepted attester slashing is missing from All()")
				return false
			}
		}
	case "pslash":
		h := func(l int) common.SignedBeaconBlockHeader {
			return common.SignedBeaconBlockHeader{Message: common.BeaconBlockHeader{Slot: 5, ProposerIndex: common.ValidatorIndex(op.V), ParentRoot: root(l), StateRoot: root(l + 1), BodyRoot: root(l + 2)}, Signature: sig(9200 + l)}
		}
		sl := &phase0.ProposerSlashing{SignedHeader1: h(op.A), SignedHeader2: h(op.A + 10)}
		var err error
		if p := guard(func() { err = x.psp.AddProposerSlashing(ctx, sl) }); p != nil {
			x.panicked(p)
			return false
		}
		if _, have := x.pslash[op.V]; !have && err == nil {
			x.pslash[op.V] = sl
		} else if have && err == nil && !reflect.DeepEqual(x.pslash[op.V], sl) {
			x.pslash[op.V] = nil // replaced silently: either may be returned
		}
		var all []*phase0.ProposerSlashing
		if p := guard(func() { all = x.psp.All() }); p != nil {
			x.panicked(p)
			return false
		}
		if len(all) != len(x.pslash) {
			x.viol("slashings/all-count", fmt.Sprintf("proposer slashing pool returns %d items, %d proposers accepted", len(all), len(x.pslash)))
			return false
		}
		for v, want := range x.pslash {
			ok := want == nil
			for _, got := range all {
				if want != nil && reflect.DeepEqual(got, want) {
					ok = true
				}
			}
			if !ok {
				x.viol("slashings/accepted-not-returned", fmt.Sprintf("accepted proposer slashing for %d missing or altered in All()", v))
				return false
			}
		}
	case "exit":
		ex := &phase0.SignedVoluntaryExit{Message: phase0.VoluntaryExit{Epoch: common.Epoch(op.Epoch), ValidatorIndex: common.ValidatorIndex(op.V)}, Signature: sig(9300 + int(op.V)*7 + int(op.Epoch))}
		var err error
		if p := guard(func() { err = x.vep.AddVoluntaryExit(ctx, ex) }); p != nil {
			x.panicked(p)
			return false
		}
		if _, have := x.exits[op.V]; !have && err == nil {
			x.exits[op.V] = ex
		}
		var all []*phase0.SignedVoluntaryExit
		if p := guard(func() { all = x.vep.All() }); p != nil {
			x.panicked(p)
			return false
		}
		if len(all) != len(x.exits) {
			x.viol("exits/all-count", fmt.Sprintf("exit pool returns %d items, %d validators accepted", len(all), len(x.exits)))
			return false
		}
		for v, want := range x.exits {
			ok := false
			for _, got := range all {
				if reflect.DeepEqual(got, want) {
					ok = true
				}
			}
			if !ok {
				x.viol("exits/accepted-not-returned", fmt.Sprintf("accepted exit of validator %d missing or altered in All()", v))
				return false
			}
		}
	}
	return true
}

func inWindow(cur, slot uint64) bool { return slot+1 == cur || slot == cur || slot == cur+1 }

func (x *exec) checkSyncView() bool {
	var v pool.VerifSyncPoolView
	if p := guard(func() { v = x.sp.VerifView() }); p != nil {
		x.panicked(p)
		return false
	}
	if !x.syncInit {
		return true
	}
	if uint64(v.CurrentSlot) != x.syncCur {
		x.viol("sync/current-slot", fmt.Sprintf("pool at slot %d, expected %d", v.CurrentSlot, x.syncCur))
		return false
	}
	type part struct {
		slot uint64
		m    pool.SyncCommitteeMessages
		c    pool.SyncCommitteeContributions
		ok   bool
	}
	parts := []part{{x.syncCur - 1, v.PrevMsgs, v.PrevContribs, x.syncCur > 0}, {x.syncCur, v.CurrentMsgs, v.CurrentContribs, true}, {x.syncCur + 1, v.NextMsgs, v.NextContribs, true}}
	for _, pt := range parts {
		if !pt.ok {
			continue
		}
		req, may := x.syncReq[pt.slot], x.syncMay[pt.slot]
		for val, got := range pt.m {
			okItem := false
			for _, cand := range append(append([]*altair.SyncCommitteeMessage{}, req[uint64(val)]...), may[uint64(val)]...) {
				if got != nil && *got == *cand {
					okItem = true
				}
			}
			if !okItem {
				x.viol("sync/window-holds-foreign-message", fmt.Sprintf("window slot %d holds a message for validator %d that was not added for that slot", pt.slot, val))
				return false
			}
		}
		for val, cands := range req {
			got := pt.m[common.ValidatorIndex(val)]
			okItem := false
			for _, cand := range cands {
				if got != nil && *got == *cand {
					okItem = true
				}
			}
			if !okItem {
				x.viol("sync/message-lost", fmt.Sprintf("message of validator %d for slot %d (pool at slot %d) is not in the three-slot window", val, pt.slot, x.syncCur))
				return false
			}
		}
		// the window's query: the messages of the given members for the given root, in member order;
		// members without a message (most of any committee, most of the time) are simply absent
		{
			maxV, minV := uint64(0), ^uint64(0)
			for val := range pt.m {
				if uint64(val) > maxV {
					maxV = uint64(val)
				}
				if uint64(val) < minV {
					minV = uint64(val)
				}
			}
			var rt common.Root
			if m := pt.m[common.ValidatorIndex(minV)]; m != nil {
				rt = m.BeaconBlockRoot
			}
			members := make([]common.ValidatorIndex, 0, maxV+2)
			for vi := uint64(0); vi <= maxV+1 && vi < 4096; vi++ {
				members = append(members, common.ValidatorIndex(vi))
			}
			var got []*altair.SyncCommitteeMessage
			if p := guard(func() { got = pt.m.Select(rt, members) }); p != nil {
				x.panicked(p)
				return false
			}
			x.res.Stat("sync_selects", 1)
			var want []*altair.SyncCommitteeMessage
			for _, vi := range members {
				if m := pt.m[vi]; m != nil && m.BeaconBlockRoot == rt {
					want = append(want, m)
				}
			}
			same := len(got) == len(want)
			for i := 0; same && i < len(got); i++ {
				same = got[i] == want[i]
			}
			if !same {
				x.viol("sync/select", fmt.Sprintf("window slot %d: Select(root %x.., %d members) returns %d messages, %d stored messages of those members vote for that root", pt.slot, rt[:4], len(members), len(got), len(want)))
				return false
			}
		}
		// contributions: multiset per (root, subnet)
		count := 0
		for _, subs := range pt.c {
			for _, l := range subs {
				count += len(l)
			}
		}
		reqC, mayC := x.conReq[pt.slot], x.conMay[pt.slot]
		if count < len(reqC) || count > len(reqC)+len(mayC) {
			x.viol("sync/contribution-count", fmt.Sprintf("window slot %d holds %d contributions, %d were accepted for it", pt.slot, count, len(reqC)))
			return false
		}
		for _, c := range reqC {
			found := false
			for _, got := range pt.c[c.BeaconBlockRoot][uint64(c.SubcommitteeIndex)] {
				if got != nil && reflect.DeepEqual(got.AggregationBits, c.AggregationBits) && got.Signature == c.Signature {
					found = true
				}
			}
			if !found {
				x.viol("sync/contribution-lost", fmt.Sprintf("contribution subnet %d for slot %d (pool at slot %d) is not in the window", c.SubcommitteeIndex, pt.slot, x.syncCur))
				return false
			}
		}
	}
	return true
}

func (x *exec) doSync(op *Op) bool {
	ctx := context.Background()
	switch op.K {
	case "sync":
		msg := &altair.SyncCommitteeMessage{Slot: common.Slot(op.Slot), BeaconBlockRoot: root(op.Root), ValidatorIndex: common.ValidatorIndex(op.V), Signature: sig(op.Sig)}
		var err error
		if p := guard(func() { err = x.sp.AddSyncCommitteeMessage(ctx, msg) }); p != nil {
			x.panicked(p)
			return false
		}
		x.res.Stat("sync_adds", 1)
		tgt := x.syncMay
		if x.syncInit {
			in := inWindow(x.syncCur, op.Slot)
			if in && err != nil {
				x.viol("sync/in-window-refused", fmt.Sprintf("message for slot %d refused while the pool is at slot %d: %v", op.Slot, x.syncCur, err))
				return false
			}
			if !in && err == nil {
				x.viol("sync/out-of-window-accepted", fmt.Sprintf("message for slot %d accepted while the pool is at slot %d", op.Slot, x.syncCur))
				return false
			}
			tgt = x.syncReq
		}
		if err == nil {
			if tgt[op.Slot] == nil {
				tgt[op.Slot] = map[uint64][]*altair.SyncCommitteeMessage{}
			}
			if x.syncInit {
				// the latest message of a validator for a slot replaces earlier ones; earlier ones stay allowed
				for _, old := range tgt[op.Slot][op.V] {
					if x.syncMay[op.Slot] == nil {
						x.syncMay[op.Slot] = map[uint64][]*altair.SyncCommitteeMessage{}
					}
					x.syncMay[op.Slot][op.V] = append(x.syncMay[op.Slot][op.V], old)
				}
				tgt[op.Slot][op.V] = []*altair.SyncCommitteeMessage{msg}
			} else {
				tgt[op.Slot][op.V] = append(tgt[op.Slot][op.V], msg)
			}
		}
	case "contrib":
		bits := make(altair.SyncCommitteeSubnetBits, (int(spec.SYNC_COMMITTEE_SIZE)/4+7)/8)
		for _, b := range op.Bits {
			bits[b/8] |= 1 << (uint(b) % 8)
		}
		c := &altair.SyncCommitteeContribution{Slot: common.Slot(op.Slot), BeaconBlockRoot: root(op.Root), SubcommitteeIndex: view.Uint64View(op.Sub), AggregationBits: bits, Signature: sig(op.Sig)}
		var err error
		if p := guard(func() { err = x.sp.AddSyncCommitteeContribution(ctx, c) }); p != nil {
			x.panicked(p)
			return false
		}
		if x.syncInit {
			in := inWindow(x.syncCur, op.Slot)
			if in != (err == nil) {
				x.viol("sync/window-verdict", fmt.Sprintf("contribution for slot %d, pool at slot %d: err=%v", op.Slot, x.syncCur, err))
				return false
			}
			if err == nil {
				x.conReq[op.Slot] = append(x.conReq[op.Slot], c)
			}
		} else if err == nil {
			x.conMay[op.Slot] = append(x.conMay[op.Slot], c)
		}
	case "reset":
		if p := guard(func() { x.sp.Reset(common.Slot(op.Slot)) }); p != nil {
			x.panicked(p)
			return false
		}
		x.res.Stat("sync_resets", 1)
		if !x.syncInit {
			// what was added before the first Reset may or may not survive it
			x.syncInit = true
		} else {
			d := int64(op.Slot) - int64(x.syncCur)
			if d > 1 || d < -1 {
				// a jump: overlapping slots may be kept or cleared
				for s, m := range x.syncReq {
					if x.syncMay[s] == nil {
						x.syncMay[s] = map[uint64][]*altair.SyncCommitteeMessage{}
					}
					for v, l := range m {
						x.syncMay[s][v] = append(x.syncMay[s][v], l...)
					}
				}
				x.syncReq = map[uint64]map[uint64][]*altair.SyncCommitteeMessage{}
				for s, l := range x.conReq {
					x.conMay[s] = append(x.conMay[s], l...)
				}
				x.conReq = map[uint64][]*altair.SyncCommitteeContribution{}
			}
		}
		x.syncCur = op.Slot
		// anything outside the new window is gone for good
		for _, mm := range []map[uint64]map[uint64][]*altair.SyncCommitteeMessage{x.syncReq, x.syncMay} {
			for s := range mm {
				if !inWindow(x.syncCur, s) {
					delete(mm, s)
				}
			}
		}
		for _, mm := range []map[uint64][]*altair.SyncCommitteeContribution{x.conReq, x.conMay} {
			for s := range mm {
				if !inWindow(x.syncCur, s) {
					delete(mm, s)
				}
			}
		}
	}
	return x.checkSyncView()
}

var treeHash = treeHashFn()

func Execute(cfg *Config, ops []Op, opt core.Options) *core.Result {
	res := &core.Result{Engine: "poolsim"}
	cj, _ := json.Marshal(cfg)
	sj, _ := json.Marshal(ops)
	res.Config, res.Script = cj, sj
	x := &exec{cfg: cfg, res: res, singles: map[[2]uint64]common.Root{}, aggVoters: map[[2]uint64]bool{}, aggData: map[common.Root]bool{}, pslash: map[uint64]*phase0.ProposerSlashing{}, exits: map[uint64]*phase0.SignedVoluntaryExit{},
		syncReq: map[uint64]map[uint64][]*altair.SyncCommitteeMessage{}, syncMay: map[uint64]map[uint64][]*altair.SyncCommitteeMessage{},
		conReq: map[uint64][]*altair.SyncCommitteeContribution{}, conMay: map[uint64][]*altair.SyncCommitteeContribution{}}
	x.ap = pool.NewAttestationPool(spec)
	x.asp = pool.NewAttesterSlashingPool(spec)
	x.psp = pool.NewProposerSlashingPool(spec)
	x.vep = pool.NewVoluntaryExitPool(spec)
	x.sp = pool.NewSyncCommitteePool(spec)
	if !cfg.FreshSync {
		x.sp.Reset(0)
		x.syncInit = true
	}
	kinds := uint64(0)
	for i := range ops {
		op := &ops[i]
		x.step = i
		res.Stat("events", 1)
		ok := true
		switch op.K {
		case "att":
			ok = x.doAtt(op)
			if ok && len(res.Violations) == 0 {
				ok = x.checkSearch(nil, nil)
			}
		case "search":
			ok = x.checkSearch(op.FSlot, op.FComm)
		case "prune":
			if p := guard(func() { x.ap.Prune(common.Epoch(op.Epoch)) }); p != nil {
				x.panicked(p)
				ok = false
				break
			}
			res.Stat("prunes", 1)
			min := op.Epoch
			if min > 0 {
				min--
			}
			if min > x.minEp {
				x.minEp = min
			}
			for _, r := range x.aggs {
				if uint64(r.data.Target.Epoch) < min {
					r.pruned = true
				}
			}
			for k := range x.singles {
				if k[1] < min {
					delete(x.singles, k)
				}
			}
			for k := range x.aggVoters {
				if k[1] < min {
					delete(x.aggVoters, k)
				}
			}
			for _, r := range x.aggs {
				if uint64(r.data.Target.Epoch) < min {
					delete(x.aggData, r.data.HashTreeRoot(treeHash))
				}
			}
			ok = x.checkSearch(nil, nil)
		case "aslash", "pslash", "exit":
			ok = x.doSlashingsAndExits(op)
		case "sync", "contrib", "reset":
			ok = x.doSync(op)
		}
		if !ok || len(res.Violations) > 0 {
			break
		}
		kinds = kinds*31 + core.HashString(op.K)%97
		res.States = append(res.States, kinds^uint64(len(x.aggs))<<40)
	}
	if len(x.aggs) > 1 {
		res.Nontrivial = true
	}
	k := len(ops)
	if k > 10 {
		k = 10
	}
	res.Sample, _ = json.Marshal(map[string]interface{}{"config": cfg, "first_ops": ops[:k], "total_ops": len(ops)})
	res.LogHash = x.log.Sum()
	return res
}

type Engine struct{}

func init() { core.Register(Engine{}) }

func (Engine) Name() string { return "poolsim" }
func (Engine) Run(seed uint64, opt core.Options) *core.Result {
	cfg, ops := Generate(seed, opt)
	r := Execute(cfg, ops, opt)
	r.Seed = seed
	return r
}
func (e Engine) Replay(rf *core.ReplayFile, opt core.Options) *core.Result {
	if rf.Script == nil {
		return e.Run(rf.Seed, opt)
	}
	var cfg Config
	var ops []Op
	if json.Unmarshal(rf.Config, &cfg) != nil || json.Unmarshal(rf.Script, &ops) != nil {
		return &core.Result{Engine: "poolsim", Harness: "bad replay file"}
	}
	r := Execute(&cfg, ops, opt)
	r.Seed = rf.Seed
	return r
}
func (Engine) Generate(seed uint64, opt core.Options) *core.ReplayFile {
	cfg, ops := Generate(seed, opt)
	cj, _ := json.Marshal(cfg)
	sj, _ := json.Marshal(ops)
	return &core.ReplayFile{Engine: "poolsim", Seed: seed, Config: cj, Script: sj}
}
func (Engine) Units(rf *core.ReplayFile) int {
	var ops []json.RawMessage
	json.Unmarshal(rf.Script, &ops)
	return len(ops)
}
func (Engine) Subset(rf *core.ReplayFile, keep []bool) *core.ReplayFile {
	var ops []json.RawMessage
	json.Unmarshal(rf.Script, &ops)
	out := []json.RawMessage{}
	for i, o := range ops {
		if i < len(keep) && keep[i] {
			out = append(out, o)
		}
	}
	sj, _ := json.Marshal(out)
	c := *rf
	c.Script = sj
	return &c
}
func (Engine) CrashViolation(stderr string, opt core.Options) (core.Violation, bool) {
	if strings.Contains(stderr, "concurrent map") {
		return core.Violation{Property: "C20", Signature: "C20/fatal/concurrent-map", Detail: "fatal runtime error"}, true
	}
	if strings.Contains(stderr, "all goroutines are asleep") {
		// a single caller, no other goroutine: a pool call that never returns (a lock left held by an
		// earlier call); the pool does not keep what it is given if it cannot be given anything any more
		return core.Violation{Property: "C20", Signature: "C20/call-never-returns", Detail: "a pool call blocks forever (the Go runtime reports that every goroutine is asleep): a lock was left held by an earlier call"}, true
	}
	return core.Violation{}, false
}
func (Engine) Describe() core.EngineInfo {
	return core.EngineInfo{
		Real:  []string{"pool.AttestationPool", "pool.AttesterSlashingPool", "pool.ProposerSlashingPool", "pool.VoluntaryExitPool", "pool.SyncCommitteePool", "phase0.AttestationBits"},
		Stubs: []string{"committee table (synthetic, disjoint per epoch)", "voters and transport (arrival order, duplicates, late delivery)", "signatures (unique labels, never verified by the pools)"},
		Rule:  "distinct = hash of the op-kind sequence so far combined with the number of accepted aggregates; non-trivial run = at least two accepted aggregates",
	}
}
