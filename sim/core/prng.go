// Package core: seeded PRNG, run records, driver, minimiser, evidence.
package core

// Rng is xoshiro256** seeded through splitmix64. It is the ONLY choice source of
// every engine: one seed is one exactly repeatable run. Own implementation so the
// stream does not depend on the Go release.
type Rng struct {
	s     [4]uint64
	Draws uint64
}

func splitmix(x *uint64) uint64 {
	*x += 0x9e3779b97f4a7c15
	z := *x
	z = (z ^ (z >> 30)) * 0xbf58476d1ce4e5b9
	z = (z ^ (z >> 27)) * 0x94d049bb133111eb
	return z ^ (z >> 31)
}

// Derive gives the seed of worker/run k of a batch.
func Derive(seed uint64, k uint64) uint64 {
	x := seed ^ (k * 0xd1342543de82ef95)
	splitmix(&x)
	return splitmix(&x)
}

func NewRng(seed uint64) *Rng {
	r := &Rng{}
	x := seed
	for i := range r.s {
		r.s[i] = splitmix(&x)
	}
	return r
}

func rotl(x uint64, k uint) uint64 { return (x << k) | (x >> (64 - k)) }

func (r *Rng) U64() uint64 {
	r.Draws++
	res := rotl(r.s[1]*5, 7) * 9
	t := r.s[1] << 17
	r.s[2] ^= r.s[0]
	r.s[3] ^= r.s[1]
	r.s[1] ^= r.s[2]
	r.s[0] ^= r.s[3]
	r.s[2] ^= t
	r.s[3] = rotl(r.s[3], 45)
	return res
}

// Intn returns a value in [0,n). n must be > 0.
func (r *Rng) Intn(n int) int {
	if n <= 0 {
		panic("Intn: n <= 0")
	}
	return int(r.U64() % uint64(n))
}

// Range returns a value in [lo,hi] inclusive.
func (r *Rng) Range(lo, hi int) int {
	if hi < lo {
		panic("Range: hi < lo")
	}
	return lo + r.Intn(hi-lo+1)
}

// Chance is true with probability num/den.
func (r *Rng) Chance(num, den int) bool { return r.Intn(den) < num }

func (r *Rng) Bool() bool { return r.U64()&1 == 1 }

// Pick returns an index according to integer weights.
func (r *Rng) Pick(weights []int) int {
	tot := 0
	for _, w := range weights {
		tot += w
	}
	if tot <= 0 {
		panic("Pick: no weight")
	}
	x := r.Intn(tot)
	for i, w := range weights {
		if x < w {
			return i
		}
		x -= w
	}
	return len(weights) - 1
}

// Perm returns a permutation of 0..n-1.
func (r *Rng) Perm(n int) []int {
	p := make([]int, n)
	for i := range p {
		p[i] = i
	}
	for i := n - 1; i > 0; i-- {
		j := r.Intn(i + 1)
		p[i], p[j] = p[j], p[i]
	}
	return p
}

// Fork derives an independent stream (used so that optional sub-generators do not
// shift the main stream when switched off).
func (r *Rng) Fork() *Rng { return NewRng(r.U64()) }
