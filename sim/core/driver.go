package core

import (
	"bufio"
	"bytes"
	"encoding/json"
	"fmt"
	"io"
	"os"
	"os/exec"
	"path/filepath"
	"sort"
	"strings"
	"sync"
	"sync/atomic"
	"time"
)

// Batch is one (engine, options, time budget) unit of a check.
type Batch struct {
	Engine  string
	Opt     Options
	Seconds float64 // wall budget for handing out seeds
	MaxRuns int     // optional cap (0 = none)
	Label   string
}

type CheckSpec struct {
	Property string
	Tier     string
	Seed     uint64
	Level    string // evidence level
	Batches  []Batch
	Workers  int
	VerifDir string
	// GOMAXPROCS for workers ("" = 1)
	WorkerProcs string
	Assumptions []string
}

type batchAgg struct {
	runs, nontrivial int64
	stats            map[string]int64
	states           map[uint64]struct{}
	simMs            int64
	samples          []json.RawMessage
	viol             map[string]*violAgg // by signature
	harness          []string
	wall             float64
}

type violAgg struct {
	v     Violation
	count int
	first *Result
}

type KnownFinding struct {
	ID        string `json:"id"`
	Property  string `json:"property"`
	Signature string `json:"signature"`
	Status    string `json:"status"` // open | fixed
	Commit    string `json:"commit,omitempty"`
	What      string `json:"what"`
	Replay    string `json:"replay,omitempty"` // path relative to /verif
}

func LoadKnown(verifDir string) ([]KnownFinding, error) {
	b, err := os.ReadFile(filepath.Join(verifDir, "known_findings.json"))
	if err != nil {
		if os.IsNotExist(err) {
			return nil, nil
		}
		return nil, err
	}
	var k []KnownFinding
	if err := json.Unmarshal(b, &k); err != nil {
		return nil, err
	}
	return k, nil
}

// runWatchdog bounds one simulated run (wall clock; harness condition only).
var runWatchdog = 300 * time.Second

type workerMsg struct {
	Kind   string  `json:"k"` // begin | end
	Seed   uint64  `json:"seed"`
	Result *Result `json:"r,omitempty"`
}

// WorkerMain is the loop of a worker process: read "seed\n" from stdin, run, report.
func WorkerMain(engine string, opt Options) int {
	e := Lookup(engine)
	if e == nil {
		fmt.Fprintf(os.Stderr, "unknown engine %s\n", engine)
		return 2
	}
	in := bufio.NewScanner(os.Stdin)
	out := bufio.NewWriter(os.Stdout)
	enc := json.NewEncoder(out)
	for in.Scan() {
		var seed uint64
		if _, err := fmt.Sscanf(in.Text(), "%d", &seed); err != nil {
			continue
		}
		enc.Encode(workerMsg{Kind: "begin", Seed: seed})
		out.Flush()
		r := e.Run(seed, opt)
		enc.Encode(workerMsg{Kind: "end", Seed: seed, Result: r})
		out.Flush()
	}
	return 0
}

type tailBuf struct {
	mu  sync.Mutex
	buf []byte
}

func (t *tailBuf) Write(p []byte) (int, error) {
	t.mu.Lock()
	defer t.mu.Unlock()
	t.buf = append(t.buf, p...)
	if len(t.buf) > 1<<16 {
		t.buf = t.buf[len(t.buf)-(1<<16):]
	}
	return len(p), nil
}
func (t *tailBuf) String() string { t.mu.Lock(); defer t.mu.Unlock(); return string(t.buf) }
func (t *tailBuf) Head(n int) string {
	s := t.String()
	if len(s) > n {
		return s[:n]
	}
	return s
}

func selfExe() string {
	p, err := os.Executable()
	if err != nil {
		return os.Args[0]
	}
	return p
}

func runBatch(cs *CheckSpec, b Batch, batchIdx int) *batchAgg {
	agg := &batchAgg{stats: map[string]int64{}, states: map[uint64]struct{}{}, viol: map[string]*violAgg{}}
	e := Lookup(b.Engine)
	start := time.Now()
	deadline := start.Add(time.Duration(b.Seconds * float64(time.Second)))
	var mu sync.Mutex
	var next uint64
	nextSeed := func() (uint64, bool) {
		mu.Lock()
		defer mu.Unlock()
		if time.Now().After(deadline) {
			return 0, false
		}
		if b.MaxRuns > 0 && int(next) >= b.MaxRuns {
			return 0, false
		}
		k := next
		next++
		return Derive(cs.Seed^uint64(batchIdx+1)*0x9e3779b97f4a7c15, k), true
	}
	absorb := func(r *Result) {
		mu.Lock()
		defer mu.Unlock()
		agg.runs++
		if r.Nontrivial {
			agg.nontrivial++
		}
		for k, v := range r.Stats {
			agg.stats[k] += v
		}
		for _, s := range r.States {
			agg.states[s] = struct{}{}
		}
		agg.simMs += r.SimTimeMs
		if r.Harness != "" {
			agg.harness = append(agg.harness, fmt.Sprintf("seed %d: %s", r.Seed, r.Harness))
		}
		if len(agg.samples) < 3 && r.Sample != nil {
			agg.samples = append(agg.samples, r.Sample)
		}
		for _, v := range r.Violations {
			key := v.Property + "|" + v.Signature
			va := agg.viol[key]
			if va == nil {
				va = &violAgg{v: v, first: r}
				agg.viol[key] = va
			}
			va.count++
		}
	}
	var wg sync.WaitGroup
	optJSON, _ := json.Marshal(b.Opt)
	for w := 0; w < cs.Workers; w++ {
		wg.Add(1)
		go func() {
			defer wg.Done()
			for {
				// (re)start a worker process; it lives until it dies or seeds run out
				if _, more := peekMore(&mu, deadline, b.MaxRuns, &next); !more {
					return
				}
				cmd := exec.Command(selfExe(), "worker", b.Engine, string(optJSON))
				procs := cs.WorkerProcs
				if procs == "" {
					procs = "1"
				}
				cmd.Env = append(os.Environ(), "GOMAXPROCS="+procs)
				stdin, _ := cmd.StdinPipe()
				stdout, _ := cmd.StdoutPipe()
				errTail := &tailBuf{}
				cmd.Stderr = errTail
				if err := cmd.Start(); err != nil {
					mu.Lock()
					agg.harness = append(agg.harness, "cannot start worker: "+err.Error())
					mu.Unlock()
					return
				}
				rd := bufio.NewReaderSize(stdout, 1<<20)
				var cur uint64
				var timedOut atomic.Bool
				inRun := false
				alive := true
				for alive {
					seed, ok := nextSeed()
					if !ok {
						break
					}
					fmt.Fprintf(stdin, "%d\n", seed)
					cur, inRun = seed, true
					// watchdog on the worker (harness condition, never a violation): a run
					// that exceeds it is killed and reported as harness trouble (exit 2)
					wdDur := runWatchdog
					if b.Opt.Params["preset"] == "mainnet" {
						wdDur = 3 * runWatchdog // 32-slot epochs: one run is minutes of real BLS work on a loaded machine
					}
					wd := time.AfterFunc(wdDur, func() {
						timedOut.Store(true)
						cmd.Process.Kill()
					})
					for {
						line, err := rd.ReadBytes('\n')
						if err != nil {
							alive = false
							break
						}
						var m workerMsg
						if json.Unmarshal(line, &m) != nil {
							continue
						}
						if m.Kind == "end" {
							inRun = false
							absorb(m.Result)
							break
						}
					}
					wd.Stop()
				}
				stdin.Close()
				io.Copy(io.Discard, rd)
				cmd.Wait()
				if inRun {
					// the worker died inside a run: attribute to the announced seed
					r := &Result{Engine: b.Engine, Seed: cur}
					if timedOut.Load() {
						r.Harness = fmt.Sprintf("run exceeded the watchdog (%v, three times that for the mainnet preset) and was killed", runWatchdog)
						absorb(r)
						continue
					}
					if v, ok := e.CrashViolation(errTail.String(), b.Opt); ok {
						r.Violations = append(r.Violations, v)
						if g, isGen := e.(Generator); isGen {
							rf := g.Generate(cur, b.Opt)
							r.Config, r.Script = rf.Config, rf.Script
						}
						// re-generate the script for the replay file is not possible here:
						// the replay file carries the seed, and replay re-generates from it.
					} else {
						r.Harness = "worker died: " + lastLines(errTail.String(), 12)
					}
					absorb(r)
				}
			}
		}()
	}
	wg.Wait()
	agg.wall = time.Since(start).Seconds()
	return agg
}

func peekMore(mu *sync.Mutex, deadline time.Time, maxRuns int, next *uint64) (uint64, bool) {
	mu.Lock()
	defer mu.Unlock()
	if time.Now().After(deadline) {
		return 0, false
	}
	if maxRuns > 0 && int(*next) >= maxRuns {
		return 0, false
	}
	return 0, true
}

func lastLines(s string, n int) string {
	ls := strings.Split(strings.TrimSpace(s), "\n")
	if len(ls) > n {
		ls = ls[len(ls)-n:]
	}
	return strings.Join(ls, " | ")
}

// ReplayChild runs a replay file in a fresh child process and returns its result.
func ReplayChild(path string, opt Options, timeout time.Duration) (*Result, string, error) {
	optJSON, _ := json.Marshal(opt)
	cmd := exec.Command(selfExe(), "replay-json", path, string(optJSON))
	cmd.Env = append(os.Environ(), "GOMAXPROCS=1")
	var out bytes.Buffer
	errTail := &tailBuf{}
	cmd.Stdout = &out
	cmd.Stderr = errTail
	if err := cmd.Start(); err != nil {
		return nil, "", err
	}
	done := make(chan error, 1)
	go func() { done <- cmd.Wait() }()
	select {
	case <-done:
	case <-time.After(timeout):
		cmd.Process.Kill()
		<-done
		return nil, errTail.String(), fmt.Errorf("replay timeout")
	}
	var r Result
	if err := json.Unmarshal(out.Bytes(), &r); err != nil {
		return nil, errTail.String(), fmt.Errorf("no result (child died)")
	}
	return &r, errTail.String(), nil
}

// reproduces: does the replay file end in the given signature (in a fresh process)?
func reproduces(e Engine, rf *ReplayFile, opt Options, scratch string, n *int) bool {
	*n++
	p := filepath.Join(scratch, fmt.Sprintf("cand-%d.json", *n))
	b, _ := json.Marshal(rf)
	os.WriteFile(p, b, 0o644)
	defer os.Remove(p)
	r, errOut, err := ReplayChild(p, opt, 120*time.Second)
	if r == nil {
		if err != nil && errOut != "" {
			if v, ok := e.CrashViolation(errOut, opt); ok {
				return v.Property == rf.Property && v.Signature == rf.Signature
			}
		}
		return false
	}
	return r.HasSig(rf.Property, rf.Signature)
}

// Minimise: delta debugging over script units, keeping the same signature.
func Minimise(e Engine, rf *ReplayFile, opt Options, scratch string, budget time.Duration) (*ReplayFile, int) {
	deadline := time.Now().Add(budget)
	tries := 0
	cur := rf
	if !reproduces(e, cur, opt, scratch, &tries) {
		return rf, tries // not reproducible from script: keep as is (caller flags it)
	}
	n := e.Units(cur)
	chunk := n / 2
	for chunk >= 1 && time.Now().Before(deadline) {
		progress := false
		n = e.Units(cur)
		for start := 0; start < n && time.Now().Before(deadline); {
			keep := make([]bool, n)
			for i := range keep {
				keep[i] = i < start || i >= start+chunk
			}
			cand := e.Subset(cur, keep)
			if e.Units(cand) < n && reproduces(e, cand, opt, scratch, &tries) {
				cur = cand
				n = e.Units(cur)
				progress = true
			} else {
				start += chunk
			}
		}
		if !progress || chunk > n {
			chunk /= 2
		}
		if chunk > n/2 && n > 1 {
			chunk = n / 2
		}
	}
	return cur, tries
}

// RunCheck executes all batches, handles known findings, minimises and reports
// new violations, writes evidence. Returns the process exit code.
func RunCheck(cs *CheckSpec) int {
	t0 := time.Now()
	known, err := LoadKnown(cs.VerifDir)
	if err != nil {
		fmt.Fprintf(os.Stderr, "HARNESS: cannot read known_findings.json: %v\n", err)
		return 2
	}
	fmt.Printf("check property=%s tier=%s seed=%d workers=%d\n", cs.Property, cs.Tier, cs.Seed, cs.Workers)
	scratch, err := os.MkdirTemp(os.Getenv("VERIF_SCRATCH"), "zvmin-")
	if err != nil {
		fmt.Fprintf(os.Stderr, "HARNESS: %v\n", err)
		return 2
	}
	defer os.RemoveAll(scratch)

	openSigs := map[string]*KnownFinding{}
	exit := 0
	// 1. replay open findings of this property
	for i := range known {
		k := &known[i]
		if k.Property != cs.Property || k.Status != "open" {
			continue
		}
		openSigs[k.Signature] = k
		if k.Replay == "" {
			fmt.Printf("KNOWN-FINDING: property=%s %s [%s]\n", k.Property, k.What, k.ID)
			continue
		}
		rfPath := filepath.Join(cs.VerifDir, k.Replay)
		var rf ReplayFile
		b, err := os.ReadFile(rfPath)
		if err != nil || json.Unmarshal(b, &rf) != nil {
			fmt.Fprintf(os.Stderr, "HARNESS: cannot read finding script %s\n", rfPath)
			return 2
		}
		e := Lookup(rf.Engine)
		tries := 0
		if reproduces(e, &rf, Options{Property: cs.Property, Tier: cs.Tier}, scratch, &tries) {
			fmt.Printf("KNOWN-FINDING: property=%s %s [%s, reproduced from %s]\n", k.Property, k.What, k.ID, k.Replay)
		} else {
			fmt.Printf("note: known finding %s no longer reproduces from %s (fixed?)\n", k.ID, k.Replay)
		}
	}

	// 1b. regression: scripts of findings recorded as fixed must no longer reproduce
	for i := range known {
		k := &known[i]
		if k.Property != cs.Property || k.Status != "fixed" || k.Replay == "" {
			continue
		}
		rfPath := filepath.Join(cs.VerifDir, k.Replay)
		var rf ReplayFile
		b, err := os.ReadFile(rfPath)
		if err != nil || json.Unmarshal(b, &rf) != nil {
			fmt.Fprintf(os.Stderr, "HARNESS: cannot read finding script %s\n", rfPath)
			return 2
		}
		e := Lookup(rf.Engine)
		if e == nil {
			continue
		}
		tries := 0
		if reproduces(e, &rf, Options{Property: cs.Property, Tier: cs.Tier}, scratch, &tries) {
			fmt.Printf("  violation (returned after fix %s) signature=%s\n", k.Commit, rf.Signature)
			fmt.Printf("VIOLATION property=%s replay=%s\n", cs.Property, rfPath)
			exit = 1
		}
	}

	total := &batchAgg{stats: map[string]int64{}, states: map[uint64]struct{}{}, viol: map[string]*violAgg{}}
	var perBatch []map[string]interface{}
	infos := map[string]EngineInfo{}
	for i, b := range cs.Batches {
		b.Opt.Property = cs.Property
		b.Opt.Tier = cs.Tier
		a := runBatch(cs, b, i)
		e := Lookup(b.Engine)
		infos[b.Engine] = e.Describe()
		total.runs += a.runs
		total.nontrivial += a.nontrivial
		total.simMs += a.simMs
		for k, v := range a.stats {
			total.stats[k] += v
		}
		for s := range a.states {
			total.states[s] = struct{}{}
		}
		for _, s := range a.samples {
			if len(total.samples) < 4 {
				total.samples = append(total.samples, s)
			}
		}
		total.harness = append(total.harness, a.harness...)
		perBatch = append(perBatch, map[string]interface{}{
			"label": b.Label, "engine": b.Engine, "params": b.Opt.Params, "runs": a.runs,
			"wall_s": round2(a.wall), "distinct_states": len(a.states),
		})
		fmt.Printf("  batch %-22s engine=%-8s runs=%-7d distinct=%-7d wall=%.1fs\n", b.Label, b.Engine, a.runs, len(a.states), a.wall)
		// 2. violations of this batch
		keys := make([]string, 0, len(a.viol))
		for k := range a.viol {
			keys = append(keys, k)
		}
		sort.Strings(keys)
		for _, key := range keys {
			va := a.viol[key]
			if va.v.Property != cs.Property {
				total.stats["other_property_violations_seen"] += int64(va.count)
				fmt.Printf("  note: %d run(s) hit %s (reported by that property's check); first: seed %d: %.300s\n", va.count, va.v.Signature, va.first.Seed, va.v.Detail)
				continue
			}
			if _, isKnown := openSigs[va.v.Signature]; isKnown {
				total.stats["runs_ending_in_known_finding"] += int64(va.count)
				continue
			}
			if prev, seen := total.viol[key]; seen {
				prev.count += va.count
				continue
			}
			total.viol[key] = va
			// minimise and report
			rf := &ReplayFile{Engine: b.Engine, Property: cs.Property, Seed: va.first.Seed,
				Signature: va.v.Signature, Detail: va.v.Detail, Config: va.first.Config, Script: va.first.Script}
			budget := 45 * time.Second
			if cs.Tier == "thorough" {
				budget = 5 * time.Minute
			}
			nBefore := 0
			if rf.Script != nil {
				nBefore = e.Units(rf)
			}
			min, tries := rf, 0
			if rf.Script != nil && os.Getenv("VERIF_NO_MINIMISE") == "" {
				min, tries = Minimise(e, rf, b.Opt, scratch, budget)
			}
			min.Note = fmt.Sprintf("found by seed %d in batch %q; %d runs of the batch ended in this signature; minimised %d -> %d script entries in %d replays",
				va.first.Seed, b.Label, va.count, nBefore, e.Units(min), tries)
			os.MkdirAll(filepath.Join(outDir(cs), "replays"), 0o755)
			name := fmt.Sprintf("%s-%d-%08x.json", cs.Property, va.first.Seed, HashString(va.v.Signature)&0xffffffff)
			path := filepath.Join(outDir(cs), "replays", name)
			bb, _ := json.MarshalIndent(min, "", " ")
			os.WriteFile(path, bb, 0o644)
			fmt.Printf("  violation signature=%s detail=%s\n", va.v.Signature, va.v.Detail)
			fmt.Printf("VIOLATION property=%s replay=%s\n", cs.Property, path)
			exit = 1
		}
	}
	wall := time.Since(t0).Seconds()
	// 3. evidence
	nviol := 0
	for range total.viol {
		nviol++
	}
	cov := map[string]interface{}{
		"evaluations":         total.runs,
		"distinct_nontrivial": len(total.states),
		"nontrivial_runs":     total.nontrivial,
		"samples":             total.samples,
		"batches":             perBatch,
		"counters":            total.stats,
		"simulated_time_s":    float64(total.simMs) / 1000,
		"runs_per_hour":       int64(float64(total.runs) / wall * 3600),
		"engines":             infos,
	}
	if p := os.Getenv("VERIF_TYPE_SCAN"); p != "" {
		if b, err := os.ReadFile(p); err == nil {
			var scan map[string]interface{}
			if json.Unmarshal(b, &scan) == nil {
				cov["exported_ssz_types"] = scan
			}
		}
	}
	rules := []string{}
	for n, inf := range infos {
		rules = append(rules, n+": "+inf.Rule)
	}
	sort.Strings(rules)
	cov["rule"] = strings.Join(rules, " || ")
	if len(total.samples) == 0 {
		cov["samples"] = []string{"(no run completed)"}
	}
	ev := map[string]interface{}{
		"property_id": cs.Property, "tier": cs.Tier, "seed": cs.Seed, "level": cs.Level,
		"coverage": cov, "assumptions": cs.Assumptions, "wall_s": round2(wall), "violations": nviol,
	}
	os.MkdirAll(filepath.Join(outDir(cs), "evidence"), 0o755)
	eb, _ := json.MarshalIndent(ev, "", " ")
	if err := os.WriteFile(filepath.Join(outDir(cs), "evidence", cs.Property+".json"), eb, 0o644); err != nil {
		fmt.Fprintf(os.Stderr, "HARNESS: cannot write evidence: %v\n", err)
		return 2
	}
	if len(total.harness) > 0 {
		for i, h := range total.harness {
			if i < 5 {
				fmt.Fprintf(os.Stderr, "HARNESS: %s\n", h)
			}
		}
		if exit == 0 {
			return 2
		}
	}
	fmt.Printf("done property=%s runs=%d distinct=%d violations=%d wall=%.1fs\n", cs.Property, total.runs, len(total.states), nviol, wall)
	return exit
}

// outDir: where evidence and replay files go (VERIF_OUT_DIR redirects them for runs against
// seeded copies of the repository, so that they never overwrite the real evidence).
func outDir(cs *CheckSpec) string {
	if d := os.Getenv("VERIF_OUT_DIR"); d != "" {
		return d
	}
	return cs.VerifDir
}

func round2(x float64) float64 { return float64(int64(x*100)) / 100 }
