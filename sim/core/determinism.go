package core

import (
	"bytes"
	"encoding/json"
	"fmt"
	"os"
	"os/exec"
	"sort"
	"strconv"
	"strings"
	"sync"
)

// Determinism runs n seeds three times each, in fresh processes with GOMAXPROCS
// 1, 4 and 16 and 16 processes at a time, and compares event-log hash, violation
// signatures, counters and distinct-state hashes. Exit 0 iff all agree.
func Determinism(engine, optJSON, nStr string) int {
	n, _ := strconv.Atoi(nStr)
	type key struct {
		seed uint64
		rep  int
	}
	out := map[key]string{}
	var mu sync.Mutex
	var wg sync.WaitGroup
	sem := make(chan struct{}, 16)
	procs := []string{"1", "4", "16"}
	for i := 0; i < n; i++ {
		seed := Derive(777, uint64(i))
		for rep := 0; rep < 3; rep++ {
			wg.Add(1)
			sem <- struct{}{}
			go func(seed uint64, rep int) {
				defer wg.Done()
				defer func() { <-sem }()
				cmd := exec.Command(selfExe(), "run-json", engine, fmt.Sprint(seed), optJSON)
				cmd.Env = append(os.Environ(), "GOMAXPROCS="+procs[rep])
				var b bytes.Buffer
				cmd.Stdout = &b
				cmd.Run()
				var r Result
				json.Unmarshal(b.Bytes(), &r)
				var sigs []string
				for _, v := range r.Violations {
					sigs = append(sigs, v.Signature)
				}
				sort.Strings(sigs)
				delete(r.Stats, "porcupine_ms")
				st, _ := json.Marshal(r.Stats)
				mu.Lock()
				out[key{seed, rep}] = fmt.Sprintf("log=%x sigs=%s stats=%s nstates=%d harness=%s", r.LogHash, strings.Join(sigs, ";"), st, len(r.States), r.Harness)
				mu.Unlock()
			}(seed, rep)
		}
	}
	wg.Wait()
	bad := 0
	for i := 0; i < n; i++ {
		seed := Derive(777, uint64(i))
		a, b, c := out[key{seed, 0}], out[key{seed, 1}], out[key{seed, 2}]
		if a != b || b != c || a == "" {
			bad++
			if bad <= 5 {
				fmt.Printf("NONDETERMINISTIC engine=%s seed=%d\n  %s\n  %s\n  %s\n", engine, seed, a, b, c)
			}
		}
	}
	fmt.Printf("determinism engine=%s opt=%s seeds=%d x3 (GOMAXPROCS 1/4/16): %d disagreeing\n", engine, optJSON, n, bad)
	if bad > 0 {
		return 1
	}
	return 0
}
