package core

import "encoding/json"

// Options select what a run generates and which oracles are armed.
type Options struct {
	Property string            `json:"property"`
	Tier     string            `json:"tier"`
	Params   map[string]string `json:"params,omitempty"`
}

// ReplayFile is what a violation is reported with, and what `zvsim replay` executes.
type ReplayFile struct {
	Engine    string          `json:"engine"`
	Property  string          `json:"property"`
	Seed      uint64          `json:"seed"`
	Signature string          `json:"signature"`
	Detail    string          `json:"detail,omitempty"`
	Config    json.RawMessage `json:"config,omitempty"`
	Script    json.RawMessage `json:"script"`
	Note      string          `json:"note,omitempty"`
}

// Engine is one simulator. Run generates from the seed; Replay executes a recorded
// script; Units/Subset let the minimiser drop script entries.
type Engine interface {
	Name() string
	Run(seed uint64, opt Options) *Result
	Replay(rf *ReplayFile, opt Options) *Result
	Units(rf *ReplayFile) int
	Subset(rf *ReplayFile, keep []bool) *ReplayFile
	// CrashViolation maps a worker that died (fatal error, stack overflow, deadlock
	// throw) to a violation, or ok=false if the death is a harness problem.
	CrashViolation(stderrTail string, opt Options) (v Violation, ok bool)
	// Describe: which components ran real code / stubs, and the distinctness rule.
	Describe() EngineInfo
}

type EngineInfo struct {
	Real  []string `json:"real"`
	Stubs []string `json:"stubs"`
	Rule  string   `json:"rule"`
}

// Generator: engines whose script can be produced without executing it (needed to
// minimise runs that kill the worker).
type Generator interface {
	Generate(seed uint64, opt Options) *ReplayFile
}

var engines = map[string]Engine{}

func Register(e Engine) { engines[e.Name()] = e }
func Lookup(name string) Engine { return engines[name] }
