package core

import (
	"encoding/json"
	"hash/fnv"
	"sort"
)

// Violation is one oracle failure. Signature classifies it (property / oracle
// assertion / discriminating fields) and is what minimisation and the
// known-findings file are keyed by.
type Violation struct {
	Property  string `json:"property"`
	Signature string `json:"signature"`
	Detail    string `json:"detail"`
	Step      int    `json:"step"`
}

// Result is what one simulated run reports.
type Result struct {
	Engine     string            `json:"engine"`
	Seed       uint64            `json:"seed"`
	Config     json.RawMessage   `json:"config,omitempty"`
	Script     json.RawMessage   `json:"script,omitempty"` // concrete, replayable
	Violations []Violation       `json:"violations,omitempty"`
	Stats      map[string]int64  `json:"stats,omitempty"`  // faults fired, probes, events
	States     []uint64          `json:"states,omitempty"` // hashes by the engine's stated distinctness measure
	Nontrivial bool              `json:"nontrivial"`
	SimTimeMs  int64             `json:"sim_time_ms"`
	LogHash    uint64            `json:"log_hash"` // hash chain over the event log (determinism self-test)
	Sample     json.RawMessage   `json:"sample,omitempty"`
	Harness    string            `json:"harness_error,omitempty"` // harness defect (exit 2), never a violation
	Extra      map[string]string `json:"extra,omitempty"`
}

func (r *Result) Stat(name string, n int64) {
	if r.Stats == nil {
		r.Stats = map[string]int64{}
	}
	r.Stats[name] += n
}

func (r *Result) Violate(prop, sig, detail string, step int) {
	r.Violations = append(r.Violations, Violation{prop, sig, detail, step})
}

// HasSig reports whether the run ended in the given signature for the property.
func (r *Result) HasSig(prop, sig string) bool {
	for _, v := range r.Violations {
		if v.Property == prop && v.Signature == sig {
			return true
		}
	}
	return false
}

// LogHasher is a running hash over event-log lines.
type LogHasher struct{ h uint64 }

func (l *LogHasher) Add(s string) {
	f := fnv.New64a()
	var b [8]byte
	for i := 0; i < 8; i++ {
		b[i] = byte(l.h >> (8 * i))
	}
	f.Write(b[:])
	f.Write([]byte(s))
	l.h = f.Sum64()
}
func (l *LogHasher) Sum() uint64 { return l.h }

func HashBytes(b []byte) uint64 {
	f := fnv.New64a()
	f.Write(b)
	return f.Sum64()
}

func HashString(s string) uint64 { return HashBytes([]byte(s)) }

func SortedKeys(m map[string]int64) []string {
	ks := make([]string, 0, len(m))
	for k := range m {
		ks = append(ks, k)
	}
	sort.Strings(ks)
	return ks
}
