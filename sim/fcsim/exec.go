package fcsim

import (
	"context"
	"encoding/json"
	"errors"
	"fmt"
	"runtime"
	"sort"
	"strings"

	"github.com/protolambda/zrnt/eth2/beacon/common"
	"github.com/protolambda/zrnt/eth2/configs"
	"github.com/protolambda/zrnt/eth2/forkchoice"
	"github.com/protolambda/zrnt/eth2/forkchoice/proto"

	"verif/sim/core"
)

type sinkCall struct {
	ref       Ref
	canonical bool
}

type simNode struct {
	fc        forkchoice.Forkchoice
	m         *Model
	sinkLog   []sinkCall
	sinkCalls int
	failAt    int
	labelOf   map[common.Root]Label
}

var errSink = errors.New("injected sink failure")

func cRoot(l Label) common.Root { return common.Root(RootOf(l)) }

func (n *simNode) lab(r common.Root) Label {
	if l, ok := n.labelOf[r]; ok {
		return l
	}
	return -1
}

func (n *simNode) refOf(r common.NodeRef) Ref { return Ref{n.lab(r.Root), uint64(r.Slot)} }

func specFor(spe uint64) *common.Spec {
	s := *configs.Minimal
	s.SLOTS_PER_EPOCH = common.Slot(spe)
	return &s
}

func gweis(b []uint64) []forkchoice.Gwei {
	out := make([]forkchoice.Gwei, len(b))
	for i, x := range b {
		out[i] = forkchoice.Gwei(x)
	}
	return out
}

func buildNode(cfg *Config) (*simNode, error) {
	n := &simNode{labelOf: map[common.Root]Label{}}
	for l := Label(1); l < 400; l++ {
		n.labelOf[cRoot(l)] = l
	}
	for l := Label(900000); l < 900500; l++ {
		n.labelOf[cRoot(l)] = l
	}
	n.labelOf[cRoot(999999)] = 999999
	var sink proto.NodeSink
	if !cfg.NilSink {
		sink = proto.NodeSinkFn(func(ctx context.Context, ref forkchoice.NodeRef, canonical bool) error {
			n.sinkCalls++
			if n.failAt > 0 && n.sinkCalls == n.failAt {
				return errSink
			}
			if err := ctx.Err(); err != nil {
				return err
			}
			n.sinkLog = append(n.sinkLog, sinkCall{n.refOf(ref), canonical})
			return nil
		})
	}
	cp := forkchoice.Checkpoint{Root: cRoot(cfg.Anchor.L), Epoch: common.Epoch(cfg.Epoch0)}
	fc, err := proto.NewProtoForkChoice(specFor(cfg.SPE), cp, cp, cRoot(cfg.Anchor.L), common.Slot(cfg.Anchor.S),
		cRoot(cfg.AnchorParent), gweis(cfg.Balances), sink)
	if err != nil {
		return nil, err
	}
	n.fc = fc
	n.m = NewModel(cfg.SPE, cfg.Anchor, cfg.AnchorParent, CP{cfg.Anchor.L, cfg.Epoch0}, CP{cfg.Anchor.L, cfg.Epoch0}, cfg.Balances)
	return n, nil
}

// guarded call: converts a panic inside zrnt into a violation record.
type panicInfo struct {
	val   string
	frame string
}

func guard(f func()) (p *panicInfo) {
	defer func() {
		if r := recover(); r != nil {
			p = &panicInfo{val: fmt.Sprint(r), frame: zrntFrame()}
		}
	}()
	f()
	return nil
}

func zrntFrame() string {
	pcs := make([]uintptr, 40)
	n := runtime.Callers(3, pcs)
	frames := runtime.CallersFrames(pcs[:n])
	for {
		fr, more := frames.Next()
		if strings.Contains(fr.Function, "protolambda/zrnt/") {
			f := fr.Function
			if i := strings.LastIndex(f, "/"); i >= 0 {
				f = f[i+1:]
			}
			return f
		}
		if !more {
			break
		}
	}
	return "?"
}

type exec struct {
	cfg        *Config
	opt        core.Options
	res        *core.Result
	log        core.LogHasher
	step       int
	stop       bool
	enumerated int             // sink-failure enumerations done in this run
	partial    bool            // the store is in a state the model does not follow: the run must end
	own        bool            // a finding of the property under check was recorded
	foreign    map[string]bool // findings of other properties already recorded
}

// viol: a finding of the property under check ends the run. A finding that belongs to another
// property (the three fork-choice properties share this engine) is recorded once per signature and
// the run goes on: otherwise the oracle that happens to fire first would hide the same defect from
// the check of the property it also breaks (the driver reports only the property under check).
func (x *exec) viol(prop, sig, detail string) {
	if x.opt.Property != "" && prop != x.opt.Property {
		if x.foreign == nil {
			x.foreign = map[string]bool{}
		}
		if !x.foreign[sig] {
			x.foreign[sig] = true
			x.res.Violate(prop, sig, detail, x.step)
		}
		return
	}
	x.own = true
	x.res.Violate(prop, sig, detail, x.step)
}

func (x *exec) panicked(prop, what string, p *panicInfo) {
	x.viol(prop, fmt.Sprintf("%s/panic/%s/%s", prop, what, p.frame), p.val)
	x.stop = true
}

// ---- head checks (C09) ----

func (x *exec) checkHead(n *simNode, via string, start Ref, call func() (common.NodeRef, error)) {
	x.checkHeadP("C09", n, via, start, call)
}

func (x *exec) checkHeadP(prop string, n *simNode, via string, start Ref, call func() (common.NodeRef, error)) {
	m := n.m
	var got common.NodeRef
	var err error
	if p := guard(func() { got, err = call() }); p != nil {
		x.panicked(prop, via, p)
		return
	}
	hl, okL, viaL := m.Ghost(start, RelLegacy)
	hr, _, viaR := m.Ghost(start, RelReadme)
	x.log.Add(fmt.Sprintf("%s %v -> %v %v", via, start, n.refOf(got), err != nil))
	if !okL {
		if err == nil {
			x.viol(prop, prop+"/"+via+"/no-error-for-unknown-start", fmt.Sprintf("start %v does not exist, got %v", start, n.refOf(got)))
		}
		return
	}
	x.res.Stat("head_checks", 1)
	if hl != hr {
		x.res.Stat("head_checks_two_graph", 1)
	}
	if !viaL && !viaR {
		// no viable head under either reading: only the absence of a panic is required
		x.res.Stat("head_checks_nonviable", 1)
		return
	}
	if err != nil {
		if viaL && viaR {
			x.viol(prop, prop+"/"+via+"/error-on-viable-head", fmt.Sprintf("start %v expected %v, got error %v", start, hl, err))
		}
		return
	}
	g := n.refOf(got)
	if (viaL && g == hl) || (viaR && g == hr) {
		return
	}
	x.viol(prop, prop+"/"+via+"/head-mismatch", fmt.Sprintf("start %v expected %v (legacy graph) or %v (readme graph), got %v", start, hl, hr, g))
}

// ---- audit (C11) ----

func refsEqual(a []Ref, b []Ref) bool {
	if len(a) != len(b) {
		return false
	}
	sa := append([]Ref(nil), a...)
	sb := append([]Ref(nil), b...)
	less := func(s []Ref) func(i, j int) bool {
		return func(i, j int) bool {
			if s[i].L != s[j].L {
				return s[i].L < s[j].L
			}
			return s[i].S < s[j].S
		}
	}
	sort.Slice(sa, less(sa))
	sort.Slice(sb, less(sb))
	for i := range sa {
		if sa[i] != sb[i] {
			return false
		}
	}
	return true
}

func (x *exec) audit(n *simNode) {
	m := n.m
	fc := n.fc
	x.res.Stat("audits", 1)
	labels := m.aliveLabels()
	// never-inserted and pruned-away roots must be unknown
	probe := append([]Label{}, labels...)
	probe = append(probe, 900450)
	for l := range m.everSeen {
		if !m.known(l) {
			probe = append(probe, l)
		}
	}
	sort.Slice(probe, func(i, j int) bool { return probe[i] < probe[j] })

	// GetSlot
	for _, l := range probe {
		var s common.Slot
		var ok bool
		if p := guard(func() { s, ok = fc.GetSlot(cRoot(l)) }); p != nil {
			x.panicked("C11", "GetSlot", p)
			return
		}
		es, eok := m.earliest(l)
		x.res.Stat("q_getslot", 1)
		if ok != eok || (ok && uint64(s) != es) {
			x.viol("C11", "C11/GetSlot/mismatch", fmt.Sprintf("root %d expected (%d,%v) got (%d,%v)", l, es, eok, s, ok))
			return
		}
	}
	// InSubtree over ordered pairs (all pairs in small trees, a sample in larger ones)
	step := 1
	if len(probe) > 14 {
		step = len(probe)/14 + 1
	}
	for ai := 0; ai < len(probe); ai += step {
		for ri := 0; ri < len(probe); ri++ {
			a, r := probe[ai], probe[ri]
			if a == r {
				continue
			}
			var unk, in bool
			if p := guard(func() { unk, in = fc.InSubtree(cRoot(a), cRoot(r)) }); p != nil {
				x.panicked("C11", "InSubtree", p)
				return
			}
			x.res.Stat("q_insubtree", 1)
			eunk := !m.known(a) || !m.known(r)
			ein := !eunk && m.rootInSubtree(a, r)
			if unk != eunk || in != ein {
				x.viol("C11", "C11/InSubtree/mismatch", fmt.Sprintf("anchor %d root %d expected (unknown=%v,in=%v) got (%v,%v)", a, r, eunk, ein, unk, in))
				return
			}
		}
	}
	// ClosestToSlot
	maxS := uint64(0)
	for i := range m.nodes {
		if m.nodes[i].Alive && m.nodes[i].Ref.S > maxS {
			maxS = m.nodes[i].Ref.S
		}
	}
	for _, l := range probe {
		es, eok := m.earliest(l)
		var slots []uint64
		if eok {
			slots = []uint64{es, es + 1, es + 2, maxS, maxS + 3}
			if es > 0 {
				slots = append(slots, es-1)
			}
		} else {
			slots = []uint64{0, maxS}
		}
		for _, s := range slots {
			var got common.NodeRef
			var err error
			if p := guard(func() { got, err = fc.ClosestToSlot(cRoot(l), common.Slot(s)) }); p != nil {
				x.panicked("C11", "ClosestToSlot", p)
				return
			}
			x.res.Stat("q_closest", 1)
			if !eok || s < es {
				if err == nil {
					x.viol("C11", "C11/ClosestToSlot/no-error", fmt.Sprintf("root %d slot %d (earliest %d known=%v) got %v", l, s, es, eok, n.refOf(got)))
					return
				}
				continue
			}
			exp := Ref{l, es}
			for t := es; t <= s; t++ {
				if _, ok := m.idx[Ref{l, t}]; ok {
					exp = Ref{l, t}
				} else {
					break
				}
			}
			if err != nil || n.refOf(got) != exp {
				x.viol("C11", "C11/ClosestToSlot/mismatch", fmt.Sprintf("root %d slot %d expected %v got %v err=%v", l, s, exp, n.refOf(got), err))
				return
			}
		}
	}
	// queries that depend on the canonical head from an anchor
	for _, l := range labels {
		e0, _ := m.earliest(l)
		// anchors: the first node of the root, and later slot nodes of the same root (the gap slots after
		// the block): from those, only what hangs off the later slots is in the subtree
		anchorSlots := []uint64{e0}
		var later []uint64
		for t := e0 + 1; ; t++ {
			if j, ok := m.idx[Ref{l, t}]; ok && m.nodes[j].Alive {
				later = append(later, t)
			} else {
				break
			}
		}
		if len(later) > 0 {
			anchorSlots = append(anchorSlots, later[(x.step+int(l))%len(later)])
			if len(later) > 1 {
				anchorSlots = append(anchorSlots, later[len(later)-1])
			}
		}
		for ai, es := range anchorSlots {
			if ai > 0 {
				x.res.Stat("q_anchor_later_slot_node", 1)
			}
			start := Ref{l, es}
			hl, _, viaL := m.Ghost(start, RelLegacy)
			hr, _, viaR := m.Ghost(start, RelReadme)
			if hl != hr || !viaL || !viaR {
				continue // two-graph or non-viable: head-dependent queries are not compared
			}
			hi := m.idx[hl]
			si := m.idx[start]
			// CanonicalChain: prefix from the head down to the anchor node
			var chain []common.ExtendedNodeRef
			var err error
			if p := guard(func() { chain, err = fc.CanonicalChain(cRoot(l), common.Slot(es)) }); p != nil {
				x.panicked("C11", "CanonicalChain", p)
				return
			}
			x.res.Stat("q_canonchain", 1)
			var exp []int
			for j := hi; j >= 0; j = m.nodes[j].TP {
				exp = append(exp, j)
				if j == si {
					break
				}
			}
			if err != nil || len(chain) < len(exp) {
				x.viol("C11", "C11/CanonicalChain/mismatch", fmt.Sprintf("anchor %v head %v: err=%v len=%d expected>=%d", start, hl, err, len(chain), len(exp)))
				return
			}
			for k, j := range exp {
				mn := &m.nodes[j]
				if n.refOf(chain[k].NodeRef) != mn.Ref || n.lab(chain[k].ParentRoot) != mn.ParentRoot {
					x.viol("C11", "C11/CanonicalChain/mismatch", fmt.Sprintf("anchor %v entry %d expected %v parent %d got %v parent %d", start, k, mn.Ref, mn.ParentRoot, n.refOf(chain[k].NodeRef), n.lab(chain[k].ParentRoot)))
					return
				}
			}
			// CanonAtSlot
			canonSlots := []uint64{es, es + 1, (es + hl.S) / 2, hl.S, hl.S + 2}
			if ai > 0 {
				canonSlots = nil // (CanonAtSlot is anchored by root: the first node)
			}
			for _, s := range canonSlots {
				for _, wb := range []bool{false, true} {
					var got common.NodeRef
					var err error
					if p := guard(func() { got, err = fc.CanonAtSlot(cRoot(l), common.Slot(s), wb) }); p != nil {
						x.panicked("C11", "CanonAtSlot", p)
						return
					}
					x.res.Stat("q_canonat", 1)
					if s == es {
						if !wb && m.nodes[si].IsBlock {
							if err == nil {
								x.viol("C11", "C11/CanonAtSlot/no-error", fmt.Sprintf("anchor %v is a block node, pre-block node requested, got %v", start, n.refOf(got)))
								return
							}
						} else if err != nil || n.refOf(got) != start {
							x.viol("C11", "C11/CanonAtSlot/mismatch", fmt.Sprintf("anchor %v slot %d withBlock=%v expected anchor got %v err=%v", start, s, wb, n.refOf(got), err))
							return
						}
						continue
					}
					if hl.S <= s {
						if err != nil || n.refOf(got) != hl {
							x.viol("C11", "C11/CanonAtSlot/mismatch", fmt.Sprintf("anchor %v slot %d beyond head: expected head %v got %v err=%v", start, s, hl, n.refOf(got), err))
							return
						}
						continue
					}
					// walk back from the head
					var slotNode, blockNode *MNode
					for j := hi; j >= 0 && m.nodes[j].Ref.S >= s; j = m.nodes[j].TP {
						if m.nodes[j].Ref.S == s {
							if m.nodes[j].IsBlock {
								blockNode = &m.nodes[j]
							} else {
								slotNode = &m.nodes[j]
							}
						}
						if j == si {
							break
						}
					}
					if wb {
						if blockNode != nil {
							if err != nil || n.refOf(got) != blockNode.Ref {
								x.viol("C11", "C11/CanonAtSlot/mismatch", fmt.Sprintf("anchor %v slot %d withBlock expected %v got %v err=%v", start, s, blockNode.Ref, n.refOf(got), err))
								return
							}
						} else if slotNode != nil {
							if err != nil || got != (common.NodeRef{}) {
								x.viol("C11", "C11/CanonAtSlot/mismatch", fmt.Sprintf("anchor %v slot %d withBlock: empty slot, expected zero ref, got %v err=%v", start, s, n.refOf(got), err))
								return
							}
						}
					} else if slotNode != nil {
						if err != nil || n.refOf(got) != slotNode.Ref {
							x.viol("C11", "C11/CanonAtSlot/mismatch", fmt.Sprintf("anchor %v slot %d pre-block expected %v got %v err=%v", start, s, slotNode.Ref, n.refOf(got), err))
							return
						}
					}
				}
			}
			// Search: heads, by parent, by slot
			type q struct {
				parent *Label
				slot   *uint64
			}
			// (the no-filter "heads" form of Search is not named by the property and its
			// documentation is ambiguous: not compared)
			qs := []q{}
			if len(labels) > 0 {
				pl := labels[(int(l)+x.step)%len(labels)]
				qs = append(qs, q{&pl, nil})
				sl := m.nodes[hi].Ref.S
				qs = append(qs, q{nil, &sl})
				qs = append(qs, q{&m.nodes[hi].ParentRoot, &sl})
				// the blocks built on the anchor's own root (from an anchor that is a later slot node of that
				// root these are the blocks built on the still later slots, on and off the best chain)
				own := l
				qs = append(qs, q{&own, nil})
			}
			for _, qq := range qs {
				var pr *common.Root
				var sl *common.Slot
				if qq.parent != nil {
					r := cRoot(*qq.parent)
					pr = &r
				}
				if qq.slot != nil {
					s := common.Slot(*qq.slot)
					sl = &s
				}
				var nonCanon, canon []common.NodeRef
				var err error
				if p := guard(func() {
					nonCanon, canon, err = fc.Search(common.NodeRef{Root: cRoot(l), Slot: common.Slot(es)}, pr, sl)
				}); p != nil {
					x.panicked("C11", "Search", p)
					return
				}
				x.res.Stat("q_search", 1)
				var expCanon, expNon []Ref
				for j := range m.nodes {
					mn := &m.nodes[j]
					if !mn.Alive || !mn.IsBlock || !m.isAnc(si, j) {
						continue
					}
					if qq.parent == nil && qq.slot == nil {
						// heads: block nodes without block descendants
						hasBlockDesc := false
						for k := j + 1; k < len(m.nodes); k++ {
							if m.nodes[k].Alive && m.nodes[k].IsBlock && m.isAnc(j, k) {
								hasBlockDesc = true
								break
							}
						}
						if hasBlockDesc {
							continue
						}
					} else {
						if qq.parent != nil && mn.ParentRoot != *qq.parent {
							continue
						}
						if qq.slot != nil && mn.Ref.S != *qq.slot {
							continue
						}
					}
					if m.isAnc(j, hi) {
						expCanon = append(expCanon, mn.Ref)
					} else {
						expNon = append(expNon, mn.Ref)
					}
				}
				gc := make([]Ref, len(canon))
				for i, r := range canon {
					gc[i] = n.refOf(r)
				}
				gn := make([]Ref, len(nonCanon))
				for i, r := range nonCanon {
					gn[i] = n.refOf(r)
				}
				if err != nil || !refsEqual(append(append([]Ref{}, gc...), gn...), append(append([]Ref{}, expCanon...), expNon...)) {
					x.viol("C11", "C11/Search/result-set", fmt.Sprintf("anchor %v parent=%v slot=%v expected canon=%v non=%v got canon=%v non=%v err=%v", start, ptrL(qq.parent), ptrS(qq.slot), expCanon, expNon, gc, gn, err))
					return
				}
				if !refsEqual(gc, expCanon) {
					x.viol("C11", "C11/Search/canonical-split", fmt.Sprintf("anchor %v parent=%v slot=%v expected canon=%v got canon=%v", start, ptrL(qq.parent), ptrS(qq.slot), expCanon, gc))
					return
				}
			}
		}
	}
	// unknown anchors for the head-dependent queries
	{
		var err1, err2, err3 error
		if p := guard(func() {
			_, err1 = fc.CanonicalChain(cRoot(900450), 1)
			_, err2 = fc.CanonAtSlot(cRoot(900450), 1, true)
			_, _, err3 = fc.Search(common.NodeRef{Root: cRoot(900450), Slot: 1}, nil, nil)
		}); p != nil {
			x.panicked("C11", "unknown-anchor", p)
			return
		}
		if err1 == nil || err2 == nil || err3 == nil {
			x.viol("C11", "C11/unknown-anchor/no-error", fmt.Sprintf("CanonicalChain err=%v CanonAtSlot err=%v Search err=%v", err1, err2, err3))
		}
	}
}

func ptrL(l *Label) string {
	if l == nil {
		return "-"
	}
	return fmt.Sprint(*l)
}
func ptrS(s *uint64) string {
	if s == nil {
		return "-"
	}
	return fmt.Sprint(*s)
}

// ---- update (C10) ----

type updExpect struct {
	outcome string // noop | error | success | either
	why     string
}

func classifyUpdate(m *Model, op *Op) updExpect {
	j, f := *op.J, *op.F
	if m.just.E >= j.E && m.fin.E >= f.E {
		return updExpect{"noop", "older-or-equal"}
	}
	if m.pin != nil && op.Trig != m.pin.L {
		if !m.known(op.Trig) || !m.known(m.pin.L) {
			return updExpect{"error", "trigger-unknown-while-pinned"}
		}
		if !m.rootInSubtree(m.pin.L, op.Trig) {
			return updExpect{"error", "trigger-outside-pin"}
		}
	}
	if j.E < f.E {
		return updExpect{"error", "justified-below-finalized"}
	}
	ambiguous := false
	if f != m.fin {
		if !m.known(f.L) || !m.known(m.fin.L) {
			return updExpect{"error", "finalized-unknown"}
		}
		if !m.rootInSubtree(m.fin.L, f.L) {
			return updExpect{"error", "finalized-outside-finalized-subtree"}
		}
		if f.E < m.fin.E {
			return updExpect{"error", "finalized-epoch-lower"}
		}
		if f.E == m.fin.E {
			ambiguous = true // same epoch, other root
		}
	}
	if j != m.just {
		if !m.known(j.L) || !m.known(m.fin.L) {
			return updExpect{"error", "justified-unknown"}
		}
		if !m.rootInSubtree(m.fin.L, j.L) {
			return updExpect{"error", "justified-outside-finalized-subtree"}
		}
		if j.E < m.fin.E {
			return updExpect{"error", "justified-epoch-below-finalized"}
		}
		if j.E <= m.just.E {
			ambiguous = true // justified not newer while finalized is
		}
		if !m.rootInSubtree(f.L, j.L) {
			ambiguous = true // inside the old finalized subtree but not the new one
		}
	}
	if op.BalFail {
		return updExpect{"error", "balances-callback-failed"}
	}
	if ambiguous {
		return updExpect{"either", "mixed"}
	}
	// an update after which no node of the finalized subtree is viable cannot come
	// from an imported block; the property does not say what happens then.
	if a, ok := m.idx[Ref{f.L, m.startSlot(f.E)}]; ok {
		viable := false
		for i := range m.nodes {
			nd := &m.nodes[i]
			if nd.Alive && m.isAnc(a, i) && (nd.JE == j.E || j.E == 0) && (nd.FE == f.E || f.E == 0) {
				viable = true
				break
			}
		}
		if !viable {
			return updExpect{"either", "no-viable-node"}
		}
	}
	return updExpect{"success", "advance"}
}

// applyUpdateModel applies the success effect. reported: nodes the sink accepted
// (nil = the full plan).
func applyUpdateModel(m *Model, op *Op, reported map[Ref]bool) (pruned bool) {
	exp := classifyUpdate(m, op)
	if exp.outcome != "success" {
		return false
	}
	return applySuccess(m, op, reported)
}

func applySuccess(m *Model, op *Op, reported map[Ref]bool) (pruned bool) {
	prevFin := m.fin
	m.just, m.fin = *op.J, *op.F
	if op.Bals != nil {
		m.balances = append([]uint64(nil), op.Bals...)
	}
	if prevFin != m.fin {
		m.pin = nil
		anchor := Ref{m.fin.L, m.startSlot(m.fin.E)}
		dropped, _, ok := m.PrunePlan(anchor)
		if ok {
			for _, i := range dropped {
				if reported == nil || reported[m.nodes[i].Ref] {
					m.Drop(i)
					pruned = true
				}
			}
		}
	}
	return
}

type snapshot struct {
	just, fin forkchoice.Checkpoint
	pin       *common.NodeRef
}

func (x *exec) doUpdate(n *simNode, op *Op, relaxedFork bool) {
	m := n.m
	fc := n.fc
	exp := classifyUpdate(m, op)
	x.res.Stat("update_"+exp.outcome, 1)
	ctx := context.Background()
	if op.Cancel {
		c, cancel := context.WithCancel(ctx)
		cancel()
		ctx = c
	}
	n.sinkLog = nil
	n.sinkCalls = 0
	n.failAt = op.SinkFail
	bals := op.Bals
	if bals == nil {
		bals = m.balances
	}
	balCalls := 0
	var err error
	if p := guard(func() {
		err = fc.UpdateJustified(ctx, cRoot(op.Trig), forkchoice.Checkpoint{Root: cRoot(op.J.L), Epoch: common.Epoch(op.J.E)},
			forkchoice.Checkpoint{Root: cRoot(op.F.L), Epoch: common.Epoch(op.F.E)},
			func() ([]forkchoice.Gwei, error) {
				balCalls++
				if op.BalFail {
					return nil, errors.New("injected balances failure")
				}
				return gweis(bals), nil
			})
	}); p != nil {
		x.panicked("C10", "UpdateJustified", p)
		return
	}
	n.failAt = 0
	x.log.Add(fmt.Sprintf("update %s/%s err=%v sink=%d", exp.outcome, exp.why, err != nil, len(n.sinkLog)))
	gotJ, gotF := fc.Justified(), fc.Finalized()
	curJ := forkchoice.Checkpoint{Root: cRoot(m.just.L), Epoch: common.Epoch(m.just.E)}
	curF := forkchoice.Checkpoint{Root: cRoot(m.fin.L), Epoch: common.Epoch(m.fin.E)}
	unchanged := gotJ == curJ && gotF == curF
	switch exp.outcome {
	case "noop":
		if err != nil {
			x.viol("C10", "C10/older-or-equal/error", fmt.Sprintf("%s: %v", exp.why, err))
			return
		}
		if !unchanged || len(n.sinkLog) > 0 || n.sinkCalls > 0 {
			x.viol("C10", "C10/older-or-equal/changed-state", fmt.Sprintf("justified %v finalized %v sink calls %d", gotJ, gotF, n.sinkCalls))
		}
		return
	case "error":
		if err == nil {
			x.viol("C10", "C10/expected-refusal/"+exp.why, fmt.Sprintf("update trig=%d j=%v f=%v accepted", op.Trig, *op.J, *op.F))
			x.stop = true
			return
		}
		if !unchanged || n.sinkCalls > 0 {
			x.viol("C10", "C10/refused-but-changed/"+exp.why, fmt.Sprintf("justified %v finalized %v sink calls %d", gotJ, gotF, n.sinkCalls))
			x.stop = true
		}
		return
	case "either":
		if err != nil {
			if !unchanged {
				// an error after a partial change: only a sink failure may do that
				if !(op.SinkFail > 0 || op.Cancel) {
					x.viol("C10", "C10/refused-but-changed/"+exp.why, fmt.Sprintf("justified %v finalized %v", gotJ, gotF))
				}
				x.stop = true
				x.partial = true // the store changed in part: the model does not follow it
			}
			return
		}
	}
	// success path (or "either" accepted)
	prevFin := m.fin
	finChanged := prevFin != *op.F
	anchor := Ref{op.F.L, m.startSlot(op.F.E)}
	var planDropped []int
	var planCanon map[int]bool
	planOK := false
	if finChanged {
		planDropped, planCanon, planOK = m.PrunePlan(anchor)
	}
	sinkFaulted := finChanged && planOK && !x.cfg.NilSink && ((op.SinkFail > 0 && op.SinkFail <= len(planDropped)) || (op.Cancel && len(planDropped) > 0))
	if err != nil && !sinkFaulted {
		if exp.outcome == "success" {
			x.viol("C10", "C10/unexpected-error/"+exp.why, fmt.Sprintf("update trig=%d j=%v f=%v: %v", op.Trig, *op.J, *op.F, err))
			x.stop = true
		}
		return
	}
	if err == nil && sinkFaulted {
		x.viol("C10", "C10/sink-failure-swallowed", fmt.Sprintf("sink failed at call %d of %d but UpdateJustified returned nil", op.SinkFail, len(planDropped)))
		x.stop = true
		return
	}
	if balCalls == 0 && op.Bals != nil {
		x.viol("C10", "C10/balances-not-fetched", "justified balances callback was never called on an accepted update")
	}
	wantJ := forkchoice.Checkpoint{Root: cRoot(op.J.L), Epoch: common.Epoch(op.J.E)}
	wantF := forkchoice.Checkpoint{Root: cRoot(op.F.L), Epoch: common.Epoch(op.F.E)}
	if gotJ != wantJ || gotF != wantF {
		x.viol("C10", "C10/checkpoints-not-updated", fmt.Sprintf("want j=%v f=%v got j=%v f=%v", wantJ, wantF, gotJ, gotF))
		x.stop = true
		return
	}
	// prune exactness
	reported := map[Ref]bool{}
	if finChanged && planOK {
		x.res.Stat("prunes", 1)
		if len(planDropped) > 0 {
			x.res.Stat("prunes_nonempty", 1)
		}
		expSet := map[Ref]bool{}
		for _, i := range planDropped {
			expSet[m.nodes[i].Ref] = planCanon[i]
		}
		if !x.cfg.NilSink {
			for _, c := range n.sinkLog {
				if reported[c.ref] {
					x.viol("C10", "C10/prune/reported-twice", fmt.Sprintf("node %v reported to the sink more than once", c.ref))
					x.stop = true
					return
				}
				reported[c.ref] = true
				canon, isExp := expSet[c.ref]
				if !isExp {
					x.viol("C10", "C10/prune/dropped-a-descendant", fmt.Sprintf("node %v is a descendant of the finalized node %v (or unknown) but was reported as pruned", c.ref, anchor))
					x.stop = true
					return
				}
				if canon != c.canonical {
					x.viol("C10", "C10/prune/canonical-flag", fmt.Sprintf("node %v reported canonical=%v, expected %v (anchor %v)", c.ref, c.canonical, canon, anchor))
					x.stop = true
					return
				}
			}
			if !sinkFaulted && len(reported) != len(expSet) {
				var missing []Ref
				for r := range expSet {
					if !reported[r] {
						missing = append(missing, r)
					}
				}
				sort.Slice(missing, func(i, j int) bool {
					return missing[i].S < missing[j].S || (missing[i].S == missing[j].S && missing[i].L < missing[j].L)
				})
				x.viol("C10", "C10/prune/non-descendant-retained", fmt.Sprintf("anchor %v: %d node(s) that are not descendants were not reported as pruned, e.g. %v", anchor, len(missing), missing[0]))
				x.stop = true
				return
			}
		}
	} else if n.sinkCalls > 0 {
		x.viol("C10", "C10/prune/unexpected-sink-call", fmt.Sprintf("%d sink call(s) although finalization did not advance to a known node", n.sinkCalls))
		x.stop = true
		return
	}
	if sinkFaulted {
		x.res.Stat("fault_sink_fail", 1)
		applySuccess(m, op, reported)
		// relaxed: retained roots still known, dropped roots unknown, no panic on Head
		for _, l := range m.aliveLabels() {
			if _, ok := fc.GetSlot(cRoot(l)); !ok {
				x.viol("C10", "C10/prune/unreported-drop", fmt.Sprintf("root %d was not reported to the sink (sink failed) but is gone", l))
				break
			}
		}
		// the checkpoints advanced and the pin is gone: the head is found from the new
		// justified node, which lies in the finalized subtree (all of it retained)
		x.checkHeadP("C10", n, "Head-after-sink-failure", m.HeadStart(), func() (common.NodeRef, error) { return fc.Head() })
		x.stop = true // partially pruned state: the run ends here
		x.partial = true
		return
	}
	if x.cfg.NilSink {
		applySuccess(m, op, nil)
	} else {
		applySuccess(m, op, nil)
	}
	if gp := fc.Pin(); (gp == nil) != (m.pin == nil) {
		x.viol("C10", "C10/pin-state", fmt.Sprintf("pin after update: got %v, model %v", gp, m.pin))
	}
	// "the head stays inside the finalized subtree": right after an accepted update the head is the
	// one the new checkpoints define (no vote or block needs to arrive first)
	if !x.own {
		x.checkHeadP("C10", n, "Head-after-update", m.HeadStart(), func() (common.NodeRef, error) { return fc.Head() })
	}
}

// Execute runs a script on fresh node(s), checking every call against the model.
func Execute(cfg *Config, ops []Op, opt core.Options) *core.Result {
	res := &core.Result{Engine: "fcsim"}
	cj, _ := json.Marshal(cfg)
	sj, _ := json.Marshal(ops)
	res.Config, res.Script = cj, sj
	x := &exec{cfg: cfg, opt: opt, res: res}
	x.run(ops, len(ops), nil)
	res.LogHash = x.log.Sum()
	return res
}

// run executes ops[:upto]; if override != nil it replaces the op at index upto-1.
func (x *exec) run(ops []Op, upto int, override *Op) *simNode {
	n, err := buildNode(x.cfg)
	if err != nil {
		x.res.Harness = "cannot build fork choice: " + err.Error()
		return nil
	}
	res := x.res
	for i := 0; i < upto && !x.stop; i++ {
		op := ops[i]
		if override != nil && i == upto-1 {
			op = *override
		}
		x.step = i
		m := n.m
		fc := n.fc
		res.Stat("events", 1)
		switch op.K {
		case "block":
			var ok bool
			if p := guard(func() {
				ok = fc.ProcessBlock(cRoot(op.P), cRoot(op.R), common.Slot(op.S), common.Epoch(op.JE), common.Epoch(op.FE))
			}); p != nil {
				x.panicked("C09", "ProcessBlock", p)
				break
			}
			eok := m.ProcessBlock(op.P, op.R, op.S, op.JE, op.FE)
			x.log.Add(fmt.Sprintf("block %d<-%d@%d %v", op.P, op.R, op.S, ok))
			if ok != eok {
				x.viol("C11", "C11/ProcessBlock/ok-mismatch", fmt.Sprintf("block %d parent %d slot %d: expected ok=%v got %v", op.R, op.P, op.S, eok, ok))
				x.stop = true
			}
		case "slot":
			// domain of ProcessSlot: a known parent root and a slot after its first known
			// slot; an entry whose precondition no longer holds (minimiser) is skipped.
			if es, ok := m.earliest(op.P); !ok || op.S <= es {
				res.Stat("skipped_out_of_domain", 1)
				x.log.Add("skip slot")
				break
			}
			if p := guard(func() {
				fc.ProcessSlot(cRoot(op.P), common.Slot(op.S), common.Epoch(op.JE), common.Epoch(op.FE))
			}); p != nil {
				x.panicked("C09", "ProcessSlot", p)
				break
			}
			m.ProcessSlot(op.P, op.S, op.JE, op.FE)
			x.log.Add(fmt.Sprintf("slot %d@%d", op.P, op.S))
		case "att":
			var ok bool
			if p := guard(func() { ok = fc.ProcessAttestation(common.ValidatorIndex(op.V), cRoot(op.R), common.Slot(op.S)) }); p != nil {
				x.panicked("C09", "ProcessAttestation", p)
				break
			}
			x.log.Add(fmt.Sprintf("att %d %d@%d %v", op.V, op.R, op.S, ok))
			_, exists := m.idx[Ref{op.R, op.S}]
			res.Stat("votes", 1)
			switch {
			case exists && !ok:
				x.viol("C09", "C09/vote-for-known-node-refused", fmt.Sprintf("validator %d vote for existing node %d@%d (block slot %d) returned false", op.V, op.R, op.S, func() uint64 { s, _ := m.earliest(op.R); return s }()))
				x.stop = true
			case exists && ok:
				m.Vote(op.V, Ref{op.R, op.S})
			case !m.known(op.R) && ok:
				x.viol("C09", "C09/vote-for-unknown-root-accepted", fmt.Sprintf("validator %d vote for unknown root %d returned true", op.V, op.R))
				x.stop = true
			default:
				// known root, node does not exist: either answer; an unknown-target vote changes nothing
				res.Stat("votes_unknown_node", 1)
			}
		case "head":
			x.checkHead(n, "Head", m.HeadStart(), func() (common.NodeRef, error) { return fc.Head() })
		case "findhead":
			x.checkHead(n, "FindHead", Ref{op.R, op.S}, func() (common.NodeRef, error) { return fc.FindHead(cRoot(op.R), common.Slot(op.S)) })
		case "pin":
			var err error
			if p := guard(func() { err = fc.SetPin(cRoot(op.R), common.Slot(op.S)) }); p != nil {
				x.panicked("C09", "SetPin", p)
				break
			}
			_, exists := m.idx[Ref{op.R, op.S}]
			x.log.Add(fmt.Sprintf("pin %d@%d %v", op.R, op.S, err != nil))
			if exists != (err == nil) {
				x.viol("C09", "C09/SetPin/outcome", fmt.Sprintf("pin %d@%d node exists=%v err=%v", op.R, op.S, exists, err))
				x.stop = true
				break
			}
			if exists {
				r := Ref{op.R, op.S}
				m.pin = &r
			}
		case "update":
			if op.SinkAll && x.cfg.Faults && override == nil && !x.cfg.NilSink {
				x.sinkEnumerate(ops, i)
			}
			o := op
			x.doUpdate(n, &o, false)
		case "audit":
			x.audit(n)
		}
		if x.stop && !x.own && x.opt.Property != "" && !x.partial {
			x.stop = false // only findings of other properties so far: go on
		}
		if x.stop {
			break
		}
		if x.cfg.AuditEvery && op.K != "audit" && op.K != "head" && op.K != "findhead" {
			x.checkHead(n, "Head", m.HeadStart(), func() (common.NodeRef, error) { return fc.Head() })
			if !x.stop && !x.own {
				x.audit(n)
			}
		}
		if x.own || (x.opt.Property == "" && len(res.Violations) > 0) {
			break
		}
		if override == nil {
			res.States = append(res.States, m.ShapeHash())
			if m.hasFork() {
				res.Nontrivial = true
			}
		}
	}
	if override == nil && len(ops) > 0 {
		k := len(ops)
		if k > 12 {
			k = 12
		}
		smp, _ := json.Marshal(map[string]interface{}{"config": x.cfg, "first_ops": ops[:k], "total_ops": len(ops)})
		res.Sample = smp
	}
	return n
}

// sinkEnumerate: for the update at ops[i], re-execute the history on a fork for
// EVERY k = 1..(number of nodes the prune must drop) with the sink failing at its
// k-th call, under the narrowly relaxed oracle of doUpdate.
func (x *exec) sinkEnumerate(ops []Op, i int) {
	// forks re-execute the prefix without the per-step audits (only the update matters there)
	if x.enumerated >= 3 {
		return
	}
	x.enumerated++
	quiet := *x.cfg
	quiet.AuditEvery = false
	// how many nodes would be dropped? ask a throw-away model run
	probe := &exec{cfg: &quiet, opt: x.opt, res: &core.Result{}}
	pn := probe.run(ops, i, nil)
	if pn == nil || len(probe.res.Violations) > 0 {
		return
	}
	op := ops[i]
	if classifyUpdate(pn.m, &op).outcome != "success" || *op.F == pn.m.fin {
		return
	}
	dropped, _, ok := pn.m.PrunePlan(Ref{op.F.L, pn.m.startSlot(op.F.E)})
	if !ok || len(dropped) == 0 {
		return
	}
	for k := 1; k <= len(dropped); k++ {
		fork := &exec{cfg: &quiet, opt: x.opt, res: &core.Result{}}
		o := op
		o.SinkFail = k
		o.SinkAll = false
		fork.run(ops, i+1, &o)
		x.res.Stat("fault_sink_fail_enumerated", 1)
		for _, v := range fork.res.Violations {
			if v.Step == i {
				v.Detail = fmt.Sprintf("[fork: sink fails at call %d of %d] %s", k, len(dropped), v.Detail)
				x.res.Violations = append(x.res.Violations, v)
				x.stop = true
				return
			}
		}
	}
}
