// Package fcsim: abstract block-tree simulation driving the real ProtoForkChoice,
// with a naive tree model (ghost + treewalk) as oracle. Serves C09, C10, C11.
package fcsim

import (
	"bytes"
	"encoding/binary"
	"sort"
)

// Labels name block roots. Label 0 is never used (the zero root is the vote store's
// "no vote" sentinel; real block roots are never zero).
type Label int

type Root32 [32]byte

// RootOf: deterministic, well-spread, never zero. The high bytes are scrambled so
// that root tie-breaks do not follow insertion order.
func RootOf(l Label) (r Root32) {
	x := uint64(l)*0x9e3779b97f4a7c15 + 0x7f4a7c15
	x ^= x >> 29
	x *= 0xbf58476d1ce4e5b9
	x ^= x >> 32
	binary.BigEndian.PutUint64(r[0:8], x)
	binary.BigEndian.PutUint64(r[24:32], uint64(l))
	r[8] = 0xff
	return
}

type Ref struct {
	L Label  `json:"l"`
	S uint64 `json:"s"`
}

type CP struct {
	L Label  `json:"l"`
	E uint64 `json:"e"`
}

type MNode struct {
	Ref        Ref
	ParentRoot Label // for a slot node: own root; for a block node: the block's parent root
	TP         int   // transition parent (index into nodes), -1 for the array root
	IsBlock    bool
	JE, FE     uint64
	Alive      bool
}

type mvote struct {
	ref   Ref
	epoch uint64
}

// Model is the reference: an explicit tree, latest accepted votes, balances.
type Model struct {
	spe      uint64
	nodes    []MNode
	idx      map[Ref]int // alive nodes only
	votes    map[int]mvote
	balances []uint64
	just     CP
	fin      CP
	pin      *Ref
	everSeen map[Label]bool
}

func NewModel(spe uint64, anchor Ref, anchorParent Label, just, fin CP, balances []uint64) *Model {
	m := &Model{spe: spe, idx: map[Ref]int{}, votes: map[int]mvote{}, just: just, fin: fin, everSeen: map[Label]bool{}}
	m.nodes = append(m.nodes, MNode{Ref: anchor, ParentRoot: anchorParent, TP: -1, IsBlock: anchorParent != anchor.L, JE: just.E, FE: fin.E, Alive: true})
	m.idx[anchor] = 0
	m.everSeen[anchor.L] = true
	m.balances = append([]uint64(nil), balances...)
	p := anchor
	m.pin = &p
	return m
}

func (m *Model) epochOf(slot uint64) uint64 { return slot / m.spe }
func (m *Model) startSlot(e uint64) uint64   { return e * m.spe }

// earliest alive slot for a root; ok=false if the root has no alive node.
func (m *Model) earliest(l Label) (uint64, bool) {
	best, ok := uint64(0), false
	for i := range m.nodes {
		n := &m.nodes[i]
		if n.Alive && n.Ref.L == l && (!ok || n.Ref.S < best) {
			best, ok = n.Ref.S, true
		}
	}
	return best, ok
}

func (m *Model) known(l Label) bool { _, ok := m.earliest(l); return ok }

func (m *Model) add(n MNode) int {
	n.Alive = true
	m.nodes = append(m.nodes, n)
	i := len(m.nodes) - 1
	m.idx[n.Ref] = i
	m.everSeen[n.Ref.L] = true
	return i
}

// ProcessSlot per the documented contract; only called by the harness with a
// known parent root and slot > earliest(parent).
func (m *Model) ProcessSlot(parent Label, slot uint64, je, fe uint64) {
	if _, ok := m.idx[Ref{parent, slot}]; ok {
		return
	}
	ps, ok := m.earliest(parent)
	if !ok || slot <= ps {
		return
	}
	prev := m.idx[Ref{parent, ps}]
	for s := ps + 1; s <= slot; s++ {
		if i, ok := m.idx[Ref{parent, s}]; ok {
			prev = i
			continue
		}
		prev = m.add(MNode{Ref: Ref{parent, s}, ParentRoot: parent, TP: prev, JE: je, FE: fe})
	}
}

// ProcessBlock returns the documented ok.
func (m *Model) ProcessBlock(parent, root Label, slot uint64, je, fe uint64) bool {
	if m.known(root) {
		return true
	}
	ps, ok := m.earliest(parent)
	if !ok || ps >= slot {
		return false
	}
	m.ProcessSlot(parent, slot, je, fe)
	tp := m.idx[Ref{parent, slot}]
	m.add(MNode{Ref: Ref{root, slot}, ParentRoot: parent, TP: tp, IsBlock: true, JE: je, FE: fe})
	return true
}

// Vote: an accepted vote (zrnt said ok) for an existing node.
func (m *Model) Vote(v int, ref Ref) {
	e := m.epochOf(ref.S)
	if old, ok := m.votes[v]; !ok || e > old.epoch {
		m.votes[v] = mvote{ref, e}
	}
}

func (m *Model) viable(n *MNode) bool {
	return (n.JE == m.just.E || m.just.E == 0) && (n.FE == m.fin.E || m.fin.E == 0)
}

// Relation of the fork-choice graph for block nodes after gap slots.
const (
	RelLegacy = 0 // parent's earliest known node (comment in ProcessBlock)
	RelReadme = 1 // (parent root, slot-1) (README, ProtoNode doc)
)

func (m *Model) fcParent(i int, rel int) int {
	n := &m.nodes[i]
	if !n.IsBlock {
		if n.TP >= 0 && m.nodes[n.TP].Alive {
			return n.TP
		}
		return -1
	}
	if rel == RelLegacy {
		s, ok := m.earliest(n.ParentRoot)
		if !ok {
			return -1
		}
		return m.idx[Ref{n.ParentRoot, s}]
	}
	if j, ok := m.idx[Ref{n.ParentRoot, n.Ref.S - 1}]; ok {
		return j
	}
	// pruned away: hangs off the earliest alive node of the parent root, if any
	s, ok := m.earliest(n.ParentRoot)
	if !ok {
		return -1
	}
	return m.idx[Ref{n.ParentRoot, s}]
}

type ghostView struct {
	children map[int][]int
	weight   map[int]int64
	leads    map[int]bool
}

func (m *Model) buildGhost(rel int) *ghostView {
	g := &ghostView{children: map[int][]int{}, weight: map[int]int64{}, leads: map[int]bool{}}
	par := map[int]int{}
	for i := range m.nodes {
		if !m.nodes[i].Alive {
			continue
		}
		p := m.fcParent(i, rel)
		par[i] = p
		if p >= 0 {
			g.children[p] = append(g.children[p], i)
		}
	}
	for v, vote := range m.votes {
		i, ok := m.idx[vote.ref]
		if !ok {
			continue
		}
		var bal int64
		if v < len(m.balances) {
			bal = int64(m.balances[v])
		}
		for j := i; j >= 0; j = par[j] {
			g.weight[j] += bal
		}
	}
	// leads: post-order. fc children always have a larger insertion index than
	// their parent, so a reverse scan is a valid post-order.
	for i := len(m.nodes) - 1; i >= 0; i-- {
		if !m.nodes[i].Alive {
			continue
		}
		l := m.viable(&m.nodes[i])
		for _, c := range g.children[i] {
			if g.leads[c] {
				l = true
			}
		}
		g.leads[i] = l
	}
	return g
}

// Ghost returns the head from the start node under a relation.
// okStart=false: the start node does not exist. viable: the returned node is viable.
func (m *Model) Ghost(start Ref, rel int) (head Ref, okStart bool, viable bool) {
	i, ok := m.idx[start]
	if !ok {
		return Ref{}, false, false
	}
	g := m.buildGhost(rel)
	for {
		best := -1
		for _, c := range g.children[i] {
			if !g.leads[c] {
				continue
			}
			if best < 0 {
				best = c
				continue
			}
			wc, wb := g.weight[c], g.weight[best]
			if wc > wb {
				best = c
			} else if wc == wb {
				rc, rb := RootOf(m.nodes[c].Ref.L), RootOf(m.nodes[best].Ref.L)
				if bytes.Compare(rc[:], rb[:]) > 0 {
					best = c
				}
			}
		}
		if best < 0 {
			break
		}
		i = best
	}
	return m.nodes[i].Ref, true, m.viable(&m.nodes[i])
}

func (m *Model) HeadStart() Ref {
	if m.pin != nil {
		return *m.pin
	}
	return Ref{m.just.L, m.startSlot(m.just.E)}
}

// ---- treewalk ----

// isAnc: node a is an ancestor-or-equal of node b in the transition graph.
func (m *Model) isAnc(a, b int) bool {
	for j := b; j >= 0; j = m.nodes[j].TP {
		if j == a {
			return true
		}
		if !m.nodes[j].Alive {
			return false
		}
	}
	return false
}

// blockInSubtree: root r is in the subtree of root a (block-level ancestry).
func (m *Model) rootInSubtree(a, r Label) bool {
	if a == r {
		return true
	}
	sa, ok := m.earliest(a)
	if !ok {
		return false
	}
	sr, ok := m.earliest(r)
	if !ok {
		return false
	}
	return m.isAnc(m.idx[Ref{a, sa}], m.idx[Ref{r, sr}])
}

func (m *Model) aliveLabels() []Label {
	seen := map[Label]bool{}
	var out []Label
	for i := range m.nodes {
		if m.nodes[i].Alive && !seen[m.nodes[i].Ref.L] {
			seen[m.nodes[i].Ref.L] = true
			out = append(out, m.nodes[i].Ref.L)
		}
	}
	sort.Slice(out, func(i, j int) bool { return out[i] < out[j] })
	return out
}

func (m *Model) aliveCount() int { return len(m.idx) }

// Prune keeps exactly the transition-subtree of the anchor node. Returns the
// dropped nodes (model indices) and for each whether it is an ancestor of the anchor.
func (m *Model) PrunePlan(anchor Ref) (dropped []int, canonical map[int]bool, ok bool) {
	a, ok := m.idx[anchor]
	if !ok {
		return nil, nil, false
	}
	canonical = map[int]bool{}
	for i := range m.nodes {
		if !m.nodes[i].Alive {
			continue
		}
		if m.isAnc(a, i) {
			continue
		}
		dropped = append(dropped, i)
		canonical[i] = m.isAnc(i, a)
	}
	return dropped, canonical, true
}

func (m *Model) Drop(i int) {
	m.nodes[i].Alive = false
	delete(m.idx, m.nodes[i].Ref)
}

// shape hash for the distinct-states measure: tree shape + vote assignment.
func (m *Model) ShapeHash() uint64 {
	h := uint64(1469598103934665603)
	mix := func(x uint64) {
		h ^= x
		h *= 1099511628211
	}
	for i := range m.nodes {
		n := &m.nodes[i]
		if !n.Alive {
			continue
		}
		mix(uint64(n.Ref.S))
		mix(uint64(n.TP + 1))
		if n.IsBlock {
			mix(7)
		}
		mix(n.JE<<8 | n.FE)
	}
	vs := make([]int, 0, len(m.votes))
	for v := range m.votes {
		vs = append(vs, v)
	}
	sort.Ints(vs)
	for _, v := range vs {
		if i, ok := m.idx[m.votes[v].ref]; ok {
			mix(uint64(v)<<20 | uint64(i))
		}
	}
	mix(m.just.E<<16 | m.fin.E)
	return h
}

func (m *Model) hasFork() bool {
	cnt := map[int]int{}
	for i := range m.nodes {
		if m.nodes[i].Alive && m.nodes[i].TP >= 0 {
			cnt[m.nodes[i].TP]++
			if cnt[m.nodes[i].TP] > 1 && m.nodes[i].IsBlock {
				// a slot node always has at most one slot child; >1 children means competing blocks
			}
		}
	}
	for _, c := range cnt {
		if c > 1 {
			return true
		}
	}
	return false
}
