package fcsim

import (
	"encoding/json"
	"strings"

	"verif/sim/core"
)

type Engine struct{}

func init() { core.Register(Engine{}) }

func (Engine) Name() string { return "fcsim" }

func (Engine) Run(seed uint64, opt core.Options) *core.Result {
	cfg, ops := Generate(seed, opt)
	r := Execute(cfg, ops, opt)
	r.Seed = seed
	return r
}

func decode(rf *core.ReplayFile) (*Config, []Op, error) {
	var cfg Config
	var ops []Op
	if err := json.Unmarshal(rf.Config, &cfg); err != nil {
		return nil, nil, err
	}
	if err := json.Unmarshal(rf.Script, &ops); err != nil {
		return nil, nil, err
	}
	return &cfg, ops, nil
}

func (e Engine) Replay(rf *core.ReplayFile, opt core.Options) *core.Result {
	if rf.Script == nil {
		return e.Run(rf.Seed, opt)
	}
	cfg, ops, err := decode(rf)
	if err != nil {
		return &core.Result{Engine: "fcsim", Harness: "bad replay file: " + err.Error()}
	}
	r := Execute(cfg, ops, opt)
	r.Seed = rf.Seed
	return r
}

func (Engine) Generate(seed uint64, opt core.Options) *core.ReplayFile {
	cfg, ops := Generate(seed, opt)
	cj, _ := json.Marshal(cfg)
	sj, _ := json.Marshal(ops)
	return &core.ReplayFile{Engine: "fcsim", Seed: seed, Config: cj, Script: sj}
}

func (Engine) Units(rf *core.ReplayFile) int {
	var ops []json.RawMessage
	json.Unmarshal(rf.Script, &ops)
	return len(ops)
}

func (Engine) Subset(rf *core.ReplayFile, keep []bool) *core.ReplayFile {
	var ops []json.RawMessage
	json.Unmarshal(rf.Script, &ops)
	var out []json.RawMessage
	for i, o := range ops {
		if i < len(keep) && keep[i] {
			out = append(out, o)
		}
	}
	if out == nil {
		out = []json.RawMessage{}
	}
	sj, _ := json.Marshal(out)
	c := *rf
	c.Script = sj
	return &c
}

func (Engine) CrashViolation(stderr string, opt core.Options) (core.Violation, bool) {
	if strings.Contains(stderr, "all goroutines are asleep - deadlock") {
		fn := "?"
		for _, name := range []string{"UpdateJustified", "SetPin", "ProcessAttestation", "ProcessBlock", "ProcessSlot", "Head", "FindHead", "InSubtree", "Search", "CanonicalChain", "CanonAtSlot", "ClosestToSlot"} {
			if strings.Contains(stderr, "ProtoForkChoice)."+name+"(") {
				fn = name
				break
			}
		}
		prop := "C10"
		if fn != "UpdateJustified" {
			prop = "C09"
		}
		return core.Violation{Property: prop, Signature: prop + "/blocks-forever/" + fn,
			Detail: "the call never returns: it waits for a lock that no runnable task can release (runtime deadlock verdict, no wall-clock timeout involved)"}, true
	}
	if strings.Contains(stderr, "stack overflow") || strings.Contains(stderr, "out of memory") {
		return core.Violation{Property: opt.Property, Signature: opt.Property + "/fatal/" + firstLine(stderr), Detail: firstLine(stderr)}, true
	}
	return core.Violation{}, false
}

func firstLine(s string) string {
	for _, l := range strings.Split(s, "\n") {
		if strings.HasPrefix(l, "fatal error:") || strings.HasPrefix(l, "runtime:") {
			return strings.TrimSpace(l)
		}
	}
	return "fatal"
}

func (Engine) Describe() core.EngineInfo {
	return core.EngineInfo{
		Real:  []string{"forkchoice.ProtoForkChoice", "proto.ProtoArray", "proto.ProtoVoteStore"},
		Stubs: []string{"block tree / proposers / attesters (abstract labels)", "abstract FFG (justified/finalized epochs per block chosen by the generator)", "prune sink", "justified-balances callback", "context"},
		Rule:  "distinct = hash of (alive tree shape with slots, block/slot kind, per-node justified/finalized epochs, vote->node assignment, store checkpoints) after each script step; non-trivial run = tree with at least one fork",
	}
}
