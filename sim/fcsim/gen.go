package fcsim

import (
	"verif/sim/core"
)

type Op struct {
	K string `json:"k"` // block slot att head audit update pin findhead
	P Label  `json:"p,omitempty"`
	R Label  `json:"r,omitempty"`
	S uint64 `json:"s,omitempty"`
	JE uint64 `json:"je,omitempty"`
	FE uint64 `json:"fe,omitempty"`
	V  int    `json:"v,omitempty"`
	// update
	Trig     Label    `json:"trig,omitempty"`
	J        *CP      `json:"j,omitempty"`
	F        *CP      `json:"f,omitempty"`
	Bals     []uint64 `json:"bals,omitempty"`
	BalFail  bool     `json:"balfail,omitempty"`
	SinkFail int      `json:"sinkfail,omitempty"` // k>0: the k-th sink call of this update fails
	SinkAll  bool     `json:"sinkall,omitempty"`  // enumerate every k on forks of the history
	Cancel   bool     `json:"cancel,omitempty"`   // context already cancelled
	Node     int      `json:"n,omitempty"`        // which simulated node executes this call
	Why      string   `json:"why,omitempty"`      // generator's intent (documentation only)
}

type Config struct {
	SPE          uint64   `json:"spe"`
	NVals        int      `json:"nvals"`
	Balances     []uint64 `json:"balances"`
	BalUnit      uint64   `json:"bal_unit,omitempty"`
	Anchor       Ref      `json:"anchor"`
	AnchorParent Label    `json:"anchor_parent"`
	Epoch0       uint64   `json:"epoch0"` // justified = finalized = (anchor, epoch0)
	AuditEvery   bool     `json:"audit_every"`
	NilSink      bool     `json:"nil_sink"`
	Nodes        int      `json:"nodes"`
	Faults       bool     `json:"faults"`
}

type genState struct {
	rng  *core.Rng
	cfg  *Config
	m    *Model // generator's own model (one per node in world mode: node 0 only in raw mode)
	next Label
	ops  []Op
}

func (g *genState) newLabel() Label { g.next++; return g.next }

// chainRootAt: root of the chain of node i at the given slot (walk transition parents).
func chainRootAt(m *Model, i int, slot uint64) (Label, bool) {
	for j := i; j >= 0; j = m.nodes[j].TP {
		if !m.nodes[j].Alive {
			return 0, false
		}
		if m.nodes[j].Ref.S <= slot {
			return m.nodes[j].Ref.L, true
		}
	}
	return 0, false
}

func (g *genState) randAliveNode() int {
	// recent-biased choice among alive nodes
	alive := make([]int, 0, len(g.m.nodes))
	for i := range g.m.nodes {
		if g.m.nodes[i].Alive {
			alive = append(alive, i)
		}
	}
	if g.rng.Chance(1, 2) && len(alive) > 4 {
		return alive[len(alive)-1-g.rng.Intn(4)]
	}
	return alive[g.rng.Intn(len(alive))]
}

func (g *genState) modelHead() (Ref, bool) {
	h, ok, _ := g.m.Ghost(g.m.HeadStart(), RelLegacy)
	return h, ok
}

func (g *genState) maxSlot() uint64 {
	var s uint64
	for i := range g.m.nodes {
		if g.m.nodes[i].Alive && g.m.nodes[i].Ref.S > s {
			s = g.m.nodes[i].Ref.S
		}
	}
	return s
}

func (g *genState) bumpFFG(parentJE, parentFE, slot uint64) (je, fe uint64) {
	je, fe = parentJE, parentFE
	e := g.m.epochOf(slot)
	if e >= 2 && g.rng.Chance(1, 3) {
		cand := e - 1
		if g.rng.Chance(1, 4) && cand > 1 {
			cand--
		}
		if cand > je {
			if g.rng.Chance(2, 3) {
				fe = je // consecutive justification finalizes the previous justified
			}
			je = cand
		}
	}
	return
}

func (g *genState) emit(op Op) { g.ops = append(g.ops, op) }

func (g *genState) genBlock() {
	m := g.m
	var op Op
	op.K = "block"
	r := g.rng.Intn(100)
	switch {
	case r < 5:
		// unknown parent
		op.P = 900000 + Label(g.rng.Intn(50))
		op.R = g.newLabel()
		op.S = g.maxSlot() + 1
		op.Why = "unknown-parent"
	case r < 10:
		// duplicate of a known root
		i := g.randAliveNode()
		op.R = m.nodes[i].Ref.L
		op.P = m.nodes[i].ParentRoot
		op.S = m.nodes[i].Ref.S + uint64(g.rng.Intn(2))
		op.Why = "duplicate"
	case r < 14:
		// slot not after the parent
		i := g.randAliveNode()
		op.P = m.nodes[i].Ref.L
		s, _ := m.earliest(op.P)
		op.R = g.newLabel()
		if s > 0 && g.rng.Bool() {
			op.S = s - 1
		} else {
			op.S = s
		}
		op.Why = "slot-not-after-parent"
	default:
		var pi int
		if h, ok := g.modelHead(); ok && g.rng.Chance(3, 5) {
			pi = m.idx[h]
		} else {
			pi = g.randAliveNode()
		}
		pn := &m.nodes[pi]
		op.P = pn.Ref.L
		gap := uint64(0)
		for g.rng.Chance(1, 4) && gap < 5 {
			gap++
		}
		op.S = pn.Ref.S + 1 + gap
		op.R = g.newLabel()
		op.JE, op.FE = g.bumpFFG(pn.JE, pn.FE, op.S)
		if g.rng.Chance(1, 12) {
			// double proposal: a sibling at the same slot
			op.Why = "maybe-double"
		}
	}
	g.emit(op)
	m.ProcessBlock(op.P, op.R, op.S, op.JE, op.FE)
}

func (g *genState) genSlot() {
	m := g.m
	i := g.randAliveNode()
	if h, ok := g.modelHead(); ok && g.rng.Bool() {
		i = m.idx[h]
	}
	n := &m.nodes[i]
	op := Op{K: "slot", P: n.Ref.L, S: n.Ref.S + 1 + uint64(g.rng.Intn(3)), JE: n.JE, FE: n.FE}
	if g.rng.Chance(1, 10) {
		op.S = n.Ref.S // already known
	}
	g.emit(op)
	m.ProcessSlot(op.P, op.S, op.JE, op.FE)
}

func (g *genState) genAtt() {
	m := g.m
	op := Op{K: "att", V: g.rng.Intn(g.cfg.NVals + 2)}
	r := g.rng.Intn(100)
	switch {
	case r < 65:
		if h, ok := g.modelHead(); ok {
			op.R, op.S = h.L, h.S
			break
		}
		fallthrough
	case r < 88:
		n := &m.nodes[g.randAliveNode()]
		op.R, op.S = n.Ref.L, n.Ref.S
	case r < 94:
		n := &m.nodes[g.randAliveNode()]
		op.R = n.Ref.L
		if g.rng.Bool() {
			op.S = g.maxSlot() + 1 + uint64(g.rng.Intn(3))
		} else {
			s, _ := m.earliest(n.Ref.L)
			if s > 0 {
				op.S = s - 1
			} else {
				op.S = g.maxSlot() + 2
			}
		}
		op.Why = "known-root-unknown-slot"
	default:
		op.R = 900000 + Label(g.rng.Intn(50))
		op.S = g.maxSlot()
		op.Why = "unknown-root"
	}
	g.emit(op)
	if _, ok := m.idx[Ref{op.R, op.S}]; ok {
		m.Vote(op.V, Ref{op.R, op.S})
	}
}

func (g *genState) randBals() []uint64 {
	b := make([]uint64, g.cfg.NVals)
	for i := range b {
		unit := g.cfg.BalUnit
		if unit == 0 {
			unit = 1000 // replay files written before the unit existed
		}
		b[i] = uint64(g.rng.Range(0, 4)) * unit
		if g.rng.Chance(1, 6) {
			b[i] += uint64(g.rng.Intn(3))
		}
	}
	if g.rng.Chance(1, 8) && len(b) > 1 {
		b = b[:len(b)-1-g.rng.Intn(len(b)/2+1)+0]
	}
	return b
}

func (g *genState) genUpdate() {
	m := g.m
	op := Op{K: "update"}
	h, hok := g.modelHead()
	if !hok {
		// head start missing: any update is fine to try
		h = m.nodes[g.randAliveNode()].Ref
	}
	hi := m.idx[h]
	op.Trig = h.L
	headEpoch := m.epochOf(h.S)
	j, f := m.just, m.fin
	r := g.rng.Intn(100)
	cpAt := func(e uint64) (CP, bool) {
		l, ok := chainRootAt(m, hi, m.startSlot(e))
		return CP{l, e}, ok
	}
	// honest update: a block whose state carries newer checkpoints triggers the update
	honest := -1
	for i := len(m.nodes) - 1; i >= 0; i-- {
		nd := &m.nodes[i]
		if nd.Alive && nd.IsBlock && (nd.JE > m.just.E || nd.FE > m.fin.E) && nd.JE >= m.just.E && nd.FE >= m.fin.E {
			if honest < 0 || g.rng.Chance(1, 3) {
				honest = i
			}
		}
	}
	switch {
	case r < 45 && honest >= 0:
		nd := &m.nodes[honest]
		cj, ok1 := chainRootAt(m, honest, m.startSlot(nd.JE))
		cf, ok2 := chainRootAt(m, honest, m.startSlot(nd.FE))
		if ok1 && ok2 {
			j, f = CP{cj, nd.JE}, CP{cf, nd.FE}
			op.Trig = nd.Ref.L
		}
		op.Why = "honest-advance"
	case r < 55 && headEpoch > m.just.E:
		// advance justified (and maybe finalized) along the head chain
		ej := m.just.E + 1 + uint64(g.rng.Intn(int(headEpoch-m.just.E)))
		if cp, ok := cpAt(ej); ok {
			j = cp
		}
		if g.rng.Chance(3, 5) && ej > m.fin.E+0 {
			ef := m.fin.E + 1 + uint64(g.rng.Intn(int(ej-m.fin.E)))
			if ef > ej {
				ef = ej
			}
			if cp, ok := cpAt(ef); ok {
				f = cp
			}
		}
		op.Why = "advance"
	case r < 60:
		op.Why = "same"
	case r < 66:
		if j.E > 0 {
			j.E--
		}
		if f.E > 0 && g.rng.Bool() {
			f.E--
		}
		op.Why = "older"
	case r < 72:
		j = CP{900000 + Label(g.rng.Intn(20)), m.just.E + 1}
		if g.rng.Bool() {
			f = CP{900100 + Label(g.rng.Intn(20)), m.fin.E + 1}
		}
		op.Why = "unknown-roots"
	case r < 77:
		j.E = m.just.E + 1
		f.E = j.E + 1
		op.Why = "justified-below-finalized"
	case r < 90:
		// conflicting: checkpoint root from a random node, not necessarily on the head chain
		n := &m.nodes[g.randAliveNode()]
		e := m.epochOf(n.Ref.S)
		if l, ok := chainRootAt(m, m.idx[n.Ref], m.startSlot(e)); ok {
			if g.rng.Bool() {
				j = CP{l, e}
			} else {
				f = CP{l, e}
				if j.E < e {
					j = CP{l, e}
				}
			}
		}
		op.Trig = n.Ref.L
		op.Why = "random-branch"
	default:
		op.Trig = 900200 + Label(g.rng.Intn(10))
		if headEpoch > m.just.E {
			if cp, ok := cpAt(m.just.E + 1); ok {
				j = cp
			}
		}
		op.Why = "unknown-trigger"
	}
	op.J, op.F = &j, &f
	if g.rng.Chance(7, 10) {
		op.Bals = g.randBals()
	}
	if g.cfg.Faults {
		if g.rng.Chance(1, 12) {
			op.BalFail = true
		}
		if g.rng.Chance(1, 3) {
			op.SinkAll = true
		}
		if g.rng.Chance(1, 10) {
			op.SinkFail = 1 + g.rng.Intn(6)
		}
		if g.rng.Chance(1, 25) {
			op.Cancel = true
		}
	}
	g.emit(op)
	// the generator's model follows the contract (no faults on the main line except those in op)
	applyUpdateModel(m, &op, nil)
}

func (g *genState) genPin() {
	m := g.m
	op := Op{K: "pin"}
	if g.rng.Chance(4, 5) {
		n := &m.nodes[g.randAliveNode()]
		op.R, op.S = n.Ref.L, n.Ref.S
		if g.rng.Chance(1, 5) {
			op.S += 1 + uint64(g.rng.Intn(3))
		}
	} else {
		op.R, op.S = 900300, g.maxSlot()
	}
	g.emit(op)
	if _, ok := m.idx[Ref{op.R, op.S}]; ok {
		r := Ref{op.R, op.S}
		m.pin = &r
	}
}

func (g *genState) genFindHead() {
	m := g.m
	op := Op{K: "findhead"}
	if g.rng.Chance(5, 6) {
		n := &m.nodes[g.randAliveNode()]
		op.R, op.S = n.Ref.L, n.Ref.S
	} else {
		op.R, op.S = 900400, 1
	}
	g.emit(op)
}

// Generate builds config and script from the seed alone (model-driven; it never
// looks at zrnt's answers), so a script exists even if execution kills the worker.
func Generate(seed uint64, opt core.Options) (*Config, []Op) {
	rng := core.NewRng(seed)
	cfg := &Config{}
	cfg.SPE = []uint64{2, 3, 4, 4, 8}[rng.Intn(5)]
	cfg.NVals = rng.Range(1, 12)
	if rng.Chance(1, 10) {
		cfg.NVals = []int{40, 257, 300}[rng.Intn(3)] // indices beyond one byte
	}
	// balances in a unit of the run's choosing: small numbers, real stakes (32 ETH in gwei), 2^40
	cfg.BalUnit = []uint64{1000, 1000, 1, 32_000_000_000, 1 << 40}[rng.Intn(5)]
	cfg.Balances = make([]uint64, cfg.NVals)
	for i := range cfg.Balances {
		cfg.Balances[i] = uint64(rng.Range(0, 4)) * cfg.BalUnit
	}
	cfg.AuditEvery = rng.Chance(1, 2)
	cfg.Nodes = 1
	cfg.Faults = opt.Params["faults"] == "1"
	if cfg.Faults {
		cfg.NilSink = rng.Chance(1, 6)
	}
	cfg.Anchor = Ref{1, 0}
	cfg.AnchorParent = 999999 // block-node anchor (parent root differs)
	switch rng.Intn(6) {
	case 0:
		cfg.AnchorParent = 1 // slot-node style anchor as in the repository's only test
	case 1, 2:
		cfg.Epoch0 = uint64(rng.Range(1, 3))
		if rng.Chance(1, 4) {
			cfg.Epoch0 = []uint64{257, 300, 70000}[rng.Intn(3)] // an old chain: epochs and slots beyond one and two bytes
		}
		cfg.Anchor.S = cfg.Epoch0 * cfg.SPE
	}
	g := &genState{rng: rng, cfg: cfg, next: 1}
	g.m = NewModel(cfg.SPE, cfg.Anchor, cfg.AnchorParent, CP{1, cfg.Epoch0}, CP{1, cfg.Epoch0}, cfg.Balances)

	n := rng.Range(5, 60)
	if opt.Tier == "thorough" {
		n = rng.Range(5, 160)
	}
	// per-run workload mix (swarm): weights for block slot att head audit update pin findhead
	w := []int{35, 8, 30, 10, 5, 7, 2, 3}
	switch opt.Property {
	case "C10":
		w[5] = 16
	case "C11":
		w[4] = 12
	}
	for i := range w {
		if rng.Chance(1, 5) {
			w[i] = w[i] / 3
		}
		if rng.Chance(1, 8) {
			w[i] *= 3
		}
	}
	w[0]++ // never all zero
	for len(g.ops) < n {
		switch rng.Pick(w) {
		case 0:
			g.genBlock()
		case 1:
			g.genSlot()
		case 2:
			g.genAtt()
		case 3:
			g.emit(Op{K: "head"})
		case 4:
			g.emit(Op{K: "audit"})
		case 5:
			g.genUpdate()
		case 6:
			g.genPin()
		case 7:
			g.genFindHead()
		}
	}
	g.emit(Op{K: "audit"})
	return cfg, g.ops
}
