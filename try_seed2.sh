#!/bin/bash
# try_seed2.sh <patch.diff> <ID> [ID...] : run quick checks against a scratch worktree of /repo HEAD
# with the seeded change applied (VERIF_REPO), without touching /repo or the real evidence.
P="$1"; shift
WT=$(mktemp -d /var/tmp/seedwt.XXXXXX); rmdir "$WT"
OUT=$(mktemp -d /var/tmp/seedout.XXXXXX)
git -C /repo worktree add -q --detach "$WT" HEAD || exit 2
trap 'git -C /repo worktree remove --force "$WT" 2>/dev/null; rm -rf "$OUT"' EXIT
if ! git -C "$WT" apply --check "$P" 2>/dev/null; then echo "PATCH DOES NOT APPLY: $P"; exit 3; fi
git -C "$WT" apply "$P"
# the checks run from a snapshot of /verif's last commit, so that edits in progress do not disturb them
SNAP=$(mktemp -d /var/tmp/seedverif.XXXXXX)
git -C /verif archive HEAD | tar -x -C "$SNAP"
trap 'git -C /repo worktree remove --force "$WT" 2>/dev/null; rm -rf "$OUT" "$SNAP"' EXIT
for id in "$@"; do
  out=$(cd "$SNAP" && VERIF_REPO="$WT" VERIF_OUT_DIR="$OUT" VERIF_NO_MINIMISE=1 VERIF_SEED=${VERIF_SEED:-7} ./check $id ${TIER:-quick} 2>&1); code=$?
  echo "[$id exit=$code] $(echo "$out" | grep -c '^VIOLATION') violation line(s)"
  echo "$out" | grep "violation signature\|HARNESS" | cut -c1-300 | head -4
done
