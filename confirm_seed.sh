#!/bin/bash
# confirm_seed.sh <seed-dir> : in a scratch worktree of /repo (HEAD): demo passes without the
# patch, fails with it; the existing suite passes with it. Prints one summary line.
D="$1"; NAME=$(basename "$D")
export GOFLAGS=-mod=mod GOPROXY=off GOSUMDB=off GOTOOLCHAIN=local
WT=$(mktemp -d /var/tmp/confirm.XXXXXX); rmdir "$WT"
git -C /repo worktree add -q --detach "$WT" HEAD || exit 2
trap 'git -C /repo worktree remove --force "$WT" 2>/dev/null' EXIT
cd "$WT"
if ! git apply --check "$D/patch.diff" 2>/dev/null; then echo "$NAME: PATCH-DOES-NOT-APPLY"; exit 0; fi
# place demo files
pkgs=""
for f in "$D"/*_test.go; do
  [ -e "$f" ] || continue
  dest=$(grep -o 'eth2/[A-Za-z0-9_/]*' "$D/demo_path.txt" | head -1)
  dest=${dest%/}
  case "$dest" in *.go) dest=$(dirname "$dest");; esac
  [ -d "$dest" ] || dest=$(dirname "$dest")
  cp "$f" "$dest/"; pkgs="$pkgs ./$dest/"
done
pkgs=$(echo $pkgs | tr ' ' '\n' | sort -u | tr '\n' ' ')
# the test name pattern: the one the demo's own instructions give, else anything with "seed" in it
PAT=$(grep -o -- "-run [^ ]*" "$D/demo_path.txt" | head -1 | sed "s/^-run //; s/^['\"]//; s/['\"]$//")
[ -n "$PAT" ] || PAT='Seed|seed|SEED'
# a demonstration of a data race asks for the race detector in its own instructions
RACE=""; grep -q -- "go test -race" "$D/demo_path.txt" && RACE="-race"
run_demo() { go test $RACE -vet=off -count=1 -run "$PAT" $pkgs >/tmp/confirm-$NAME-$1.log 2>&1; echo $?; }
without=$(run_demo without)
git apply "$D/patch.diff"
with=$(run_demo with)
# full suite with patch, demo files removed
for f in "$D"/*_test.go; do rm -f */*/$(basename $f) */*/*/$(basename $f) */*/*/*/$(basename $f); done
go test -vet=off -count=1 ./... >/tmp/confirm-$NAME-suite.log 2>&1; suite=$?
echo "$NAME: demo_without_patch_exit=$without demo_with_patch_exit=$with suite_with_patch_exit=$suite pkgs=$pkgs"
