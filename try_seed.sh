#!/bin/bash
# try_seed.sh <patch.diff> <ID> [ID...] : apply a seeded change to /repo, run quick checks, revert.
P="$1"; shift
cd /repo || exit 2
if ! git apply --check "$P" 2>/dev/null; then echo "PATCH DOES NOT APPLY: $P"; exit 3; fi
git apply "$P"
trap 'git -C /repo checkout -- . ; git -C /repo clean -fdq' EXIT
for id in "$@"; do
  out=$(cd /verif && VERIF_SEED=${VERIF_SEED:-7} ./check $id ${TIER:-quick} 2>&1); code=$?
  echo "[$id exit=$code] $(echo "$out" | grep -c '^VIOLATION') violation line(s)"
  echo "$out" | grep "violation signature" | cut -c1-260 | head -4
done
