#!/bin/bash
# runs every thorough check in turn (used with `vp run --with-repo`): VERIF_REPO = snapshot of /repo HEAD
export VERIF_REPO="${VP_RUN_REPO:-/repo}"
export VERIF_DIR_OVERRIDE="$PWD"
for id in ${@:-C09 C10 C11 C16 C20 C17 C08 C01 C02 C03 C07 C12 C13 C14 C15 C05 C04 C18}; do
  echo "##### $id thorough  $(date +%T)"
  VERIF_SEED=${VERIF_SEED:-424242} ./check $id thorough 2>&1 | grep -v "^  note" | tail -12
done
