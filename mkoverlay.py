#!/usr/bin/env python3
"""mkoverlay.py <scratch> <verif_dir> [shim]  -> writes <scratch>/overlay.json
Build-time instrumentation of /repo WITHOUT touching it (go build -overlay):
  always : ADD eth2/pool/zz_verif_export.go (read-only view) and eth2/util/verifsync (lock shim package)
  shim   : additionally redirect `import "sync"` of the components documented as shared
           (every non-test file under eth2/forkchoice, eth2/pool and common/validator_pubkeys.go,
           as they are in the working tree NOW) to the shim."""
import json, os, re, sys
scratch, verif = sys.argv[1], sys.argv[2]
REPO = os.environ.get("VERIF_REPO", "/repo")
shim = len(sys.argv) > 3 and sys.argv[3] == "shim"
rep = {
    REPO + "/eth2/pool/zz_verif_export.go": verif + "/sim/overlay/pool_export.go.txt",
    REPO + "/eth2/util/verifsync/verifsync.go": verif + "/sim/overlay/verifsync.go.txt",
}
if shim:
    files = []
    for d in (REPO + "/eth2/forkchoice", REPO + "/eth2/forkchoice/proto", REPO + "/eth2/pool"):
        for f in sorted(os.listdir(d)):
            if f.endswith(".go") and not f.endswith("_test.go"):
                files.append(os.path.join(d, f))
    files.append(REPO + "/eth2/beacon/common/validator_pubkeys.go")
    files.append(REPO + "/eth2/beacon/common/bls.go")
    n = 0
    for f in files:
        src = open(f).read()
        new = re.sub(r'(?m)^(\s*)"sync"\s*$', r'\1sync "github.com/protolambda/zrnt/eth2/util/verifsync"', src)
        new = re.sub(r'(?m)^import "sync"\s*$', 'import sync "github.com/protolambda/zrnt/eth2/util/verifsync"', new)
        if new != src:
            out = os.path.join(scratch, "shim_%d_%s" % (n, os.path.basename(f)))
            open(out, "w").write(new)
            rep[f] = out
            n += 1
    print("shimmed %d file(s)" % n, file=sys.stderr)
json.dump({"Replace": rep}, open(os.path.join(scratch, "overlay.json"), "w"), indent=1)
