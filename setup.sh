#!/bin/bash
# Offline setup: warm the Go build cache for the simulators (files on disk only).
set -e
cd "$(dirname "$0")/sim"
export GOFLAGS=-mod=mod GOPROXY=off GOSUMDB=off GOTOOLCHAIN=local
export GOCACHE="${GOCACHE:-/var/tmp/verif-gocache}"
go build -o /dev/null ./cmd/zvsim
echo "setup ok"
