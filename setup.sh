#!/bin/bash
# Offline setup: warm the Go build cache for the simulators (files on disk only).
set -e
cd "$(dirname "$0")/sim"
export GOFLAGS=-mod=mod GOPROXY=off GOSUMDB=off GOTOOLCHAIN=local
export GOCACHE="${GOCACHE:-/var/tmp/verif-gocache}"
OVL="$(mktemp /var/tmp/zvovl.XXXXXX)"
printf '{"Replace": {"/repo/eth2/pool/zz_verif_export.go": "%s/overlay/pool_export.go.txt"}}' "$PWD" > "$OVL"
go build -overlay "$OVL" -o /dev/null ./cmd/zvsim
rm -f "$OVL"
echo "setup ok"
