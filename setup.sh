#!/bin/bash
# Offline setup: warm the Go build cache for the simulators (files on disk only).
set -e
cd "$(dirname "$0")/sim"
export GOFLAGS=-mod=mod GOPROXY=off GOSUMDB=off GOTOOLCHAIN=local
export GOCACHE="${GOCACHE:-/var/tmp/verif-gocache}"
S="$(mktemp -d /var/tmp/zvsetup.XXXXXX)"
trap 'rm -rf "$S"' EXIT
V="$(cd .. && pwd)"
python3 "$V/mkoverlay.py" "$S" "$V"
go build -overlay "$S/overlay.json" -o /dev/null ./cmd/zvsim
mkdir -p "$S/r" && python3 "$V/mkoverlay.py" "$S/r" "$V" shim
go build -race -overlay "$S/r/overlay.json" -o /dev/null ./cmd/zvsim
echo "setup ok"
