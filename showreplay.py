#!/usr/bin/env python3
import json,sys
for f in sys.argv[1:]:
    d=json.load(open(f))
    print('==',f); print(d['signature'],'|', d.get('detail')); print(json.dumps(d.get('config')))
    sc=d.get('script') or []
    if isinstance(sc,dict):
        print(json.dumps(sc)[:3000])
    else:
        for o in sc: print('  ',json.dumps(o))
    print(d.get('note'))
