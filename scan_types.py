#!/usr/bin/env python3
"""scan_types.py <repo> <registry.go>: which exported SSZ types of the tree (types with a Deserialize
method under eth2/beacon) the codec simulation registers. Printed as JSON; goes into the evidence."""
import json, os, re, sys
repo, reg = sys.argv[1], sys.argv[2]
pat = re.compile(r'^func \((?:\w+ )?\*?(\w+)\) Deserialize\(', re.M)
tree = set()
for root, _, files in os.walk(os.path.join(repo, 'eth2', 'beacon')):
    for f in files:
        if f.endswith('.go') and not f.endswith('_test.go'):
            pkg = os.path.basename(root)
            for m in pat.finditer(open(os.path.join(root, f)).read()):
                if m.group(1)[0].isupper():
                    tree.add(pkg + '.' + m.group(1))
registered = set(re.findall(r'^\t\{"(\w+\.\w+)",', open(reg).read(), re.M))
print(json.dumps({"exported_types_in_tree": len(tree), "registered": len(registered & tree),
                  "not_registered": sorted(tree - registered), "registered_but_absent": sorted(registered - tree)}))
