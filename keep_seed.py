#!/usr/bin/env python3
"""keep_seed.py <seed-dir> <property> <caught-by> <needs...> : copy a confirmed seeded change to /verif/seeded/<name>/"""
import sys, os, shutil, json, glob
d, prop, caught = sys.argv[1], sys.argv[2], sys.argv[3]
needs = " ".join(sys.argv[4:])
name = os.path.basename(d).replace("seed-", "")
out = "/verif/seeded/" + name
os.makedirs(out, exist_ok=True)
for f in glob.glob(d + "/*"):
    b = os.path.basename(f)
    if b == "patch.diff" or b.endswith("_test.go") or b in ("demo_path.txt", "notes.md"):
        shutil.copy(f, out)
meta = {"breaks_property": prop, "needs_to_manifest": needs,
        "confirmed": "scratch worktree of /repo HEAD via /verif/confirm_seed.sh: demo passes without the patch, fails with it; existing suite (go test -vet=off -count=1 ./...) passes with it",
        "checked_with": "/verif/try_seed.sh patch.diff %s (git apply in /repo, quick check, git checkout) or /verif/try_seed2.sh (same against a scratch worktree through VERIF_REPO)" % prop,
        "caught_by": caught}
json.dump(meta, open(out + "/meta.json", "w"), indent=1)
print("kept", out)
