#!/usr/bin/env python3
"""Regenerates /verif/MANIFEST.json from the table below (kept valid at all times)."""
import json
checks = {}
def chk(pid, engine, level, text, note, technique, design):
    checks[pid] = {
        "property_id": pid,
        "quick_cmd": "./check %s quick" % pid,
        "thorough_cmd": "./check %s thorough" % pid,
        "evidence_file": "/verif/evidence/%s.json" % pid,
        "replay_cmd_template": "./check replay {path}",
        "engine": engine,
        "level_claimed": {"category": level, "text": text, "design_ref": design},
        "level_note": note,
        "technique": technique,
    }
SIM = "deterministic simulation with fault injection: "
chk("C09", "fcsim", "exploration",
    "Seeded histories of ProcessBlock/ProcessSlot/ProcessAttestation/UpdateJustified/SetPin/Head/FindHead calls on the real ProtoForkChoice (late blocks, gap slots, double proposals, duplicate/old/unknown votes, balance changes, viability changes); after every call the reported head is compared with a naive recursive LMD-GHOST over an explicit tree (both documented parent relations). Sampled search over histories, not a proof.",
    "Trusts the harness tree model/GHOST; abstract blocks and FFG epochs (no real states); zero block roots and out-of-domain ProcessSlot arguments (unknown parent, slot not after the root's first known slot) are not generated; vote indices bounded.",
    SIM + "seeded API-history search vs. executable reference model (naive GHOST), signature-keyed ddmin minimisation, replay files", "DESIGN.md section 6 C09")
chk("C10", "fcsim", "exploration",
    "Histories followed by UpdateJustified with checkpoints ahead/equal/behind/unknown/conflicting, with and without pin; prune set, once-only reporting and canonical flags compared with a tree walk; termination decided structurally (runtime deadlock verdict in a single-goroutine worker, no wall-clock). Fault injection: failing balances callback, cancelled context, and the prune sink failing at EVERY k-th call of a prune (enumerated on forks of the history) under a narrowly relaxed oracle.",
    "Same trusted base as C09. Updates after which no node of the finalized subtree is viable, and mixed newer/older checkpoint pairs, are accepted either way (the property does not fix them).",
    SIM + "seeded history search + enumerated sink-failure points vs. tree-walk reference model", "DESIGN.md section 6 C10")
chk("C11", "fcsim", "exploration",
    "After every step (or at audit steps) of the same histories, before and after pruning: GetSlot, InSubtree (ordered root pairs), ClosestToSlot, CanonAtSlot (with/without block), CanonicalChain (prefix down to the anchor), Search by parent and/or slot (result set and canonical split), ProcessBlock's ok, and unknown/pruned roots answered as unknown, all against a direct walk of the model tree.",
    "Same trusted base as C09. Head-dependent queries are compared only where both documented fork-choice parent relations give the same viable head. The no-filter 'heads' form of Search is not compared (not named by the property; documentation ambiguous).",
    SIM + "seeded history search vs. tree-walk reference model", "DESIGN.md section 6 C11")
chk("C16", "cachesim", "exploration",
    "A tree of simulated chains that agree on a prefix of validators and then include the same depositors in different orders, all sharing PubkeyCache handles exactly as ProcessDeposit does (AddValidator(len(registry), pubkey) on the chain's handle), plus known-pair and beyond-next calls; after every call every live handle is audited against a per-handle list model (index->pubkey, pubkey->index, absent entries, handle identity on no-op vs conflict). Termination is decided structurally: unbounded recursion ends in a fatal stack overflow under a 2 MiB stack limit, attributed to the announced seed; a self-deadlock is the runtime's deadlock verdict.",
    "Trusts the list model. Pubkeys are synthetic 48-byte labels (no decompression). A pubkey already present at a LOWER index of the same history is not generated (ProcessDeposit treats it as a top-up and never calls AddValidator).",
    SIM + "seeded deposit-history search vs. per-handle list model; crash-attributed non-termination", "DESIGN.md section 6 C16")
chk("C20", "poolsim", "exploration",
    "Arrival histories at the pools as a faulty gossip layer produces them (duplicates, late re-delivery, reordering, equivocating voters, empty bitfields): single and aggregate attestations over a synthetic committee table, attester/proposer slashings, exits, sync messages and contributions, interleaved with Search (all filter combinations), All, Prune and Reset (forward, same, back, jump; pool used with and without a warm-up Reset). Oracle: relational model - no panic; every returned item is an accepted one, unaltered and matching the filter; exact duplicates absorbed without changing query results; conflicting second single vote reported; every accepted aggregate covered by the returned bitfields until a Prune covers it; pruned items never returned; sync three-slot window contents exact across +-1 rotations (observed through a build-time overlay export, /repo untouched).",
    "Trusts the relational model. Signatures are unique labels (pools never verify). Bitfields whose length differs from the committee are not generated (not well-formed). After a Reset jump, overlapping window slots may be kept or cleared.",
    SIM + "seeded arrival-history search with duplicate/late/reordered delivery vs. set/relation model", "DESIGN.md section 6 C20")
chk("C17", "schedsim", "exploration",
    "2-4 real goroutines issue generated call sequences on ONE shared ProtoForkChoice / PubkeyCache (+ the CachedPubkeys it hands out, real BLS decompression) / AttestationPool / SyncCommitteePool / slashing and exit pools under a seeded cooperative scheduler that owns every lock acquire/release (build-time overlay shim around package sync; /repo untouched). Exactly one task runs at a time; hand-off uses raw pipe syscalls that create no happens-before edge, so the Go race detector (-race build) reports every conflicting access pair not ordered by the component's own locks although the run is serialised and replays exactly. Verdicts: race report (normalised to the pair of zrnt functions), 'all unfinished tasks blocked' (deterministic deadlock verdict incl. writer-preference of RWMutex), panic/fatal, and porcupine linearizability of the recorded call/return history (global event sequence stamps) against the sequential behaviour of the same code.",
    "Schedules are sampled (seeded), <= 4 tasks x <= 4 calls; yield points exist at lock operations and call boundaries only (code that takes no lock is covered by the race detector, not by interleaving inside it); the sequential specification for linearizability is the implementation itself run single-threaded (its sequential correctness is the business of C09-C11/C16/C20); porcupine timeouts are counted as inconclusive.",
    SIM + "seeded cooperative scheduler over real goroutines + race detector without scheduler-induced happens-before + porcupine linearizability", "DESIGN.md section 6 C17, section 7")
CHAIN = "Simulated beacon network on the real zrnt code: 1-3 nodes (slot-by-slot ticker, multi-slot jumper, restarter that rebuilds from SSZ bytes), 16-64 validators with real BLS keys doing honest-validator duties, swarm-drawn presets (small vectors so wrap-arounds, sync periods, eth1 voting periods and queues turn over inside a run) and fork schedules (equal, adjacent, never-activated forks), blocks carrying attestations, slashings, deposits with real Merkle proofs, exits, BLS changes, sync aggregates, payloads, withdrawals, blob commitments; faults: skipped slots, partitions with late batch delivery, crash/restart, competing forks. "
MODEL = "Oracle: refspec, an independent naive executable transcription of the consensus specification (phase0..deneb; own formulas for every transition, committees per index via compute_shuffled_index, no caches), stepping from the SAME pre-state as zrnt for every transition so that each step of each reached history is its own obligation; post-states compared field for field. "
chk("C01", "chainsim", "exploration",
    CHAIN + MODEL + "C01: every block the honest network produces (attestations incl. late and repeated inclusion, proposer/attester slashings, deposits incl. top-ups/bad proofs-of-possession/undecodable keys, exits, BLS changes, partial sync aggregates, payloads, withdrawals, blob commitments; all five forks, blocks in the first slot of fork epochs, competing forks) must be accepted by zrnt AND by the model's process_block, with identical post-state fields and the declared state root; the signed block also passes the model's full state_transition.",
    "Trusts refspec's fidelity to the spec (written from knowledge of it; no spec text or vectors exist offline; every disagreement on the unchanged tree was triaged by hand), zrnt's plain data struct types and their struct-form hash_tree_root (shared with the model), BLS, SHA-256. States are those a <= 64-validator network reaches in <= 20 epochs; minimal-preset-derived configurations only.",
    SIM + "step-wise refinement against an executable reference model along simulated network histories", "DESIGN.md section 6 C01")
chk("C02", "chainsim", "exploration",
    CHAIN + MODEL + "C02: every ProcessSlots any node makes - single-slot ticks, multi-slot jumps before a block, across epoch boundaries and fork epochs (incl. several forks at one epoch and forks at genesis) - equals the model's process_slots field for field, including the state type after the call; histories include low participation (leaks), slashings, ejections near the ejection balance, exit and activation queues with churn 1-4, deposits, small vectors that wrap.",
    "As C01. Long leaks / drained balances / mass-slashing episodes are reached only as far as 20-epoch runs with small quotients go.",
    SIM + "step-wise refinement against an executable reference model along simulated network histories", "DESIGN.md section 6 C02")
chk("C07", "chainsim", "exploration",
    CHAIN + MODEL + "C07: on reached states (every node, after transitions and context rebuilds): committee counts and every beacon committee of the previous, current and next epoch, the proposer of every slot of the current epoch, and the cached current/next sync-committee indices and pubkeys equal what the model computes from the state per index; the committees of an epoch partition its active set; an out-of-range committee index is an error.",
    "As C01; registry sizes 16-88, TARGET_COMMITTEE_SIZE/MAX_COMMITTEES_PER_SLOT/SHUFFLE_ROUND_COUNT/SYNC_COMMITTEE_SIZE are swarm knobs.",
    SIM + "reference-model comparison of cached assignments on states reached by simulated histories", "DESIGN.md section 6 C07")
chk("C13", "chainsim", "exploration",
    "Applies weakly (a pure function of the deposit log), decided as the first step of simulated histories: per run 6 deposit logs from simulated depositors (valid, top-ups via repeated pubkeys, proofs-of-possession under a wrong domain, undecodable pubkeys and signatures, amounts below/at/above 32 ETH, real Merkle proofs over the growing prefix, eth1 timestamps on both sides of MIN_GENESIS_TIME) are turned into genesis states by GenesisFromEth1(..., false) and by the model's initialize_beacon_state_from_eth1: all fields equal, IsValidGenesisState agrees, and the returned context passes the C07/C08 monitors.",
    "As C01. zrnt documents that it cannot build states with fewer validators than SLOTS_PER_EPOCH or without any active validator (no context can exist); such logs are accepted as refused when the model says they are not a valid genesis.",
    SIM + "reference-model comparison at the genesis step of simulated histories", "DESIGN.md section 6 C13")
chk("C03", "chainsim", "exploration",
    CHAIN + MODEL + "C03 faults: a byzantine proposer takes each honest block and applies one corruption from a catalogue of 70 (header slot/parent/proposer/state root; proposer signature flipped/zero/infinity/other key/other domain type/other fork version/other chain; randao; per operation kind: bad signature, out-of-window, out-of-range index, wrong bit length, no participants, extra participant, duplicated, not slashable, already slashed, slashing of a validator that is already withdrawable with headers/votes from when it was slashable, unsorted/duplicate indices, deposit count/order/proof/amount, exits future/twice/other validator/EIP-7044 domain, BLS change wrong key/twice, sync aggregate extra bit/bad signature/no bits with real signature; payload parent hash/randao/timestamp; withdrawals missing/amount/address/index/unexpected; blob commitments over the limit), re-signs it with a state root recomputed by the MODEL when the model still accepts (valid variants feed C01), and sends it as bytes; a corrupting link flips 1-3 bits of the frame. Verdicts: model rejects => zrnt (decode + StateTransition) must return an error and never panic; when only the stale state root stands in the way, zrnt is also run without result validation and must still refuse the content; model accepts => zrnt accepts with an identical post-state.",
    "As C01. The complement of the valid set is sampled through the catalogue and bit flips, not enumerated. Variants with a slot more than 8 epochs ahead are skipped (process_slots of the specification itself walks every slot).",
    SIM + "byzantine-proposer and corrupting-link fault injection with verdicts compared against an executable reference model", "DESIGN.md section 6 C03")
chk("C04", "chainsim", "exploration",
    CHAIN + "C04 monitors at every seam where bytes leave or enter a node (signed blocks of 5 forks through ForkDecoder, beacon states of 5 forks on the restart/disk path, and at the gossip seam single attestations, signed aggregate-and-proofs, signed exits, proposer and attester slashings, sync-committee messages and signed contribution-and-proofs): bytes written == ByteLength, FixedLength says variable, decode(encode(v)) re-encodes identically with the same root, struct-form bytes == tree-view bytes, JSON and YAML round trips; stream faults: legal short reads change nothing, a reader error at a PRNG-chosen byte and a failing writer surface as errors, truncated frames and a wrong first offset are refused (a cut at an element boundary of the trailing list is accepted only if it is itself a canonical encoding).",
    "PARTIAL by design: only types that cross a simulated seam are covered (signed blocks and everything nested in them, beacon states and everything nested in them, the seven gossip message types, phase0..deneb); the 'every exported type x every value' part of the statement is a pure function of the value and is not decided by this technique; Electra, light-client and pending-request types never ride a seam here. No independent SSZ codec: the reference is agreement between the struct form and the tree-view form.",
    SIM + "seam monitors on a simulated network + injected stream faults (short/err reads, failing writer, torn frames, bad offsets)", "DESIGN.md section 6 C04")
chk("C05", "chainsim", "exploration",
    CHAIN + "C05 monitors: after transitions on every node (mutation histories on structurally shared trees: resets at wrap-around of small vectors, participation rotation, registry appends, sibling copies advanced alternately) the state's tree root == struct-form root of the same content == root of a view rebuilt from its own bytes; for every signed block (5 forks) and every gossip message that crosses the wire (attestation, exit, proposer/attester slashing, sync message, signed contribution-and-proof) the tree-view TYPE decodes the struct form's bytes, has the same root, re-encodes identically and agrees on fixed/variable size; block header root == envelope root.",
    "PARTIAL: three-way agreement is between zrnt's tree-view merkleization, zrnt's struct-form merkleization and a rebuild from bytes; an independent merkleizer of the SSZ spec is not part of this revision (refspec compares state roots through the struct form only). Types that never ride a seam are not covered.",
    SIM + "stale-cache detection by rebuild-from-scratch along simulated mutation histories", "DESIGN.md section 6 C05")
chk("C08", "chainsim", "exploration",
    CHAIN + "C08 monitors after every block import, slot tick, epoch boundary, deposit and upgrade on every node: the live EpochsContext (three shufflings with active sets and committees, proposers, effective balances, total active stake and its root, sync-committee indices and pubkeys, pubkey/index lookups of the whole registry) equals NewEpochsContext(state); every node reaches the same block by a different path (ticked state, multi-slot jump, state reloaded from bytes with a fresh context after a crash) and must give the same verdict and the same post-state root.",
    "Oracle is the from-scratch path of the same code plus cross-path agreement (a fault common to both paths needs the refspec checks of C01/C02/C07, not yet claimed).",
    SIM + "incremental-vs-from-scratch refinement along simulated histories with crash/restart and partition faults", "DESIGN.md section 6 C08")
chk("C12", "chainsim", "exploration",
    CHAIN + "C12: every message the simulated validators produce on all eight topics (blocks, single attestations with their subnet, aggregate-and-proofs with selection proofs, exits, proposer and attester slashings incl. votes whose signer sets only partly overlap, sync-committee messages per subnet, contribution-and-proofs) is offered to the real topic validator over a chain-view adapter on the simulated block tree, under the node's clock. Faults: duplicate delivery, clock skew on both sides of every window, messages about blocks the node has not seen yet, target state unavailable (Towards times out), node restart that loses the seen-caches followed by re-delivery of old blocks around the finalized slot, and one single-condition corruption per message (signatures of every layer, subnet, committee index, bit count, target epoch, aggregator outside the committee, validly signed non-proposer, other fork version, subcommittee index 4, no participants). Oracle (constructive: the harness knows which single condition it made fail): all conditions hold => ACCEPT; any fails => never ACCEPT; only a timing-class condition fails => IGNORE; any Mark* during a call that does not end in ACCEPT is a violation; the honest message after a refused corruption must still be ACCEPTed.",
    "The chain view (beacon.Chain, entries, Towards) and the seen-caches are harness code on the simulated tree; REJECT vs IGNORE for validity-class failures is not checked (the property does not fix it); 'aggregator not selected' cannot be produced with committees below 32 members; the backend's domain getter follows the harness's fork schedule.",
    SIM + "gossip-layer fault injection (duplicates, clock skew, unknown blocks, restarts, byzantine senders) with a constructive per-condition oracle", "DESIGN.md section 6 C12")
chk("C14", "chainsim", "exploration",
    CHAIN + "C14 monitors at every state reached on every node under the run's fork schedule: Spec.ForkVersion(slot), ForkDecoder.ForkDigest(epoch), the Go type BlockAllocator(digest) yields, the state type after ProcessSlots, and state.fork (previous/current/epoch) all name the fork the harness's own schedule function names; bytes -> block -> envelope preserves root, signature and state root; blocks signed under the slot's version verify (they are imported with signature validation).",
    "PARTIAL: the lookup-agreement part is decided; 'a block signed under any other version does not verify' is only covered through C03-style faults once those are claimed; the built-in mainnet/minimal constant tables are compared with the harness's own table of 148 published constants at the start of every run (a data comparison, not a simulation; constants the author could not recall with certainty are left out).",
    SIM + "fork-schedule swarm (equal/adjacent/never forks) with lookup-agreement invariants at every simulated slot", "DESIGN.md section 6 C14")
chk("C15", "chainsim", "exploration",
    CHAIN + "C15 monitors: every stored post-state (builder and nodes) is snapshotted as bytes at store time and re-serialized at later events after siblings/descendants derived from CopyState+Clone were advanced by full transitions in PRNG-interleaved order: it must never change; accessor sweep on reached states of all five forks: every getter and typed sub-view element (validators, balances, mixes, roots, slashings, checkpoints, header, eth1 data, fork) equals the encoded state; 17 setters applied to a copy change exactly their field of the encoded state and nothing in the original.",
    "Accessor exactness is a per-field fact sampled on reached states (not proved); fork-specific accessors (participation, inactivity scores, sync committees, execution header, withdrawal cursors) are covered only through the transitions that use them.",
    SIM + "snapshot-immutability monitor over sibling copies advanced on different nodes + accessor sweep", "DESIGN.md section 6 C15")
chk("C18", "chainsim", "fault_enumeration",
    CHAIN + "C18: for every block import of node 0 and both validateResult settings: an undisturbed run under a poll-counting context and a recording engine must equal the plain run; then EVERY context poll k (cancel from poll k on; quick tier: all k for a third of the transitions, a stride sample otherwise) and EVERY engine call x {invalid, error} is injected on a fresh copy and the transition must return an error; ProcessSlots alone likewise; the recorded engine arguments must be the body's payload, 0x01||sha256(commitment)[1:] per commitment in order, and the block's parent root.",
    "Enumeration is complete over the fault points of each explored transition (thorough tier), exploration over transitions. 'Work it did not complete' is judged by the error return only.",
    SIM + "enumerated fault points (context polls, engine calls x verdicts) per simulated transition", "DESIGN.md section 6 C18")

pending = {
 "C01": "check not built yet (planned: chainsim + refspec); not claimed in this revision",
 "C02": "check not built yet (planned: chainsim + refspec); not claimed in this revision",
 "C03": "check not built yet (planned: chainsim byzantine faults + refspec); not claimed in this revision",
 "C04": "check not built yet (planned: chainsim wire/disk/stream seams); not claimed in this revision",
 "C05": "check not built yet (planned: chainsim root agreement monitors); not claimed in this revision",
 "C06": "pure function of (seed, rounds, list): no schedule, clock, fault, interleaving or history for a simulator to own; its in-system uses are checked under C07",
 "C07": "check not built yet (planned: chainsim + refspec committees); not claimed in this revision",
 "C08": "check not built yet (planned: chainsim incremental-vs-fresh context, crash/restart); not claimed in this revision",
 "C12": "check not built yet (planned: gossip validators inside chainsim); not claimed in this revision",
 "C13": "check not built yet (planned: genesis step of chainsim); not claimed in this revision",
 "C14": "check not built yet (planned: fork-schedule lookups in chainsim); not claimed in this revision",
 "C15": "check not built yet (planned: sibling-copy monitors in chainsim); not claimed in this revision",
 "C16": "check not built yet (planned: cachesim); not claimed in this revision",
 "C17": "check not built yet (planned: schedsim); not claimed in this revision",
 "C18": "check not built yet (planned: faultsim); not claimed in this revision",
 "C19": "pure numeric/time/Merkle helpers over the uint64 domain: boundary inputs that no simulated history, schedule or fault produces; values that do arise are checked in context by other properties' oracles",
 "C20": "check not built yet (planned: poolsim); not claimed in this revision",
}
for pid in checks: pending.pop(pid, None)

engines = [
 {"name": "cachesim", "path": "sim/cachesim", "serves_properties": ["C16"], "kind_free_text": "tree of deposit histories sharing real PubkeyCache handles vs. per-handle list model"},
 {"name": "poolsim", "path": "sim/poolsim", "serves_properties": ["C20"], "kind_free_text": "operation pools fed by faulty arrival histories vs. set/relation model"},
 {"name": "schedsim", "path": "sim/schedsim", "serves_properties": ["C17"], "kind_free_text": "seeded cooperative scheduler over real goroutines on shared components; race detector; porcupine"},
 {"name": "chainsim", "path": "sim/chainsim", "serves_properties": ["C01", "C02", "C03", "C04", "C05", "C07", "C08", "C12", "C13", "C14", "C15", "C18"], "kind_free_text": "simulated beacon network on the real state transition; metamorphic/self oracles + fault enumeration"},
 {"name": "refspec", "path": "sim/refspec", "serves_properties": ["C01", "C02", "C03", "C07", "C13"], "kind_free_text": "independent executable reference model of the consensus spec (oracle, not an engine)"},
 {"name": "fcsim", "path": "sim/fcsim", "serves_properties": ["C09", "C10", "C11"], "kind_free_text": "abstract block-tree histories on the real ProtoForkChoice/ProtoArray/ProtoVoteStore vs. naive GHOST + tree walk"},
]
m = {
 "version": 1,
 "setup_cmd": "./setup.sh",
 "hooks": {
  "guard": "none in /repo: no hook is committed; files under /verif/sim/overlay are ADDED to zrnt packages at build time with `go build -overlay` (read-only exports / scheduling shims), the repository tree is never written",
  "enable": "checks build /verif/sim with `replace github.com/protolambda/zrnt => /repo` (plus -overlay for the schedule-controlled engines)",
  "baseline_off_cmd": "cd /repo && GOFLAGS=-mod=mod GOPROXY=off GOSUMDB=off go test -vet=off -count=1 ./...",
  "source_commits": [],
  "add_only": True
 },
 "engines": engines,
 "checks": [checks[k] for k in sorted(checks)],
 "not_applicable": [{"property_id": k, "reason": v} for k, v in sorted(pending.items())],
 "notes": "All checks: `./check <ID> <quick|thorough>` rebuilds the simulators against /repo's current working tree in a scratch dir under /var/tmp (removed on exit). VERIF_SEED selects the batch seed. Exit 2 = harness trouble (never a VIOLATION). Fixes to genuine defects in /repo are `fix:` commits recorded in known_findings.json (status fixed); their scripts under findings/ are replayed by every check of the property and reported as VIOLATION if they ever reproduce again."
}
json.dump(m, open('/verif/MANIFEST.json', 'w'), indent=1)
print("ok", len(m["checks"]), "checks", len(m["not_applicable"]), "not applicable")
