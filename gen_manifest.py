#!/usr/bin/env python3
"""Regenerates /verif/MANIFEST.json from the table below (kept valid at all times)."""
import json
checks = {}
def chk(pid, engine, level, text, note, technique, design):
    checks[pid] = {
        "property_id": pid,
        "quick_cmd": "./check %s quick" % pid,
        "thorough_cmd": "./check %s thorough" % pid,
        "evidence_file": "/verif/evidence/%s.json" % pid,
        "replay_cmd_template": "./check replay {path}",
        "engine": engine,
        "level_claimed": {"category": level, "text": text, "design_ref": design},
        "level_note": note,
        "technique": technique,
    }
SIM = "deterministic simulation with fault injection: "
chk("C09", "fcsim", "exploration",
    "Seeded histories of ProcessBlock/ProcessSlot/ProcessAttestation/UpdateJustified/SetPin/Head/FindHead calls on the real ProtoForkChoice (late blocks, gap slots, double proposals, duplicate/old/unknown votes, balance changes, viability changes); after every call the reported head is compared with a naive recursive LMD-GHOST over an explicit tree (both documented parent relations). Sampled search over histories, not a proof.",
    "Trusts the harness tree model/GHOST; abstract blocks and FFG epochs (no real states); zero block roots and out-of-domain ProcessSlot arguments (unknown parent, slot not after the root's first known slot) are not generated; vote indices bounded.",
    SIM + "seeded API-history search vs. executable reference model (naive GHOST), signature-keyed ddmin minimisation, replay files", "DESIGN.md section 6 C09")
chk("C10", "fcsim", "exploration",
    "Histories followed by UpdateJustified with checkpoints ahead/equal/behind/unknown/conflicting, with and without pin; prune set, once-only reporting and canonical flags compared with a tree walk; termination decided structurally (runtime deadlock verdict in a single-goroutine worker, no wall-clock). Fault injection: failing balances callback, cancelled context, and the prune sink failing at EVERY k-th call of a prune (enumerated on forks of the history) under a narrowly relaxed oracle.",
    "Same trusted base as C09. Updates after which no node of the finalized subtree is viable, and mixed newer/older checkpoint pairs, are accepted either way (the property does not fix them).",
    SIM + "seeded history search + enumerated sink-failure points vs. tree-walk reference model", "DESIGN.md section 6 C10")
chk("C11", "fcsim", "exploration",
    "After every step (or at audit steps) of the same histories, before and after pruning: GetSlot, InSubtree (ordered root pairs), ClosestToSlot, CanonAtSlot (with/without block), CanonicalChain (prefix down to the anchor), Search by parent and/or slot (result set and canonical split), ProcessBlock's ok, and unknown/pruned roots answered as unknown, all against a direct walk of the model tree.",
    "Same trusted base as C09. Head-dependent queries are compared only where both documented fork-choice parent relations give the same viable head. The no-filter 'heads' form of Search is not compared (not named by the property; documentation ambiguous).",
    SIM + "seeded history search vs. tree-walk reference model", "DESIGN.md section 6 C11")
chk("C16", "cachesim", "exploration",
    "A tree of simulated chains that agree on a prefix of validators and then include the same depositors in different orders, all sharing PubkeyCache handles exactly as ProcessDeposit does (AddValidator(len(registry), pubkey) on the chain's handle), plus known-pair and beyond-next calls; after every call every live handle is audited against a per-handle list model (index->pubkey, pubkey->index, absent entries, handle identity on no-op vs conflict). Termination is decided structurally: unbounded recursion ends in a fatal stack overflow under a 2 MiB stack limit, attributed to the announced seed; a self-deadlock is the runtime's deadlock verdict.",
    "Trusts the list model. Pubkeys are synthetic 48-byte labels (no decompression). A pubkey already present at a LOWER index of the same history is not generated (ProcessDeposit treats it as a top-up and never calls AddValidator).",
    SIM + "seeded deposit-history search vs. per-handle list model; crash-attributed non-termination", "DESIGN.md section 6 C16")
chk("C20", "poolsim", "exploration",
    "Arrival histories at the pools as a faulty gossip layer produces them (duplicates, late re-delivery, reordering, equivocating voters, empty bitfields): single and aggregate attestations over a synthetic committee table, attester/proposer slashings, exits, sync messages and contributions, interleaved with Search (all filter combinations), All, Prune and Reset (forward, same, back, jump; pool used with and without a warm-up Reset). Oracle: relational model - no panic; every returned item is an accepted one, unaltered and matching the filter; exact duplicates absorbed without changing query results; conflicting second single vote reported; every accepted aggregate covered by the returned bitfields until a Prune covers it; pruned items never returned; sync three-slot window contents exact across +-1 rotations (observed through a build-time overlay export, /repo untouched).",
    "Trusts the relational model. Signatures are unique labels (pools never verify). Bitfields whose length differs from the committee are not generated (not well-formed). After a Reset jump, overlapping window slots may be kept or cleared.",
    SIM + "seeded arrival-history search with duplicate/late/reordered delivery vs. set/relation model", "DESIGN.md section 6 C20")
chk("C17", "schedsim", "exploration",
    "2-4 real goroutines issue generated call sequences on ONE shared ProtoForkChoice / PubkeyCache (+ the CachedPubkeys it hands out, real BLS decompression) / AttestationPool / SyncCommitteePool / slashing and exit pools under a seeded cooperative scheduler that owns every lock acquire/release (build-time overlay shim around package sync; /repo untouched). Exactly one task runs at a time; hand-off uses raw pipe syscalls that create no happens-before edge, so the Go race detector (-race build) reports every conflicting access pair not ordered by the component's own locks although the run is serialised and replays exactly. Verdicts: race report (normalised to the pair of zrnt functions), 'all unfinished tasks blocked' (deterministic deadlock verdict incl. writer-preference of RWMutex), panic/fatal, and porcupine linearizability of the recorded call/return history (global event sequence stamps) against the sequential behaviour of the same code.",
    "Schedules are sampled (seeded), <= 4 tasks x <= 4 calls; yield points exist at lock operations and call boundaries only (code that takes no lock is covered by the race detector, not by interleaving inside it); the sequential specification for linearizability is the implementation itself run single-threaded (its sequential correctness is the business of C09-C11/C16/C20); porcupine timeouts are counted as inconclusive.",
    SIM + "seeded cooperative scheduler over real goroutines + race detector without scheduler-induced happens-before + porcupine linearizability", "DESIGN.md section 6 C17, section 7")

pending = {
 "C01": "check not built yet (planned: chainsim + refspec); not claimed in this revision",
 "C02": "check not built yet (planned: chainsim + refspec); not claimed in this revision",
 "C03": "check not built yet (planned: chainsim byzantine faults + refspec); not claimed in this revision",
 "C04": "check not built yet (planned: chainsim wire/disk/stream seams); not claimed in this revision",
 "C05": "check not built yet (planned: chainsim root agreement monitors); not claimed in this revision",
 "C06": "pure function of (seed, rounds, list): no schedule, clock, fault, interleaving or history for a simulator to own; its in-system uses are checked under C07",
 "C07": "check not built yet (planned: chainsim + refspec committees); not claimed in this revision",
 "C08": "check not built yet (planned: chainsim incremental-vs-fresh context, crash/restart); not claimed in this revision",
 "C12": "check not built yet (planned: gossip validators inside chainsim); not claimed in this revision",
 "C13": "check not built yet (planned: genesis step of chainsim); not claimed in this revision",
 "C14": "check not built yet (planned: fork-schedule lookups in chainsim); not claimed in this revision",
 "C15": "check not built yet (planned: sibling-copy monitors in chainsim); not claimed in this revision",
 "C16": "check not built yet (planned: cachesim); not claimed in this revision",
 "C17": "check not built yet (planned: schedsim); not claimed in this revision",
 "C18": "check not built yet (planned: faultsim); not claimed in this revision",
 "C19": "pure numeric/time/Merkle helpers over the uint64 domain: boundary inputs that no simulated history, schedule or fault produces; values that do arise are checked in context by other properties' oracles",
 "C20": "check not built yet (planned: poolsim); not claimed in this revision",
}
for pid in checks: pending.pop(pid, None)

engines = [
 {"name": "cachesim", "path": "sim/cachesim", "serves_properties": ["C16"], "kind_free_text": "tree of deposit histories sharing real PubkeyCache handles vs. per-handle list model"},
 {"name": "poolsim", "path": "sim/poolsim", "serves_properties": ["C20"], "kind_free_text": "operation pools fed by faulty arrival histories vs. set/relation model"},
 {"name": "schedsim", "path": "sim/schedsim", "serves_properties": ["C17"], "kind_free_text": "seeded cooperative scheduler over real goroutines on shared components; race detector; porcupine"},
 {"name": "fcsim", "path": "sim/fcsim", "serves_properties": ["C09", "C10", "C11"], "kind_free_text": "abstract block-tree histories on the real ProtoForkChoice/ProtoArray/ProtoVoteStore vs. naive GHOST + tree walk"},
]
m = {
 "version": 1,
 "setup_cmd": "./setup.sh",
 "hooks": {
  "guard": "none in /repo: no hook is committed; files under /verif/sim/overlay are ADDED to zrnt packages at build time with `go build -overlay` (read-only exports / scheduling shims), the repository tree is never written",
  "enable": "checks build /verif/sim with `replace github.com/protolambda/zrnt => /repo` (plus -overlay for the schedule-controlled engines)",
  "baseline_off_cmd": "cd /repo && GOFLAGS=-mod=mod GOPROXY=off GOSUMDB=off go test -vet=off -count=1 ./...",
  "source_commits": [],
  "add_only": True
 },
 "engines": engines,
 "checks": [checks[k] for k in sorted(checks)],
 "not_applicable": [{"property_id": k, "reason": v} for k, v in sorted(pending.items())],
 "notes": "All checks: `./check <ID> <quick|thorough>` rebuilds the simulators against /repo's current working tree in a scratch dir under /var/tmp (removed on exit). VERIF_SEED selects the batch seed. Exit 2 = harness trouble (never a VIOLATION). Fixes to genuine defects in /repo are `fix:` commits recorded in known_findings.json (status fixed); their scripts under findings/ are replayed by every check of the property and reported as VIOLATION if they ever reproduce again."
}
json.dump(m, open('/verif/MANIFEST.json', 'w'), indent=1)
print("ok", len(m["checks"]), "checks", len(m["not_applicable"]), "not applicable")
