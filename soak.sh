#!/bin/bash
# soak.sh [seed...]: every quick check under several batch seeds on the unchanged tree (false-alarm hunt).
# Used with `vp run --with-repo`: VERIF_REPO = snapshot of /repo HEAD; evidence/replays go to a scratch dir.
export VERIF_REPO="${VP_RUN_REPO:-/repo}"
OUT=$(mktemp -d /var/tmp/soak.XXXXXX)
export VERIF_OUT_DIR="$OUT"
for seed in ${@:-1 2 3}; do
  for id in C01 C02 C03 C04 C05 C07 C08 C09 C10 C11 C12 C13 C14 C15 C16 C17 C18 C20; do
    out=$(VERIF_SEED=$seed ./check $id quick 2>&1); code=$?
    echo "seed=$seed $id exit=$code $(echo "$out" | grep '^done')"
    if [ $code -ne 0 ]; then echo "$out" | grep "VIOLATION\|violation signature\|HARNESS\|KNOWN" | cut -c1-600; cp -r "$OUT/replays" "/var/tmp/soak-replays-$seed-$id" 2>/dev/null; fi
  done
done
rm -rf "$OUT"
